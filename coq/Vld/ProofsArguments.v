(** * Vld/ProofsArguments.v — validateArguments (repaired) reports a primary error iff one of
    5.4.1, 5.4.2, 5.4.2.1 is violated, for documents whose fields and directives are all defined. *)
From Coq Require Import List NArith Bool Lia Permutation.
From ApiFu Require Import Base.Sexp Vld.Ast Vld.AstInd Vld.Inspect Vld.InspectProofs Vld.TypeInfoModel Vld.TypeInfoPure
     Vld.Enumerate Vld.SpecEnum Vld.ValidatorModel Vld.ValidSpec Vld.ProofsCommon Vld.ProofsDirectives.
Import ListNotations.

Section Arguments.
  Variable pi : order.
  Hypothesis Hpi : order_ok pi.
  Variable S : schema.
  Variable F : features.

  (** ** one argument list against its definitions *)
  Definition list_ok (names : list name) (defs : list (name * input_def)) : bool :=
    forallb (fun n => match assoc n defs with Some _ => true | None => false end) names
    && nodupb names
    && forallb (fun nd => if required (snd nd) then mem (fst nd) names else true) defs.

  Lemma args_given_spec defs args : forall by_name errs by',
    args_given defs args by_name = (errs, by') ->
    (errs = [] <-> (forall a, In a args -> assoc (a_name a) defs <> None)
                   /\ (forall a, In a args -> assoc (a_name a) by_name = None)
                   /\ nodupb (map a_name args) = true)
    /\ (forall e, In e errs -> e_sec e = false)
    /\ (forall n, assoc n defs <> None ->
                  (assoc n by' <> None <-> assoc n by_name <> None \/ In n (map a_name args))).
  Proof.
    induction args as [|a r IH]; intros by_name errs by' H; simpl in H.
    - inversion H; subst. split; [| split].
      + split; [intros _; repeat split; intros ? [] | reflexivity].
      + intros e [].
      + intros n _. simpl. tauto.
    - destruct (assoc (a_name a) defs) as [def|] eqn:Ed.
      + destruct (assoc (a_name a) by_name) as [prev|] eqn:Eb.
        * destruct (args_given defs r by_name) as [e b] eqn:Er. inversion H; subst. clear H.
          destruct (IH _ _ _ Er) as [_ [Hsec Hby]]. split; [| split].
          -- split; [discriminate |]. intros [_ [H2 _]]. specialize (H2 a (or_introl eq_refl)). congruence.
          -- intros e' [<- | He']; [reflexivity | apply Hsec; assumption].
          -- intros n Hn. rewrite (Hby n Hn). simpl. split; [tauto |].
             intros [H | [<- | H]]; [tauto | left; congruence | tauto].
        * destruct (IH _ _ _ H) as [Hnil [Hsec Hby]]. split; [| split].
          -- rewrite Hnil. split.
             ++ intros [H1 [H2 H3]]. split; [| split].
                ** intros a' [<- | Ha']; [congruence | apply H1; assumption].
                ** intros a' [<- | Ha']; [assumption |]. specialize (H2 a' Ha'). rewrite assoc_app in H2.
                   destruct (assoc (a_name a') by_name); [discriminate | reflexivity].
                ** simpl. apply andb_true_iff. split; [| assumption]. apply negb_true_iff, mem_false.
                   intros Hin. apply in_map_iff in Hin as [a' [Hn Ha']]. specialize (H2 a' Ha').
                   rewrite assoc_app in H2. destruct (assoc (a_name a') by_name); [discriminate |].
                   simpl in H2. rewrite Hn, name_eqb_refl in H2. discriminate.
             ++ intros [H1 [H2 H3]]. simpl in H3. apply andb_true_iff in H3 as [H3 H4].
                apply negb_true_iff, mem_false in H3. split; [| split].
                ** intros a' Ha'. apply H1. right. assumption.
                ** intros a' Ha'. rewrite assoc_app, (H2 a' (or_intror Ha')). simpl.
                   destruct (name_eqb (a_name a') (a_name a)) eqn:En; [| reflexivity].
                   apply name_eqb_eq in En. exfalso. apply H3. rewrite <- En. apply in_map. assumption.
                ** assumption.
          -- exact Hsec.
          -- intros n Hn. rewrite (Hby n Hn), assoc_app. simpl. destruct (assoc n by_name) eqn:En.
             ++ split; intros _; left; discriminate.
             ++ destruct (name_eqb n (a_name a)) eqn:Ea.
                ** apply name_eqb_eq in Ea. subst n. split; intros _; [right; left; reflexivity | left; discriminate].
                ** apply name_eqb_neq in Ea. split.
                   --- intros [H' | H']; [congruence | right; right; assumption].
                   --- intros [H' | [H' | H']]; [congruence | congruence | right; assumption].
      + destruct (args_given defs r by_name) as [e b] eqn:Er. inversion H; subst. clear H.
        destruct (IH _ _ _ Er) as [_ [Hsec Hby]]. split; [| split].
        * split; [discriminate |]. intros [H1 _]. specialize (H1 a (or_introl eq_refl)). congruence.
        * intros e' [<- | He']; [reflexivity | apply Hsec; assumption].
        * intros n Hn. rewrite (Hby n Hn). simpl. split; [tauto |].
          intros [H | [<- | H]]; [tauto | congruence | tauto].
  Qed.

  Lemma primary_all_primary l : (forall e, In e l -> e_sec e = false) -> primary l = l.
  Proof.
    intros H. unfold primary. induction l as [|e l IH]; [reflexivity |]. simpl.
    rewrite (H e (or_introl eq_refl)). simpl. f_equal. apply IH. intros e' He'. apply H. right. assumption.
  Qed.

  Lemma args_required_primary defs by_name npos :
    primary (args_required pi defs by_name npos) = [] <->
    forall nd, In nd defs -> required_arg (snd nd) = true -> assoc (fst nd) by_name <> None.
  Proof.
    unfold args_required. rewrite primary_flat_map, flat_map_nil_iff. split.
    - intros H nd Hnd Hreq. specialize (H nd (proj2 (order_in pi Hpi defs nd) Hnd)). rewrite Hreq in H.
      destruct (assoc (fst nd) by_name); [discriminate | discriminate H].
    - intros H nd Hnd. apply (proj1 (order_in pi Hpi defs nd)) in Hnd. destruct (required_arg (snd nd)) eqn:Hreq; [| reflexivity].
      specialize (H nd Hnd Hreq). destruct (assoc (fst nd) by_name) as [a|]; [| congruence].
      destruct (is_null (a_value a)); reflexivity.
  Qed.

  Definition args_errs (args : list argument) (defs : list (name * input_def)) (npos : pos) : list verror :=
    match args, defs with
    | [], [] => []
    | _, _ => let '(e1, by_name) := args_given defs args [] in e1 ++ args_required pi defs by_name npos
    end.

  Lemma required_eq d : required_arg d = required d.
  Proof. reflexivity. Qed.

  Lemma args_errs_primary args defs npos :
    primary (args_errs args defs npos) = [] <-> list_ok (map a_name args) defs = true.
  Proof.
    assert (primary (let '(e1, by_name) := args_given defs args [] in e1 ++ args_required pi defs by_name npos) = []
            <-> list_ok (map a_name args) defs = true) as Hmain.
    { destruct (args_given defs args []) as [e1 by_name] eqn:Eg.
      destruct (args_given_spec _ _ _ _ _ Eg) as [Hnil [Hsec Hby]].
      rewrite primary_app, (primary_all_primary e1 Hsec). unfold list_ok.
      rewrite !andb_true_iff, !forallb_forall. split.
      - intros H. apply app_eq_nil in H as [H1 H2]. apply Hnil in H1 as [Hd [_ Hn]].
        split; [split |].
        + intros n Hn'. apply in_map_iff in Hn' as [a [<- Ha]]. specialize (Hd a Ha).
          destruct (assoc (a_name a) defs); [reflexivity | congruence].
        + exact Hn.
        + intros nd Hnd. rewrite <- required_eq. destruct (required_arg (snd nd)) eqn:Hreq; [| reflexivity].
          apply mem_in. rewrite args_required_primary in H2. specialize (H2 nd Hnd Hreq).
          assert (assoc (fst nd) defs <> None) as Hdef.
          { assert (exists v, assoc (fst nd) defs = Some v) as [v Hv]
                by (apply assoc_some_iff; apply in_map; assumption). congruence. }
          apply (Hby _ Hdef) in H2 as [H2 | H2]; [simpl in H2; congruence | exact H2].
      - intros [[H1 H2] H3]. assert (forall (a b : list verror), a = [] -> b = [] -> a ++ b = []) as Happ by (intros ? ? -> ->; reflexivity). apply Happ.
        + apply Hnil. split; [| split].
          * intros a Ha. specialize (H1 (a_name a) (in_map a_name _ _ Ha)). destruct (assoc (a_name a) defs); [discriminate | discriminate H1].
          * intros a _. reflexivity.
          * exact H2.
        + apply args_required_primary. intros nd Hnd Hreq. specialize (H3 nd Hnd). rewrite <- required_eq, Hreq in H3.
          apply mem_in in H3. apply Hby; [| right; exact H3].
          assert (exists v, assoc (fst nd) defs = Some v) as [v Hv]
              by (apply assoc_some_iff; apply in_map; assumption). congruence. }
    unfold args_errs. destruct args as [|a r]; [| exact Hmain]. destruct defs as [|d ds]; [| exact Hmain].
    simpl. split; reflexivity.
  Qed.

  (** ** the visitor *)
  Definition arg_f (n : node) : list verror :=
    match n with
    | NDirective d =>
        match assoc (d_name d) (s_directives S) with
        | Some dd => args_errs (d_args d) (dd_args dd) (d_at d)
        | None => [sec EUndefDirective2 (d_at d)]
        end
    | NSel (SField a _ fname _ args _ _ as f) =>
        match a with
        | Some def => args_errs args (f_args def) (sel_pos f)
        | None => if negb (name_eqb fname n_typename) then [sec ENoFieldInfo (sel_pos f)]
                  else args_errs args [] (sel_pos f)
        end
    | _ => []
    end.
  Definition arg_g (n : node) : bool :=
    match n with
    | NDirective d => match assoc (d_name d) (s_directives S) with Some _ => true | None => false end
    | NSel (SField None _ fname _ _ _ _) => name_eqb fname n_typename
    | _ => true
    end.

  Lemma args_node_eq st args defs npos :
    args_node repaired pi st args defs npos = (st ++ args_errs args defs npos, true).
  Proof.
    unfold args_node, args_errs. destruct args as [|a r].
    - destruct defs as [|d ds]; [rewrite app_nil_r; reflexivity |].
      destruct (args_given (d :: ds) [] []) as [e1 b]. reflexivity.
    - destruct (args_given defs (a :: r) []) as [e1 b]. reflexivity.
  Qed.

  Lemma arguments_enter_eq st n : arguments_enter repaired pi S st n = (st ++ arg_f n, arg_g n).
  Proof.
    unfold arguments_enter, arg_f, arg_g.
    destruct n as [d|d| | | | |d| |s|a| |]; try (rewrite app_nil_r; reflexivity).
    - destruct (assoc (d_name d) (s_directives S)); [apply args_node_eq | reflexivity].
    - destruct s as [a al n np args dirs sub | n np dirs e | cond dirs sub e]; try (rewrite app_nil_r; reflexivity).
      destruct a as [def|]; [apply args_node_eq |].
      destruct (name_eqb n n_typename); simpl; [apply args_node_eq | reflexivity].
  Qed.

  Lemma ti_args_names qo defs dn args : map a_name (ti_args qo S defs dn args) = map a_name args.
  Proof. unfold ti_args. rewrite map_map. apply map_ext. intros a. destruct (match defs with Some l => assoc (a_name a) l | None => None end); reflexivity. Qed.

  (** ** hypotheses under which the rule can do its job *)
  Variable D : document.
  Hypothesis fields_known : forall o, In o (all_fields S F D) -> fo_def S F o <> None.
  Hypothesis directives_known : valid_5_7_1 S D = true.
  Hypothesis no_typename_field : forall top, field_of_scope S F top n_typename = None.

  Notation qo := (q_unwrap_obj repaired).
  Notation A := (pti_doc qo S F D).

  Lemma s_typename_eq : s_typename = n_typename.
  Proof. reflexivity. Qed.

  (** what the Spec and the model see at a field selection with its scope *)
  Lemma field_occ_defs d sc a al n np args dirs sub :
    In d D -> In (sc, SField a al n np args dirs sub) (ssels_ss S F (model_def_scope S F d) (def_sub d)) ->
    exists defs, fo_def S F {| fo_parent := sc; fo_field := SField a al n np args dirs sub |}
                 = Some defs /\
                 arg_f (NSel (pti_sel qo S F sc (SField a al n np args dirs sub)))
                 = args_errs (field_args qo S F sc n args) (f_args defs) (sel_pos (SField a al n np args dirs sub)).
  Proof.
    intros Hd Hin.
    assert (In {| fo_parent := sc; fo_field := SField a al n np args dirs sub |} (all_fields S F D)) as Ho.
    { apply all_fields_enum. exists d, sc, (SField a al n np args dirs sub). repeat split; assumption. }
    specialize (fields_known _ Ho). unfold fo_def in *. cbn [fo_parent fo_field] in *.
    destruct sc as [p|]; [| congruence]. unfold field_def_of in *. rewrite s_typename_eq in *.
    destruct (name_eqb n n_typename) eqn:En.
    - apply name_eqb_eq in En. subst n. destruct (composite S p); [| congruence].
      exists typename_def. split; [reflexivity |].
      rewrite pti_sel_field_eq. unfold arg_f. rewrite no_typename_field, name_eqb_refl. simpl.
      destruct al as [[an ap]|]; reflexivity.
    - rewrite declared_field_eq in *. destruct (field_of_scope S F (Some p) n) as [def|] eqn:Ef; [| congruence].
      exists def. split; [reflexivity |]. rewrite pti_sel_field_eq. unfold arg_f. rewrite Ef.
      destruct al as [[an ap]|]; reflexivity.
  Qed.

  Lemma directive_in_lists dir :
    (exists d, In d D /\ In dir (def_dirs d)) \/
    (exists d sc s0, In d D /\ In (sc, s0) (ssels_ss S F (model_def_scope S F d) (def_sub d)) /\ In dir (sel_dirs s0)) ->
    exists loc, In (loc, dir) (all_directives D).
  Proof.
    unfold all_directives, all_directive_lists, all_sels. intros [[d [Hd Hdir]] | [d [sc [s0 [Hd [Hin Hdir]]]]]].
    - exists (def_location_spec d). apply in_flat_map. exists (def_location_spec d, def_dirs d). split.
      + apply in_or_app. left. apply (in_map (fun d => (def_location_spec d, def_dirs d))). exact Hd.
      + apply (in_map (fun d0 => (def_location_spec d, d0))). exact Hdir.
    - exists (Some (sel_location s0)). apply in_flat_map. exists (Some (sel_location s0), sel_dirs s0). split.
      + apply in_or_app. right. apply (in_map (fun s => (Some (sel_location s), sel_dirs s))).
        apply in_flat_map. exists d. split; [assumption |].
        rewrite <- (proj2 (ssels_sels S F) (def_sub d) (model_def_scope S F d)). apply (in_map snd) in Hin. exact Hin.
      + apply (in_map (fun d0 => (Some (sel_location s0), d0))). exact Hdir.
  Qed.

  Lemma directive_defined loc dir : In (loc, dir) (all_directives D) -> exists dd, assoc (d_name dir) (s_directives S) = Some dd.
  Proof.
    intros H. unfold valid_5_7_1 in directives_known. rewrite forallb_forall in directives_known.
    specialize (directives_known _ H). simpl in directives_known. unfold directive_def in directives_known.
    destruct (assoc (d_name dir) (s_directives S)) as [dd|]; [eauto | discriminate].
  Qed.

  Lemma arg_f_directive dir dd :
    assoc (d_name dir) (s_directives S) = Some dd ->
    arg_f (NDirective (ti_dir qo S dir)) = args_errs (d_args (ti_dir qo S dir)) (dd_args dd) (d_at dir).
  Proof. intros H. unfold arg_f. simpl. rewrite H. reflexivity. Qed.

  Lemma arg_g_all n : In n (tree_nodes (tree_doc A)) -> arg_g n = true.
  Proof.
    intros Hn. apply doc_nodes in Hn as [-> | [d [Hd [Hm | [[sc [ss0 [_ ->]]] | [sc [s0 [Hsel Hm]]]]]]]]; try reflexivity.
    - apply def_own_nodes_class in Hm as [-> | [[dir [Hdir ->]] | Hm]]; [reflexivity | | destruct n; try discriminate; reflexivity].
      rewrite def_dirs_pti in Hdir. apply in_map_iff in Hdir as [dir0 [<- Hdir0]].
      destruct (directive_in_lists dir0) as [loc Hloc]; [left; eauto |].
      destruct (directive_defined _ _ Hloc) as [dd Hdd]. unfold arg_g. simpl. rewrite Hdd. reflexivity.
    - apply own_nodes_class in Hm as [-> | [[dir [Hdir ->]] | Hm]]; [| | destruct n; try discriminate; reflexivity].
      + destruct s0 as [a al n np args dirs sub | n np dirs e | cond dirs sub e]; try reflexivity.
        destruct (field_occ_defs _ _ _ _ _ _ _ _ _ Hd Hsel) as [defs [Hdef _]].
        rewrite pti_sel_field_eq. unfold arg_g.
        destruct (field_of_scope S F sc n) eqn:Ef; [reflexivity |].
        unfold fo_def in Hdef. simpl in Hdef. destruct sc as [p|]; [| discriminate]. unfold field_def_of in Hdef.
        rewrite s_typename_eq in Hdef. destruct (name_eqb n n_typename); [reflexivity |].
        rewrite declared_field_eq, Ef in Hdef. discriminate.
      + rewrite sel_dirs_pti in Hdir. apply in_map_iff in Hdir as [dir0 [<- Hdir0]].
        destruct (directive_in_lists dir0) as [loc Hloc]; [right; exists d, sc, s0; auto |].
        destruct (directive_defined _ _ Hloc) as [dd Hdd]. unfold arg_g. simpl. rewrite Hdd. reflexivity.
  Qed.

  Definition valid_5_4 : bool := valid_5_4_1 S F D && valid_5_4_2 S F D && valid_5_4_2_1 S F D.

  Lemma valid_5_4_lists :
    valid_5_4 = true <->
    forall ad, In ad (all_argument_lists S F D) ->
               nodupb (map a_name (fst ad)) = true /\
               match snd ad with Some defs => list_ok (map a_name (fst ad)) defs = true | None => True end.
  Proof.
    unfold valid_5_4, valid_5_4_1, valid_5_4_2, valid_5_4_2_1. rewrite !andb_true_iff, !forallb_forall. split.
    - intros [[H1 H2] H3] ad Had. specialize (H1 ad Had). specialize (H2 ad Had). specialize (H3 ad Had).
      split; [exact H2 |]. destruct (snd ad) as [defs|]; [| exact I]. unfold list_ok.
      rewrite !andb_true_iff. repeat split; [| exact H2 | exact H3].
      rewrite forallb_forall in *. intros n Hn. apply in_map_iff in Hn as [a [<- Ha]]. apply (H1 a Ha).
    - intros H. repeat split; intros ad Had; destruct (H ad Had) as [Hn Hl]; try exact Hn;
        destruct (snd ad) as [defs|]; try reflexivity; unfold list_ok in Hl; rewrite !andb_true_iff in Hl;
          destruct Hl as [[Hl1 Hl2] Hl3].
      + rewrite forallb_forall in *. intros a Ha. apply (Hl1 (a_name a)). apply in_map. exact Ha.
      + exact Hl3.
  Qed.

  Theorem rule_arguments_iff :
    exists errs, rule_arguments repaired pi S A = Done errs /\ (primary errs = [] <-> valid_5_4 = true).
  Proof.
    unfold rule_arguments. eexists. split; [reflexivity |].
    rewrite (inspect_acc _ arg_f arg_g _ arguments_enter_eq), app_nil_l.
    rewrite (vnodes_all arg_g _ arg_g_all).
    rewrite primary_flat_map, flat_map_nil_iff.
    rewrite (directive_visitor_nil qo S F (fun n => primary (arg_f n)) D);
      [| intros m Hm; destruct m; try discriminate; reflexivity | reflexivity | reflexivity].
    rewrite valid_5_4_lists. unfold all_argument_lists. split.
    - intros [Hdefs Hsels] ad Had. apply in_app_or in Had as [Had | Had].
      + (* a field *)
        apply in_map_iff in Had as [o [<- Ho]]. apply all_fields_enum in Ho as [d [sc [s0 [Hd [Hin [Hf ->]]]]]].
        destruct s0 as [a al n np args dirs sub | |]; try discriminate. simpl fst. simpl snd.
        destruct (field_occ_defs _ _ _ _ _ _ _ _ _ Hd Hin) as [defs [Hdef Hf']].
        destruct (Hsels d sc _ Hd Hin) as [Hs _]. rewrite Hf', args_errs_primary in Hs.
        unfold field_args in Hs. rewrite ti_args_names in Hs.
        change (fo_field {| fo_parent := sc; fo_field := SField a al n np args dirs sub |}) with (SField a al n np args dirs sub).
        rewrite Hdef. split; [| exact Hs]. unfold list_ok in Hs. rewrite !andb_true_iff in Hs. tauto.
      + (* a directive *)
        apply in_map_iff in Had as [[loc dir] [<- Hld]]. simpl fst. simpl snd.
        destruct (directive_defined _ _ Hld) as [dd Hdd]. unfold directive_def. rewrite Hdd.
        assert (primary (arg_f (NDirective (ti_dir qo S dir))) = []) as Hp.
        { unfold all_directives, all_directive_lists, all_sels in Hld. apply in_flat_map in Hld as [ld [Hld Hdir]].
          apply in_map_iff in Hdir as [dir' [Heq Hdir']]. inversion Heq; subst loc dir'.
          apply in_app_or in Hld as [Hld | Hld].
          - apply in_map_iff in Hld as [d [<- Hd]]. simpl in Hdir'. apply (proj2 (Hdefs d Hd)).
            rewrite def_dirs_pti. apply in_map. exact Hdir'.
          - apply in_map_iff in Hld as [s [<- Hs]]. simpl in Hdir'. apply in_flat_map in Hs as [d [Hd Hs]].
            rewrite <- (proj2 (ssels_sels S F) (def_sub d) (model_def_scope S F d)) in Hs.
            apply in_map_iff in Hs as [[sc s0] [Heq' Hs]]. simpl in Heq'. subst s0.
            apply (proj2 (Hsels d sc s Hd Hs)). rewrite sel_dirs_pti. apply in_map. exact Hdir'. }
        rewrite (arg_f_directive _ _ Hdd), args_errs_primary in Hp. simpl d_args in Hp. rewrite ti_args_names in Hp.
        split; [| exact Hp]. unfold list_ok in Hp. rewrite !andb_true_iff in Hp. tauto.
    - intros H. split.
      + intros d Hd. split; [reflexivity |]. intros dir Hdir. rewrite def_dirs_pti in Hdir.
        apply in_map_iff in Hdir as [dir0 [<- Hdir0]].
        destruct (directive_in_lists dir0) as [loc Hloc]; [left; eauto |].
        destruct (directive_defined _ _ Hloc) as [dd Hdd].
        rewrite (arg_f_directive _ _ Hdd), args_errs_primary. simpl d_args. rewrite ti_args_names.
        specialize (H (d_args dir0, Some (dd_args dd))). simpl in H. apply H.
        apply in_or_app. right. apply in_map_iff. exists (loc, dir0). split; [| exact Hloc].
        simpl. unfold directive_def. rewrite Hdd. reflexivity.
      + intros d sc s0 Hd Hin. split.
        * destruct s0 as [a al n np args dirs sub | n np dirs e | cond dirs sub e]; try reflexivity.
          destruct (field_occ_defs _ _ _ _ _ _ _ _ _ Hd Hin) as [defs [Hdef Hf']].
          rewrite Hf', args_errs_primary. unfold field_args. rewrite ti_args_names.
          specialize (H (args, Some (f_args defs))). simpl in H. apply H.
          apply in_or_app. left. apply in_map_iff. exists {| fo_parent := sc; fo_field := SField a al n np args dirs sub |}.
          split; [rewrite Hdef; reflexivity |]. apply all_fields_enum. exists d, sc, (SField a al n np args dirs sub). repeat split; assumption.
        * intros dir Hdir. rewrite sel_dirs_pti in Hdir. apply in_map_iff in Hdir as [dir0 [<- Hdir0]].
          destruct (directive_in_lists dir0) as [loc Hloc]; [right; exists d, sc, s0; auto |].
          destruct (directive_defined _ _ Hloc) as [dd Hdd].
          rewrite (arg_f_directive _ _ Hdd), args_errs_primary. simpl d_args. rewrite ti_args_names.
          specialize (H (d_args dir0, Some (dd_args dd))). simpl in H. apply H.
          apply in_or_app. right. apply in_map_iff. exists (loc, dir0). split; [| exact Hloc].
          simpl. unfold directive_def. rewrite Hdd. reflexivity.
  Qed.
End Arguments.
