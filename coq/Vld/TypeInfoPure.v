(** * Vld/TypeInfoPure.v — NewTypeInfo never indexes an empty scope stack: the stack-passing
    transcription [type_info] equals a function that only passes the top of the stack. *)
From Coq Require Import List NArith Bool.
From ApiFu Require Import Base.Sexp Vld.Ast Vld.AstInd Vld.TypeInfoModel.
Import ListNotations.

Section Pure.
  Variable qo : bool.
  Variable S : schema.
  Variable F : features.

  Definition field_scope (top : scope) (n : name) : scope :=
    match field_of_scope S F top n with Some f => Some (unwrapped (f_type f)) | None => None end.
  Definition field_args (top : scope) (n : name) (args : list argument) : list argument :=
    ti_args qo S (match field_of_scope S F top n with Some f => Some (f_args f) | None => None end) dflt_not_nil args.
  Definition inline_scope (top : scope) (cond : option (name * pos)) : scope :=
    match cond with
    | None => top
    | Some (tn, _) => match named_type S F tn with Some _ => Some tn | None => None end
    end.

  Fixpoint pti_sel (top : scope) (s : selection) : selection :=
    match s with
    | SField _ alias n np args dirs sub =>
        SField (field_of_scope S F top n) alias n np (field_args top n args) (map (ti_dir qo S) dirs)
               (match sub with Some ss => Some (pti_ss (field_scope top n) ss) | None => None end)
    | SSpread n np dirs e => SSpread n np (map (ti_dir qo S) dirs) e
    | SInline cond dirs sub e => SInline cond (map (ti_dir qo S) dirs) (pti_ss (inline_scope top cond) sub) e
    end
  with pti_ss (top : scope) (ss : selset) : selset :=
    match ss with SelSet _ sels p => SelSet top (map (pti_sel top) sels) p end.

  Definition op_scope (ot : option (name * pos)) : scope :=
    match ot with
    | None => Some (s_query S)
    | Some (v, _) =>
        if name_eqb v n_query then Some (s_query S)
        else if name_eqb v n_mutation then s_mutation S
        else if name_eqb v n_subscription then s_subscription S
        else None
    end.
  Definition frag_scope (cond : name * pos) : scope :=
    match named_type S F (fst cond) with Some _ => Some (fst cond) | None => None end.

  Definition pti_def (d : definition) : definition :=
    match d with
    | DOp ot n vars dirs sub => DOp ot n (map (ti_vardef qo S F) vars) (map (ti_dir qo S) dirs) (pti_ss (op_scope ot) sub)
    | DFrag kw n np cond dirs sub => DFrag kw n np cond (map (ti_dir qo S) dirs) (pti_ss (frag_scope cond) sub)
    end.
  Definition pti_doc (D : document) : document := map pti_def D.

  Lemma seq_opt_map_some {A B} (f : A -> option B) (g : A -> B) l :
    Forall (fun x => f x = Some (g x)) l -> seq_opt (map f l) = Some (map g l).
  Proof.
    induction 1 as [|x l Hx _ IH]; [reflexivity |].
    unfold seq_opt in *. simpl. rewrite Hx. simpl in IH. rewrite IH. reflexivity.
  Qed.

  (** unfolding equations (simpl does not refold the mutual fixpoints) *)
  Lemma ti_sel_field_eq top rest a al n np args dirs sub :
    ti_sel qo S F (top :: rest) (SField a al n np args dirs sub) =
    match sub with
    | None => Some (SField (field_of_scope S F top n) al n np (field_args top n args) (map (ti_dir qo S) dirs) None)
    | Some ss => match ti_ss qo S F (field_scope top n :: top :: rest) ss with
                 | Some ss' => Some (SField (field_of_scope S F top n) al n np (field_args top n args) (map (ti_dir qo S) dirs) (Some ss'))
                 | None => None
                 end
    end.
  Proof. reflexivity. Qed.
  Lemma ti_sel_inline_eq top rest cond dirs sub e :
    ti_sel qo S F (top :: rest) (SInline cond dirs sub e) =
    match ti_ss qo S F (inline_scope top cond :: top :: rest) sub with
    | Some ss' => Some (SInline cond (map (ti_dir qo S) dirs) ss' e)
    | None => None
    end.
  Proof. destruct cond as [[tn p]|]; reflexivity. Qed.
  Lemma ti_ss_eq top rest a sels p :
    ti_ss qo S F (top :: rest) (SelSet a sels p) =
    match seq_opt (map (ti_sel qo S F (top :: top :: rest)) sels) with
    | Some sels' => Some (SelSet top sels' p)
    | None => None
    end.
  Proof. reflexivity. Qed.
  Lemma pti_ss_eq top a sels p : pti_ss top (SelSet a sels p) = SelSet top (map (pti_sel top) sels) p.
  Proof. reflexivity. Qed.

  Lemma ti_sel_pure :
    (forall s top rest, ti_sel qo S F (top :: rest) s = Some (pti_sel top s)) /\
    (forall ss top rest, ti_ss qo S F (top :: rest) ss = Some (pti_ss top ss)).
  Proof.
    apply sel_ss_ind.
    - intros a al n np args dirs sub IH top rest. rewrite ti_sel_field_eq.
      destruct sub as [ss|].
      + rewrite (IH ss eq_refl). reflexivity.
      + reflexivity.
    - reflexivity.
    - intros cond dirs sub e IH top rest. rewrite ti_sel_inline_eq, IH. reflexivity.
    - intros a sels p IH top rest. rewrite ti_ss_eq.
      rewrite (seq_opt_map_some _ (pti_sel top)).
      + reflexivity.
      + eapply Forall_impl; [| exact IH]. intros s Hs. apply Hs.
  Qed.

  Lemma type_info_pure D : type_info qo S F D = Some (pti_doc D).
  Proof.
    unfold type_info, pti_doc. apply seq_opt_map_some.
    apply Forall_forall. intros d _. destruct d as [ot n vars dirs sub | kw n np cond dirs sub]; simpl.
    - rewrite (proj2 ti_sel_pure). reflexivity.
    - rewrite (proj2 ti_sel_pure). reflexivity.
  Qed.
End Pure.
