(** * Vld/ProofsDirectives.v — validateDirectives finds nothing iff 5.7.1, 5.7.2 and 5.7.3 hold. *)
From Coq Require Import List NArith Bool Lia.
From ApiFu Require Import Base.Sexp Vld.Ast Vld.AstInd Vld.Inspect Vld.InspectProofs Vld.TypeInfoModel Vld.TypeInfoPure
     Vld.Enumerate Vld.ValidatorModel Vld.ValidSpec.
Import ListNotations.

(** the Spec's selections are TypeInfo's selections without their scopes *)
Lemma ssels_sels S F :
  (forall s top, map snd (ssels_sel S F top s) = sels_sel s) /\
  (forall ss top, map snd (ssels_ss S F top ss) = sels_ss ss).
Proof.
  apply sel_ss_ind.
  - intros a al n np args dirs sub IH top. destruct sub as [ss|]; simpl; [| reflexivity].
    f_equal. apply (IH ss eq_refl).
  - reflexivity.
  - intros cond dirs sub e IH top. simpl. f_equal. apply IH.
  - intros a sels p IH top. rewrite ssels_ss_eq. change (sels_ss (SelSet a sels p)) with (flat_map sels_sel sels).
    induction IH as [|s sels Hs _ IHs]; [reflexivity |]. simpl. rewrite map_app, Hs, IHs. reflexivity.
Qed.

Lemma mem_spec k l : mem k l = true <-> In k l.
Proof.
  unfold mem. rewrite existsb_exists. split.
  - intros [x [Hx He]]. apply bytes_eqb_eq in He. subst. assumption.
  - intros H. exists k. split; [assumption | apply bytes_eqb_refl].
Qed.

Section Directives.
  Variable pi : order.
  Variable S : schema.
  Variable F : features.

  Definition dir_ok (loc : option dirloc) (d : directive) : bool :=
    match assoc (d_name d) (s_directives S) with
    | None => false
    | Some dd => match loc with Some l => existsb (dirloc_eqb l) (dd_locs dd) | None => false end
    end.

  Lemma dirs_loop_nil loc dirs seen :
    dirs_loop S loc dirs seen = [] <->
    forallb (dir_ok loc) dirs = true /\ (forall d, In d dirs -> mem (d_name d) seen = false) /\ nodupb (map d_name dirs) = true.
  Proof.
    revert seen. induction dirs as [|d r IH]; intros seen; simpl.
    - split; [intros _; repeat split; intros ? [] | reflexivity].
    - unfold dir_ok at 1.
      destruct (assoc (d_name d) (s_directives S)) as [dd|] eqn:Ed.
      + destruct (match loc with Some l => existsb (dirloc_eqb l) (dd_locs dd) | None => false end) eqn:El.
        * destruct (mem (d_name d) seen) eqn:Em; simpl.
          -- split; [discriminate |]. intros [_ [H _]]. specialize (H d (or_introl eq_refl)). congruence.
          -- rewrite IH. split.
             ++ intros [H1 [H2 H3]]. split; [assumption |]. split.
                ** intros d' [<- | Hd']; [assumption |].
                   specialize (H2 d' Hd'). simpl in H2. apply orb_false_iff in H2. tauto.
                ** apply andb_true_iff. split; [| assumption].
                   apply negb_true_iff. destruct (mem (d_name d) (map d_name r)) eqn:Em2; [| reflexivity].
                   apply mem_spec in Em2. apply in_map_iff in Em2 as [d' [Hn Hd']].
                   specialize (H2 d' Hd'). simpl in H2. rewrite <- Hn in H2.
                   unfold name_eqb in H2. rewrite bytes_eqb_refl in H2. discriminate.
             ++ intros [H1 [H2 H3]]. apply andb_true_iff in H3 as [H3 H4]. split; [assumption |]. split; [| assumption].
                intros d' Hd'. simpl. apply orb_false_iff. split; [| apply H2; right; assumption].
                destruct (name_eqb (d_name d') (d_name d)) eqn:En; [| reflexivity].
                apply bytes_eqb_eq in En. apply negb_true_iff in H3.
                assert (mem (d_name d) (map d_name r) = true) as Hc
                    by (apply mem_spec; rewrite <- En; apply in_map; assumption).
                congruence.
        * split; [destruct (mem (d_name d) seen); discriminate | intros [H _]; discriminate].
      + split; [destruct (mem (d_name d) seen); discriminate | intros [H _]; discriminate].
  Qed.

  Lemma dirs_loop_ti qo loc dirs seen : dirs_loop S loc (map (ti_dir qo S) dirs) seen = dirs_loop S loc dirs seen.
  Proof.
    revert seen. induction dirs as [|d r IH]; intros seen; [reflexivity |].
    simpl. rewrite !IH. reflexivity.
  Qed.

  Definition dir_go (dirs : list directive) (loc : option dirloc) : list verror :=
    match dirs with [] => [] | _ => dirs_loop S loc dirs [] end.
  Definition dir_f (n : node) : list verror :=
    match n with
    | NDef d => dir_go (def_dirs d) (def_location d)
    | NSel s => dir_go (sel_dirs s) (Some (sel_location s))
    | _ => []
    end.

  Lemma directives_enter_eq st n : directives_enter repaired S st n = (st ++ dir_f n, true).
  Proof.
    unfold directives_enter, dir_f, dir_go.
    destruct n as [d|d| | | | | | |s| | |]; try (rewrite app_nil_r; reflexivity).
    - destruct (def_dirs d); [rewrite app_nil_r |]; reflexivity.
    - destruct s as [a al n np args dirs sub | n np dirs e | cond dirs sub e]; simpl;
        (destruct dirs; [rewrite app_nil_r |]; reflexivity).
  Qed.

  Lemma dir_go_nil dirs loc :
    dir_go dirs loc = [] <-> forallb (dir_ok loc) dirs = true /\ nodupb (map d_name dirs) = true.
  Proof.
    unfold dir_go. destruct dirs as [|d r]; [simpl; tauto |].
    rewrite dirs_loop_nil. split; [tauto |]. intros [H1 H2]. repeat split; auto.
  Qed.

  Lemma def_location_eq d : def_location d = def_location_spec d.
  Proof. destruct d as [[[k p]|] n vars dirs sub | kw n np cond dirs sub]; reflexivity. Qed.

  Lemma def_dirs_pti qo d : def_dirs (pti_def qo S F d) = map (ti_dir qo S) (def_dirs d).
  Proof. destruct d; reflexivity. Qed.
  Lemma def_location_pti qo d : def_location (pti_def qo S F d) = def_location d.
  Proof. destruct d as [[[k p]|] n vars dirs sub | kw n np cond dirs sub]; reflexivity. Qed.
  Lemma sel_dirs_pti qo sc s : sel_dirs (pti_sel qo S F sc s) = map (ti_dir qo S) (sel_dirs s).
  Proof. destruct s; reflexivity. Qed.
  Lemma sel_location_pti qo sc s : sel_location (pti_sel qo S F sc s) = sel_location s.
  Proof. destruct s; reflexivity. Qed.

  Lemma dir_go_ti qo dirs loc : dir_go (map (ti_dir qo S) dirs) loc = dir_go dirs loc.
  Proof. unfold dir_go. destruct dirs as [|d r]; [reflexivity |]. apply (dirs_loop_ti qo loc (d :: r) []). Qed.

  Definition valid_5_7 (D : document) : bool := valid_5_7_1 S D && valid_5_7_2 S D && valid_5_7_3 D.

  (** the three rules, list by list *)
  Lemma valid_5_7_lists D :
    valid_5_7 D = true <->
    forall ld, In ld (all_directive_lists D) -> forallb (dir_ok (fst ld)) (snd ld) = true /\ nodupb (map d_name (snd ld)) = true.
  Proof.
    unfold valid_5_7, valid_5_7_1, valid_5_7_2, valid_5_7_3, all_directives, directive_def.
    rewrite !andb_true_iff, !forallb_forall. split.
    - intros [[H1 H2] H3] ld Hld. split; [| apply H3; assumption].
      apply forallb_forall. intros d Hd.
      assert (In (fst ld, d) (flat_map (fun ld0 => map (fun d0 => (fst ld0, d0)) (snd ld0)) (all_directive_lists D))) as Hin
          by (apply in_flat_map; exists ld; split; [assumption | apply in_map; assumption]).
      specialize (H1 _ Hin). specialize (H2 _ Hin). simpl in H1, H2. unfold dir_ok.
      destruct (assoc (d_name d) (s_directives S)); [exact H2 | discriminate].
    - intros H. repeat split.
      + intros [loc d] Hin. apply in_flat_map in Hin as [ld [Hld Hd]]. apply in_map_iff in Hd as [d' [Heq Hd']].
        inversion Heq; subst. destruct (H ld Hld) as [H1 _]. rewrite forallb_forall in H1. specialize (H1 d Hd').
        unfold dir_ok in H1. simpl. destruct (assoc (d_name d) (s_directives S)); [reflexivity | discriminate].
      + intros [loc d] Hin. apply in_flat_map in Hin as [ld [Hld Hd]]. apply in_map_iff in Hd as [d' [Heq Hd']].
        inversion Heq; subst. destruct (H ld Hld) as [H1 _]. rewrite forallb_forall in H1. specialize (H1 d Hd').
        unfold dir_ok in H1. simpl. destruct (assoc (d_name d) (s_directives S)); [exact H1 | reflexivity].
      + intros ld Hld. apply (H ld Hld).
  Qed.

  Theorem rule_directives_iff D :
    rule_directives repaired S (pti_doc repaired.(q_unwrap_obj) S F D) = Done [] <-> valid_5_7 D = true.
  Proof.
    unfold rule_directives.
    rewrite (inspect_acc _ dir_f (fun _ => true) _ directives_enter_eq), app_nil_l.
    assert (forall l, Done l = Done [] <-> l = []) as Hdone by (intros l; split; [intros H; inversion H; reflexivity | intros ->; reflexivity]).
    rewrite Hdone, (visit_nil_iff _ dir_f (fun _ => true)) by reflexivity.
    rewrite (structural_visitor_nil _ S F dir_f D); try reflexivity.
    2:{ intros m Hm. destruct m; try reflexivity; discriminate. }
    rewrite valid_5_7_lists. unfold all_directive_lists, all_sels. split.
    - intros [Hd Hs] ld Hld. apply in_app_or in Hld as [Hld | Hld].
      + apply in_map_iff in Hld as [d [<- Hin]]. simpl. specialize (Hd d Hin). simpl in Hd.
        rewrite def_dirs_pti, def_location_pti, dir_go_ti, def_location_eq in Hd. apply dir_go_nil. exact Hd.
      + apply in_map_iff in Hld as [s [<- Hin]]. simpl. apply in_flat_map in Hin as [d [Hd' Hin]].
        rewrite <- (proj2 (ssels_sels S F) (def_sub d) (model_def_scope S F d)) in Hin.
        apply in_map_iff in Hin as [[sc s0] [Heq Hin]]. simpl in Heq. subst s0.
        specialize (Hs d sc s Hd' Hin). simpl in Hs. rewrite sel_dirs_pti, sel_location_pti, dir_go_ti in Hs.
        apply dir_go_nil. exact Hs.
    - intros H. split.
      + intros d Hd. simpl. rewrite def_dirs_pti, def_location_pti, dir_go_ti, def_location_eq. apply dir_go_nil.
        apply (H (def_location_spec d, def_dirs d)). apply in_or_app. left. apply (in_map (fun d => (def_location_spec d, def_dirs d))). exact Hd.
      + intros d sc s0 Hd Hin. simpl. rewrite sel_dirs_pti, sel_location_pti, dir_go_ti. apply dir_go_nil.
        apply (H (Some (sel_location s0), sel_dirs s0)). apply in_or_app. right.
        apply (in_map (fun s => (Some (sel_location s), sel_dirs s))). apply in_flat_map. exists d. split; [assumption |].
        rewrite <- (proj2 (ssels_sels S F) (def_sub d) (model_def_scope S F d)).
        apply (in_map snd) in Hin. exact Hin.
  Qed.
End Directives.
