(** * Vld/ProofsDepth.v — the depth bound of the overlapping-fields recursion (number of fields of
    the document + 1, repair 3f55b28 / 3ed9b2e) is never hit in a document whose fragment graph has
    no cycle: "fragment cycle detected" (the secondary error [EDepth]) is emitted only if there is a
    cycle.

    - [InC ss f]: field [f] is collected from selection set [ss] (through inline fragments and
      fragment spreads) — what addFieldSelections adds, as an inductive relation;
    - [Hle n f]: every chain  f > f1 > f2 ...  ("collected from the selection set of") has fewer
      than [n] links;
    - Lemma A: [same_shape d] / [can_merge d] on fields with [Hle d] never answer [EDepth];
    - Lemma B: without a cycle, [Hle (number of fields)] holds of every field collected from a
      selection set of the document (the definitions entered along a chain are distinct, and inside
      one definition the chain descends structurally). *)
From Coq Require Import List NArith Arith Bool Lia Permutation.
From ApiFu Require Import Base.Sexp Vld.Ast Vld.AstInd Vld.Inspect Vld.InspectProofs Vld.TypeInfoModel Vld.TypeInfoPure
     Vld.Enumerate Vld.ValidatorModel Vld.ProofsCommon Vld.ProofsCycles Vld.ProofsOrder Vld.ProofsTotal.
Import ListNotations.

Definition is_fieldb (s : selection) : bool := match s with SField _ _ _ _ _ _ _ => true | _ => false end.

Section Depth.
  Variable q : quirks.
  Variable D : document.

  Inductive InC : selset -> selection -> Prop :=
  | InC_field a sels p f : In f sels -> is_fieldb f = true -> InC (SelSet a sels p) f
  | InC_inline a sels p c dirs sub e f : In (SInline c dirs sub e) sels -> InC sub f -> InC (SelSet a sels p) f
  | InC_spread a sels p n np dirs e d f :
      In (SSpread n np dirs e) sels -> frag_last D n = Some d -> InC (def_sub d) f -> InC (SelSet a sels p) f.

  (** ** what addFieldSelections adds is collected *)
  Definition from_or_old (m : fmap) (P : selection -> Prop) (m' : fmap) : Prop :=
    forall k l x, In (k, l) m' -> In x l -> (exists l0, In (k, l0) m /\ In x l0) \/ P (fst3 x).

  Lemma fmap_add_in k0 x0 m k l x :
    In (k, l) (fmap_add k0 x0 m) -> In x l -> x = x0 \/ exists l0, In (k, l0) m /\ In x l0.
  Proof.
    induction m as [|[k' l'] r IH]; simpl.
    - intros [H | []] Hx. injection H as <- <-. destruct Hx as [<- | []]. left. reflexivity.
    - destruct (name_eqb k0 k').
      + intros [H | H] Hx.
        * injection H as <- <-. apply in_app_or in Hx as [Hx | [<- | []]]; [right; exists l'; split; [left; reflexivity | exact Hx] | left; reflexivity].
        * right. exists l. split; [right; exact H | exact Hx].
      + intros [H | H] Hx.
        * injection H as <- <-. right. exists l'. split; [left; reflexivity | exact Hx].
        * destruct (IH H Hx) as [E | [l0 [H0 H1]]]; [left; exact E | right; exists l0; split; [right; exact H0 | exact H1]].
  Qed.

  Lemma from_or_old_trans m m1 m2 (P : selection -> Prop) :
    from_or_old m P m1 -> from_or_old m1 P m2 -> from_or_old m P m2.
  Proof.
    intros H1 H2 k l x Hk Hx. destruct (H2 k l x Hk Hx) as [[l0 [Hk0 Hx0]] | Hp]; [apply (H1 k l0 x Hk0 Hx0) | right; exact Hp].
  Qed.

  Lemma collect_InC fuel : forall m visited ss m' v',
    collect q D fuel m visited ss = COk m' v' -> from_or_old m (InC ss) m'.
  Proof.
    induction fuel as [|fuel IH]; intros m visited ss m' v' H; rewrite collect_unfold in H; [discriminate |].
    destruct ss as [a sels p]. destruct (pmem p visited).
    - destruct (q_revisit_ok q); [| discriminate]. injection H as <- <-. intros k l x Hk Hx. left. exists l. auto.
    - assert (forall l0 m0 v0 m1 v1, (forall s, In s l0 -> In s sels) ->
                                     collect_go D (collect q D fuel) a p l0 m0 v0 = COk m1 v1 -> from_or_old m0 (InC (SelSet a sels p)) m1) as Hgo.
      { induction l0 as [|s r IHl]; intros m0 v0 m1 v1 Hl Hc.
        - simpl in Hc. injection Hc as <- <-. intros k l x Hk Hx. left. exists l. auto.
        - cbn [collect_go] in Hc.
          assert (forall s', In s' r -> In s' sels) as Hr by (intros s' Hs'; apply Hl; right; exact Hs').
          assert (In s sels) as Hs by (apply Hl; left; reflexivity).
          destruct s as [a0 al n np args dirs sub | n np dirs e | cond dirs sub e].
          + apply (from_or_old_trans m0 (fmap_add (response_name (SField a0 al n np args dirs sub)) (SField a0 al n np args dirs sub, a, p) m0) m1).
            * intros k l x Hk Hx. destruct (fmap_add_in _ _ _ _ _ _ Hk Hx) as [-> | H0]; [right; apply InC_field; [exact Hs | reflexivity] | left; exact H0].
            * apply (IHl _ _ _ _ Hr Hc).
          + destruct (frag_last D n) as [d|] eqn:Ed; [| discriminate].
            destruct (collect q D fuel m0 v0 (def_sub d)) as [m2 v2 | e0 |] eqn:Ec; try discriminate.
            apply (from_or_old_trans m0 m2 m1).
            * intros k l x Hk Hx. destruct (IH _ _ _ _ _ Ec k l x Hk Hx) as [H0 | H0]; [left; exact H0 | right; apply (InC_spread a sels p n np dirs e d); assumption].
            * apply (IHl _ _ _ _ Hr Hc).
          + destruct (collect q D fuel m0 v0 sub) as [m2 v2 | e0 |] eqn:Ec; try discriminate.
            apply (from_or_old_trans m0 m2 m1).
            * intros k l x Hk Hx. destruct (IH _ _ _ _ _ Ec k l x Hk Hx) as [H0 | H0]; [left; exact H0 | right; apply (InC_inline a sels p cond dirs sub e); assumption].
            * apply (IHl _ _ _ _ Hr Hc). }
      apply (Hgo sels m (p :: visited) m' v' (fun s Hs => Hs) H).
  Qed.

  (** ** chains of nested collected fields *)
  Fixpoint Hle (n : nat) (f : selection) : Prop :=
    match n with
    | O => False
    | Datatypes.S n' => forall ss f', sel_sub f = Some ss -> InC ss f' -> Hle n' f'
    end.

  Lemma Hle_mono n : forall m f, n <= m -> Hle n f -> Hle m f.
  Proof.
    induction n as [|n IH]; intros m f Hnm H; [destruct H |].
    destruct m as [|m]; [lia |]. simpl in *. intros ss f' Hs Hc. apply (IH m f'); [lia | apply (H ss f' Hs Hc)].
  Qed.

  (** the merged set of the sub-selections of two fields holds fields one link further down *)
  Lemma merged_Hle d A B m1 v1 m2 v2 :
    Hle (Datatypes.S d) A -> Hle (Datatypes.S d) B ->
    add_selections q D [] (sel_sub A) = COk m1 v1 -> add_selections q D m1 (sel_sub B) = COk m2 v2 ->
    forall k l x, In (k, l) m2 -> In x l -> Hle d (fst3 x).
  Proof.
    intros HA HB E1 E2 k l x Hk Hx. unfold add_selections in *.
    assert (forall k l x, In (k, l) m1 -> In x l -> Hle d (fst3 x)) as H1.
    { destruct (sel_sub A) as [ssA|] eqn:EA.
      - intros k0 l0 x0 Hk0 Hx0. destruct (collect_InC _ _ _ _ _ _ E1 k0 l0 x0 Hk0 Hx0) as [[l1 [[] _]] | Hc].
        apply (HA ssA (fst3 x0) EA Hc).
      - injection E1 as <- <-. intros k0 l0 x0 []. }
    destruct (sel_sub B) as [ssB|] eqn:EB.
    - destruct (collect_InC _ _ _ _ _ _ E2 k l x Hk Hx) as [[l1 [Hk1 Hx1]] | Hc]; [apply (H1 k l1 x Hk1 Hx1) | apply (HB ssB (fst3 x) EB Hc)].
    - injection E2 as <- <-. apply (H1 k l x Hk Hx).
  Qed.
End Depth.

(** ** Lemma A: with enough depth for the chains, no "fragment cycle detected" *)
Definition nodepth (r : mres) : Prop := match r with MErr e => e_kind e <> EDepth | _ => True end.

Lemma first_err_nodepth {A} (f : A -> mres) l : (forall x, In x l -> nodepth (f x)) -> nodepth (first_err f l).
Proof.
  induction l as [|x l IH]; intros H; [exact I |]. simpl.
  pose proof (H x (or_introl eq_refl)) as Hx. destruct (f x); try exact Hx; try exact I.
  apply IH. intros y Hy. apply H. right. exact Hy.
Qed.
Lemma pairs_first_nodepth {A} (f : A -> A -> mres) l :
  (forall x y, In x l -> In y l -> nodepth (f x y)) -> nodepth (pairs_first f l).
Proof.
  induction l as [|x l IH]; intros H; [exact I |]. simpl.
  assert (nodepth (first_err (f x) l)) as Hx by (apply first_err_nodepth; intros y Hy; apply H; [left; reflexivity | right; exact Hy]).
  destruct (first_err (f x) l); try exact Hx; try exact I.
  apply IH. intros y z Hy Hz. apply H; right; assumption.
Qed.

Lemma shape_loop_kind : forall tA tB k, shape_loop tA tB = inr k -> k <> EDepth.
Proof.
  fix IH 1. intros tA tB k. destruct tA as [n | a' | a]; simpl.
  - destruct (is_nonnull tB); [intros H; injection H as <-; discriminate |].
    destruct (is_list tB); [intros H; injection H as <-; discriminate | discriminate].
  - destruct (is_nonnull tB); [intros H; injection H as <-; discriminate |].
    destruct tB as [m | b' | b]; try (intros H; injection H as <-; discriminate). apply IH.
  - destruct tB as [m | b' | b]; try (intros H; injection H as <-; discriminate).
    destruct a as [n | a' | a0].
    + destruct (is_list b); [intros H; injection H as <-; discriminate | discriminate].
    + destruct b as [m | b' | b0]; try (intros H; injection H as <-; discriminate). apply IH.
    + destruct (is_list b); [intros H; injection H as <-; discriminate | discriminate].
Qed.

Section LemmaA.
  Variable pi : order.
  Hypothesis Hpi : order_ok pi.
  Variable q : quirks.
  Variable S : schema.
  Variable D : document.

  Lemma collect_err_kind fuel : forall m visited ss e, collect q D fuel m visited ss = CErr e -> e_kind e <> EDepth.
  Proof.
    induction fuel as [|fuel IH]; intros m visited ss e H; rewrite collect_unfold in H; [discriminate |].
    destruct ss as [a sels p]. destruct (pmem p visited).
    - destruct (q_revisit_ok q); [discriminate |]. injection H as <-. discriminate.
    - revert m H. generalize (p :: visited). induction sels as [|s r IHl]; intros v m H; [discriminate |].
      cbn [collect_go] in H. destruct s as [a0 al n np args dirs sub | n np dirs e0 | cond dirs sub e0].
      + apply (IHl _ _ H).
      + destruct (frag_last D n) as [d|]; [| injection H as <-; discriminate].
        destruct (collect q D fuel m v (def_sub d)) as [m2 v2 | e1 |] eqn:Ec; [apply (IHl _ _ H) | injection H as <-; apply (IH _ _ _ _ Ec) | discriminate].
      + destruct (collect q D fuel m v sub) as [m2 v2 | e1 |] eqn:Ec; [apply (IHl _ _ H) | injection H as <-; apply (IH _ _ _ _ Ec) | discriminate].
  Qed.
  Lemma add_selections_err_kind m sub e : add_selections q D m sub = CErr e -> e_kind e <> EDepth.
  Proof. unfold add_selections. destruct sub; [apply collect_err_kind | discriminate]. Qed.

  Lemma same_shape_nodepth d : forall A B, Hle D d A -> Hle D d B -> nodepth (same_shape q pi S D d A B).
  Proof.
    induction d as [|d IH]; intros A B HA HB; [destruct HA |]. cbn [same_shape].
    destruct (shape_type A) as [tA | e] eqn:EA.
    2:{ unfold shape_type in EA. destruct (name_eqb (sel_name A) n_typename); [discriminate |]. destruct (sel_fann A); [discriminate |]. injection EA as <-. discriminate. }
    destruct (shape_type B) as [tB | e] eqn:EB.
    2:{ unfold shape_type in EB. destruct (name_eqb (sel_name B) n_typename); [discriminate |]. destruct (sel_fann B); [discriminate |]. injection EB as <-. discriminate. }
    destruct (shape_loop tA tB) as [[a b] | k] eqn:El.
    2:{ simpl. apply (shape_loop_kind _ _ _ El). }
    destruct (is_leaf_sty S a || is_leaf_sty S b); [destruct (sty_eqb a b); [exact I | discriminate] |].
    destruct (add_selections q D [] (sel_sub A)) as [m1 v1 | e |] eqn:E1; [| apply (add_selections_err_kind _ _ _ E1) | exact I].
    destruct (add_selections q D m1 (sel_sub B)) as [m2 v2 | e |] eqn:E2; [| apply (add_selections_err_kind _ _ _ E2) | exact I].
    apply first_err_nodepth. intros [k l] Hg. apply (proj1 (order_in pi Hpi _ _)) in Hg. simpl.
    apply pairs_first_nodepth. intros x y Hx Hy. apply IH; apply (merged_Hle q D d A B m1 v1 m2 v2 HA HB E1 E2 k l); assumption.
  Qed.

  Definition fm_Hle (d : nat) (m : fmap) : Prop := forall k l x, In (k, l) m -> In x l -> Hle D d (fst3 x).

  Lemma args_check_nodepth A B : nodepth (args_check q A B).
  Proof.
    unfold args_check. destruct (negb _); [discriminate |]. apply first_err_nodepth. intros argB _.
    destruct (arg_last (a_name argB) (sel_args A)); [destruct (values_identical _ _); [exact I | discriminate] |].
    destruct (q_nil_arg q); [discriminate | exact I].
  Qed.

  Lemma can_merge_nodepth d : forall m, fm_Hle d m -> nodepth (can_merge q pi S D d m).
  Proof.
    induction d as [|d IH]; intros m Hm; cbn [can_merge].
    - apply first_err_nodepth. intros [k l] Hg. apply (proj1 (order_in pi Hpi _ _)) in Hg. simpl.
      apply pairs_first_nodepth. intros x y Hx Hy. destruct (Hm k l x Hg Hx).
    - apply first_err_nodepth. intros [k l] Hg. apply (proj1 (order_in pi Hpi _ _)) in Hg. simpl.
      apply pairs_first_nodepth. intros x y Hx Hy.
      pose proof (Hm k l x Hg Hx) as HX. pose proof (Hm k l y Hg Hy) as HY.
      unfold pair_check.
      pose proof (same_shape_nodepth (Datatypes.S d) (fst3 x) (fst3 y) HX HY) as Hs.
      destruct (same_shape q pi S D (Datatypes.S d) (fst3 x) (fst3 y)); try exact Hs; try exact I.
      destruct (snd (fst x)); [| discriminate]. destruct (snd (fst y)); [| discriminate].
      destruct (name_eqb _ _ || _ || _); [| exact I].
      destruct (negb _); [discriminate |].
      pose proof (args_check_nodepth (fst3 x) (fst3 y)) as Ha.
      destruct (args_check q (fst3 x) (fst3 y)); try exact Ha; try exact I.
      destruct (add_selections q D [] (sel_sub (fst3 x))) as [m1 v1 | e |] eqn:E1; [| apply (add_selections_err_kind _ _ _ E1) | exact I].
      destruct (add_selections q D m1 (sel_sub (fst3 y))) as [m2 v2 | e |] eqn:E2; [| apply (add_selections_err_kind _ _ _ E2) | exact I].
      apply IH. intros k' l' z Hk' Hz. apply (merged_Hle q D d (fst3 x) (fst3 y) m1 v1 m2 v2 HX HY E1 E2 k' l' z Hk' Hz).
  Qed.
End LemmaA.

(** ** Lemma B: without a cycle the chains are no longer than the number of fields *)
Fixpoint sp_sel (s : selection) : list name :=
  match s with
  | SField _ _ _ _ _ _ (Some ss) => sp_ss ss
  | SField _ _ _ _ _ _ None => []
  | SSpread n _ _ _ => [n]
  | SInline _ _ ss _ => sp_ss ss
  end
with sp_ss (ss : selset) : list name :=
  match ss with SelSet _ sels _ => flat_map sp_sel sels end.

Lemma sp_ss_eq a sels p : sp_ss (SelSet a sels p) = flat_map sp_sel sels.
Proof. reflexivity. Qed.
Lemma count_fields_ss_eq a sels p : count_fields_ss (SelSet a sels p) = list_sum (map count_fields_sel sels).
Proof. reflexivity. Qed.

Lemma list_sum_in {A} (f : A -> nat) l x : In x l -> f x <= list_sum (map f l).
Proof. induction l as [|y l IH]; [intros [] |]. simpl. intros [<- | H]; [lia | specialize (IH H); lia]. Qed.

(** a spread written anywhere in a selection set is a node of its tree *)
Lemma spread_nodes_in :
  (forall s y, In y (sp_sel s) -> exists np dirs e, In (NSel (SSpread y np dirs e)) (tree_nodes (tree_sel s))) /\
  (forall ss y, In y (sp_ss ss) -> exists np dirs e, In (NSel (SSpread y np dirs e)) (tree_nodes (tree_ss ss))).
Proof.
  apply sel_ss_ind.
  - intros a al n np args dirs sub IH y Hy. destruct sub as [ss|]; [| destruct Hy].
    destruct (IH ss eq_refl y Hy) as [np0 [dirs0 [e0 H]]]. exists np0, dirs0, e0. apply field_nodes. do 5 right. exists ss. auto.
  - intros n np dirs e y [<- | []]. exists np, dirs, e. left. reflexivity.
  - intros cond dirs sub e IH y Hy. destruct (IH y Hy) as [np0 [dirs0 [e0 H]]]. exists np0, dirs0, e0. apply inline_nodes. do 3 right. exact H.
  - intros a sels p IH y Hy. rewrite sp_ss_eq in Hy. apply in_flat_map in Hy as [s [Hs Hy]]. rewrite Forall_forall in IH.
    destruct (IH s Hs y Hy) as [np0 [dirs0 [e0 H]]]. exists np0, dirs0, e0. apply ss_nodes. right. exists s. auto.
Qed.

Lemma frag_last_in_names D n d : frag_last D n = Some d -> In n (frag_names D).
Proof.
  revert d. induction D as [|d0 l IH]; intros d; [discriminate |]. simpl. destruct (frag_last l n) as [x|] eqn:E.
  - intros _. apply in_or_app. right. apply (IH x). reflexivity.
  - destruct d0 as [| kw n' np cond dirs sub]; [discriminate |]. destruct (name_eqb n n') eqn:En; [| discriminate].
    intros _. apply name_eqb_eq in En. subst. left. reflexivity.
Qed.

Section LemmaB.
  Variable D : document.
  Hypothesis names_unique : NoDup (frag_names D).
  Hypothesis acyclic : forall n, In n (frag_names D) -> ~ exists x, reach D n x /\ edge D x n.

  Lemma sp_edge n d y : frag_last D n = Some d -> In y (sp_ss (def_sub d)) -> edge D n y.
  Proof.
    intros Hd Hy. unfold edge, direct_deps. rewrite Hd. unfold deps_of_def.
    apply (inspect_set spread_name_of deps_enter deps_enter_desc deps_enter_in). right.
    destruct (proj2 spread_nodes_in _ _ Hy) as [np [dirs [e H]]]. exists (NSel (SSpread y np dirs e)). split; [| left; reflexivity].
    apply def_nodes. right. exact H.
  Qed.

  Lemma reach_trans x y z : reach D x y -> reach D y z -> reach D x z.
  Proof. intros Hxy Hyz. induction Hyz as [|u v Hyu IH Huv]; [exact Hxy | apply (reach_step D x u v IH Huv)]. Qed.

  Lemma no_return n y : In n (frag_names D) -> edge D n y -> ~ reach D y n.
  Proof.
    intros Hn He Hr. apply (acyclic n Hn).
    assert (y = n \/ exists u, reach D y u /\ edge D u n) as [-> | [u [Hyu Hun]]].
    { destruct Hr as [| u v Hyu Hun]; [left; reflexivity | right; exists u; auto]. }
    - exists n. split; [constructor | exact He].
    - exists u. split; [| exact Hun]. apply (reach_trans n y u); [apply (reach_step D n n y); [constructor | exact He] | exact Hyu].
  Qed.

  Definition w (F : name) : nat := match frag_last D F with Some d => count_fields_ss (def_sub d) | None => 0 end.
  Definition W (V : list name) : nat := list_sum (map w V).
  Definition Cl (ss : selset) (V : list name) : Prop :=
    forall y x, In y (sp_ss ss) -> reach D y x -> In x (frag_names D) -> In x V.

  Lemma W_remove n V : NoDup V -> In n V -> W V = w n + W (remove_name n V).
  Proof.
    unfold W. induction V as [|x V IH]; intros Hnd Hin; [destruct Hin |]. destruct Hin as [<- | Hin]; simpl.
    - rewrite name_eqb_refl. simpl. inversion Hnd; subst. f_equal.
      assert (remove_name x V = V) as ->; [| reflexivity]. unfold remove_name.
      clear - H1. induction V as [|y V IH]; [reflexivity |]. simpl. destruct (name_eqb x y) eqn:E.
      + apply name_eqb_eq in E. subst. exfalso. apply H1. left. reflexivity.
      + simpl. f_equal. apply IH. intros H. apply H1. right. exact H.
    - inversion Hnd; subst. destruct (name_eqb n x) eqn:E.
      + apply name_eqb_eq in E. subst. contradiction.
      + simpl. rewrite (IH H2 Hin). lia.
  Qed.
  Lemma filter_len {A} (f : A -> bool) l : length (filter f l) <= length l.
  Proof. induction l as [|x l IH]; [reflexivity |]. simpl. destruct (f x); simpl; lia. Qed.
  Lemma remove_length n V : In n V -> length (remove_name n V) < length V.
  Proof.
    unfold remove_name. induction V as [|x V IH]; intros H; [destruct H |]. destruct H as [<- | H]; simpl.
    - rewrite name_eqb_refl. simpl. pose proof (filter_len (fun x0 => negb (name_eqb x x0)) V). lia.
    - destruct (negb (name_eqb n x)); simpl; specialize (IH H); lia.
  Qed.

  Lemma bound_V : forall k V, length V <= k -> NoDup V ->
    forall ss, Cl ss V -> forall f, InC D ss f -> Hle D (count_fields_ss ss + W V) f.
  Proof.
    induction k as [|k IHk].
    - (* no fragment can be entered: V = [] *)
      intros V Hlen Hnd. destruct V; [| simpl in Hlen; lia].
      assert ((forall s : selection, forall ss', sub_of s = Some ss' -> Cl ss' [] -> forall f, InC D ss' f -> Hle D (count_fields_ss ss' + W []) f) /\
              (forall ss, Cl ss [] -> forall f, InC D ss f -> Hle D (count_fields_ss ss + W []) f)) as [_ H]; [| exact H].
      apply sel_ss_ind.
      + intros a al n np args dirs sub IH ss' Hs. simpl in Hs. apply (IH ss' Hs).
      + intros n np dirs e ss' Hs. discriminate.
      + intros cond dirs sub e IH ss' Hs. injection Hs as <-. exact IH.
      + intros a sels p IH Hcl f Hc. rewrite Forall_forall in IH. inversion Hc as [a0 sels0 p0 f0 Hin Hf | a0 sels0 p0 c dirs sub e f0 Hin Hsub | a0 sels0 p0 n np dirs e d f0 Hin Hd Hsub]; subst.
        * pose proof (list_sum_in count_fields_sel sels f Hin) as Hle0. rewrite count_fields_ss_eq.
          destruct f as [a1 al n np args dirs sub | |]; try discriminate. destruct sub as [ss'|].
          -- simpl in Hle0. destruct (list_sum (map count_fields_sel sels) + W []) as [|m] eqn:Em; [lia |].
             simpl. intros ss0 f' Hs0 Hc0. injection Hs0 as <-.
             apply (Hle_mono D (count_fields_ss ss' + W [])); [lia |].
             apply (IH _ Hin ss' eq_refl); [| exact Hc0].
             intros y x Hy. apply Hcl. rewrite sp_ss_eq. apply in_flat_map. exists (SField a1 al n np args dirs (Some ss')). auto.
          -- simpl in Hle0. destruct (list_sum (map count_fields_sel sels) + W []) as [|m] eqn:Em; [lia |]. simpl. intros ss0 f' Hs0. discriminate.
        * rewrite count_fields_ss_eq. pose proof (list_sum_in count_fields_sel sels _ Hin) as Hle0. simpl in Hle0.
          apply (Hle_mono D (count_fields_ss sub + W [])); [lia |]. apply (IH _ Hin sub eq_refl); [| exact Hsub].
          intros y x Hy. apply Hcl. rewrite sp_ss_eq. apply in_flat_map. exists (SInline c dirs sub e). auto.
        * exfalso. apply (Hcl n n); [rewrite sp_ss_eq; apply in_flat_map; exists (SSpread n np dirs e); split; [exact Hin | left; reflexivity] | constructor | apply (frag_last_in_names D n d Hd)].
    - intros V Hlen Hnd.
      assert ((forall s : selection, forall ss', sub_of s = Some ss' -> Cl ss' V -> forall f, InC D ss' f -> Hle D (count_fields_ss ss' + W V) f) /\
              (forall ss, Cl ss V -> forall f, InC D ss f -> Hle D (count_fields_ss ss + W V) f)) as [_ H]; [| exact H].
      apply sel_ss_ind.
      + intros a al n np args dirs sub IH ss' Hs. simpl in Hs. apply (IH ss' Hs).
      + intros n np dirs e ss' Hs. discriminate.
      + intros cond dirs sub e IH ss' Hs. injection Hs as <-. exact IH.
      + intros a sels p IH Hcl f Hc. rewrite Forall_forall in IH. inversion Hc as [a0 sels0 p0 f0 Hin Hf | a0 sels0 p0 c dirs sub e f0 Hin Hsub | a0 sels0 p0 n np dirs e d f0 Hin Hd Hsub]; subst.
        * pose proof (list_sum_in count_fields_sel sels f Hin) as Hle0. rewrite count_fields_ss_eq.
          destruct f as [a1 al n np args dirs sub | |]; try discriminate. destruct sub as [ss'|].
          -- simpl in Hle0. destruct (list_sum (map count_fields_sel sels) + W V) as [|m] eqn:Em; [lia |].
             simpl. intros ss0 f' Hs0 Hc0. injection Hs0 as <-.
             apply (Hle_mono D (count_fields_ss ss' + W V)); [lia |].
             apply (IH _ Hin ss' eq_refl); [| exact Hc0].
             intros y x Hy. apply Hcl. rewrite sp_ss_eq. apply in_flat_map. exists (SField a1 al n np args dirs (Some ss')). auto.
          -- simpl in Hle0. destruct (list_sum (map count_fields_sel sels) + W V) as [|m] eqn:Em; [lia |]. simpl. intros ss0 f' Hs0. discriminate.
        * rewrite count_fields_ss_eq. pose proof (list_sum_in count_fields_sel sels _ Hin) as Hle0. simpl in Hle0.
          apply (Hle_mono D (count_fields_ss sub + W V)); [lia |]. apply (IH _ Hin sub eq_refl); [| exact Hsub].
          intros y x Hy. apply Hcl. rewrite sp_ss_eq. apply in_flat_map. exists (SInline c dirs sub e). auto.
        * (* a fragment is entered: it leaves V *)
          assert (In n (sp_ss (SelSet a sels p))) as Hsp by (rewrite sp_ss_eq; apply in_flat_map; exists (SSpread n np dirs e); split; [exact Hin | left; reflexivity]).
          pose proof (frag_last_in_names D n d Hd) as Hnames.
          assert (In n V) as HnV by (apply (Hcl n n Hsp); [constructor | exact Hnames]).
          assert (Hle D (count_fields_ss (def_sub d) + W (remove_name n V)) f) as Hf.
          { apply (IHk (remove_name n V)).
            - pose proof (remove_length n V HnV). lia.
            - apply NoDup_filter. exact Hnd.
            - intros y x Hy Hr Hx. pose proof (sp_edge n d y Hd Hy) as He.
              unfold remove_name. apply filter_In. split.
              + apply (Hcl n x Hsp); [| exact Hx]. apply (reach_trans n y x); [apply (reach_step D n n y); [constructor | exact He] | exact Hr].
              + apply negb_true_iff, name_eqb_neq. intros ->. apply (no_return x y Hnames He Hr).
            - exact Hsub. }
          apply (Hle_mono D (count_fields_ss (def_sub d) + W (remove_name n V))); [| exact Hf].
          rewrite (W_remove n V Hnd HnV). unfold w at 1. rewrite Hd. lia.
  Qed.
End LemmaB.

(** ** assembling: every field collected from a selection set of the document *)
Lemma subs_smaller :
  (forall s x, In x (subs_sel s) -> count_fields_ss x <= count_fields_sel s /\ incl (sp_ss x) (sp_sel s)) /\
  (forall ss x, In x (subs_ss ss) -> count_fields_ss x <= count_fields_ss ss /\ incl (sp_ss x) (sp_ss ss)).
Proof.
  apply sel_ss_ind.
  - intros a al n np args dirs sub IH x Hx. destruct sub as [ss|]; [| destruct Hx].
    destruct (IH ss eq_refl x Hx) as [H1 H2]. simpl. split; [lia | exact H2].
  - intros n np dirs e x [].
  - intros cond dirs sub e IH x Hx. apply IH. exact Hx.
  - intros a sels p IH x Hx. rewrite subs_ss_eq in Hx. destruct Hx as [<- | Hx]; [split; [lia | apply incl_refl] |].
    apply in_flat_map in Hx as [s [Hs Hx]]. rewrite Forall_forall in IH. destruct (IH s Hs x Hx) as [H1 H2].
    rewrite count_fields_ss_eq, sp_ss_eq. split.
    + pose proof (list_sum_in count_fields_sel sels s Hs). lia.
    + intros y Hy. apply in_flat_map. exists s. split; [exact Hs | apply H2; exact Hy].
Qed.

Section Assemble.
  Variable D : document.
  Hypothesis names_unique : NoDup (frag_names D).
  Hypothesis acyclic : forall n, In n (frag_names D) -> ~ exists x, reach D n x /\ edge D x n.

  Definition nfd (d : definition) : nat := count_fields_ss (def_sub d).
  Definition NF (l : document) : nat := list_sum (map (fun d => match d with DFrag _ _ _ _ _ _ => nfd d | DOp _ _ _ _ _ => 0 end) l).
  Definition NT (l : document) : nat := list_sum (map nfd l).

  Lemma frag_last_unique : forall l kw n np c dirs sub,
    NoDup (frag_names l) -> In (DFrag kw n np c dirs sub) l -> frag_last l n = Some (DFrag kw n np c dirs sub).
  Proof.
    induction l as [|d0 l IH]; intros kw n np c dirs sub Hnd Hin; [destruct Hin |].
    change (frag_names (d0 :: l)) with (match d0 with DFrag _ n' _ _ _ _ => [n'] | DOp _ _ _ _ _ => [] end ++ frag_names l) in Hnd.
    cbn [frag_last]. destruct Hin as [-> | Hin].
    - simpl in Hnd. inversion Hnd as [| x r Hni Hnd']; subst.
      destruct (frag_last l n) as [x|] eqn:E; [exfalso; apply Hni; apply (frag_last_in_names l n x E) |].
      rewrite name_eqb_refl. reflexivity.
    - assert (NoDup (frag_names l)) as Hnd' by (destruct d0; [exact Hnd | simpl in Hnd; inversion Hnd; assumption]).
      rewrite (IH kw n np c dirs sub Hnd' Hin). reflexivity.
  Qed.

  Lemma W_names l : incl l D -> W D (frag_names l) = NF l.
  Proof.
    induction l as [|d l IH]; intros Hl; [reflexivity |].
    assert (incl l D) as Hl' by (intros x Hx; apply Hl; right; exact Hx).
    destruct d as [ot n vars dirs sub | kw n np c dirs sub].
    - change (frag_names (DOp ot n vars dirs sub :: l)) with (frag_names l). unfold NF. simpl. apply (IH Hl').
    - change (frag_names (DFrag kw n np c dirs sub :: l)) with (n :: frag_names l). unfold W, NF in *. simpl. rewrite (IH Hl'). f_equal.
      unfold w. rewrite (frag_last_unique D kw n np c dirs sub names_unique (Hl _ (or_introl eq_refl))). reflexivity.
  Qed.

  Lemma NF_le_NT l : NF l <= NT l.
  Proof. unfold NF, NT. induction l as [|d l IH]; [reflexivity |]. simpl. destruct d; simpl; lia. Qed.
  Lemma op_plus_NF l ot n vars dirs sub : In (DOp ot n vars dirs sub) l -> nfd (DOp ot n vars dirs sub) + NF l <= NT l.
  Proof.
    unfold NF, NT. induction l as [|d l IH]; intros H; [destruct H |]. simpl. destruct H as [-> | H].
    - simpl. pose proof (NF_le_NT l). unfold NF, NT in *. lia.
    - specialize (IH H). destruct d; simpl; lia.
  Qed.

  Theorem depth_suffices ss f : In ss (all_subs D) -> InC D ss f -> Hle D (max_depth D) f.
  Proof.
    intros Hss Hc. unfold all_subs in Hss. apply in_flat_map in Hss as [d0 [Hd0 Hss]].
    destruct (proj2 subs_smaller _ _ Hss) as [Hnf Hsp].
    assert (max_depth D = Datatypes.S (NT D)) as -> by reflexivity.
    destruct d0 as [ot n vars dirs sub | kw n0 np c dirs sub].
    - apply (Hle_mono D (count_fields_ss ss + W D (frag_names D))).
      + rewrite (W_names D (incl_refl D)). pose proof (op_plus_NF D ot n vars dirs sub Hd0). unfold nfd in *. simpl in *. lia.
      + apply (bound_V D acyclic (length (frag_names D)) (frag_names D) (le_n _) names_unique ss); [| exact Hc].
        intros y x _ _ Hx. exact Hx.
    - pose proof (frag_last_unique D kw n0 np c dirs sub names_unique Hd0) as Hlast.
      pose proof (frag_last_in_names D n0 _ Hlast) as Hn0.
      apply (Hle_mono D (count_fields_ss ss + W D (remove_name n0 (frag_names D)))).
      + pose proof (W_remove D n0 (frag_names D) names_unique Hn0) as HW. rewrite (W_names D (incl_refl D)) in HW.
        unfold w in HW. rewrite Hlast in HW. pose proof (NF_le_NT D). simpl in *. lia.
      + apply (bound_V D acyclic (length (frag_names D)) (remove_name n0 (frag_names D))).
        * unfold remove_name. apply filter_len.
        * apply NoDup_filter. exact names_unique.
        * intros y x Hy Hr Hx. unfold remove_name. apply filter_In. split; [exact Hx |].
          apply negb_true_iff, name_eqb_neq. intros ->.
          apply (no_return D acyclic x y Hn0); [apply (sp_edge D x _ y Hlast); apply Hsp; exact Hy | exact Hr].
        * exact Hc.
  Qed.
End Assemble.
