(** * Vld/ValidatorModel.v — graphql/validator: ValidateDocument and its eight rule groups,
    transcribed from the Go source (after the repairs listed in checks/C04.design.md).

    - [ast.Inspect] is [Inspect.inspect] over [Inspect.tree_doc]; every rule's visitor is an
      [enter] function returning the new state and the visitor's boolean (false = do not descend,
      and no leave call), plus a [leave] function for the visitors that react to nil.
    - TypeInfo's maps are the slots filled by [TypeInfoModel.type_info].
    - Every Go [range] over a map goes through the order parameter [pi] (any permutation).
    - Panic sites are explicit; loops over the fragment graph carry fuel computed from the document
      (running out is the explicit outcome [OutOfFuel]); the recursion of the overlapping-fields
      check carries the depth bound the Go code itself carries.
    - [quirks]: each flag true = the repaired code, false = the code before that repair.
    No proofs in this file. *)
From Coq Require Import List NArith ZArith Bool.
From ApiFu Require Import Base.Sexp Vld.Ast Vld.Inspect Vld.Literals Vld.TypeInfoModel.
Import ListNotations.

Record quirks := {
  q_descend : bool;        (* #8  arguments / directives rules keep descending *)
  q_revisit_ok : bool;     (* #9  a revisited selection set is skipped, not "cycle detected" *)
  q_nil_arg : bool;        (* #4  missing counterpart argument is reported at the fields *)
  q_leaf_parent : bool;    (* #6  non-composite spread parent -> secondary error *)
  q_unwrap_obj : bool;     (* object literal for a list of input objects *)
  q_depth : bool;          (* overlap recursion bounded by the number of fields *)
  q_noninput : bool;       (* default value for a variable of non-input type *)
  q_impl_features : bool }.  (* #30 getPossibleTypes lists only implementations the request can see *)
Definition repaired : quirks :=
  {| q_descend := true; q_revisit_ok := true; q_nil_arg := true; q_leaf_parent := true;
     q_unwrap_obj := true; q_depth := true; q_noninput := true; q_impl_features := true |}.

(** a Go [range] over a map: some permutation of the entries *)
Definition order := forall A : Type, list A -> list A.
Definition id_order : order := fun _ l => l.
Definition rev_order : order := fun A l => rev l.

Section Validator.
  Variable q : quirks.
  Variable pi : order.
  Variable S : schema.
  Variable F : features.
  (** the document with TypeInfo's slots filled *)
  Variable D : document.

  Definition is_composite_name (n : name) : bool :=
    match raw_body S n with Some b => is_composite_body b | None => false end.
  Definition is_object_name (n : name) : bool :=
    match raw_body S n with Some (TObject _ _) => true | _ => false end.

  (** ** addFieldSelections *)
  (** field, SelectionSetTypes[parent], parent.Position() *)
  Definition fp := (selection * option name * pos)%type.
  Definition fmap := list (name * list fp).
  Fixpoint fmap_add (k : name) (x : fp) (m : fmap) : fmap :=
    match m with
    | [] => [(k, [x])]
    | (k', l) :: r => if name_eqb k k' then (k', l ++ [x]) :: r else (k', l) :: fmap_add k x r
    end.
  Definition response_name (s : selection) : name :=
    match s with
    | SField _ (Some (a, _)) _ _ _ _ _ => a
    | SField _ None n _ _ _ _ => n
    | SSpread n _ _ _ => n
    | SInline _ _ _ _ => []
    end.

  Inductive cres := COk (m : fmap) (visited : list pos) | CErr (e : verror) | CFuel.

  Fixpoint collect (fuel : nat) (m : fmap) (visited : list pos) (ss : selset) : cres :=
    match fuel with
    | O => CFuel
    | Datatypes.S fuel' =>
        match ss with
        | SelSet a sels p =>
            if pmem p visited then
              if q_revisit_ok q then COk m visited else CErr (sec ECollectCycle p)
            else
              (fix go (sels : list selection) (m : fmap) (visited : list pos) : cres :=
                 match sels with
                 | [] => COk m visited
                 | s :: r =>
                     let step :=
                       match s with
                       | SField _ _ _ _ _ _ _ => COk (fmap_add (response_name s) (s, a, p) m) visited
                       | SInline _ _ sub _ => collect fuel' m visited sub
                       | SSpread n np _ _ =>
                           match frag_last D n with
                           | None => CErr (sec EUndefFragment2 np)
                           | Some d => collect fuel' m visited (def_sub d)
                           end
                       end in
                     match step with
                     | COk m' v' => go r m' v'
                     | other => other
                     end
                 end) sels m (p :: visited)
        end
    end.

  Fixpoint count_ss_sel (s : selection) : nat :=
    match s with
    | SField _ _ _ _ _ _ (Some ss) => count_ss ss
    | SField _ _ _ _ _ _ None => 0
    | SSpread _ _ _ _ => 0
    | SInline _ _ ss _ => count_ss ss
    end
  with count_ss (ss : selset) : nat :=
    match ss with SelSet _ sels _ => Datatypes.S (list_sum (map count_ss_sel sels)) end.
  Definition collect_fuel : nat :=
    Datatypes.S (list_sum (map (fun d => count_ss (def_sub d)) D)).

  (** addFieldSelections(set, selectionSet, ...) with its fresh visited set; nil selection set: no-op *)
  Definition add_selections (m : fmap) (sub : option selset) : cres :=
    match sub with
    | None => COk m []
    | Some ss => collect collect_fuel m [] ss
    end.

  (** ** validateSameResponseShape / validateFieldsInSetCanMerge *)
  Inductive mres := MOk | MErr (e : verror) | MPanic (s : site) | MFuel.

  Definition sel_name (s : selection) : name :=
    match s with SField _ _ n _ _ _ _ => n | SSpread n _ _ _ => n | SInline _ _ _ _ => [] end.
  Definition sel_npos (s : selection) : pos :=
    match s with SField _ _ _ p _ _ _ => p | SSpread _ p _ _ => p | SInline _ _ _ e => e end.
  Definition sel_fann (s : selection) : option field_def :=
    match s with SField a _ _ _ _ _ _ => a | _ => None end.
  Definition sel_args (s : selection) : list argument :=
    match s with SField _ _ _ _ a _ _ => a | _ => [] end.
  Definition sel_sub (s : selection) : option selset :=
    match s with SField _ _ _ _ _ _ sub => sub | SSpread _ _ _ _ => None | SInline _ _ sub _ => Some sub end.

  Fixpoint first_err {A} (f : A -> mres) (l : list A) : mres :=
    match l with
    | [] => MOk
    | x :: r => match f x with MOk => first_err f r | other => other end
    end.
  (** for i := 0..; for j := i+1.. *)
  Fixpoint pairs_first {A} (f : A -> A -> mres) (l : list A) : mres :=
    match l with
    | [] => MOk
    | x :: r => match first_err (f x) r with MOk => pairs_first f r | other => other end
    end.

  (** the unwrapping loop of validateSameResponseShape: the pair of types it breaks out with, or
      the kind of error it returns *)
  Fixpoint shape_loop (tA tB : sty) {struct tA} : (sty * sty) + ekind :=
    let after (a b : sty) (recur : sty -> sty -> (sty * sty) + ekind) :=
      match a with
      | StList a' => match b with StList b' => recur a' b' | _ => inr EShapeList end
      | _ => if is_list b then inr EShapeList else inl (a, b)
      end in
    match tA with
    | StNonNull a =>
        match tB with
        | StNonNull b =>
            match a with
            | StList a' => match b with StList b' => shape_loop a' b' | _ => inr EShapeList end
            | _ => if is_list b then inr EShapeList else inl (a, b)
            end
        | _ => inr EShapeNonNull
        end
    | StList a' =>
        if is_nonnull tB then inr EShapeNonNull
        else match tB with StList b' => shape_loop a' b' | _ => inr EShapeList end
    | StNamed _ =>
        if is_nonnull tB then inr EShapeNonNull
        else if is_list tB then inr EShapeList else inl (tA, tB)
    end.

  Definition is_leaf_sty (t : sty) : bool :=
    match t with
    | StNamed n => match raw_body S n with Some (TScalar _) | Some (TEnum _) => true | _ => false end
    | _ => false
    end.

  Definition shape_type (s : selection) : sty + verror :=
    if name_eqb (sel_name s) n_typename then inl (StNonNull (StNamed n_String))
    else match sel_fann s with
         | None => inr (sec ENoFieldInfo (sel_pos s))
         | Some f => inl (f_type f)
         end.

  Definition fst3 (x : fp) : selection := fst (fst x).

  Fixpoint same_shape (depth : nat) (A B : selection) : mres :=
    match depth with
    | O => if q_depth q then MErr (sec EDepth (sel_pos A)) else MPanic PStackOverflow
    | Datatypes.S depth' =>
        match shape_type A with
        | inr e => MErr e
        | inl tA =>
            match shape_type B with
            | inr e => MErr e
            | inl tB =>
                match shape_loop tA tB with
                | inr k => MErr (err2 k (sel_pos A) (sel_pos B))
                | inl (a, b) =>
                    if is_leaf_sty a || is_leaf_sty b then
                      if sty_eqb a b then MOk else MErr (err2 EShapeLeaf (sel_pos A) (sel_pos B))
                    else
                      match add_selections [] (sel_sub A) with
                      | CErr e => MErr e
                      | CFuel => MFuel
                      | COk m1 _ =>
                          match add_selections m1 (sel_sub B) with
                          | CErr e => MErr e
                          | CFuel => MFuel
                          | COk m2 _ =>
                              first_err (fun g => pairs_first (fun x y => same_shape depth' (fst3 x) (fst3 y)) (snd g))
                                        (pi _ m2)
                          end
                      end
                end
            end
        end
    end.

  (** valuesAreIdentical *)
  Fixpoint values_identical (a b : value) {struct a} : bool :=
    match a, b with
    | VVar _ x _ _, VVar _ y _ _ => name_eqb x y
    | VBool _ x _, VBool _ y _ => Bool.eqb x y
    | VFloat _ x _, VFloat _ y _ => bytes_eqb x y
    | VInt _ x _, VInt _ y _ => bytes_eqb x y
    | VString _ x _, VString _ y _ => bytes_eqb x y
    | VEnum _ x _, VEnum _ y _ => name_eqb x y
    | VNull _ _, VNull _ _ => true
    | VList _ xs _, VList _ ys _ =>
        (fix go (xs ys : list value) : bool :=
           match xs, ys with
           | [], [] => true
           | x :: xs', y :: ys' => values_identical x y && go xs' ys'
           | _, _ => false
           end) xs ys
    | VObject _ xs _, VObject _ ys _ =>
        (fix go (xs ys : list (name * pos * value)) : bool :=
           match xs, ys with
           | [], [] => true
           | (n, _, x) :: xs', (n', _, y) :: ys' => name_eqb n n' && values_identical x y && go xs' ys'
           | _, _ => false
           end) xs ys
    | _, _ => false
    end.

  (** argsA[arg.Name.Name] = arg for every argument in order: the last of a name wins *)
  Fixpoint arg_last (n : name) (l : list argument) : option argument :=
    match l with
    | [] => None
    | a :: r => match arg_last n r with
                | Some x => Some x
                | None => if name_eqb n (a_name a) then Some a else None
                end
    end.

  Definition args_check (A B : selection) : mres :=
    if negb (Nat.eqb (length (sel_args A)) (length (sel_args B))) then
      MErr (err2 EMergeArgs (sel_pos A) (sel_pos B))
    else
      first_err (fun argB =>
                   match arg_last (a_name argB) (sel_args A) with
                   | None => if q_nil_arg q then MErr (err2 EMergeArgs (sel_pos A) (sel_pos B))
                             else MPanic PNilArgument
                   | Some argA =>
                       if values_identical (a_value argA) (a_value argB) then MOk
                       else MErr (err2 EMergeArgs (a_pos argA) (a_pos argB))
                   end) (sel_args B).

  (** the body of the i/j loop; [recur] is validateFieldsInSetCanMerge at depth-1 *)
  Definition pair_check (recur : fmap -> mres) (depth : nat) (x y : fp) : mres :=
    let A := fst3 x in
    let B := fst3 y in
    match same_shape depth A B with
    | MOk =>
        match snd (fst x) with
        | None => MErr (sec ENoSelSetInfo (snd x))
        | Some pa =>
            match snd (fst y) with
            | None => MErr (sec ENoSelSetInfo (snd y))
            | Some pb =>
                if name_eqb pa pb || negb (is_object_name pa) || negb (is_object_name pb) then
                  if negb (name_eqb (sel_name A) (sel_name B)) then
                    MErr (err2 EMergeNames (sel_npos A) (sel_npos B))
                  else
                    match args_check A B with
                    | MOk =>
                        match add_selections [] (sel_sub A) with
                        | CErr e => MErr e
                        | CFuel => MFuel
                        | COk m1 _ =>
                            match add_selections m1 (sel_sub B) with
                            | CErr e => MErr e
                            | CFuel => MFuel
                            | COk m2 _ => recur m2
                            end
                        end
                    | other => other
                    end
                else MOk
            end
        end
    | other => other
    end.

  Fixpoint can_merge (depth : nat) (m : fmap) : mres :=
    first_err (fun g => pairs_first
                          (pair_check (match depth with
                                       | O => fun _ => MOk      (* not reached: same_shape 0 fails first *)
                                       | Datatypes.S d => can_merge d
                                       end) depth)
                          (snd g))
              (pi _ m).

  (** ** the same with the sets of checked pairs (repair 92e8fdd: [checkedFieldPairs], [alreadyChecked]).
      A pair of fields is identified by the two fields' positions (Go: the two *ast.Field pointers);
      the state is threaded through the loops; after an error it is irrelevant (validateFields starts
      over with empty sets). *)
  Definition pairset := list (pos * pos).
  Definition memo := (pairset * pairset)%type.          (* canMerge, sameResponseShape *)
  Definition memo0 : memo := ([], []).
  Definition pair_mem (a b : pos) (l : pairset) : bool :=
    existsb (fun x => pos_eqb a (fst x) && pos_eqb b (snd x)) l.
  Definition has_sub (s : selection) : bool := match sel_sub s with Some _ => true | None => false end.
  (** alreadyChecked: was the pair there, and the set afterwards *)
  Definition already (set : pairset) (A B : selection) : bool * pairset :=
    if negb (has_sub A) && negb (has_sub B) then (false, set)
    else if pair_mem (sel_pos A) (sel_pos B) set then (true, set)
    else (false, (sel_pos A, sel_pos B) :: set).

  Fixpoint first_err_m {A} (f : A -> memo -> mres * memo) (l : list A) (mm : memo) : mres * memo :=
    match l with
    | [] => (MOk, mm)
    | x :: r => match f x mm with (MOk, mm') => first_err_m f r mm' | other => other end
    end.
  Fixpoint pairs_first_m {A} (f : A -> A -> memo -> mres * memo) (l : list A) (mm : memo) : mres * memo :=
    match l with
    | [] => (MOk, mm)
    | x :: r => match first_err_m (f x) r mm with (MOk, mm') => pairs_first_m f r mm' | other => other end
    end.

  Fixpoint same_shape_m (depth : nat) (A B : selection) (mm : memo) : mres * memo :=
    match depth with
    | O => (if q_depth q then MErr (sec EDepth (sel_pos A)) else MPanic PStackOverflow, mm)
    | Datatypes.S depth' =>
        let '(seen, ss') := already (snd mm) A B in
        if seen then (MOk, mm)
        else
          let mm1 : memo := (fst mm, ss') in
          match shape_type A with
          | inr e => (MErr e, mm1)
          | inl tA =>
              match shape_type B with
              | inr e => (MErr e, mm1)
              | inl tB =>
                  match shape_loop tA tB with
                  | inr k => (MErr (err2 k (sel_pos A) (sel_pos B)), mm1)
                  | inl (a, b) =>
                      if is_leaf_sty a || is_leaf_sty b then
                        (if sty_eqb a b then MOk else MErr (err2 EShapeLeaf (sel_pos A) (sel_pos B)), mm1)
                      else
                        match add_selections [] (sel_sub A) with
                        | CErr e => (MErr e, mm1)
                        | CFuel => (MFuel, mm1)
                        | COk m1 _ =>
                            match add_selections m1 (sel_sub B) with
                            | CErr e => (MErr e, mm1)
                            | CFuel => (MFuel, mm1)
                            | COk m2 _ =>
                                first_err_m (fun g => pairs_first_m (fun x y => same_shape_m depth' (fst3 x) (fst3 y)) (snd g))
                                            (pi _ m2) mm1
                            end
                        end
                  end
              end
          end
    end.

  Definition pair_check_m (recur : fmap -> memo -> mres * memo) (depth : nat) (x y : fp) (mm : memo) : mres * memo :=
    let A := fst3 x in
    let B := fst3 y in
    let '(seen, cm') := already (fst mm) A B in
    if seen then (MOk, mm)
    else
      match same_shape_m depth A B (cm', snd mm) with
      | (MOk, mm2) =>
          match snd (fst x) with
          | None => (MErr (sec ENoSelSetInfo (snd x)), mm2)
          | Some pa =>
              match snd (fst y) with
              | None => (MErr (sec ENoSelSetInfo (snd y)), mm2)
              | Some pb =>
                  if name_eqb pa pb || negb (is_object_name pa) || negb (is_object_name pb) then
                    if negb (name_eqb (sel_name A) (sel_name B)) then
                      (MErr (err2 EMergeNames (sel_npos A) (sel_npos B)), mm2)
                    else
                      match args_check A B with
                      | MOk =>
                          match add_selections [] (sel_sub A) with
                          | CErr e => (MErr e, mm2)
                          | CFuel => (MFuel, mm2)
                          | COk m1 _ =>
                              match add_selections m1 (sel_sub B) with
                              | CErr e => (MErr e, mm2)
                              | CFuel => (MFuel, mm2)
                              | COk m2 _ => recur m2 mm2
                              end
                          end
                      | other => (other, mm2)
                      end
                  else (MOk, mm2)
              end
          end
      | other => other
      end.

  Fixpoint can_merge_m (depth : nat) (m : fmap) (mm : memo) : mres * memo :=
    first_err_m (fun g => pairs_first_m
                            (pair_check_m (match depth with
                                           | O => fun _ mm' => (MOk, mm')
                                           | Datatypes.S d => can_merge_m d
                                           end) depth)
                            (snd g))
                (pi _ m) mm.

  (** ** rule states *)
  Inductive abort := APanic (s : site) | AFuel.
  Record rst := { r_errs : list verror; r_stack : list scope; r_abort : option abort }.
  Definition rst0 : rst := {| r_errs := []; r_stack := []; r_abort := None |}.
  Definition add_errs (st : rst) (l : list verror) : rst :=
    {| r_errs := r_errs st ++ l; r_stack := r_stack st; r_abort := r_abort st |}.
  Definition push (st : rst) (sc : scope) : rst :=
    {| r_errs := r_errs st; r_stack := sc :: r_stack st; r_abort := r_abort st |}.
  Definition pop (st : rst) : rst :=
    {| r_errs := r_errs st; r_stack := tl (r_stack st); r_abort := r_abort st |}.
  Definition set_abort (st : rst) (a : abort) : rst :=
    {| r_errs := r_errs st; r_stack := r_stack st;
       r_abort := match r_abort st with Some x => Some x | None => Some a end |}.
  Definition finish (st : rst) : outcome :=
    match r_abort st with
    | Some (APanic s) => Panic s
    | Some AFuel => OutOfFuel
    | None => Done (r_errs st)
    end.

  (** ** validateDocument: every definition of this AST is an operation or a fragment *)
  Definition rule_document : outcome := Done [].

  (** ** validateOperations *)
  Definition is_subscription (ot : option (name * pos)) : bool :=
    match ot with Some (v, _) => name_eqb v n_subscription | None => false end.

  Definition ops_step (acc : nat * list name * rst) (d : definition) : nat * list name * rst :=
    match d with
    | DFrag _ _ _ _ _ _ => acc
    | DOp ot n _ _ sub =>
        let '(anon, seen, st) := acc in
        let '(anon1, seen1, st1) :=
          match n with
          | None => (Datatypes.S anon, seen, st)
          | Some (nm, p) => if mem nm seen then (anon, seen, add_errs st [err EOpDupName p])
                            else (anon, nm :: seen, st)
          end in
        let st2 := match ss_ann sub with
                   | None => add_errs st1 [err EOpUnsupported (def_pos d)]
                   | Some _ => st1
                   end in
        let st3 :=
          if is_subscription ot then
            match add_selections [] (Some sub) with
            | CErr e => add_errs st2 [e]
            | CFuel => set_abort st2 AFuel
            | COk m _ => if Nat.eqb (length m) 1 then st2
                         else add_errs st2 [err EOpSubscriptionRoots (def_pos d)]
            end
          else st2 in
        (anon1, seen1, st3)
    end.

  Definition is_op (d : definition) : bool := match d with DOp _ _ _ _ _ => true | _ => false end.

  Definition rule_operations : outcome :=
    let '(anon, _, st) := fold_left ops_step D (O, [], rst0) in
    let st' := if Nat.ltb 0 anon then
                 match filter is_op D with
                 | _ :: d2 :: _ => add_errs st [err EOpAnonymous (def_pos d2)]
                 | _ => st
                 end
               else st in
    finish st'.

  (** ** validateFields *)
  Definition fields_enter (st : rst) (n : node) : rst * bool :=
    match n with
    | NSelSet ss => (push st (ss_ann ss), true)
    | NSel (SField a alias fname np args dirs sub as f) =>
        let should := match a with
                      | Some def => is_composite_name (unwrapped (f_type def))
                      | None => false
                      end in
        let st1 := match a with
                   | None => if negb (name_eqb fname n_typename) then add_errs st [sec ENoFieldInfo (sel_pos f)] else st
                   | Some _ => st
                   end in
        let '(st2, exists_) :=
          if negb (name_eqb fname n_typename) then
            match r_stack st1 with
            | [] => (set_abort st1 (APanic PScopeStack), true)
            | None :: _ => (st1, true)
            | Some tn :: _ =>
                match raw_body S tn with
                | Some (TObject fields _) =>
                    if match get_field F fields fname with Some _ => false | None => true end
                       && (negb (name_eqb tn (s_query S))
                           || match assoc fname (s_meta S) with Some _ => false | None => true end)
                    then (add_errs st1 [err EFieldMissing np], false) else (st1, true)
                | Some (TInterface fields) =>
                    match get_field F fields fname with
                    | Some _ => (st1, true)
                    | None => (add_errs st1 [err EFieldMissing np], false)
                    end
                | Some (TUnion _) => (add_errs st1 [err EFieldMissing np], false)
                | _ => (st1, true)
                end
            end
          else (st1, true) in
        let st3 :=
          if exists_ then
            if should then
              match sub with
              | None => add_errs st2 [err ENeedsSub (sel_pos f)]
              | Some (SelSet _ [] _) => add_errs st2 [err ENeedsSub (sel_pos f)]
              | Some _ => st2
              end
            else match sub with
                 | Some _ => add_errs st2 [err ENoSub (sel_pos f)]
                 | None => st2
                 end
          else st2 in
        (push st3 None, true)
    | _ => (push st None, true)
    end.

  Fixpoint count_fields_sel (s : selection) : nat :=
    match s with
    | SField _ _ _ _ _ _ (Some ss) => Datatypes.S (count_fields_ss ss)
    | SField _ _ _ _ _ _ None => 1
    | SSpread _ _ _ _ => 0
    | SInline _ _ ss _ => count_fields_ss ss
    end
  with count_fields_ss (ss : selset) : nat :=
    match ss with SelSet _ sels _ => list_sum (map count_fields_sel sels) end.
  Definition max_depth : nat :=
    Datatypes.S (list_sum (map (fun d => count_fields_ss (def_sub d)) D)).

  Definition merge_enter (st : rst) (n : node) : rst * bool :=
    match n with
    | NSelSet ss =>
        match add_selections [] (Some ss) with
        | CErr e => (add_errs st [e], false)
        | CFuel => (set_abort st AFuel, false)
        | COk m _ =>
            match can_merge max_depth m with
            | MOk => (st, true)
            | MErr e => (add_errs st [e], false)
            | MPanic s => (set_abort st (APanic s), false)
            | MFuel => (set_abort st AFuel, false)
            end
        end
    | _ => (st, true)
    end.

  Definition rule_fields : outcome :=
    let st1 := inspect fields_enter pop (tree_doc D) rst0 in
    let st2 := inspect merge_enter (fun s => s) (tree_doc D) st1 in
    finish st2.

  (** the second visitor as it is since 92e8fdd: one pair of sets for the whole of validateFields,
      emptied after a reported conflict *)
  Definition merge_enter_m (st : rst * memo) (n : node) : (rst * memo) * bool :=
    match n with
    | NSelSet ss =>
        match add_selections [] (Some ss) with
        | CErr e => ((add_errs (fst st) [e], snd st), false)
        | CFuel => ((set_abort (fst st) AFuel, snd st), false)
        | COk m _ =>
            match can_merge_m max_depth m (snd st) with
            | (MOk, mm) => ((fst st, mm), true)
            | (MErr e, _) => ((add_errs (fst st) [e], memo0), false)
            | (MPanic s, _) => ((set_abort (fst st) (APanic s), memo0), false)
            | (MFuel, _) => ((set_abort (fst st) AFuel, memo0), false)
            end
        end
    | _ => (st, true)
    end.
  Definition rule_fields_m : outcome :=
    let st1 := inspect fields_enter pop (tree_doc D) rst0 in
    let st2 := inspect merge_enter_m (fun s => s) (tree_doc D) (st1, memo0) in
    finish (fst st2).

  (** ** validateArguments *)
  Definition required_arg (d : input_def) : bool :=
    is_nonnull (in_type d) && match in_default d with DNone => true | _ => false end.

  (** the loop over the arguments given: errors and argumentsByName (first defined occurrence) *)
  Fixpoint args_given (defs : list (name * input_def)) (args : list argument) (by_name : list (name * argument))
    : list verror * list (name * argument) :=
    match args with
    | [] => ([], by_name)
    | a :: r =>
        match assoc (a_name a) defs with
        | None => let '(e, b) := args_given defs r by_name in (err EArgUndefined (a_pos a) :: e, b)
        | Some _ =>
            match assoc (a_name a) by_name with
            | Some _ => let '(e, b) := args_given defs r by_name in (err EArgDuplicate (a_pos a) :: e, b)
            | None => args_given defs r (by_name ++ [(a_name a, a)])
            end
        end
    end.

  Definition args_required (defs : list (name * input_def)) (by_name : list (name * argument)) (npos : pos)
    : list verror :=
    flat_map (fun nd =>
                if required_arg (snd nd) then
                  match assoc (fst nd) by_name with
                  | None => [err EArgRequired npos]
                  | Some a => if is_null (a_value a) then [sec EArgNull2 (v_pos (a_value a))] else []
                  end
                else []) (pi _ defs).

  Definition args_node (st : list verror) (args : list argument) (defs : list (name * input_def)) (npos : pos)
    : list verror * bool :=
    match args, defs with
    | [], [] => (st, true)
    | _, _ =>
        let '(e1, by_name) := args_given defs args [] in
        (st ++ e1 ++ args_required defs by_name npos, q_descend q)
    end.

  Definition arguments_enter (st : list verror) (n : node) : list verror * bool :=
    match n with
    | NDirective d =>
        match assoc (d_name d) (s_directives S) with
        | Some dd => args_node st (d_args d) (dd_args dd) (d_at d)
        | None => (st ++ [sec EUndefDirective2 (d_at d)], false)
        end
    | NSel (SField a _ fname _ args _ _ as f) =>
        match a with
        | Some def => args_node st args (f_args def) (sel_pos f)
        | None => if negb (name_eqb fname n_typename) then (st ++ [sec ENoFieldInfo (sel_pos f)], false)
                  else args_node st args [] (sel_pos f)
        end
    | NArgument a =>
        if q_descend q then (st, true) else (st ++ [err EArgLocation (a_pos a)], true)
    | _ => (st, true)
    end.

  Definition rule_arguments : outcome :=
    Done (inspect arguments_enter (fun s => s) (tree_doc D) []).

  (** ** validateFragments *)
  Definition type_condition (tc : name * pos) : list verror :=
    match named_type S F (fst tc) with
    | Some b => if is_composite_body b then [] else [err EFragNotComposite (snd tc)]
    | None => [err EFragUndefType (snd tc)]
    end.

  (** the first loop of validateFragmentDeclarations: errors and fragmentsByName (first wins) *)
  Fixpoint frag_decls (defs : document) (by_name : list (name * definition)) : list verror * list (name * definition) :=
    match defs with
    | [] => ([], by_name)
    | DOp _ _ _ _ _ :: r => frag_decls r by_name
    | (DFrag _ n np cond _ _ as d) :: r =>
        match assoc n by_name with
        | Some _ => let '(e, b) := frag_decls r by_name in (err EFragDup np :: type_condition cond ++ e, b)
        | None => let '(e, b) := frag_decls r (by_name ++ [(n, d)]) in (type_condition cond ++ e, b)
        end
    end.

  Definition decl_enter (st : list verror * list name) (n : node) : (list verror * list name) * bool :=
    match n with
    | NSel (SSpread fname _ _ _) => ((fst st, fname :: snd st), true)
    | NSel (SInline (Some tc) _ _ _) => ((fst st ++ type_condition tc, snd st), true)
    | _ => (st, true)
    end.

  Definition rule_fragment_declarations : list verror :=
    let '(e1, by_name) := frag_decls D [] in
    let '(e2, used) := inspect decl_enter (fun s => s) (tree_doc D) (e1, []) in
    e2 ++ flat_map (fun nd => if mem (fst nd) used then [] else [err EFragUnused (def_pos (snd nd))])
                   (pi _ by_name).

  (** names spread anywhere beneath a definition, each once (a Go set) *)
  Definition deps_enter (st : list name) (n : node) : list name * bool :=
    match n with
    | NSel (SSpread fname _ _ _) => (if mem fname st then st else st ++ [fname], true)
    | _ => (st, true)
    end.
  Definition deps_of_def (d : definition) : list name :=
    inspect deps_enter (fun s => s) (tree_def d) [].
  Definition direct_deps (n : name) : list name :=
    match frag_last D n with Some d => deps_of_def d | None => [] end.

  (** the [for i := 0; i < len(toVisit) && !cycleFound; i++] loop: [queue] is toVisit[i:] *)
  Fixpoint cycle_search (fuel : nat) (target : name) (queue : list name) (encountered : list name)
    : option bool :=
    match fuel with
    | O => None
    | Datatypes.S fuel' =>
        match queue with
        | [] => Some false
        | x :: rest =>
            let '(found, rest', enc') :=
              fold_left (fun (acc : bool * list name * list name) (dep : name) =>
                           let '(found, qu, enc) := acc in
                           if found then acc
                           else if mem dep enc then acc
                           else if name_eqb dep target then (true, qu, enc)
                           else (false, qu ++ [dep], dep :: enc))
                        (pi _ (direct_deps x)) (false, rest, encountered) in
            if found then Some true else cycle_search fuel' target rest' enc'
        end
    end.

  Definition spread_names_enter (st : list name) (n : node) : list name * bool :=
    match n with
    | NSel (SSpread fname _ _ _) => (fname :: st, true)
    | _ => (st, true)
    end.
  Definition all_spread_names : list name := inspect spread_names_enter (fun s => s) (tree_doc D) [].
  Definition graph_fuel : nat := Datatypes.S (Datatypes.S (length all_spread_names + length (frag_names D))).

  (** getPossibleTypes: of an interface, the registered implementations whose required features are
      enabled for the request (repair 0cebc28; before it: all of them) *)
  Definition impl_visible (o : name) : bool :=
    if q_impl_features q then
      match raw_type S o with Some d => subset (t_req d) F | None => true end
    else true.
  Definition possible_types (tn : name) : option (list name) :=
    match raw_body S tn with
    | Some (TObject _ _) => Some [tn]
    | Some (TInterface _) => Some (filter impl_visible (match assoc tn (s_impls S) with Some l => l | None => [] end))
    | Some (TUnion members) => Some members
    | _ => None
    end.

  Definition validate_spread (st : rst) (tc : name * pos) (parent : scope) : rst :=
    match parent with
    | None => add_errs st [sec ESpreadNoParent (snd tc)]
    | Some pn =>
        if q_leaf_parent q && negb (is_composite_name pn) then add_errs st [sec ESpreadParentLeaf (snd tc)]
        else
          match named_type S F (fst tc) with
          | Some b =>
              if is_composite_body b then
                match possible_types (fst tc), possible_types pn with
                | Some a, Some b' =>
                    if existsb (fun k => mem k b') (pi _ a) then st
                    else add_errs st [err ESpreadImpossible (snd tc)]
                | _, _ => set_abort st (APanic PPossibleTypes)
                end
              else st
          | None => st
          end
    end.

  Definition spreads_enter (st : rst) (n : node) : rst * bool :=
    match n with
    | NSelSet ss => (push st (ss_ann ss), true)
    | NSel (SSpread fname np _ _) =>
        match frag_last D fname with
        | None => (push (add_errs st [err ESpreadUndefined np]) None, true)
        | Some (DFrag _ _ _ cond _ _) =>
            match r_stack st with
            | [] => (push (set_abort st (APanic PScopeStack)) None, true)
            | top :: _ => (push (validate_spread st cond top) None, true)
            end
        | Some (DOp _ _ _ _ _) => (push st None, true)
        end
    | NSel (SInline (Some tc) _ _ _) =>
        match r_stack st with
        | [] => (push (set_abort st (APanic PScopeStack)) None, true)
        | top :: _ => (push (validate_spread st tc top) None, true)
        end
    | _ => (push st None, true)
    end.

  Definition rule_fragment_spreads : outcome :=
    let names := pi _ (dedup (frag_names D)) in
    let st1 :=
      fold_left (fun st n =>
                   match cycle_search graph_fuel n [n] [] with
                   | None => set_abort st AFuel
                   | Some true => match frag_last D n with
                                  | Some d => add_errs st [err EFragCycle (def_pos d)]
                                  | None => st
                                  end
                   | Some false => st
                   end) names rst0 in
    finish (inspect spreads_enter pop (tree_doc D) st1).

  Definition seq_outcome (a b : outcome) : outcome :=
    match a with
    | Done e1 => match b with Done e2 => Done (e1 ++ e2) | other => other end
    | other => other
    end.

  Definition rule_fragments : outcome :=
    seq_outcome (Done rule_fragment_declarations) rule_fragment_spreads.

  (** ** validateValues *)
  (** the refinement concerns Int literals (range) or String literals (predicate); other kinds are
      the business of the accepted-kinds list *)
  Definition refine_ok (p : lit_pred) (v : value) : bool :=
    match p, v with
    | PIntRange lo hi, VInt _ l _ => match int_lit l with Some z => Z.leb lo z && Z.leb z hi | None => false end
    | PStringIn ok, VString _ s _ => ok s
    | _, _ => true
    end.
  Definition scalar_accepts (k : scalar) (v : value) : bool :=
    match k with
    | SInt => match v with VInt _ l _ => int32_lit_ok l | _ => false end
    | SFloat => match v with VInt _ l _ => float_lit_ok l | VFloat _ l _ => float_lit_ok l | _ => false end
    | SString => match v with VString _ _ _ => true | _ => false end
    | SBoolean => match v with VBool _ _ _ => true | _ => false end
    | SID => match v with VInt _ l _ => int64_lit_ok l | VString _ _ _ => true | _ => false end
    | SCustom None => true
    | SCustom (Some ks) => existsb (vkind_eqb (v_kind v)) ks
    | SRefined acc p =>
        match acc with None => true | Some ks => existsb (vkind_eqb (v_kind v)) ks end && refine_ok p v
    end.

  Inductive vres := VR (errs : list verror) | VPanic.

  (** the two loops of validateCoercion, over a recursive call [rec] *)
  Section CoercionLoops.
    Variable rec : value -> sty -> bool -> vres.
    (** for _, value := range fromList.Values { if err := validateCoercion(value, to.Type, false); err != nil { return err } } *)
    Fixpoint items_loop (t : sty) (vs : list value) : vres :=
      match vs with
      | [] => VR []
      | x :: r => match rec x t false with
                  | VR [] => items_loop t r
                  | other => other
                  end
      end.
    (** the loop over the fields given ([seen]: fieldsByName, [acc]: ret), then the loop over the
        fields defined *)
    Fixpoint fields_loop (defs : list (name * input_def)) (p : pos) (fs : list (name * pos * value))
             (seen : list name) (acc : list verror) : vres :=
      match fs with
      | [] =>
          VR (acc ++ flat_map (fun nd => if required_arg (snd nd) && negb (mem (fst nd) seen)
                                         then [err EObjRequired p] else [])
                              (pi _ defs))
      | (n, np, x) :: r =>
          let acc1 := if mem n seen then acc ++ [err EObjDupField np] else acc in
          match assoc n defs with
          | Some def =>
              match rec x (in_type def) true with
              | VR [] => fields_loop defs p r (n :: seen) acc1
              | other => other
              end
          | None => fields_loop defs p r (n :: seen) (acc1 ++ [err EObjUnknownField np])
          end
      end.
  End CoercionLoops.

  (** validateCoercion; the result is Go's []*Error (nil = []) *)
  Fixpoint coercion (from : value) : sty -> bool -> vres :=
    fix to_loop (to : sty) (allow : bool) {struct to} : vres :=
      if is_var from then VR []
      else if is_null from then VR (if is_nonnull to then [err ECoerceNull (v_pos from)] else [])
      else
        match to with
        | StNonNull t => to_loop t allow
        | StList t =>
            match from with
            | VList _ vs _ => items_loop coercion t vs
            | _ => if allow then to_loop t true else VR [err ECoerceList (v_pos from)]
            end
        | StNamed tn =>
            match raw_body S tn with
            | Some (TScalar k) => VR (if scalar_accepts k from then [] else [err ECoerceScalar (v_pos from)])
            | Some (TEnum vals) =>
                VR (match from with
                    | VEnum _ x _ => if mem x vals then [] else [err ECoerceEnum (v_pos from)]
                    | _ => [err ECoerceEnum (v_pos from)]
                    end)
            | Some (TInput defs) =>
                match from with
                | VObject _ fs p => fields_loop coercion defs p fs [] []
                | _ => VR [err ECoerceObject (v_pos from)]
                end
            | _ => if q_noninput q then VR [sec ECoerceNonInput (v_pos from)] else VPanic
            end
        end.

  Definition values_enter (st : rst) (n : node) : rst * bool :=
    match n with
    | NValue v =>
        if is_var v then (st, true)
        else match va_expected (v_ann v) with
             | Some t => match coercion v t true with
                         | VR e => (add_errs st e, false)
                         | VPanic => (set_abort st (APanic PCoercionType), false)
                         end
             | None => (add_errs st [sec ENoValueInfo (v_pos v)], false)
             end
    | _ => (st, true)
    end.

  Definition rule_values : outcome := finish (inspect values_enter (fun s => s) (tree_doc D) rst0).

  (** ** validateDirectives *)
  Definition def_location (d : definition) : option dirloc :=
    match d with
    | DFrag _ _ _ _ _ _ => Some LFragmentDefinition
    | DOp None _ _ _ _ => Some LQuery
    | DOp (Some (v, _)) _ _ _ _ =>
        if name_eqb v n_query then Some LQuery
        else if name_eqb v n_mutation then Some LMutation
        else if name_eqb v n_subscription then Some LSubscription
        else None
    end.

  Fixpoint dirs_loop (loc : option dirloc) (dirs : list directive) (seen : list name) : list verror :=
    match dirs with
    | [] => []
    | d :: r =>
        let e1 := match assoc (d_name d) (s_directives S) with
                  | None => [err EDirUndefined (d_at d)]
                  | Some dd =>
                      if match loc with Some l => existsb (dirloc_eqb l) (dd_locs dd) | None => false end
                      then [] else [err EDirLocation (d_at d)]
                  end in
        if mem (d_name d) seen then e1 ++ err EDirDuplicate (d_at d) :: dirs_loop loc r seen
        else e1 ++ dirs_loop loc r (d_name d :: seen)
    end.

  Definition directives_enter (st : list verror) (n : node) : list verror * bool :=
    let go (st : list verror) (dirs : list directive) (loc : option dirloc) :=
      match dirs with
      | [] => (st, true)
      | _ => (st ++ dirs_loop loc dirs [], q_descend q)
      end in
    match n with
    | NDef d => go st (def_dirs d) (def_location d)
    | NSel (SField _ _ _ _ _ dirs _) => go st dirs (Some LField)
    | NSel (SSpread _ _ dirs _) => go st dirs (Some LFragmentSpread)
    | NSel (SInline _ dirs _ _) => go st dirs (Some LInlineFragment)
    | NDirective d => if q_descend q then (st, true) else (st ++ [err EDirLocationNode (d_at d)], true)
    | _ => (st, true)
    end.

  Definition rule_directives : outcome :=
    Done (inspect directives_enter (fun s => s) (tree_doc D) []).

  (** ** validateVariables *)
  Fixpoint types_compatible (v l : sty) {struct v} : bool :=
    match l with
    | StNonNull l' =>
        match v with StNonNull v' => types_compatible v' l' | _ => false end
    | _ =>
        match v with
        | StNonNull v' => types_compatible v' l
        | _ =>
            match l with
            | StList l' => match v with StList v' => types_compatible v' l' | _ => false end
            | _ => match v with StList _ => false | _ => sty_eqb v l end
            end
        end
    end.

  Definition variable_usage (def : vardef) (a : vann) (dollar : pos) : list verror :=
    match vd_ann def with
    | None => [sec EVarNoType (vd_dollar def)]
    | Some vt =>
        match va_expected a with
        | None => if va_scalar a then [] else [sec EVarNoLocation dollar]
        | Some lt =>
            let check (lt' : sty) := if types_compatible vt lt' then [] else [err EVarIncompatible dollar] in
            match lt with
            | StNonNull inner =>
                if negb (is_nonnull vt) then
                  let has_default := match vd_default def with Some x => negb (is_null x) | None => false end in
                  if negb has_default && negb (va_default a) then [err EVarNullable dollar]
                  else check inner
                else check lt
            | _ => check lt
            end
        end
    end.

  Fixpoint vardef_first (n : name) (l : list vardef) : option vardef :=
    match l with
    | [] => None
    | v :: r => if name_eqb n (vd_name v) then Some v else vardef_first n r
    end.

  Fixpoint vardefs_loop (vars : list vardef) (seen : list name) : list verror :=
    match vars with
    | [] => []
    | v :: r =>
        let e1 := if mem (vd_name v) seen then [err EVarDup (vd_npos v)] else [] in
        let e2 := match vd_ann v with
                  | None => [err EVarUnknownType (ty_pos (vd_type v))]
                  | Some t => match raw_body S (unwrapped t) with
                              | Some b => if is_input_body b then [] else [err EVarNotInput (ty_pos (vd_type v))]
                              | None => [err EVarNotInput (ty_pos (vd_type v))]
                              end
                  end in
        e1 ++ e2 ++ vardefs_loop r (vd_name v :: seen)
    end.

  (** errors, encounteredVariables, unvalidatedFragmentSpreads, validatedFragmentSpreads *)
  Record vst := { v_errs : list verror; v_enc : list name; v_unval : list name; v_val : list name }.

  Definition vars_enter (vars : list vardef) (st : vst) (n : node) : vst * bool :=
    match n with
    | NValue (VVar a vname dollar _) =>
        let e := match vardef_first vname vars with
                 | None => [err EVarUndefined dollar]
                 | Some def => variable_usage def a dollar
                 end in
        ({| v_errs := v_errs st ++ e; v_enc := vname :: v_enc st; v_unval := v_unval st; v_val := v_val st |}, true)
    | NVarDef _ => (st, false)
    | NSel (SSpread fname _ _ _) =>
        (if mem fname (v_val st) || mem fname (v_unval st) then st
         else {| v_errs := v_errs st; v_enc := v_enc st; v_unval := v_unval st ++ [fname]; v_val := v_val st |}, true)
    | _ => (st, true)
    end.

  Definition remove_name (n : name) (l : list name) : list name := filter (fun x => negb (name_eqb n x)) l.

  Fixpoint vars_worklist (fuel : nat) (vars : list vardef) (st : vst) : option vst :=
    match fuel with
    | O => None
    | Datatypes.S fuel' =>
        match pi _ (v_unval st) with
        | [] => Some st
        | n :: _ =>
            let st1 := {| v_errs := v_errs st; v_enc := v_enc st;
                          v_unval := remove_name n (v_unval st); v_val := n :: v_val st |} in
            let st2 := match frag_last D n with
                       | Some d => inspect (vars_enter vars) (fun s => s) (tree_def d) st1
                       | None => st1
                       end in
            vars_worklist fuel' vars st2
        end
    end.

  Definition vars_op (st : rst) (d : definition) : rst :=
    match d with
    | DFrag _ _ _ _ _ _ => st
    | DOp _ _ vars _ _ =>
        let st1 := add_errs st (vardefs_loop vars []) in
        let v0 := inspect (vars_enter vars) (fun s => s) (tree_def d)
                          {| v_errs := []; v_enc := []; v_unval := []; v_val := [] |} in
        match vars_worklist graph_fuel vars v0 with
        | None => set_abort st1 AFuel
        | Some v1 =>
            add_errs st1 (v_errs v1 ++
                          flat_map (fun v => if mem (vd_name v) (v_enc v1) then [] else [err EVarUnused (vd_dollar v)]) vars)
        end
    end.

  Definition rule_variables : outcome := finish (fold_left vars_op D rst0).

  (** ** ValidateDocument: the pipeline and the primary / secondary filter *)
  Definition all_rules : outcome :=
    fold_left seq_outcome
      [rule_operations; rule_fields; rule_arguments; rule_fragments; rule_values; rule_directives; rule_variables]
      rule_document.

  (** the pipeline with the overlapping-fields pass as it is since 92e8fdd *)
  Definition all_rules_m : outcome :=
    fold_left seq_outcome
      [rule_operations; rule_fields_m; rule_arguments; rule_fragments; rule_values; rule_directives; rule_variables]
      rule_document.

  Definition filter_primary (errs : list verror) : list verror :=
    match filter (fun e => negb (e_sec e)) errs with
    | [] => errs
    | primary => primary
    end.
End Validator.

Definition validate_model (q : quirks) (pi : order) (S : schema) (F : features) (D : document) : outcome :=
  match type_info (q_unwrap_obj q) S F D with
  | None => Panic PScopeStack
  | Some A =>
      match all_rules q pi S F A with
      | Done errs => Done (filter_primary errs)
      | other => other
      end
  end.

(** ValidateDocument as it is on the current tree: with the checked-pairs memo of 92e8fdd in the
    overlapping-fields pass.  [validate_model] is the same pipeline without the memo. *)
Definition validate_model_memo (q : quirks) (pi : order) (S : schema) (F : features) (D : document) : outcome :=
  match type_info (q_unwrap_obj q) S F D with
  | None => Panic PScopeStack
  | Some A =>
      match all_rules_m q pi S F A with
      | Done errs => Done (filter_primary errs)
      | other => other
      end
  end.
