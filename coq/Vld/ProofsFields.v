(** * Vld/ProofsFields.v — the first visitor of validateFields (field existence, leaf / composite
    selections) against 5.3.1 and 5.3.3, and what it implies for the scopes of selection sets.
    Part 1: a visitor that pushes one scope per node and appends errors that depend only on the
    stack: its errors are the concatenation, in traversal order, of the errors of every visit. *)
From Coq Require Import List NArith Arith Bool Lia.
From ApiFu Require Import Base.Sexp Vld.Ast Vld.AstInd Vld.Inspect Vld.InspectProofs Vld.TypeInfoModel Vld.TypeInfoPure
     Vld.Enumerate Vld.SpecEnum Vld.ValidatorModel Vld.ValidSpec Vld.Hyps Vld.ProofsCommon Vld.ProofsTotal.
Import ListNotations.

Section StackEvents.
  Variable enter : rst -> node -> rst * bool.
  Variable ev : list scope -> node -> list verror.
  Variable sc : node -> scope.
  Hypothesis enter_true : forall st n, snd (enter st n) = true.
  Hypothesis enter_stack : forall st n, r_stack (fst (enter st n)) = sc n :: r_stack st.
  Hypothesis enter_errs : forall st n, r_errs (fst (enter st n)) = r_errs st ++ ev (r_stack st) n.

  Fixpoint tree_events (stack : list scope) (t : tree) : list verror :=
    match t with T n cs => ev stack n ++ flat_map (tree_events (sc n :: stack)) cs end.

  Lemma inspect_events t : forall st,
    r_errs (inspect enter pop t st) = r_errs st ++ tree_events (r_stack st) t /\
    r_stack (inspect enter pop t st) = r_stack st.
  Proof.
    induction t as [n cs IH] using tree_ind'. intros st. cbn [inspect tree_events].
    pose proof (enter_true st n) as Ht. pose proof (enter_stack st n) as Hs. pose proof (enter_errs st n) as He.
    destruct (enter st n) as [s1 b]. simpl in Ht, Hs, He. subst b.
    assert (forall s, r_stack s = sc n :: r_stack st ->
                      r_errs (fold_left (fun a c => inspect enter pop c a) cs s) = r_errs s ++ flat_map (tree_events (sc n :: r_stack st)) cs /\
                      r_stack (fold_left (fun a c => inspect enter pop c a) cs s) = r_stack s) as Hfold.
    { induction IH as [|c cs' Hc _ IHcs]; intros s Hss; [rewrite app_nil_r; split; reflexivity |]. cbn [fold_left flat_map].
      destruct (Hc s) as [C1 C2]. destruct (IHcs (inspect enter pop c s)) as [F1 F2]; [rewrite C2; exact Hss |].
      split; [rewrite F1, C1, Hss, app_assoc; reflexivity | rewrite F2; exact C2]. }
    destruct (Hfold s1 Hs) as [F1 F2].
    change (r_errs (pop (fold_left (fun a c => inspect enter pop c a) cs s1))) with (r_errs (fold_left (fun a c => inspect enter pop c a) cs s1)).
    change (r_stack (pop (fold_left (fun a c => inspect enter pop c a) cs s1))) with (tl (r_stack (fold_left (fun a c => inspect enter pop c a) cs s1))).
    rewrite F1, F2, He, Hs, app_assoc. auto.
  Qed.

  (** ** over an annotated document, when only selections make the visitor speak, and only the top
      of the stack matters *)
  Variable ev1 : scope -> selection -> list verror.
  Hypothesis ev_sel : forall top rest x, ev (top :: rest) (NSel x) = ev1 top x.
  Hypothesis ev_other : forall stack n, match n with NSel _ => False | _ => True end -> ev stack n = [].
  Hypothesis sc_eq : forall n, sc n = match n with NSelSet ss => ss_ann ss | _ => None end.

  Lemma events_minor t : (forall n, In n (tree_nodes t) -> is_sel_node n = false) -> forall stack, tree_events stack t = [].
  Proof.
    induction t as [n cs IH] using tree_ind'. intros H stack. cbn [tree_events].
    rewrite ev_other by (pose proof (H n (or_introl eq_refl)) as Hn; destruct n; try exact I; discriminate).
    simpl. apply flat_map_nil_iff. intros c Hc. rewrite Forall_forall in IH. apply (IH c Hc).
    intros m Hm. apply H. right. apply in_flat_map. exists c. split; assumption.
  Qed.
  Lemma events_minor_list l : (forall n, In n (flat_map tree_nodes l) -> is_sel_node n = false) -> forall stack, flat_map (tree_events stack) l = [].
  Proof.
    intros H stack. apply flat_map_nil_iff. intros t Ht. apply events_minor. intros n Hn. apply H. apply in_flat_map. exists t. split; assumption.
  Qed.

  Variable qo : bool.
  Variable S : schema.
  Variable F : features.
  Notation pti_sel := (pti_sel qo S F).
  Notation pti_ss := (pti_ss qo S F).

  Definition occ_events (o : scope * selection) : list verror := ev1 (fst o) (pti_sel (fst o) (snd o)).

  Lemma events_sel_ss :
    (forall s top rest, tree_events (top :: rest) (tree_sel (pti_sel top s)) = flat_map occ_events (ssels_sel S F top s)) /\
    (forall ss top stack, tree_events stack (tree_ss (pti_ss top ss)) = flat_map occ_events (ssels_ss S F top ss)).
  Proof.
    apply sel_ss_ind.
    - intros a al n np args dirs sub IH top rest.
      rewrite (pti_sel_field_eq qo S F top a al n np args dirs sub), tree_sel_field_eq. cbn [tree_events]. rewrite ev_sel, sc_eq.
      rewrite !flat_map_app.
      rewrite (events_minor_list _ (no_sel_alias al)).
      rewrite (events_minor_list [name_tree (n, np)]) by (intros m [<- | []]; reflexivity).
      rewrite (events_minor_list _ (no_sel_args _)), (events_minor_list _ (no_sel_dirs _)). cbn [app].
      rewrite <- (pti_sel_field_eq qo S F top a al n np args dirs sub).
      assert (ssels_sel S F top (SField a al n np args dirs sub) =
              (top, SField a al n np args dirs sub) :: match sub with Some ss => ssels_ss S F (field_scope S F top n) ss | None => [] end) as ->
          by (destruct sub; reflexivity).
      cbn [flat_map]. unfold occ_events at 1. cbn [fst snd]. f_equal.
      destruct sub as [ss|]; [| reflexivity]. cbn [opt_tree flat_map]. rewrite app_nil_r. apply (IH ss eq_refl).
    - intros n np dirs e top rest.
      change (pti_sel top (SSpread n np dirs e)) with (SSpread n np (map (ti_dir qo S) dirs) e).
      rewrite tree_sel_spread_eq. cbn [tree_events]. rewrite ev_sel.
      cbn [flat_map]. rewrite (events_minor (name_tree (n, np))) by (intros m [<- | []]; reflexivity).
      rewrite (events_minor_list _ (no_sel_dirs _)). unfold occ_events. cbn [ssels_sel flat_map fst snd app]. rewrite ?app_nil_r. reflexivity.
    - intros cond dirs sub e IH top rest.
      rewrite (pti_sel_inline_eq qo S F top cond dirs sub e), tree_sel_inline_eq. cbn [tree_events]. rewrite ev_sel, !flat_map_app.
      rewrite (events_minor_list _ (no_sel_cond cond)), (events_minor_list _ (no_sel_dirs _)). cbn [app flat_map]. rewrite app_nil_r.
      rewrite <- (pti_sel_inline_eq qo S F top cond dirs sub e). rewrite IH. reflexivity.
    - intros a sels p IH top stack. rewrite pti_ss_eq, tree_ss_eq. cbn [tree_events].
      rewrite ev_other by exact I. rewrite sc_eq. cbn [ss_ann app]. rewrite ssels_ss_eq.
      induction IH as [|s l Hs _ IHl]; [reflexivity |]. cbn [map flat_map]. rewrite flat_map_app, Hs, IHl. reflexivity.
  Qed.

  Lemma events_doc D :
    tree_events [] (tree_doc (pti_doc qo S F D)) =
    flat_map (fun d => flat_map occ_events (ssels_ss S F (model_def_scope S F d) (def_sub d))) D.
  Proof.
    unfold tree_doc. cbn [tree_events]. rewrite ev_other by exact I. rewrite sc_eq. cbn [app]. unfold pti_doc.
    induction D as [|d l IH]; [reflexivity |]. cbn [map flat_map]. rewrite IH. f_equal.
    destruct d as [ot n vars dirs sub | kw n np cond dirs sub]; unfold tree_def; cbn [pti_def tree_events];
      rewrite ev_other by exact I; rewrite sc_eq; rewrite ?flat_map_app; cbn [app].
    - rewrite (events_minor_list (opt_tree _ ot)) by (intros m Hm; destruct ot as [[k p]|]; simpl in Hm; [destruct Hm as [<- | []]; reflexivity | destruct Hm]).
      rewrite (events_minor_list _ (no_sel_alias n)).
      rewrite (events_minor_list (map tree_vardef _)) by (intros m Hm; apply in_flat_map_nodes in Hm as [v [_ Hm]]; eapply tree_vardef_no_sel; exact Hm).
      rewrite (events_minor_list _ (no_sel_dirs _)). cbn [app flat_map]. rewrite app_nil_r. apply (proj2 events_sel_ss).
    - cbn [flat_map]. rewrite (events_minor (name_tree (n, np))) by (intros m [<- | []]; reflexivity).
      rewrite flat_map_app, (events_minor_list _ (no_sel_dirs _)). cbn [app flat_map]. rewrite app_nil_r. apply (proj2 events_sel_ss).
  Qed.
End StackEvents.

(** ** Part 2: what the field visitor says at one field, given the scope on top of the stack *)
Section FieldsVisitor.
  Variable S : schema.
  Variable F : features.

  Definition top_of (stack : list scope) : scope := match stack with top :: _ => top | [] => None end.

  (** "field does not exist" *)
  Definition fe_missing (top : scope) (fname : name) : bool :=
    match top with
    | Some tn =>
        match raw_body S tn with
        | Some (TObject fields _) =>
            match get_field F fields fname with Some _ => false | None => true end
            && (negb (name_eqb tn (s_query S)) || match assoc fname (s_meta S) with Some _ => false | None => true end)
        | Some (TInterface fields) => match get_field F fields fname with Some _ => false | None => true end
        | Some (TUnion _) => true
        | _ => false
        end
    | None => false
    end.
  Definition fe_e1 (a : option field_def) (fname : name) (p : pos) : list verror :=
    match a with
    | None => if negb (name_eqb fname n_typename) then [sec ENoFieldInfo p] else []
    | Some _ => []
    end.
  Definition fe_e3 (ex should : bool) (sub : option selset) (p : pos) : list verror :=
    if ex then
      if should then
        match sub with
        | None => [err ENeedsSub p]
        | Some (SelSet _ [] _) => [err ENeedsSub p]
        | Some _ => []
        end
      else match sub with Some _ => [err ENoSub p] | None => [] end
    else [].
  Definition fe_ev1 (top : scope) (x : selection) : list verror :=
    match x with
    | SField a al fname np args dirs sub =>
        let miss := negb (name_eqb fname n_typename) && fe_missing top fname in
        fe_e1 a fname (sel_pos x) ++ (if miss then [err EFieldMissing np] else [])
        ++ fe_e3 (negb miss) (fe_should S a) sub (sel_pos x)
    | _ => []
    end.
  Definition fe_ev (stack : list scope) (n : node) : list verror :=
    match n with NSel x => fe_ev1 (top_of stack) x | _ => [] end.
  Definition fe_sc (n : node) : scope := match n with NSelSet ss => ss_ann ss | _ => None end.

  Lemma fe_st1_errs st a fname p : r_errs (fe_st1 st a fname p) = r_errs st ++ fe_e1 a fname p.
  Proof. unfold fe_st1, fe_e1. destruct a; [rewrite app_nil_r; reflexivity |]. destruct (negb _); [reflexivity | rewrite app_nil_r; reflexivity]. Qed.
  Lemma fe_st3_errs st2 ex sh sub p : r_errs (fe_st3 st2 ex sh sub p) = r_errs st2 ++ fe_e3 ex sh sub p.
  Proof.
    unfold fe_st3, fe_e3. destruct ex; [| rewrite app_nil_r; reflexivity].
    destruct sh; [destruct sub as [[a [|s l] p0]|] | destruct sub]; try reflexivity; rewrite app_nil_r; reflexivity.
  Qed.
  Lemma fe_exists_errs st1 fname np :
    r_errs (fst (fe_exists S F st1 fname np)) = r_errs st1 ++ (if fe_missing (top_of (r_stack st1)) fname then [err EFieldMissing np] else []) /\
    snd (fe_exists S F st1 fname np) = negb (fe_missing (top_of (r_stack st1)) fname).
  Proof.
    unfold fe_exists, fe_missing, top_of. destruct (r_stack st1) as [|[tn|] rest]; try (rewrite app_nil_r; split; reflexivity).
    destruct (raw_body S tn) as [[| | | fields ifs | fields | ms]|]; try (rewrite app_nil_r; split; reflexivity).
    - destruct (_ && _); [split; reflexivity | rewrite app_nil_r; split; reflexivity].
    - destruct (get_field F fields fname); [rewrite app_nil_r; split; reflexivity | split; reflexivity].
    - split; reflexivity.
  Qed.

  Lemma fields_enter_errs st n : r_errs (fst (fields_enter S F st n)) = r_errs st ++ fe_ev (r_stack st) n.
  Proof.
    destruct n; try (simpl; rewrite app_nil_r; reflexivity).
    destruct s as [a al fname np args dirs sub | |]; try (simpl; rewrite app_nil_r; reflexivity).
    rewrite fields_enter_field. cbv zeta. cbn [fst push r_errs fe_ev fe_ev1].
    rewrite fe_st3_errs.
    pose proof (fe_st1_errs st a fname (sel_pos (SField a al fname np args dirs sub))) as H1.
    pose proof (fe_st1_facts st a fname (sel_pos (SField a al fname np args dirs sub))) as [Hs1 _].
    destruct (negb (name_eqb fname n_typename)); cbn [fst snd andb].
    - destruct (fe_exists_errs (fe_st1 st a fname (sel_pos (SField a al fname np args dirs sub))) fname np) as [E1 E2].
      rewrite E1, E2, H1, Hs1, <- !app_assoc. reflexivity.
    - rewrite H1, <- !app_assoc. reflexivity.
  Qed.
  Lemma fields_enter_stack st n : r_stack (fst (fields_enter S F st n)) = fe_sc n :: r_stack st.
  Proof.
    destruct n; try reflexivity. destruct s as [a al fname np args dirs sub | |]; try reflexivity.
    rewrite fields_enter_field. cbv zeta. cbn [fst push r_stack fe_sc].
    rewrite (proj1 (fe_st3_facts _ _ _ _ _)).
    destruct (negb (name_eqb fname n_typename)); cbn [fst].
    - rewrite (proj1 (fe_exists_facts _ _ _ _ _)), (proj1 (fe_st1_facts _ _ _ _)). reflexivity.
    - rewrite (proj1 (fe_st1_facts _ _ _ _)). reflexivity.
  Qed.

  (** the errors of the first visitor of validateFields on an annotated document: one batch per field
      selection, computed from the scope TypeInfo had there *)
  Theorem fields_pass_errors qo D :
    r_errs (inspect (fields_enter S F) pop (tree_doc (pti_doc qo S F D)) rst0) =
    flat_map (fun d => flat_map (fun o => fe_ev1 (fst o) (pti_sel qo S F (fst o) (snd o)))
                                (ssels_ss S F (model_def_scope S F d) (def_sub d))) D.
  Proof.
    destruct (inspect_events (fields_enter S F) fe_ev fe_sc (fields_enter_true S F) fields_enter_stack fields_enter_errs
                             (tree_doc (pti_doc qo S F D)) rst0) as [E _].
    rewrite E. cbn [r_errs r_stack rst0 app].
    apply (events_doc fe_ev fe_sc fe_ev1).
    - intros top rest x. reflexivity.
    - intros stack n Hn. destruct n; try reflexivity. destruct Hn.
    - intros n. reflexivity.
  Qed.
End FieldsVisitor.

(** ** Part 3: a silent field visitor, known composite type conditions and root types make every
    selection set's parent type a composite type, every field defined, and 5.3.1 / 5.3.3 hold *)
Section FieldsSpec.
  Variable S : schema.
  Variable F : features.
  Hypothesis no_typename_field : forall top, field_of_scope S F top n_typename = None.
  Hypothesis string_leaf : composite_name S n_String = false.
  Variable qo : bool.

  Definition good (sc : scope) : Prop := exists tn, sc = Some tn /\ composite_name S tn = true.
  (** what is asked of one occurrence: the visitor is silent there, and an inline fragment's type
      condition is a visible composite type *)
  Definition occ_fine (o : scope * selection) : Prop :=
    fe_ev1 S F (fst o) (pti_sel qo S F (fst o) (snd o)) = [] /\
    match snd o with
    | SInline (Some (c, _)) _ _ _ => exists b, named_type S F c = Some b /\ is_composite_body b = true
    | _ => True
    end.

  Lemma named_type_raw c b : named_type S F c = Some b -> raw_body S c = Some b.
  Proof. unfold named_type, raw_body. destruct (raw_type S c) as [d|]; [| discriminate]. destruct (subset (t_req d) F); [auto | discriminate]. Qed.

  Lemma app_nil3 {A} (a b c : list A) : a ++ b ++ c = [] -> a = [] /\ b = [] /\ c = [].
  Proof. intros H. apply app_eq_nil in H as [H1 H]. apply app_eq_nil in H as [H2 H3]. auto. Qed.

  (** a silent field with a selection set beneath a good scope opens a good scope *)
  Lemma field_opens_good top a al n np args dirs ss :
    good top -> fe_ev1 S F top (pti_sel qo S F top (SField a al n np args dirs (Some ss))) = [] ->
    good (field_scope S F top n).
  Proof.
    intros Hg H. rewrite pti_sel_field_eq in H. cbn [fe_ev1] in H. apply app_nil3 in H as [H1 [H2 H3]].
    destruct (name_eqb n n_typename) eqn:En.
    - apply name_eqb_eq in En. subst n. rewrite no_typename_field in H3. simpl in H3.
      destruct (fe_missing S F top n_typename); simpl in H3; discriminate.
    - simpl in H1, H2, H3. unfold fe_e1 in H1. unfold field_scope.
      destruct (field_of_scope S F top n) as [def|]; [| rewrite En in H1; discriminate].
      destruct (fe_missing S F top n); [discriminate |]. simpl in H3. unfold fe_should in H3.
      exists (unwrapped (f_type def)). split; [reflexivity |]. unfold composite_name. unfold is_composite_name in H3.
      destruct (match raw_body S (unwrapped (f_type def)) with Some b => is_composite_body b | None => false end); [reflexivity | discriminate].
  Qed.

  Lemma scopes_good :
    (forall s top, good top -> (forall o, In o (ssels_sel S F top s) -> occ_fine o) -> forall o, In o (ssels_sel S F top s) -> good (fst o)) /\
    (forall ss top, good top -> (forall o, In o (ssels_ss S F top ss) -> occ_fine o) -> forall o, In o (ssels_ss S F top ss) -> good (fst o)).
  Proof.
    apply sel_ss_ind.
    - intros a al n np args dirs sub IH top Hg Hf o Ho.
      assert (ssels_sel S F top (SField a al n np args dirs sub) =
              (top, SField a al n np args dirs sub) :: match sub with Some ss => ssels_ss S F (field_scope S F top n) ss | None => [] end) as E
          by (destruct sub; reflexivity).
      rewrite E in *. destruct Ho as [<- | Ho]; [exact Hg |]. destruct sub as [ss|]; [| destruct Ho].
      apply (IH ss eq_refl (field_scope S F top n)); [| intros o' Ho'; apply Hf; right; exact Ho' | exact Ho].
      apply (field_opens_good top a al n np args dirs ss Hg). apply (Hf (top, SField a al n np args dirs (Some ss))). left. reflexivity.
    - intros n np dirs e top Hg Hf o [<- | []]. exact Hg.
    - intros cond dirs sub e IH top Hg Hf o Ho.
      change (ssels_sel S F top (SInline cond dirs sub e)) with ((top, SInline cond dirs sub e) :: ssels_ss S F (inline_scope S F top cond) sub) in *.
      destruct Ho as [<- | Ho]; [exact Hg |].
      apply (IH (inline_scope S F top cond)); [| intros o' Ho'; apply Hf; right; exact Ho' | exact Ho].
      destruct cond as [[c cp]|]; [| exact Hg].
      destruct (Hf (top, SInline (Some (c, cp)) dirs sub e) (or_introl eq_refl)) as [_ [b [Hb Hc]]]. simpl.
      rewrite Hb. exists c. split; [reflexivity |]. unfold composite_name. rewrite (named_type_raw c b Hb). exact Hc.
    - intros a sels p IH top Hg Hf o Ho. rewrite ssels_ss_eq in *. apply in_flat_map in Ho as [s [Hs Ho]].
      rewrite Forall_forall in IH. apply (IH s Hs top Hg); [| exact Ho].
      intros o' Ho'. apply Hf. apply in_flat_map. exists s. split; assumption.
  Qed.

  (** a silent field occurrence beneath a good scope has a definition in the Spec's sense, and
      satisfies 5.3.3 *)
  Lemma occ_defined sc a al n np args dirs sub :
    good sc -> fe_ev1 S F sc (pti_sel qo S F sc (SField a al n np args dirs sub)) = [] ->
    exists d, fo_def S F {| fo_parent := sc; fo_field := SField a al n np args dirs sub |} = Some d /\
              (if composite S (result_type d)
               then match sub with Some (SelSet _ (_ :: _) _) => true | _ => false end
               else match sub with None => true | Some _ => false end) = true.
  Proof.
    intros [tn [-> Hc]] H. rewrite pti_sel_field_eq in H. cbn [fe_ev1] in H. apply app_nil3 in H as [H1 [H2 H3]].
    unfold fo_def. cbn [fo_parent fo_field]. unfold field_def_of.
    change s_typename with n_typename. change (composite S tn) with (composite_name S tn). rewrite Hc.
    destruct (name_eqb n n_typename) eqn:En.
    - apply name_eqb_eq in En. subst n. exists typename_def. split; [reflexivity |].
      rewrite no_typename_field in H3. simpl in H3.
      unfold result_type, typename_def. cbn [f_type unwrapped].
      change (composite S _) with (composite_name S n_String). rewrite string_leaf.
      destruct (fe_missing S F (Some tn) n_typename); simpl in H3; destruct sub; try reflexivity; discriminate.
    - unfold fe_e1 in H1. cbn [negb andb] in H2, H3. rewrite declared_field_eq.
      destruct (field_of_scope S F (Some tn) n) as [def|]; [| rewrite En in H1; simpl in H1; discriminate].
      exists def. split; [reflexivity |].
      destruct (fe_missing S F (Some tn) n); [discriminate |]. simpl in H3. unfold fe_should in H3.
      unfold result_type. change (composite S (unwrapped (f_type def))) with (is_composite_name S (unwrapped (f_type def))).
      destruct (is_composite_name S (unwrapped (f_type def))).
      + destruct sub as [[a0 [|s l] p0]|]; simpl in *; try reflexivity; discriminate.
      + destruct sub as [[a0 l p0]|]; simpl in *; [discriminate | reflexivity].
  Qed.
End FieldsSpec.
