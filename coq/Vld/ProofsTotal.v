(** * Vld/ProofsTotal.v — the repaired validator never panics and never runs out of fuel:
    [validate_model repaired pi S F D] is [Done errs] for EVERY schema, feature set and document
    (no well-formedness assumed: undefined fragments, cycles, unknown types included).
    Part 1: addFieldSelections ends within its fuel (depth-first search with a visited set). *)
From Coq Require Import List NArith Arith Bool Lia Permutation.
From ApiFu Require Import Base.Sexp Vld.Ast Vld.AstInd Vld.Inspect Vld.InspectProofs Vld.TypeInfoModel Vld.TypeInfoPure
     Vld.Enumerate Vld.ValidatorModel Vld.ProofsCommon Vld.ProofsCycles Vld.ProofsVarsOrder Vld.ProofsValues Vld.ProofsOrder.
Import ListNotations.

(** every selection set written in a document *)
Fixpoint subs_sel (s : selection) : list selset :=
  match s with
  | SField _ _ _ _ _ _ (Some ss) => subs_ss ss
  | SField _ _ _ _ _ _ None => []
  | SSpread _ _ _ _ => []
  | SInline _ _ ss _ => subs_ss ss
  end
with subs_ss (ss : selset) : list selset :=
  ss :: match ss with SelSet _ sels _ => flat_map subs_sel sels end.
Definition all_subs (D : document) : list selset := flat_map (fun d => subs_ss (def_sub d)) D.

Lemma subs_ss_eq a sels p : subs_ss (SelSet a sels p) = SelSet a sels p :: flat_map subs_sel sels.
Proof. reflexivity. Qed.
Lemma subs_self ss : In ss (subs_ss ss).
Proof. destruct ss. left. reflexivity. Qed.

Lemma subs_length :
  (forall s, length (subs_sel s) = count_ss_sel s) /\ (forall ss, length (subs_ss ss) = count_ss ss).
Proof.
  apply sel_ss_ind.
  - intros a al n np args dirs sub IH. destruct sub as [ss|]; [apply (IH ss eq_refl) | reflexivity].
  - reflexivity.
  - intros cond dirs sub e IH. exact IH.
  - intros a sels p IH. rewrite subs_ss_eq. cbn [length count_ss]. f_equal.
    induction IH as [|s l Hs _ IHl]; [reflexivity |]. simpl. rewrite app_length, Hs, IHl. reflexivity.
Qed.

Lemma subs_trans :
  (forall s x, In x (subs_sel s) -> incl (subs_ss x) (subs_sel s)) /\
  (forall ss x, In x (subs_ss ss) -> incl (subs_ss x) (subs_ss ss)).
Proof.
  apply sel_ss_ind.
  - intros a al n np args dirs sub IH x Hx. destruct sub as [ss|]; [apply (IH ss eq_refl); exact Hx | destruct Hx].
  - intros n np dirs e x [].
  - intros cond dirs sub e IH x Hx. apply IH. exact Hx.
  - intros a sels p IH x Hx. rewrite subs_ss_eq in *. destruct Hx as [<- | Hx].
    + rewrite subs_ss_eq. apply incl_refl.
    + apply in_flat_map in Hx as [s [Hs Hx]]. rewrite Forall_forall in IH.
      intros y Hy. right. apply in_flat_map. exists s. split; [exact Hs |]. apply (IH s Hs x Hx). exact Hy.
Qed.

Definition sub_of (s : selection) : option selset :=
  match s with SField _ _ _ _ _ _ sub => sub | SSpread _ _ _ _ => None | SInline _ _ sub _ => Some sub end.

Section Collect.
  Variable q : quirks.
  Variable D : document.

  Definition U : list pos := map ss_pos (all_subs D).

  Lemma U_length : length U = list_sum (map (fun d => count_ss (def_sub d)) D).
  Proof.
    unfold U, all_subs. rewrite map_length. induction D as [|d l IH]; [reflexivity |]. simpl.
    rewrite app_length, (proj2 subs_length), IH. reflexivity.
  Qed.

  (** closure of the written selection sets under "selection set of a selection of" *)
  Lemma subs_closed a sels p s ss :
    In (SelSet a sels p) (all_subs D) -> In s sels -> sub_of s = Some ss -> In ss (all_subs D).
  Proof.
    unfold all_subs. intros H Hs Hsub. apply in_flat_map in H as [d [Hd H]]. apply in_flat_map. exists d. split; [exact Hd |].
    apply (proj2 subs_trans _ _ H). rewrite subs_ss_eq. right. apply in_flat_map. exists s. split; [exact Hs |].
    destruct s as [a0 al n np args dirs [sub|] | |]; simpl in Hsub; inversion Hsub; subst; apply subs_self.
  Qed.
  Lemma frag_sub_in n d : frag_last D n = Some d -> In (def_sub d) (all_subs D).
  Proof.
    intros H. apply frag_last_in in H. unfold all_subs. apply in_flat_map. exists d. split; [exact H | apply subs_self].
  Qed.

  (** ** unfolding [collect] *)
  Fixpoint collect_go (rec : fmap -> list pos -> selset -> cres) (a : option name) (p : pos)
           (sels : list selection) (m : fmap) (visited : list pos) : cres :=
    match sels with
    | [] => COk m visited
    | s :: r =>
        let step :=
          match s with
          | SField _ _ _ _ _ _ _ => COk (fmap_add (response_name s) (s, a, p) m) visited
          | SInline _ _ sub _ => rec m visited sub
          | SSpread n np _ _ =>
              match frag_last D n with
              | None => CErr (sec EUndefFragment2 np)
              | Some d => rec m visited (def_sub d)
              end
          end in
        match step with
        | COk m' v' => collect_go rec a p r m' v'
        | other => other
        end
    end.

  Lemma collect_unfold fuel m visited ss :
    collect q D fuel m visited ss =
    match fuel with
    | O => CFuel
    | Datatypes.S fuel' =>
        match ss with
        | SelSet a sels p =>
            if pmem p visited then (if q_revisit_ok q then COk m visited else CErr (sec ECollectCycle p))
            else collect_go (collect q D fuel') a p sels m (p :: visited)
        end
    end.
  Proof.
    destruct fuel as [|fuel']; [reflexivity |]. destruct ss as [a sels p]. cbn [collect].
    destruct (pmem p visited); [reflexivity |].
    generalize (p :: visited) as v. revert m. induction sels as [|s r IH]; intros m v; [reflexivity |].
    cbn [collect_go]. destruct s as [a0 al n np args dirs sub | n np dirs e | cond dirs sub e].
    - apply IH.
    - destruct (frag_last D n) as [d|]; [| reflexivity].
      destruct (collect q D fuel' m v (def_sub d)) as [m' v' | e0 |]; [apply IH | reflexivity | reflexivity].
    - destruct (collect q D fuel' m v sub) as [m' v' | e0 |]; [apply IH | reflexivity | reflexivity].
  Qed.

  Lemma pos_eqb_eq a b : pos_eqb a b = true <-> a = b.
  Proof.
    unfold pos_eqb. destruct a as [a1 a2], b as [b1 b2]. simpl. rewrite andb_true_iff, !N.eqb_eq.
    split; [intros [-> ->]; reflexivity | intros H; inversion H; auto].
  Qed.
  Lemma pmem_in p l : pmem p l = true <-> In p l.
  Proof.
    unfold pmem. rewrite existsb_exists. split.
    - intros [x [Hx He]]. apply pos_eqb_eq in He. subst. exact Hx.
    - intros H. exists p. split; [exact H | apply pos_eqb_eq; reflexivity].
  Qed.

  (** the fields a map of collected fields holds come from the document *)
  Definition field_ok (s : selection) : Prop := forall ss, sel_sub s = Some ss -> In ss (all_subs D).
  Definition fm_ok (m : fmap) : Prop := forall k l x, In (k, l) m -> In x l -> field_ok (fst3 x).

  Lemma fmap_add_ok k x m : fm_ok m -> field_ok (fst3 x) -> fm_ok (fmap_add k x m).
  Proof.
    intros Hm Hx. induction m as [|[k' l] r IH]; simpl.
    - intros k0 l0 y [H | []] Hy. injection H as <- <-. destruct Hy as [<- | []]. exact Hx.
    - destruct (name_eqb k k').
      + intros k0 l0 y [H | H] Hy.
        * injection H as <- <-. apply in_app_or in Hy as [Hy | [<- | []]]; [apply (Hm k' l y); [left; reflexivity | exact Hy] | exact Hx].
        * apply (Hm k0 l0 y); [right; exact H | exact Hy].
      + intros k0 l0 y [H | H] Hy.
        * injection H as <- <-. apply (Hm k' l y); [left; reflexivity | exact Hy].
        * apply IH with (k := k0) (l := l0); [| exact H | exact Hy]. intros k1 l1 z Hz Hz'. apply (Hm k1 l1 z); [right; exact Hz | exact Hz'].
  Qed.

  Definition cres_ok (visited : list pos) (m : fmap) (r : cres) : Prop :=
    match r with
    | CFuel => False
    | CErr _ => True
    | COk m' v' => NoDup v' /\ incl v' U /\ incl visited v' /\ (fm_ok m -> fm_ok m')
    end.

  Lemma collect_total fuel : forall m visited ss,
    In ss (all_subs D) -> NoDup visited -> incl visited U -> length U - length visited < fuel ->
    cres_ok visited m (collect q D fuel m visited ss).
  Proof.
    induction fuel as [|fuel IH]; intros m visited ss Hss Hnd Hinc Hlt; [lia |].
    rewrite collect_unfold. destruct ss as [a sels p].
    destruct (pmem p visited) eqn:Ep.
    - destruct (q_revisit_ok q); [| exact I]. simpl. repeat split; auto. apply incl_refl.
    - assert (~ In p visited) as Hp by (intros H; apply pmem_in in H; congruence).
      assert (In p U) as HpU by (unfold U; apply in_map_iff; exists (SelSet a sels p); split; [reflexivity | exact Hss]).
      assert (NoDup (p :: visited)) as Hnd1 by (constructor; assumption).
      assert (incl (p :: visited) U) as Hinc1 by (intros x [<- | Hx]; [exact HpU | apply Hinc; exact Hx]).
      pose proof (NoDup_incl_length Hnd1 Hinc1) as Hlen1. simpl in Hlen1.
      assert (forall l m0 v, (forall s, In s l -> In s sels) -> NoDup v -> incl v U -> incl (p :: visited) v ->
                             match collect_go (collect q D fuel) a p l m0 v with
                             | CFuel => False
                             | CErr _ => True
                             | COk m' v' => NoDup v' /\ incl v' U /\ incl v v' /\ (fm_ok m0 -> fm_ok m')
                             end) as Hgo.
      { induction l as [|s r IHl]; intros m0 v Hl Hv1 Hv2 Hv3.
        - simpl. repeat split; auto. apply incl_refl.
        - cbn [collect_go].
          assert (length U - length v < fuel) as Hfuel.
          { pose proof (NoDup_incl_length Hnd1 Hv3) as H1. pose proof (NoDup_incl_length Hv1 Hv2) as H2. simpl in H1. lia. }
          assert (forall s', In s' r -> In s' sels) as Hr by (intros s' Hs'; apply Hl; right; exact Hs').
          assert (In s sels) as Hs by (apply Hl; left; reflexivity).
          assert (forall sub m1, sub_of s = Some sub \/ (exists n d, frag_last D n = Some d /\ sub = def_sub d) ->
                                 match match collect q D fuel m1 v sub with
                                       | COk m' v' => collect_go (collect q D fuel) a p r m' v'
                                       | CErr _ => collect q D fuel m1 v sub
                                       | CFuel => collect q D fuel m1 v sub
                                       end with
                                 | CFuel => False
                                 | CErr _ => True
                                 | COk m' v' => NoDup v' /\ incl v' U /\ incl v v' /\ (fm_ok m1 -> fm_ok m')
                                 end) as Hrec.
          { intros sub m1 Hsub.
            assert (In sub (all_subs D)) as Hin.
            { destruct Hsub as [Hsub | [n [d [Hd ->]]]]; [apply (subs_closed a sels p s sub Hss Hs Hsub) | apply (frag_sub_in n d Hd)]. }
            pose proof (IH m1 v sub Hin Hv1 Hv2 Hfuel) as Hc. destruct (collect q D fuel m1 v sub) as [m' v' | e0 |] eqn:Ec; [| exact I | exact Hc].
            destruct Hc as [C1 [C2 [C3 C4]]].
            assert (incl (p :: visited) v') as C5 by (intros x Hx; apply C3, Hv3, Hx).
            pose proof (IHl m' v' Hr C1 C2 C5) as Hn. destruct (collect_go (collect q D fuel) a p r m' v') as [m'' v'' | e1 |]; [| exact I | exact Hn].
            destruct Hn as [N1 [N2 [N3 N4]]]. repeat split; auto. intros x Hx. apply N3, C3, Hx. }
          destruct s as [a0 al n np args dirs sub | n np dirs e | cond dirs sub e].
          + pose proof (IHl (fmap_add (response_name (SField a0 al n np args dirs sub)) (SField a0 al n np args dirs sub, a, p) m0) v Hr Hv1 Hv2 Hv3) as Hn.
            destruct (collect_go (collect q D fuel) a p r _ v) as [m'' v'' | e1 |]; [| exact I | exact Hn].
            destruct Hn as [N1 [N2 [N3 N4]]]. repeat split; auto. intros Hm0. apply N4. apply fmap_add_ok; [exact Hm0 |].
            intros ss Hsub. simpl in Hsub. apply (subs_closed a sels p _ ss Hss Hs). exact Hsub.
          + destruct (frag_last D n) as [d|] eqn:Ed; [| exact I]. apply Hrec. right. exists n, d. auto.
          + apply Hrec. left. reflexivity. }
      pose proof (Hgo sels m (p :: visited) (fun s H => H) Hnd1 Hinc1 (incl_refl _)) as Hr.
      destruct (collect_go (collect q D fuel) a p sels m (p :: visited)) as [m' v' | e0 |]; [| exact I | exact Hr].
      destruct Hr as [R1 [R2 [R3 R4]]]. repeat split; auto. intros x Hx. apply R3. right. exact Hx.
  Qed.

  (** addFieldSelections never runs out of fuel on a selection set of the document *)
  Lemma add_selections_total m sub :
    (forall ss, sub = Some ss -> In ss (all_subs D)) ->
    match add_selections q D m sub with
    | CFuel => False
    | CErr _ => True
    | COk m' _ => fm_ok m -> fm_ok m'
    end.
  Proof.
    intros Hsub. unfold add_selections. destruct sub as [ss|]; [| tauto].
    assert (length U - length (@nil pos) < collect_fuel D) as Hlt by (unfold collect_fuel; rewrite U_length; simpl; lia).
    pose proof (collect_total (collect_fuel D) m [] ss (Hsub ss eq_refl) (NoDup_nil _) (incl_nil_l _) Hlt) as H.
    destruct (collect q D (collect_fuel D) m [] ss) as [m' v' | e0 |]; [| exact I | exact H]. apply H.
  Qed.
End Collect.

(** ** Part 2: the overlapping-fields recursion ends with "ok" or an error *)
Definition safe (r : mres) : Prop := match r with MOk | MErr _ => True | _ => False end.

Lemma first_err_safe {A} (f : A -> mres) l : (forall x, In x l -> safe (f x)) -> safe (first_err f l).
Proof.
  induction l as [|x l IH]; intros H; [exact I |]. simpl.
  pose proof (H x (or_introl eq_refl)) as Hx. destruct (f x); try exact Hx; try exact I.
  apply IH. intros y Hy. apply H. right. exact Hy.
Qed.
Lemma pairs_first_safe {A} (f : A -> A -> mres) l :
  (forall x y, In x l -> In y l -> safe (f x y)) -> safe (pairs_first f l).
Proof.
  induction l as [|x l IH]; intros H; [exact I |]. simpl.
  assert (safe (first_err (f x) l)) as Hx by (apply first_err_safe; intros y Hy; apply H; [left; reflexivity | right; exact Hy]).
  destruct (first_err (f x) l); try exact Hx; try exact I.
  apply IH. intros y z Hy Hz. apply H; right; assumption.
Qed.

Section MergeTotal.
  Variable pi : order.
  Hypothesis Hpi : order_ok pi.
  Variable q : quirks.
  Hypothesis q_depth_on : q_depth q = true.
  Hypothesis q_nil_arg_on : q_nil_arg q = true.
  Variable S : schema.
  Variable D : document.

  Lemma fm_ok_nil : fm_ok D [].
  Proof. intros k l x []. Qed.

  (** the two addFieldSelections calls on the sub-selections of two fields of the document *)
  Lemma merged_subs A B (P : cres -> Prop) :
    field_ok D A -> field_ok D B ->
    match add_selections q D [] (sel_sub A) with
    | CErr e => True
    | CFuel => False
    | COk m1 _ => match add_selections q D m1 (sel_sub B) with
                  | CErr e => True
                  | CFuel => False
                  | COk m2 _ => fm_ok D m2
                  end
    end.
  Proof.
    intros HA HB. pose proof (add_selections_total q D [] (sel_sub A) HA) as H1.
    destruct (add_selections q D [] (sel_sub A)) as [m1 v1 | e |]; [| exact I | exact H1].
    pose proof (add_selections_total q D m1 (sel_sub B) HB) as H2.
    destruct (add_selections q D m1 (sel_sub B)) as [m2 v2 | e |]; [| exact I | exact H2].
    apply H2, H1, fm_ok_nil.
  Qed.

  Lemma group_safe (f : fp -> fp -> mres) m :
    fm_ok D m -> (forall x y, field_ok D (fst3 x) -> field_ok D (fst3 y) -> safe (f x y)) ->
    safe (first_err (fun g => pairs_first f (snd g)) (pi _ m)).
  Proof.
    intros Hm Hf. apply first_err_safe. intros [k l] Hg. apply (proj1 (order_in pi Hpi _ _)) in Hg. simpl.
    apply pairs_first_safe. intros x y Hx Hy. apply Hf; [apply (Hm k l x Hg Hx) | apply (Hm k l y Hg Hy)].
  Qed.

  Lemma same_shape_safe depth : forall A B,
    field_ok D A -> field_ok D B -> safe (same_shape q pi S D depth A B).
  Proof.
    induction depth as [|d IH]; intros A B HA HB; simpl.
    - rewrite q_depth_on. exact I.
    - destruct (shape_type A) as [tA | e]; [| exact I].
      destruct (shape_type B) as [tB | e]; [| exact I].
      destruct (shape_loop tA tB) as [[a b] | k]; [| exact I].
      destruct (is_leaf_sty S a || is_leaf_sty S b); [destruct (sty_eqb a b); exact I |].
      pose proof (merged_subs A B (fun _ => True) HA HB) as Hm.
      destruct (add_selections q D [] (sel_sub A)) as [m1 v1 | e |]; [| exact I | exact Hm].
      destruct (add_selections q D m1 (sel_sub B)) as [m2 v2 | e |]; [| exact I | exact Hm].
      apply group_safe; [exact Hm |]. intros x y Hx Hy. apply IH; assumption.
  Qed.

  Lemma args_check_safe A B : safe (args_check q A B).
  Proof.
    unfold args_check. destruct (negb _); [exact I |]. apply first_err_safe. intros argB _.
    destruct (arg_last (a_name argB) (sel_args A)); [destruct (values_identical _ _); exact I |].
    rewrite q_nil_arg_on. exact I.
  Qed.

  Lemma pair_check_safe recur depth x y :
    (forall m, fm_ok D m -> safe (recur m)) -> field_ok D (fst3 x) -> field_ok D (fst3 y) ->
    safe (pair_check q pi S D recur depth x y).
  Proof.
    intros Hr Hx Hy. unfold pair_check.
    pose proof (same_shape_safe depth (fst3 x) (fst3 y) Hx Hy) as Hs.
    destruct (same_shape q pi S D depth (fst3 x) (fst3 y)); try exact Hs; try exact I.
    destruct (snd (fst x)); [| exact I]. destruct (snd (fst y)); [| exact I].
    destruct (name_eqb _ _ || _ || _); [| exact I].
    destruct (negb _); [exact I |].
    pose proof (args_check_safe (fst3 x) (fst3 y)) as Ha.
    destruct (args_check q (fst3 x) (fst3 y)); try exact Ha; try exact I.
    pose proof (merged_subs (fst3 x) (fst3 y) (fun _ => True) Hx Hy) as Hm.
    destruct (add_selections q D [] (sel_sub (fst3 x))) as [m1 v1 | e |]; [| exact I | exact Hm].
    destruct (add_selections q D m1 (sel_sub (fst3 y))) as [m2 v2 | e |]; [| exact I | exact Hm].
    apply Hr, Hm.
  Qed.

  Lemma can_merge_safe depth : forall m, fm_ok D m -> safe (can_merge q pi S D depth m).
  Proof.
    induction depth as [|d IH]; intros m Hm; cbn [can_merge]; (apply group_safe; [exact Hm |]);
      intros x y Hx Hy; apply pair_check_safe; try assumption.
    intros m' _. exact I.
  Qed.
End MergeTotal.

(** ** Part 3: the scope stack of the visitors is never empty where it is indexed *)
Section StackSafe.
  Variable enter : rst -> node -> rst * bool.
  Hypothesis enter_true : forall st n, snd (enter st n) = true.
  Hypothesis enter_push : forall st n, exists sc, r_stack (fst (enter st n)) = sc :: r_stack st.
  Hypothesis enter_abort : forall st n,
    r_stack st <> [] \/ match n with NSel _ => False | _ => True end -> r_abort (fst (enter st n)) = r_abort st.

  Lemma inspect_stack_safe t : forall st,
    r_stack st <> [] ->
    r_abort (inspect enter pop t st) = r_abort st /\ r_stack (inspect enter pop t st) = r_stack st.
  Proof.
    induction t as [n cs IH] using tree_ind'. intros st Hst. cbn [inspect].
    pose proof (enter_true st n) as Ht. destruct (enter_push st n) as [sc Hp].
    pose proof (enter_abort st n (or_introl Hst)) as Ha.
    destruct (enter st n) as [s1 b]. simpl in Ht, Hp, Ha. subst b.
    assert (forall s, r_stack s = sc :: r_stack st ->
                      r_abort (fold_left (fun a c => inspect enter pop c a) cs s) = r_abort s /\
                      r_stack (fold_left (fun a c => inspect enter pop c a) cs s) = r_stack s) as Hfold.
    { induction IH as [|c cs' Hc _ IHcs]; intros s Hs; [split; reflexivity |]. simpl.
      assert (r_stack s <> []) as Hne by (rewrite Hs; discriminate).
      destruct (Hc s Hne) as [C1 C2]. destruct (IHcs (inspect enter pop c s)) as [F1 F2]; [rewrite C2; exact Hs |].
      split; [rewrite F1; exact C1 | rewrite F2; exact C2]. }
    destruct (Hfold s1 Hp) as [F1 F2].
    change (r_abort (pop (fold_left (fun a c => inspect enter pop c a) cs s1))) with (r_abort (fold_left (fun a c => inspect enter pop c a) cs s1)).
    change (r_stack (pop (fold_left (fun a c => inspect enter pop c a) cs s1))) with (tl (r_stack (fold_left (fun a c => inspect enter pop c a) cs s1))).
    rewrite F1, F2, Hp. auto.
  Qed.

  Lemma inspect_doc_safe D st : r_abort (inspect enter pop (tree_doc D) st) = r_abort st.
  Proof.
    unfold tree_doc. cbn [inspect].
    pose proof (enter_true st (NDoc D)) as Ht. destruct (enter_push st (NDoc D)) as [sc Hp].
    pose proof (enter_abort st (NDoc D) (or_intror I)) as Ha.
    destruct (enter st (NDoc D)) as [s1 b]. simpl in Ht, Hp, Ha. subst b.
    assert (forall l s, r_stack s <> [] -> r_abort (fold_left (fun a c => inspect enter pop c a) l s) = r_abort s) as Hfold.
    { induction l as [|c l IHl]; intros s Hs; [reflexivity |]. simpl.
      destruct (inspect_stack_safe c s Hs) as [C1 C2]. rewrite IHl; [exact C1 | rewrite C2; exact Hs]. }
    change (r_abort (pop (fold_left (fun a c => inspect enter pop c a) (map tree_def D) s1))) with (r_abort (fold_left (fun a c => inspect enter pop c a) (map tree_def D) s1)).
    rewrite Hfold; [exact Ha | rewrite Hp; discriminate].
  Qed.
End StackSafe.

Lemma abort_add_errs st l : r_abort (add_errs st l) = r_abort st.
Proof. reflexivity. Qed.
Lemma abort_push st sc : r_abort (push st sc) = r_abort st.
Proof. reflexivity. Qed.

Section VisitorsSafe.
  Variable pi : order.
  Variable q : quirks.
  Hypothesis q_leaf_parent_on : q_leaf_parent q = true.
  Variable S : schema.
  Variable F : features.
  Variable D : document.

  Ltac split_all :=
    repeat match goal with
           | |- context [if ?c then _ else _] => destruct c eqn:?
           | |- context [match ?x with _ => _ end] => destruct x eqn:?
           end.

  (** the existence test of validateFields, on its own *)
  Definition fe_exists (st1 : rst) (fname : name) (np : pos) : rst * bool :=
    match r_stack st1 with
    | [] => (set_abort st1 (APanic PScopeStack), true)
    | None :: _ => (st1, true)
    | Some tn :: _ =>
        match raw_body S tn with
        | Some (TObject fields _) =>
            if match get_field F fields fname with Some _ => false | None => true end
               && (negb (name_eqb tn (s_query S))
                   || match assoc fname (s_meta S) with Some _ => false | None => true end)
            then (add_errs st1 [err EFieldMissing np], false) else (st1, true)
        | Some (TInterface fields) =>
            match get_field F fields fname with
            | Some _ => (st1, true)
            | None => (add_errs st1 [err EFieldMissing np], false)
            end
        | Some (TUnion _) => (add_errs st1 [err EFieldMissing np], false)
        | _ => (st1, true)
        end
    end.
  Definition fe_st1 (st : rst) (a : option field_def) (fname : name) (p : pos) : rst :=
    match a with
    | None => if negb (name_eqb fname n_typename) then add_errs st [sec ENoFieldInfo p] else st
    | Some _ => st
    end.
  Definition fe_st3 (st2 : rst) (ex should : bool) (sub : option selset) (p : pos) : rst :=
    if ex then
      if should then
        match sub with
        | None => add_errs st2 [err ENeedsSub p]
        | Some (SelSet _ [] _) => add_errs st2 [err ENeedsSub p]
        | Some _ => st2
        end
      else match sub with
           | Some _ => add_errs st2 [err ENoSub p]
           | None => st2
           end
    else st2.
  Definition fe_should (a : option field_def) : bool :=
    match a with Some def => is_composite_name S (unwrapped (f_type def)) | None => false end.

  Lemma fields_enter_field st a al fname np args dirs sub :
    fields_enter S F st (NSel (SField a al fname np args dirs sub)) =
    let f := SField a al fname np args dirs sub in
    let st1 := fe_st1 st a fname (sel_pos f) in
    let r := if negb (name_eqb fname n_typename) then fe_exists st1 fname np else (st1, true) in
    (push (fe_st3 (fst r) (snd r) (fe_should a) sub (sel_pos f)) None, true).
  Proof.
    unfold fields_enter, fe_st1, fe_st3, fe_should, fe_exists. cbv zeta.
    destruct (negb (name_eqb fname n_typename)); [| reflexivity].
    destruct a as [def|]; cbn [r_stack add_errs];
      (destruct (r_stack st) as [|[tn|] rest]; [reflexivity | | reflexivity];
       destruct (raw_body S tn) as [[| | | fields ifs | fields | ms]|]; try reflexivity;
       [destruct (_ && _); reflexivity | destruct (get_field F fields fname); reflexivity]).
  Qed.


  Lemma fe_st1_facts st a fname p : r_stack (fe_st1 st a fname p) = r_stack st /\ r_abort (fe_st1 st a fname p) = r_abort st.
  Proof. unfold fe_st1. split_all; split; reflexivity. Qed.
  Lemma fe_st3_facts st2 ex sh sub p : r_stack (fe_st3 st2 ex sh sub p) = r_stack st2 /\ r_abort (fe_st3 st2 ex sh sub p) = r_abort st2.
  Proof. unfold fe_st3. split_all; split; reflexivity. Qed.
  Lemma fe_exists_facts st1 fname np :
    r_stack (fst (fe_exists st1 fname np)) = r_stack st1 /\
    (r_stack st1 <> [] -> r_abort (fst (fe_exists st1 fname np)) = r_abort st1).
  Proof.
    unfold fe_exists. destruct (r_stack st1) as [|[tn|] rest] eqn:Es.
    - split; [simpl; exact Es | intros H; contradiction].
    - split_all; simpl; split; auto.
    - split; auto.
  Qed.

  Lemma fields_enter_true st n : snd (fields_enter S F st n) = true.
  Proof.
    destruct n; try reflexivity. destruct s as [a al fname np args dirs sub | |]; try reflexivity.
    rewrite fields_enter_field. reflexivity.
  Qed.
  Lemma fields_enter_push st n : exists sc, r_stack (fst (fields_enter S F st n)) = sc :: r_stack st.
  Proof.
    destruct n; try (eexists; reflexivity). destruct s as [a al fname np args dirs sub | |]; try (eexists; reflexivity).
    rewrite fields_enter_field. cbv zeta. exists None. cbn [fst push r_stack].
    rewrite (proj1 (fe_st3_facts _ _ _ _ _)).
    destruct (negb (name_eqb fname n_typename)); cbn [fst].
    - rewrite (proj1 (fe_exists_facts _ _ _)), (proj1 (fe_st1_facts _ _ _ _)). reflexivity.
    - rewrite (proj1 (fe_st1_facts _ _ _ _)). reflexivity.
  Qed.
  Lemma fields_enter_abort st n :
    r_stack st <> [] \/ match n with NSel _ => False | _ => True end ->
    r_abort (fst (fields_enter S F st n)) = r_abort st.
  Proof.
    intros H. destruct n; try reflexivity. destruct H as [H | []].
    destruct s as [a al fname np args dirs sub | |]; try reflexivity.
    rewrite fields_enter_field. cbv zeta. cbn [fst push r_abort].
    rewrite (proj2 (fe_st3_facts _ _ _ _ _)).
    destruct (negb (name_eqb fname n_typename)); cbn [fst].
    - rewrite (proj2 (fe_exists_facts _ _ _)); [apply fe_st1_facts |]. rewrite (proj1 (fe_st1_facts _ _ _ _)). exact H.
    - apply fe_st1_facts.
  Qed.

  (** validateFragmentSpreads *)
  Lemma validate_spread_facts st tc parent :
    r_stack (validate_spread q pi S F st tc parent) = r_stack st /\
    r_abort (validate_spread q pi S F st tc parent) = r_abort st.
  Proof.
    unfold validate_spread. destruct parent as [pn|]; [| split; reflexivity].
    rewrite q_leaf_parent_on. simpl. destruct (is_composite_name S pn) eqn:Ec; simpl; [| split; reflexivity].
    destruct (named_type S F (fst tc)) as [b|] eqn:En; [| split; reflexivity].
    destruct (is_composite_body b) eqn:Eb; [| split; reflexivity].
    assert (possible_types q S F (fst tc) <> None) as H1.
    { unfold named_type in En. unfold possible_types, raw_body. destruct (raw_type S (fst tc)) as [d|]; [| discriminate].
      destruct (subset (t_req d) F); [| discriminate]. inversion En; subst b. destruct (t_body d); try discriminate; discriminate. }
    assert (possible_types q S F pn <> None) as H2.
    { unfold is_composite_name in Ec. unfold possible_types. destruct (raw_body S pn) as [[| | | | |]|]; try discriminate; discriminate. }
    destruct (possible_types q S F (fst tc)); [| contradiction]. destruct (possible_types q S F pn); [| contradiction].
    destruct (existsb _ _); split; reflexivity.
  Qed.

  Lemma spreads_enter_true st n : snd (spreads_enter q pi S F D st n) = true.
  Proof. unfold spreads_enter. split_all; reflexivity. Qed.
  Lemma spreads_enter_push st n : exists sc, r_stack (fst (spreads_enter q pi S F D st n)) = sc :: r_stack st.
  Proof.
    unfold spreads_enter. split_all; eexists; cbn [fst push r_stack set_abort add_errs];
      rewrite ?(proj1 (validate_spread_facts _ _ _)); try reflexivity;
      match goal with H : r_stack st = _ |- _ => rewrite H; reflexivity end.
  Qed.
  Lemma spreads_enter_abort st n :
    r_stack st <> [] \/ match n with NSel _ => False | _ => True end ->
    r_abort (fst (spreads_enter q pi S F D st n)) = r_abort st.
  Proof.
    intros H. unfold spreads_enter. split_all; cbn [fst push r_abort add_errs]; rewrite ?(proj2 (validate_spread_facts _ _ _)); try reflexivity;
      exfalso; destruct H as [H | H]; try (apply H; assumption); try exact H; subst; try exact H;
      apply H; reflexivity.
  Qed.
End VisitorsSafe.

(** ** Part 4: every rule group ends with a list of errors *)
Lemma selset_nodes :
  (forall s x, In (NSelSet x) (tree_nodes (tree_sel s)) -> In x (subs_sel s)) /\
  (forall ss x, In (NSelSet x) (tree_nodes (tree_ss ss)) -> In x (subs_ss ss)).
Proof.
  apply sel_ss_ind.
  - intros a al n np args dirs sub IH x Hx. apply field_nodes in Hx as [Hx | [Hx | [Hx | [Hx | [Hx | [ss [-> Hx]]]]]]]; try discriminate.
    + apply no_sel_alias in Hx. discriminate.
    + apply no_sel_args in Hx. discriminate.
    + apply no_sel_dirs in Hx. discriminate.
    + apply (IH ss eq_refl). exact Hx.
  - intros n np dirs e x Hx. apply spread_nodes in Hx as [Hx | [Hx | Hx]]; try discriminate. apply no_sel_dirs in Hx. discriminate.
  - intros cond dirs sub e IH x Hx. apply inline_nodes in Hx as [Hx | [Hx | [Hx | Hx]]]; try discriminate.
    + apply no_sel_cond in Hx. discriminate.
    + apply no_sel_dirs in Hx. discriminate.
    + apply IH. exact Hx.
  - intros a sels p IH x Hx. rewrite subs_ss_eq. apply ss_nodes in Hx as [Hx | [s [Hs Hx]]].
    + left. inversion Hx. reflexivity.
    + right. apply in_flat_map. exists s. split; [exact Hs |]. rewrite Forall_forall in IH. apply (IH s Hs). exact Hx.
Qed.

Lemma selset_nodes_doc A x : In (NSelSet x) (tree_nodes (tree_doc A)) -> In x (all_subs A).
Proof.
  unfold tree_doc. cbn [tree_nodes]. intros [Hx | Hx]; [discriminate |].
  apply in_flat_map in Hx as [t [Ht Hx]]. apply in_map_iff in Ht as [d [<- Hd]].
  apply def_nodes in Hx as [Hx | Hx].
  - apply def_own_nodes_minor in Hx as [Hx | Hx]; discriminate.
  - unfold all_subs. apply in_flat_map. exists d. split; [exact Hd | apply (proj2 selset_nodes); exact Hx].
Qed.

Lemma inspect_abort_free (enter : rst -> node -> rst * bool) t :
  (forall n, In n (tree_nodes t) -> forall st, r_abort st = None -> r_abort (fst (enter st n)) = None) ->
  forall st, r_abort st = None -> r_abort (inspect enter (fun s => s) t st) = None.
Proof.
  induction t as [n cs IH] using tree_ind'. intros H st Hst. cbn [inspect].
  pose proof (H n (or_introl eq_refl) st Hst) as Hn. destruct (enter st n) as [s1 b]. simpl in Hn. destruct b; [| exact Hn].
  assert (forall c, In c cs -> forall m, In m (tree_nodes c) -> forall st0, r_abort st0 = None -> r_abort (fst (enter st0 m)) = None) as Hcs.
  { intros c Hc m Hm. apply H. right. apply in_flat_map. exists c. split; assumption. }
  clear H. revert s1 Hn. induction IH as [|c cs' Hc _ IHcs]; intros s1 Hs1; [exact Hs1 |]. simpl.
  apply IHcs.
  - intros c' Hc' m Hm. apply (Hcs c'); [right; exact Hc' | exact Hm].
  - apply Hc; [| exact Hs1]. intros m Hm. apply (Hcs c); [left; reflexivity | exact Hm].
Qed.

Section RulesTotal.
  Variable pi : order.
  Hypothesis Hpi : order_ok pi.
  Variable S : schema.
  Variable F : features.
  Variable A : document.

  Lemma finish_done st : r_abort st = None -> finish st = Done (r_errs st).
  Proof. unfold finish. intros ->. reflexivity. Qed.

  Lemma rule_operations_total : exists errs, rule_operations repaired A = Done errs.
  Proof.
    unfold rule_operations.
    assert (forall l, incl l A -> forall anon seen st, r_abort st = None ->
                      r_abort (snd (fold_left (ops_step repaired A) l (anon, seen, st))) = None) as Hfold.
    { induction l as [|d l IH]; intros Hl anon seen st Hst; [exact Hst |]. cbn [fold_left].
      assert (incl l A) as Hl' by (intros x Hx; apply Hl; right; exact Hx).
      destruct d as [ot n vars dirs sub | kw n np cond dirs sub]; [| apply IH; assumption].
      cbn [ops_step].
      destruct (match n with None => _ | Some (nm, p) => _ end) as [[anon1 seen1] st1] eqn:E1.
      assert (r_abort st1 = None) as H1.
      { destruct n as [[nm p]|]; [destruct (mem nm seen) |]; inversion E1; subst; exact Hst. }
      set (st2 := match ss_ann sub with None => _ | Some _ => st1 end).
      assert (r_abort st2 = None) as H2 by (unfold st2; destruct (ss_ann sub); exact H1).
      apply IH; [exact Hl' |]. destruct (is_subscription ot); [| exact H2].
      pose proof (add_selections_total repaired A [] (Some sub)) as Hc.
      destruct (add_selections repaired A [] (Some sub)) as [m v | e |].
      - destruct (Nat.eqb (length m) 1); exact H2.
      - exact H2.
      - exfalso. apply Hc. intros ss Hss. inversion Hss; subst ss.
        unfold all_subs. apply in_flat_map. exists (DOp ot n vars dirs sub). split; [apply Hl; left; reflexivity | apply subs_self]. }
    pose proof (Hfold A (incl_refl A) 0 [] rst0 eq_refl) as H.
    destruct (fold_left (ops_step repaired A) A (0, [], rst0)) as [[anon seen] st]. simpl in H.
    eexists. apply finish_done. destruct (Nat.ltb 0 anon); [| exact H].
    destruct (filter is_op A) as [|d1 [|d2 r]]; exact H.
  Qed.

  Lemma rule_fields_total : exists errs, rule_fields repaired pi S F A = Done errs.
  Proof.
    unfold rule_fields. eexists. apply finish_done.
    apply inspect_abort_free.
    - intros n Hn st Hst. unfold merge_enter. destruct n; try exact Hst.
      pose proof (add_selections_total repaired A [] (Some s)) as Hc.
      destruct (add_selections repaired A [] (Some s)) as [m v | e |].
      + assert (fm_ok A m) as Hm.
        { apply Hc; [| apply fm_ok_nil]. intros ss Hss. inversion Hss; subst ss. apply selset_nodes_doc. exact Hn. }
        pose proof (can_merge_safe pi Hpi repaired eq_refl eq_refl S A (max_depth A) m Hm) as Hs.
        destruct (can_merge repaired pi S A (max_depth A) m); try exact Hst; try exact Hst; destruct Hs.
      + exact Hst.
      + exfalso. apply Hc. intros ss Hss. inversion Hss; subst ss. apply selset_nodes_doc. exact Hn.
    - rewrite (inspect_doc_safe (fields_enter S F) (fields_enter_true S F) (fields_enter_push S F) (fields_enter_abort S F)). reflexivity.
  Qed.

  Lemma rule_fragment_spreads_total : exists errs, rule_fragment_spreads repaired pi S F A = Done errs.
  Proof.
    rewrite rule_fragment_spreads_eq. eexists. apply finish_done.
    rewrite (inspect_doc_safe _ (spreads_enter_true pi repaired S F A) (spreads_enter_push pi repaired eq_refl S F A)
                              (spreads_enter_abort pi repaired eq_refl S F A)).
    generalize (pi _ (dedup (frag_names A))). intros l.
    assert (forall st, r_abort st = None -> r_abort (fold_left (cycle_step A pi) l st) = None) as H.
    { induction l as [|n l IH]; intros st Hst; [exact Hst |]. simpl. apply IH. unfold cycle_step.
      pose proof (cycle_search_total A pi Hpi n) as Ht.
      destruct (cycle_search pi A (graph_fuel A) n [n] []) as [[|]|]; [destruct (frag_last A n); exact Hst | exact Hst | contradiction]. }
    apply H. reflexivity.
  Qed.

  Lemma rule_variables_total : exists errs, rule_variables pi S A = Done errs.
  Proof.
    unfold rule_variables. eexists. apply finish_done.
    assert (forall l, incl l A -> forall st, r_abort st = None -> r_abort (fold_left (vars_op pi S A) l st) = None) as H.
    { induction l as [|d l IH]; intros Hl st Hst; [exact Hst |]. simpl.
      apply IH; [intros x Hx; apply Hl; right; exact Hx |].
      destruct d as [ot n vars dirs sub | kw n np cond dirs sub]; [| exact Hst].
      unfold vars_op. rewrite vars_inspect.
      change {| v_errs := []; v_enc := []; v_unval := []; v_val := [] |} with vst0.
      set (d := DOp ot n vars dirs sub).
      destruct (worklist_spec A vars d (Hl d (or_introl eq_refl)) pi Hpi (graph_fuel A) _ (inv_init A vars d)) as [st' [E _]].
      { rewrite vfold_val. unfold graph_fuel. simpl. lia. }
      fold (body0 d). rewrite E. exact Hst. }
    apply (H A (incl_refl A)). reflexivity.
  Qed.

  Theorem all_rules_total : exists errs, all_rules repaired pi S F A = Done errs.
  Proof.
    unfold all_rules, rule_document, rule_fragments, rule_arguments, rule_directives. cbn [fold_left].
    destruct rule_operations_total as [e1 ->]. destruct rule_fields_total as [e2 ->].
    destruct rule_fragment_spreads_total as [e4 ->]. rewrite rule_values_eq.
    destruct rule_variables_total as [e7 ->]. simpl. eexists. reflexivity.
  Qed.
End RulesTotal.

(** the repaired validator never panics and never runs out of fuel *)
Theorem validate_no_panic pi S F D :
  order_ok pi -> exists errs, validate_model repaired pi S F D = Done errs.
Proof.
  intros Hpi. unfold validate_model. rewrite type_info_pure.
  destruct (all_rules_total pi Hpi S F (pti_doc (q_unwrap_obj repaired) S F D)) as [errs ->]. eexists. reflexivity.
Qed.
