(** * Vld/ProofsMergeBridge.v — from the validator's field map back to the Spec's [collected]:
    whatever addFieldSelections files is a field written in a selection set reached from the one it
    was called on (with that set's annotation and position, under the field's response name), and
    such a field of an annotated selection set is the annotation of a field the Spec collects — with
    the parent the Spec pairs it with. *)
From Coq Require Import List NArith Arith Bool Lia.
From ApiFu Require Import Base.Sexp Vld.Ast Vld.AstInd Vld.TypeInfoModel Vld.TypeInfoPure Vld.Enumerate Vld.SpecEnum
     Vld.ValidatorModel Vld.ValidSpec Vld.ProofsCommon Vld.ProofsTotal Vld.ProofsDepth Vld.ProofsSpecReach Vld.ProofsVarsSpec Vld.ProofsCollect Vld.ProofsCollectEntries
     Vld.ProofsSpecCollect Vld.ProofsSubscription Vld.MemoEquiv Vld.ProofsMergeSpec Vld.ProofsSpecCollectP.
Import ListNotations.

(** ** what addFieldSelections adds *)
Definition from_or_oldx (m : fmap) (Q : name -> fp -> Prop) (m' : fmap) : Prop :=
  forall k l x, In (k, l) m' -> In x l -> (exists l0, In (k, l0) m /\ In x l0) \/ Q k x.

Lemma fmap_add_inx k0 x0 m k l x :
  In (k, l) (fmap_add k0 x0 m) -> In x l -> (x = x0 /\ k = k0) \/ exists l0, In (k, l0) m /\ In x l0.
Proof.
  induction m as [|[k' l'] r IH]; cbn [fmap_add].
  - intros [H | []] Hx. inversion H; subst. destruct Hx as [<- | []]. left. auto.
  - destruct (name_eqb k0 k') eqn:E.
    + apply name_eqb_eq in E. subst k'. intros [H | H] Hx.
      * inversion H; subst. apply in_app_or in Hx as [Hx | [<- | []]]; [right; exists l'; split; [left; reflexivity | exact Hx] | left; auto].
      * right. exists l. split; [right; exact H | exact Hx].
    + intros [H | H] Hx.
      * inversion H; subst. right. exists l. split; [left; reflexivity | exact Hx].
      * destruct (IH H Hx) as [E' | [l0 [H0 H1]]]; [left; exact E' | right; exists l0; split; [right; exact H0 | exact H1]].
Qed.

Lemma from_or_oldx_trans m m1 m2 (Q : name -> fp -> Prop) : from_or_oldx m Q m1 -> from_or_oldx m1 Q m2 -> from_or_oldx m Q m2.
Proof. intros H1 H2 k l x Hk Hx. destruct (H2 k l x Hk Hx) as [[l0 [Hk0 Hx0]] | Hp]; [apply (H1 k l0 x Hk0 Hx0) | right; exact Hp]. Qed.

Definition filed (A : document) (ss : selset) (k : name) (x : fp) : Prop :=
  k = response_name (fst3 x) /\ exists w, InCw A ss w (fst3 x) /\ snd (fst x) = ss_ann w /\ snd x = ss_pos w.

Lemma collect_InCw A fuel : forall m visited ss m' v',
  collect repaired A fuel m visited ss = COk m' v' -> from_or_oldx m (filed A ss) m'.
Proof.
  induction fuel as [|fuel IH]; intros m visited ss m' v' H; rewrite collect_unfold in H; [discriminate |].
  destruct ss as [a sels p]. destruct (pmem p visited).
  - cbn [q_revisit_ok repaired] in H. inversion H; subst. intros k l x Hk Hx. left. exists l. auto.
  - assert (forall l0 m0 v0 m1 v1, (forall s, In s l0 -> In s sels) ->
                                   collect_go A (collect repaired A fuel) a p l0 m0 v0 = COk m1 v1 -> from_or_oldx m0 (filed A (SelSet a sels p)) m1) as Hgo.
    { induction l0 as [|s r IHl]; intros m0 v0 m1 v1 Hl Hc.
      - cbn [collect_go] in Hc. inversion Hc; subst. intros k l x Hk Hx. left. exists l. auto.
      - cbn [collect_go] in Hc.
        assert (forall s', In s' r -> In s' sels) as Hr by (intros s' Hs'; apply Hl; right; exact Hs').
        assert (In s sels) as Hs by (apply Hl; left; reflexivity).
        destruct s as [a0 al n np args dirs sub | n np dirs e | cond dirs sub e].
        + apply (from_or_oldx_trans m0 (fmap_add (response_name (SField a0 al n np args dirs sub)) (SField a0 al n np args dirs sub, a, p) m0) m1).
          * intros k l x Hk Hx. destruct (fmap_add_inx _ _ _ _ _ _ Hk Hx) as [[-> ->] | H0]; [right | left; exact H0].
            split; [reflexivity |]. exists (SelSet a sels p). split; [apply InCw_here; [exact Hs | reflexivity] | split; reflexivity].
          * apply (IHl _ _ _ _ Hr Hc).
        + destruct (frag_last A n) as [d|] eqn:Ed; [| discriminate].
          destruct (collect repaired A fuel m0 v0 (def_sub d)) as [m2 v2 | e0 |] eqn:Ec; try discriminate.
          apply (from_or_oldx_trans m0 m2 m1).
          * intros k l x Hk Hx. destruct (IH _ _ _ _ _ Ec k l x Hk Hx) as [H0 | [Hk0 [w [Hw Ha]]]]; [left; exact H0 | right].
            split; [exact Hk0 |]. exists w. split; [apply (InCw_spread A a sels p n np dirs e d w _ Hs Ed Hw) | exact Ha].
          * apply (IHl _ _ _ _ Hr Hc).
        + destruct (collect repaired A fuel m0 v0 sub) as [m2 v2 | e0 |] eqn:Ec; try discriminate.
          apply (from_or_oldx_trans m0 m2 m1).
          * intros k l x Hk Hx. destruct (IH _ _ _ _ _ Ec k l x Hk Hx) as [H0 | [Hk0 [w [Hw Ha]]]]; [left; exact H0 | right].
            split; [exact Hk0 |]. exists w. split; [apply (InCw_inline A a sels p cond dirs sub e w _ Hs Hw) | exact Ha].
          * apply (IHl _ _ _ _ Hr Hc). }
    apply (Hgo sels m (p :: visited) m' v' (fun s Hs => Hs) H).
Qed.

(** ** a field of an annotated selection set is the annotation of a field the Spec collects *)
Section Back.
  Variable S : schema.
  Variable F : features.
  Variable D : document.
  Notation qo := (q_unwrap_obj repaired).
  Notation A := (pti_doc qo S F D).
  Hypothesis names_unique : NoDup (frag_names D).

  Lemma incw_incsp t w f' :
    InCw A t w f' -> forall par ss, t = pti_ss qo S F par ss ->
    exists g, InCSp S F D par ss g /\ f' = pti_sel qo S F (snd g) (fst g) /\ ss_ann w = snd g.
  Proof.
    intros H. induction H as [a sels p f Hf Hfld | a sels p c dirs sub e w f Hs _ IH | a sels p n np dirs e d w f Hs Hd _ IH];
      intros par [a0 sels0 p0] Ht; rewrite pti_ss_eq in Ht; inversion Ht; subst a sels p.
    - apply in_map_iff in Hf as [s0 [<- Hs0]]. exists (s0, par). cbn [fst snd ss_ann]. split; [| auto].
      apply InCSp_field; [exact Hs0 |]. rewrite <- (proj2 (pti_sel_pos qo S F par s0)). exact Hfld.
    - apply in_map_iff in Hs as [s0 [Heq Hs0]]. destruct s0 as [| | c0 dirs0 sub0 e0]; try (rewrite ?pti_sel_field_eq in Heq; discriminate Heq).
      rewrite pti_sel_inline_eq in Heq. inversion Heq; subst c e sub.
      destruct (IH (inline_scope S F par c0) sub0 eq_refl) as [g [Hg [Hf Ha]]]. exists g. split; [| auto].
      apply (InCSp_inline S F D par a0 sels0 p0 c0 dirs0 sub0 e0 g Hs0). rewrite sub_scope_inline. exact Hg.
    - apply in_map_iff in Hs as [s0 [Heq Hs0]]. destruct s0 as [| n0 np0 dirs0 e0 |]; try (rewrite ?pti_sel_field_eq, ?pti_sel_inline_eq in Heq; discriminate Heq).
      cbn [pti_sel] in Heq. inversion Heq; subst n0 np0 e0.
      rewrite frag_last_pti in Hd. destruct (frag_last D n) as [d0|] eqn:El; [| discriminate Hd]. cbn [option_map] in Hd. inversion Hd; subst d.
      destruct (IH (model_def_scope S F d0) (def_sub d0) (pti_def_sub qo S F d0)) as [g [Hg [Hf Ha]]]. exists g. split; [| auto].
      apply (InCSp_spread S F D par a0 sels0 p0 n np dirs0 e d0 g Hs0); [apply (frag_last_first D names_unique n d0 El) |].
      rewrite spec_def_scope_eq. exact Hg.
  Qed.
  (** together: whatever addFieldSelections files for an annotated selection set stands for a member of
      the Spec's [collected] list of that set — the annotated field, with the parent the Spec pairs it
      with, under the field's response name *)
  Theorem filed_collected par ss m m' v :
    add_selections repaired A m (Some (pti_ss qo S F par ss)) = COk m' v ->
    forall k l x, In (k, l) m' -> In x l ->
      (exists l0, In (k, l0) m /\ In x l0) \/
      (exists g, In g (collected S F D par ss) /\ fst3 x = pti_sel qo S F (snd g) (fst g) /\ snd (fst x) = snd g /\ k = response_name (fst3 x)).
  Proof.
    intros E k l x Hk Hx. unfold add_selections in E.
    destruct (collect_InCw A _ _ _ _ _ _ E k l x Hk Hx) as [H0 | [Hkey [w [Hw [Ha Hpos]]]]]; [left; exact H0 | right].
    destruct (incw_incsp _ w _ Hw par ss eq_refl) as [g [Hg [Hf Hann]]].
    exists g. split; [apply (collected_complete_p S F D _ _ g Hg) |]. split; [exact Hf |]. split; [rewrite Ha; exact Hann | exact Hkey].
  Qed.
End Back.
