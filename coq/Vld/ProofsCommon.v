(** * Vld/ProofsCommon.v — small facts shared by the rule proofs. *)
From Coq Require Import List NArith Bool Permutation.
From ApiFu Require Import Base.Sexp Vld.Ast Vld.Inspect Vld.InspectProofs Vld.TypeInfoModel Vld.ValidatorModel Vld.ValidSpec.
Import ListNotations.

(** a Go map range visits every entry exactly once *)
Definition order_ok (pi : order) : Prop := forall (A : Type) (l : list A), Permutation (pi A l) l.
Lemma id_order_ok : order_ok id_order.
Proof. intros A l. apply Permutation_refl. Qed.
Lemma rev_order_ok : order_ok rev_order.
Proof. intros A l. apply Permutation_sym, Permutation_rev. Qed.

Lemma order_in pi (Hpi : order_ok pi) {A} (l : list A) x : In x (pi A l) <-> In x l.
Proof. split; apply Permutation_in; [apply Hpi | apply Permutation_sym, Hpi]. Qed.

(** primary errors *)
Definition primary (l : list verror) : list verror := filter (fun e => negb (e_sec e)) l.
Lemma primary_app a b : primary (a ++ b) = primary a ++ primary b.
Proof. apply filter_app. Qed.
Lemma primary_flat_map {A} (f : A -> list verror) l : primary (flat_map f l) = flat_map (fun x => primary (f x)) l.
Proof. induction l as [|x l IH]; [reflexivity |]. simpl. rewrite primary_app, IH. reflexivity. Qed.
Lemma primary_nil_of_nil l : l = [] -> primary l = [].
Proof. intros ->. reflexivity. Qed.

Lemma name_eqb_eq a b : name_eqb a b = true <-> a = b.
Proof. apply bytes_eqb_eq. Qed.
Lemma name_eqb_refl a : name_eqb a a = true.
Proof. apply bytes_eqb_refl. Qed.
Lemma name_eqb_neq a b : name_eqb a b = false <-> a <> b.
Proof.
  split.
  - intros H E. subst. rewrite name_eqb_refl in H. discriminate.
  - intros H. destruct (name_eqb a b) eqn:E; [apply name_eqb_eq in E; contradiction | reflexivity].
Qed.
Lemma name_eqb_sym a b : name_eqb a b = name_eqb b a.
Proof.
  destruct (name_eqb a b) eqn:E.
  - apply name_eqb_eq in E. subst. symmetry. apply name_eqb_refl.
  - symmetry. apply name_eqb_neq. apply name_eqb_neq in E. congruence.
Qed.

Lemma mem_in k l : mem k l = true <-> In k l.
Proof.
  unfold mem. rewrite existsb_exists. split.
  - intros [x [Hx He]]. apply name_eqb_eq in He. subst. assumption.
  - intros H. exists k. split; [assumption | apply name_eqb_refl].
Qed.
Lemma mem_false k l : mem k l = false <-> ~ In k l.
Proof. rewrite <- mem_in. destruct (mem k l); split; congruence. Qed.

Lemma assoc_app {A} k (a b : list (name * A)) :
  assoc k (a ++ b) = match assoc k a with Some v => Some v | None => assoc k b end.
Proof. induction a as [|[k' v] a IH]; [reflexivity |]. simpl. destruct (name_eqb k k'); [reflexivity | apply IH]. Qed.

Lemma assoc_in {A} k (l : list (name * A)) v : assoc k l = Some v -> In (k, v) l.
Proof.
  induction l as [|[k' v'] l IH]; [discriminate |]. simpl. destruct (name_eqb k k') eqn:E.
  - intros H. inversion H; subst. apply name_eqb_eq in E. subst. left. reflexivity.
  - intros H. right. apply IH. exact H.
Qed.
Lemma assoc_some_iff {A} k (l : list (name * A)) : (exists v, assoc k l = Some v) <-> In k (map fst l).
Proof.
  induction l as [|[k' v'] l IH]; simpl.
  - split; [intros [v H]; discriminate | intros []].
  - destruct (name_eqb k k') eqn:E.
    + apply name_eqb_eq in E. subst. split; [intros _; left; reflexivity | intros _; eexists; reflexivity].
    + rewrite IH. apply name_eqb_neq in E. split; [intros H; right; assumption | intros [H | H]; [congruence | assumption]].
Qed.

Lemma nodupb_NoDup l : nodupb l = true <-> NoDup l.
Proof.
  induction l as [|x l IH]; simpl.
  - split; [intros _; constructor | reflexivity].
  - rewrite andb_true_iff, negb_true_iff, mem_false, IH. split.
    + intros [H1 H2]. constructor; assumption.
    + intros H. inversion H; subst. split; assumption.
Qed.

Lemma Done_nil_iff l : Done l = Done [] <-> l = [].
Proof. split; [intros H; inversion H; reflexivity | intros ->; reflexivity]. Qed.
