(** * Vld/ProofsFragDecl.v — validateFragmentDeclarations finds nothing iff 5.5.1.1 – 5.5.1.4 hold. *)
From Coq Require Import List NArith Bool Lia Permutation.
From ApiFu Require Import Base.Sexp Vld.Ast Vld.AstInd Vld.Inspect Vld.InspectProofs Vld.TypeInfoModel Vld.TypeInfoPure
     Vld.Enumerate Vld.SpecEnum Vld.ValidatorModel Vld.ValidSpec Vld.ProofsCommon Vld.ProofsDirectives.
Import ListNotations.

Section FragDecl.
  Variable pi : order.
  Hypothesis Hpi : order_ok pi.
  Variable S : schema.
  Variable F : features.

  Definition cond_ok (c : name) : bool :=
    match type_of S F c with Some b => is_composite_body b | None => false end.

  Lemma type_condition_nil tc : type_condition S F tc = [] <-> cond_ok (fst tc) = true.
  Proof.
    unfold type_condition, cond_ok, type_of. destruct (named_type S F (fst tc)) as [b|]; [| split; discriminate].
    destruct (is_composite_body b); split; try reflexivity; discriminate.
  Qed.

  Definition frag_conds (A : document) : list name :=
    flat_map (fun d => match d with DFrag _ _ _ (c, _) _ _ => [c] | _ => [] end) A.

  (** the first loop: errors iff a duplicate name or a bad type condition; the names recorded *)
  Lemma frag_decls_spec A : forall by_name errs by',
    frag_decls S F A by_name = (errs, by') ->
    (errs = [] <-> (forall n, In n (frag_names A) -> assoc n by_name = None) /\ nodupb (frag_names A) = true
                   /\ forallb cond_ok (frag_conds A) = true)
    /\ (forall n, In n (map fst by') <-> In n (map fst by_name) \/ In n (frag_names A)).
  Proof.
    induction A as [|d r IH]; intros by_name errs by' H; simpl in H.
    - inversion H; subst. split.
      + split; [intros _; repeat split; intros ? [] | reflexivity].
      + intros n. simpl. tauto.
    - destruct d as [ot on vars dirs sub | kw n np [c cp] dirs sub].
      + apply IH in H. exact H.
      + change (frag_names (DFrag kw n np (c, cp) dirs sub :: r)) with (n :: frag_names r).
        change (frag_conds (DFrag kw n np (c, cp) dirs sub :: r)) with (c :: frag_conds r).
        destruct (assoc n by_name) as [prev|] eqn:Eb.
        * destruct (frag_decls S F r by_name) as [e b] eqn:Er. inversion H; subst. clear H.
          destruct (IH _ _ _ Er) as [_ Hby]. split.
          -- split; [discriminate |]. intros [H1 _]. specialize (H1 n (or_introl eq_refl)). congruence.
          -- intros m. rewrite Hby. simpl. split; [tauto |]. intros [H | [<- | H]]; try tauto.
             left. apply assoc_some_iff. eauto.
        * destruct (frag_decls S F r (by_name ++ [(n, DFrag kw n np (c, cp) dirs sub)])) as [e b] eqn:Er.
          inversion H; subst. clear H. destruct (IH _ _ _ Er) as [Hnil Hby]. split.
          -- split.
             ++ intros H. apply app_eq_nil in H as [H1 H2]. apply (type_condition_nil (c, cp)) in H1. simpl in H1.
                apply Hnil in H2 as [H2 [H3 H4]]. split; [| split].
                ** intros m [<- | Hm]; [exact Eb |]. specialize (H2 m Hm). rewrite assoc_app in H2.
                   destruct (assoc m by_name); [discriminate | reflexivity].
                ** simpl. apply andb_true_iff. split; [| exact H3]. apply negb_true_iff, mem_false. intros Hin.
                   specialize (H2 n Hin). rewrite assoc_app, Eb in H2. simpl in H2. rewrite name_eqb_refl in H2. discriminate.
                ** simpl. rewrite H1, H4. reflexivity.
             ++ intros [H1 [H2 H3]]. simpl in H2, H3. apply andb_true_iff in H2 as [H2 H2'], H3 as [H3 H3'].
                apply negb_true_iff, mem_false in H2.
                assert (type_condition S F (c, cp) = []) as -> by (apply type_condition_nil; exact H3).
                simpl. apply Hnil. split; [| split; assumption].
                intros m Hm. rewrite assoc_app, (H1 m (or_intror Hm)). simpl.
                destruct (name_eqb m n) eqn:E; [| reflexivity]. apply name_eqb_eq in E. subst. contradiction.
          -- intros m. rewrite Hby, map_app. simpl. rewrite in_app_iff. simpl. tauto.
  Qed.

  Definition decl_fe (n : node) : list verror :=
    match n with NSel (SInline (Some tc) _ _ _) => type_condition S F tc | _ => [] end.
  Definition decl_fu (n : node) : list name :=
    match n with NSel (SSpread fname _ _ _) => [fname] | _ => [] end.

  Lemma decl_enter_eq e u n : decl_enter S F (e, u) n = ((e ++ decl_fe n, decl_fu n ++ u), true).
  Proof.
    unfold decl_enter, decl_fe, decl_fu. destruct n; try (simpl; rewrite app_nil_r; reflexivity).
    destruct s as [a al n np args dirs sub | n np dirs e' | [tc|] dirs sub e']; simpl; rewrite ?app_nil_r; reflexivity.
  Qed.

  Lemma frag_names_pti qo D : frag_names (pti_doc qo S F D) = frag_names D.
  Proof. induction D as [|d r IH]; [reflexivity |]. destruct d; simpl; rewrite ?IH; reflexivity. Qed.
  Lemma frag_conds_pti qo D : frag_conds (pti_doc qo S F D) = frag_conds D.
  Proof. induction D as [|d r IH]; [reflexivity |]. destruct d as [| ? ? ? [c cp] ? ?]; simpl; rewrite ?IH; reflexivity. Qed.

  Variable D : document.
  Notation qo := (q_unwrap_obj repaired).
  Notation A := (pti_doc qo S F D).

  (** the selections of the Spec are the selection nodes of the traversal *)
  Lemma sel_node_iff x :
    In (NSel x) (tree_nodes (tree_doc A)) <->
    exists d sc s0, In d D /\ In (sc, s0) (ssels_ss S F (model_def_scope S F d) (def_sub d)) /\ x = pti_sel qo S F sc s0.
  Proof.
    rewrite doc_nodes. split.
    - intros [H | [d [Hd [H | [[sc [ss0 [_ H]]] | [sc [s0 [Hin H]]]]]]]]; try discriminate.
      + apply def_own_nodes_minor in H as [H | H]; discriminate.
      + apply own_nodes_minor in H as [H | H]; [| discriminate]. inversion H; subst. exists d, sc, s0. auto.
    - intros [d [sc [s0 [Hd [Hin ->]]]]]. right. exists d. split; [assumption |]. right. right.
      exists sc, s0. split; [assumption | left; reflexivity].
  Qed.

  Lemma in_all_sels s0 :
    In s0 (all_sels D) <-> exists d sc, In d D /\ In (sc, s0) (ssels_ss S F (model_def_scope S F d) (def_sub d)).
  Proof.
    unfold all_sels. rewrite in_flat_map. split.
    - intros [d [Hd H]]. rewrite <- (proj2 (ssels_sels S F) (def_sub d) (model_def_scope S F d)) in H.
      apply in_map_iff in H as [[sc s] [Heq H]]. simpl in Heq. subst s. exists d, sc. auto.
    - intros [d [sc [Hd H]]]. exists d. split; [assumption |].
      rewrite <- (proj2 (ssels_sels S F) (def_sub d) (model_def_scope S F d)). apply (in_map snd) in H. exact H.
  Qed.

  Definition valid_5_5_1 : bool :=
    valid_5_5_1_1 D && valid_5_5_1_2 S F D && valid_5_5_1_3 S F D && valid_5_5_1_4 D.

  Lemma type_conditions_split : type_conditions D = frag_conds D ++ flat_map (fun s => match s with SInline (Some (c, _)) _ _ _ => [c] | _ => [] end) (all_sels D).
  Proof. reflexivity. Qed.

  Theorem rule_fragment_declarations_iff :
    rule_fragment_declarations pi S F A = [] <-> valid_5_5_1 = true.
  Proof.
    unfold rule_fragment_declarations.
    destruct (frag_decls S F A []) as [e1 by_name] eqn:Ed.
    destruct (frag_decls_spec _ _ _ _ Ed) as [Hnil Hby].
    destruct (inspect_pair _ _ decl_fe decl_fu _ decl_enter_eq (tree_doc A) e1 []) as [used [Ei Hused]].
    rewrite Ei.
    assert (forall n, In n used <-> In n (spread_names D)) as Hspread.
    { intros n. rewrite Hused. unfold spread_names. rewrite in_flat_map. split.
      - intros [[] | [m [Hm Hn]]]. destruct m as [| | | | | | | |x| | |]; try (simpl in Hn; destruct Hn; fail).
        destruct x as [| fname np dirs e |]; simpl in Hn; [destruct Hn | | destruct Hn]. destruct Hn as [Heq | []]. subst n.
        apply sel_node_iff in Hm as [d [sc [s0 [Hd [Hin Hx]]]]]. destruct s0 as [| fname0 np0 dirs0 e0 |]; try discriminate.
        inversion Hx; subst. exists (SSpread fname0 np0 dirs0 e0). split; [| left; reflexivity].
        apply in_all_sels. exists d, sc. auto.
      - intros [s0 [Hs Hn]]. destruct s0 as [| fname np dirs e |]; simpl in Hn; [destruct Hn | | destruct Hn]. destruct Hn as [Heq | []]. subst n.
        right. apply in_all_sels in Hs as [d [sc [Hd Hin]]].
        exists (NSel (pti_sel qo S F sc (SSpread fname np dirs e))). split; [| left; reflexivity].
        apply sel_node_iff. exists d, sc, (SSpread fname np dirs e). auto. }
    assert (flat_map decl_fe (tree_nodes (tree_doc A)) = [] <->
            forallb cond_ok (flat_map (fun s => match s with SInline (Some (c, _)) _ _ _ => [c] | _ => [] end) (all_sels D)) = true) as Hinline.
    { rewrite flat_map_nil_iff, forallb_forall. split.
      - intros H c Hc. apply in_flat_map in Hc as [s0 [Hs Hc]].
        destruct s0 as [| | [[c0 cp]|] dirs sub e]; simpl in Hc; try (destruct Hc; fail). destruct Hc as [Heq | []]. subst c.
        apply in_all_sels in Hs as [d [sc [Hd Hin]]].
        assert (In (NSel (pti_sel qo S F sc (SInline (Some (c0, cp)) dirs sub e))) (tree_nodes (tree_doc A))) as Hnode
            by (apply sel_node_iff; exists d, sc, (SInline (Some (c0, cp)) dirs sub e); auto).
        specialize (H _ Hnode). rewrite pti_sel_inline_eq in H. apply (type_condition_nil (c0, cp)). exact H.
      - intros H m Hm. destruct m as [| | | | | | | |x| | |]; try reflexivity.
        destruct x as [| | [tc|] dirs sub e]; try reflexivity. simpl.
        apply sel_node_iff in Hm as [d [sc [s0 [Hd [Hin Hx]]]]]. destruct s0 as [| | cond0 dirs0 sub0 e0]; try discriminate.
        rewrite pti_sel_inline_eq in Hx. inversion Hx; subst. apply type_condition_nil. apply H.
        apply in_flat_map. exists (SInline (Some tc) dirs0 sub0 e0). split; [apply in_all_sels; exists d, sc; auto |].
        destruct tc as [c cp]. left. reflexivity. }
    unfold valid_5_5_1, valid_5_5_1_1, valid_5_5_1_2, valid_5_5_1_3, valid_5_5_1_4.
    rewrite frag_names_pti, frag_conds_pti in Hnil. rewrite frag_names_pti in Hby.
    rewrite !andb_true_iff. split.
    - intros H. apply app_eq_nil in H as [H1 H2]. apply app_eq_nil in H1 as [H0 H1].
      apply Hnil in H0 as [_ [Hn Hc]]. apply Hinline in H1.
      assert (forallb cond_ok (type_conditions D) = true) as Hall
          by (rewrite type_conditions_split, forallb_app, Hc, H1; reflexivity).
      rewrite forallb_forall in Hall. repeat split.
      + exact Hn.
      + apply forallb_forall. intros c Hc'. specialize (Hall c Hc'). unfold cond_ok in Hall. destruct (type_of S F c); [reflexivity | discriminate].
      + apply forallb_forall. intros c Hc'. specialize (Hall c Hc'). unfold cond_ok in Hall. destruct (type_of S F c); [exact Hall | reflexivity].
      + apply forallb_forall. intros n Hn'. apply mem_in, Hspread.
        rewrite flat_map_nil_iff in H2.
        assert (In n (map fst by_name)) as Hin by (apply Hby; right; exact Hn').
        apply in_map_iff in Hin as [[n' d] [Heq Hin]]. simpl in Heq. subst n'.
        specialize (H2 (n, d) (proj2 (order_in pi Hpi _ _) Hin)). simpl in H2.
        destruct (mem n used) eqn:Em; [apply mem_in; exact Em | discriminate].
    - intros [[[H1 H2] H3] H4].
      assert (forallb cond_ok (type_conditions D) = true) as Hall.
      { rewrite forallb_forall in *. intros c Hc. specialize (H2 c Hc). specialize (H3 c Hc). unfold cond_ok.
        destruct (type_of S F c); [exact H3 | discriminate]. }
      rewrite type_conditions_split, forallb_app in Hall. apply andb_true_iff in Hall as [Hc Hi].
      assert (e1 = []) as -> by (apply Hnil; split; [intros; reflexivity | split; [exact H1 | exact Hc]]).
      rewrite (proj2 Hinline Hi). simpl. apply flat_map_nil_iff. intros [n d] Hnd. simpl.
      apply (proj1 (order_in pi Hpi _ _)) in Hnd.
      assert (In n (frag_names D)) as Hn.
      { assert (In n (map fst by_name)) as Hin by (apply in_map_iff; exists (n, d); split; [reflexivity | exact Hnd]).
        apply Hby in Hin as [[] | Hin]. exact Hin. }
      rewrite forallb_forall in H4. specialize (H4 n Hn). apply mem_in, Hspread, mem_in in H4. rewrite H4. reflexivity.
  Qed.
End FragDecl.
