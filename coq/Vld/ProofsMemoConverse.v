(** * Vld/ProofsMemoConverse.v — the checked-pairs memo never hides a conflict.

    After a run of the memoised overlapping-fields pass that reported nothing, the two sets of
    checked pairs are a CERTIFICATE: every pair in them passed its local checks, and each of its
    sub-pairs either has no sub-selections and passed its local checks, or is in the sets too
    ([CertS], [CertM] — closure properties of the final sets, whatever the order of the run and
    whether or not a pair was met again while being checked).  From a certificate, and fields whose
    chains of nested selections fit the depth bound ([Hle], ProofsDepth.v: true without a spread
    cycle), the plain pass answers "ok" by induction on the depth.

    A pair is identified by the positions of its two fields (Go: two *ast.Field pointers); hence the
    hypothesis [pos_inj]: two field occurrences of the document at the same position are the same
    occurrence (for parsed documents: C06_parse_pos_injective). *)
From Coq Require Import List NArith Arith Bool Lia Permutation.
From ApiFu Require Import Base.Sexp Vld.Ast Vld.AstInd Vld.Inspect Vld.InspectProofs Vld.TypeInfoModel Vld.TypeInfoPure
     Vld.ValidatorModel Vld.ProofsCommon Vld.ProofsCycles Vld.ProofsOrder Vld.ProofsTotal Vld.ProofsMemo Vld.ProofsDepth.
Import ListNotations.

Fixpoint AllPairs {A} (P : A -> A -> Prop) (l : list A) : Prop :=
  match l with
  | [] => True
  | x :: r => (forall y, In y r -> P x y) /\ AllPairs P r
  end.
Lemma AllPairs_impl {A} (P Q : A -> A -> Prop) l :
  (forall x y, In x l -> In y l -> P x y -> Q x y) -> AllPairs P l -> AllPairs Q l.
Proof.
  induction l as [|x r IH]; intros H; [exact (fun h => h) |]. intros [H1 H2]. split.
  - intros y Hy. apply H; [left; reflexivity | right; exact Hy | apply H1; exact Hy].
  - apply IH; [| exact H2]. intros a b Ha Hb. apply H; right; assumption.
Qed.
Lemma pairs_first_MOk {A} (f : A -> A -> mres) l : pairs_first f l = MOk <-> AllPairs (fun x y => f x y = MOk) l.
Proof.
  induction l as [|x r IH]; simpl; [tauto |].
  destruct (first_err (f x) r) eqn:E.
  - rewrite IH. pose proof (proj1 (first_err_ok (f x) r) E) as E'. split; [intros H; split; [exact E' | exact H] | tauto].
  - split; [discriminate |]. intros [H _]. pose proof (proj2 (first_err_ok (f x) r) H). congruence.
  - split; [discriminate |]. intros [H _]. pose proof (proj2 (first_err_ok (f x) r) H). congruence.
  - split; [discriminate |]. intros [H _]. pose proof (proj2 (first_err_ok (f x) r) H). congruence.
Qed.

Lemma pi_nil_nil pi (Hpi : order_ok pi) {A} : pi A [] = [].
Proof. apply Permutation_nil. apply Permutation_sym. apply (Hpi A []). Qed.

(** ** threading a monotone invariant through the loops *)
Section Thread.
  Variable R : memo -> memo -> Prop.
  Hypothesis R_refl : forall mm, R mm mm.
  Hypothesis R_trans : forall a b c, R a b -> R b c -> R a c.

  Lemma first_err_m_thread {A} (g : A -> memo -> mres * memo) (P : A -> memo -> Prop) l :
    (forall x mm mm', P x mm -> R mm mm' -> P x mm') ->
    (forall x, In x l -> forall mm mm', g x mm = (MOk, mm') -> R mm mm' /\ P x mm') ->
    forall mm mm', first_err_m g l mm = (MOk, mm') -> R mm mm' /\ forall x, In x l -> P x mm'.
  Proof.
    intros Pmono. induction l as [|x r IH]; intros Hg mm mm' H; simpl in H.
    - injection H as <-. split; [apply R_refl | intros x []].
    - destruct (g x mm) as [[| e | s |] mm1] eqn:E; try discriminate.
      destruct (Hg x (or_introl eq_refl) mm mm1 E) as [R1 P1].
      destruct (IH (fun y Hy => Hg y (or_intror Hy)) mm1 mm' H) as [R2 P2].
      split; [apply (R_trans _ _ _ R1 R2) |]. intros y [<- | Hy]; [apply (Pmono _ _ _ P1 R2) | apply P2; exact Hy].
  Qed.

  Lemma pairs_first_m_thread {A} (g : A -> A -> memo -> mres * memo) (P : A -> A -> memo -> Prop) l :
    (forall x y mm mm', P x y mm -> R mm mm' -> P x y mm') ->
    (forall x y, In x l -> In y l -> forall mm mm', g x y mm = (MOk, mm') -> R mm mm' /\ P x y mm') ->
    forall mm mm', pairs_first_m g l mm = (MOk, mm') -> R mm mm' /\ AllPairs (fun x y => P x y mm') l.
  Proof.
    intros Pmono. induction l as [|x r IH]; intros Hg mm mm' H; simpl in H.
    - injection H as <-. split; [apply R_refl | exact I].
    - destruct (first_err_m (g x) r mm) as [[| e | s |] mm1] eqn:E; try discriminate.
      destruct (first_err_m_thread (g x) (fun y m => P x y m) r (fun y m m' => Pmono x y m m')
                                   (fun y Hy => Hg x y (or_introl eq_refl) (or_intror Hy)) mm mm1 E) as [R1 P1].
      destruct (IH (fun a b Ha Hb => Hg a b (or_intror Ha) (or_intror Hb)) mm1 mm' H) as [R2 P2].
      split; [apply (R_trans _ _ _ R1 R2) |]. split; [| exact P2].
      intros y Hy. apply (Pmono _ _ _ _ (P1 y Hy) R2).
  Qed.
End Thread.

Section Converse.
  Variable pi : order.
  Hypothesis Hpi : order_ok pi.
  Variable q : quirks.
  Variable S : schema.
  Variable D : document.

  (** the field occurrences of the document, each with its parent selection set's annotation and position *)
  Definition occs : list fp :=
    flat_map (fun ss => match ss with SelSet a sels p => map (fun f => (f, a, p)) (filter is_fieldb sels) end) (all_subs D).
  Hypothesis pos_inj : forall x y, In x occs -> In y occs -> sel_pos (fst3 x) = sel_pos (fst3 y) -> x = y.

  Definition fm_occ (m : fmap) : Prop := forall k l x, In (k, l) m -> In x l -> In x occs.

  Lemma occ_sub x ss : In x occs -> sel_sub (fst3 x) = Some ss -> In ss (all_subs D).
  Proof.
    unfold occs. intros Hx Hs. apply in_flat_map in Hx as [[a sels p] [Hss Hx]]. apply in_map_iff in Hx as [f [<- Hf]].
    apply filter_In in Hf as [Hf _]. simpl in Hs. apply (subs_closed D a sels p f ss Hss Hf).
    destruct f; simpl in *; try discriminate; exact Hs.
  Qed.

  Lemma collect_occ fuel : forall m visited ss m' v',
    collect q D fuel m visited ss = COk m' v' -> In ss (all_subs D) -> fm_occ m -> fm_occ m'.
  Proof.
    induction fuel as [|fuel IH]; intros m visited ss m' v' H Hss Hm; rewrite collect_unfold in H; [discriminate |].
    destruct ss as [a sels p]. destruct (pmem p visited).
    - destruct (q_revisit_ok q); [| discriminate]. injection H as <- <-. exact Hm.
    - assert (forall l0 m0 v0 m1 v1, (forall s, In s l0 -> In s sels) -> fm_occ m0 ->
                                     collect_go D (collect q D fuel) a p l0 m0 v0 = COk m1 v1 -> fm_occ m1) as Hgo.
      { induction l0 as [|s r IHl]; intros m0 v0 m1 v1 Hl Hm0 Hc.
        - simpl in Hc. injection Hc as <- <-. exact Hm0.
        - cbn [collect_go] in Hc.
          assert (forall s', In s' r -> In s' sels) as Hr by (intros s' Hs'; apply Hl; right; exact Hs').
          assert (In s sels) as Hs by (apply Hl; left; reflexivity).
          destruct s as [a0 al n np args dirs sub | n np dirs e | cond dirs sub e].
          + apply (IHl _ _ _ _ Hr) in Hc; [exact Hc |].
            intros k l x Hk Hx. destruct (fmap_add_in _ _ _ _ _ _ Hk Hx) as [-> | [l0 [H0 H1]]]; [| apply (Hm0 k l0 x H0 H1)].
            unfold occs. apply in_flat_map. exists (SelSet a sels p). split; [exact Hss |].
            apply in_map_iff. exists (SField a0 al n np args dirs sub). split; [reflexivity | apply filter_In; split; [exact Hs | reflexivity]].
          + destruct (frag_last D n) as [d|] eqn:Ed; [| discriminate].
            destruct (collect q D fuel m0 v0 (def_sub d)) as [m2 v2 | e0 |] eqn:Ec; try discriminate.
            apply (IHl _ _ _ _ Hr) in Hc; [exact Hc |]. apply (IH _ _ _ _ _ Ec (frag_sub_in D n d Ed) Hm0).
          + destruct (collect q D fuel m0 v0 sub) as [m2 v2 | e0 |] eqn:Ec; try discriminate.
            apply (IHl _ _ _ _ Hr) in Hc; [exact Hc |].
            apply (IH _ _ _ _ _ Ec); [| exact Hm0]. apply (subs_closed D a sels p _ sub Hss Hs). reflexivity. }
      apply (Hgo sels m (p :: visited) m' v' (fun s Hs => Hs) Hm H).
  Qed.

  Lemma fm_occ_nil : fm_occ [].
  Proof. intros k l x []. Qed.

  (** the merged set of the sub-selections of two occurrences holds occurrences *)
  Lemma merged_occ x y m1 v1 m2 v2 :
    In x occs -> In y occs ->
    add_selections q D [] (sel_sub (fst3 x)) = COk m1 v1 -> add_selections q D m1 (sel_sub (fst3 y)) = COk m2 v2 -> fm_occ m2.
  Proof.
    intros Hx Hy E1 E2. unfold add_selections in *.
    assert (fm_occ m1) as H1.
    { destruct (sel_sub (fst3 x)) as [ss|] eqn:Es; [apply (collect_occ _ _ _ _ _ _ E1 (occ_sub x ss Hx Es) fm_occ_nil) | injection E1 as <- <-; exact fm_occ_nil]. }
    destruct (sel_sub (fst3 y)) as [ss|] eqn:Es; [apply (collect_occ _ _ _ _ _ _ E2 (occ_sub y ss Hy Es) H1) | injection E2 as <- <-; exact H1].
  Qed.

  (** ** validateSameResponseShape: the part decided at the two fields themselves *)
  Definition shape_head (A B : selection) : mres + unit :=
    match shape_type A with
    | inr e => inl (MErr e)
    | inl tA =>
        match shape_type B with
        | inr e => inl (MErr e)
        | inl tB =>
            match shape_loop tA tB with
            | inr k => inl (MErr (err2 k (sel_pos A) (sel_pos B)))
            | inl (a, b) =>
                if is_leaf_sty S a || is_leaf_sty S b
                then inl (if sty_eqb a b then MOk else MErr (err2 EShapeLeaf (sel_pos A) (sel_pos B)))
                else inr tt
            end
        end
    end.

  Lemma same_shape_unfold d A B :
    same_shape q pi S D (Datatypes.S d) A B =
    match shape_head A B with
    | inl r => r
    | inr _ =>
        match add_selections q D [] (sel_sub A) with
        | CErr e => MErr e
        | CFuel => MFuel
        | COk m1 _ =>
            match add_selections q D m1 (sel_sub B) with
            | CErr e => MErr e
            | CFuel => MFuel
            | COk m2 _ => first_err (fun g => pairs_first (fun x y => same_shape q pi S D d (fst3 x) (fst3 y)) (snd g)) (pi _ m2)
            end
        end
    end.
  Proof.
    cbn [same_shape]. unfold shape_head. destruct (shape_type A); [| reflexivity]. destruct (shape_type B); [| reflexivity].
    destruct (shape_loop s s0) as [[a b]|]; [| reflexivity]. destruct (is_leaf_sty S a || is_leaf_sty S b); reflexivity.
  Qed.

  Lemma same_shape_m_unfold d A B mm :
    same_shape_m q pi S D (Datatypes.S d) A B mm =
    let '(seen, ss') := already (snd mm) A B in
    if seen then (MOk, mm)
    else
      let mm1 : memo := (fst mm, ss') in
      match shape_head A B with
      | inl r => (r, mm1)
      | inr _ =>
          match add_selections q D [] (sel_sub A) with
          | CErr e => (MErr e, mm1)
          | CFuel => (MFuel, mm1)
          | COk m1 _ =>
              match add_selections q D m1 (sel_sub B) with
              | CErr e => (MErr e, mm1)
              | CFuel => (MFuel, mm1)
              | COk m2 _ => first_err_m (fun g => pairs_first_m (fun x y => same_shape_m q pi S D d (fst3 x) (fst3 y)) (snd g)) (pi _ m2) mm1
              end
          end
      end.
  Proof.
    cbn [same_shape_m]. destruct (already (snd mm) A B) as [seen ss']. destruct seen; [reflexivity |].
    unfold shape_head. destruct (shape_type A); [| reflexivity]. destruct (shape_type B); [| reflexivity].
    destruct (shape_loop s s0) as [[a b]|]; [| reflexivity]. destruct (is_leaf_sty S a || is_leaf_sty S b); reflexivity.
  Qed.

  (** ** the certificate for the sameResponseShape set *)
  Definition pm (A B : selection) (set : pairset) : Prop := pair_mem (sel_pos A) (sel_pos B) set = true.
  Definition sub_set (a b : pairset) : Prop := forall x y, pair_mem x y a = true -> pair_mem x y b = true.
  Definition subful (A B : selection) : bool := has_sub A || has_sub B.

  Definition Local0 (A B : selection) : Prop := match shape_head A B with inl r => r = MOk | inr _ => True end.
  Definition GoodS (A B : selection) (SS : pairset) : Prop := if subful A B then pm A B SS else Local0 A B.
  Definition LocalS (A B : selection) (SS : pairset) : Prop :=
    match shape_head A B with
    | inl r => r = MOk
    | inr _ => exists m1 v1 m2 v2,
        add_selections q D [] (sel_sub A) = COk m1 v1 /\ add_selections q D m1 (sel_sub B) = COk m2 v2 /\
        forall k l, In (k, l) m2 -> AllPairs (fun x y => GoodS (fst3 x) (fst3 y) SS) l
    end.
  Definition CertS (SS : pairset) : Prop :=
    forall x y, In x occs -> In y occs -> pm (fst3 x) (fst3 y) SS -> LocalS (fst3 x) (fst3 y) SS.
  Definition NewS (SS SS' : pairset) : Prop :=
    forall x y, In x occs -> In y occs -> pm (fst3 x) (fst3 y) SS' -> pm (fst3 x) (fst3 y) SS \/ LocalS (fst3 x) (fst3 y) SS'.

  Lemma GoodS_mono A B SS SS' : sub_set SS SS' -> GoodS A B SS -> GoodS A B SS'.
  Proof. unfold GoodS, pm. intros Hs. destruct (subful A B); [apply Hs | exact (fun h => h)]. Qed.
  Lemma LocalS_mono A B SS SS' : sub_set SS SS' -> LocalS A B SS -> LocalS A B SS'.
  Proof.
    unfold LocalS. intros Hs. destruct (shape_head A B); [exact (fun h => h) |].
    intros [m1 [v1 [m2 [v2 [E1 [E2 H]]]]]]. exists m1, v1, m2, v2. split; [exact E1 |]. split; [exact E2 |].
    intros k l Hk. apply (AllPairs_impl _ _ l (fun x y _ _ => GoodS_mono _ _ SS SS' Hs) (H k l Hk)).
  Qed.

  Lemma no_sub_none A : has_sub A = false -> sel_sub A = None.
  Proof. unfold has_sub. destruct (sel_sub A); [discriminate | reflexivity]. Qed.

  (** from a certificate: the plain check says ok *)
  Lemma plain_shape SS (Hcert : CertS SS) d : forall x y,
    In x occs -> In y occs -> Hle D d (fst3 x) -> Hle D d (fst3 y) -> GoodS (fst3 x) (fst3 y) SS ->
    same_shape q pi S D d (fst3 x) (fst3 y) = MOk.
  Proof.
    induction d as [|d IH]; intros x y Hx Hy HX HY Hg; [destruct HX |].
    rewrite same_shape_unfold.
    assert (match shape_head (fst3 x) (fst3 y) with
            | inl r => r = MOk
            | inr _ => exists m1 v1 m2 v2,
                add_selections q D [] (sel_sub (fst3 x)) = COk m1 v1 /\ add_selections q D m1 (sel_sub (fst3 y)) = COk m2 v2 /\
                forall k l, In (k, l) m2 -> AllPairs (fun a b => GoodS (fst3 a) (fst3 b) SS) l
            end) as Hl.
    { unfold GoodS in Hg. destruct (subful (fst3 x) (fst3 y)) eqn:Es.
      - apply (Hcert x y Hx Hy Hg).
      - unfold Local0 in Hg. destruct (shape_head (fst3 x) (fst3 y)); [exact Hg |].
        unfold subful in Es. apply orb_false_iff in Es as [E1 E2].
        rewrite (no_sub_none _ E1), (no_sub_none _ E2). exists [], [], [], []. repeat split. intros k l []. }
    destruct (shape_head (fst3 x) (fst3 y)); [exact Hl |].
    destruct Hl as [m1 [v1 [m2 [v2 [E1 [E2 Hp]]]]]]. rewrite E1, E2.
    apply first_err_ok. intros [k l] Hg'. apply (proj1 (order_in pi Hpi _ _)) in Hg'. simpl.
    apply pairs_first_MOk. apply (AllPairs_impl _ _ l) with (2 := Hp k l Hg'). intros a b Ha Hb Hgab.
    pose proof (merged_occ x y m1 v1 m2 v2 Hx Hy E1 E2) as Hocc.
    apply IH; [apply (Hocc k l a Hg' Ha) | apply (Hocc k l b Hg' Hb) | | | exact Hgab];
      apply (merged_Hle q D d (fst3 x) (fst3 y) m1 v1 m2 v2 HX HY E1 E2 k l); assumption.
  Qed.

  (** ** a successful memoised check leaves a certificate behind *)
  Definition RS (mm mm' : memo) : Prop :=
    fst mm' = fst mm /\ sub_set (snd mm) (snd mm') /\ NewS (snd mm) (snd mm').
  Lemma sub_set_refl a : sub_set a a.
  Proof. intros x y H. exact H. Qed.
  Lemma sub_set_trans a b c : sub_set a b -> sub_set b c -> sub_set a c.
  Proof. intros H1 H2 x y H. apply H2, H1, H. Qed.
  Lemma RS_refl mm : RS mm mm.
  Proof. split; [reflexivity |]. split; [apply sub_set_refl |]. intros x y _ _ H. left. exact H. Qed.
  Lemma RS_trans a b c : RS a b -> RS b c -> RS a c.
  Proof.
    intros [A1 [A2 A3]] [B1 [B2 B3]]. split; [congruence |]. split; [apply (sub_set_trans _ _ _ A2 B2) |].
    intros x y Hx Hy H. destruct (B3 x y Hx Hy H) as [H' | H']; [| right; exact H'].
    destruct (A3 x y Hx Hy H') as [H'' | H'']; [left; exact H'' | right; apply (LocalS_mono _ _ _ _ B2 H'')].
  Qed.

  Lemma pos_eqb_refl p : pos_eqb p p = true.
  Proof. apply pos_eqb_eq. reflexivity. Qed.
  Lemma pair_mem_cons a b c d set : pair_mem a b ((c, d) :: set) = (pos_eqb a c && pos_eqb b d) || pair_mem a b set.
  Proof. reflexivity. Qed.

  Lemma already_cases set A B :
    (subful A B = false /\ already set A B = (false, set)) \/
    (subful A B = true /\ pair_mem (sel_pos A) (sel_pos B) set = true /\ already set A B = (true, set)) \/
    (subful A B = true /\ pair_mem (sel_pos A) (sel_pos B) set = false /\ already set A B = (false, (sel_pos A, sel_pos B) :: set)).
  Proof.
    unfold already, subful. destruct (has_sub A); destruct (has_sub B); simpl;
      try (left; split; reflexivity);
      (destruct (pair_mem (sel_pos A) (sel_pos B) set); [right; left; repeat split; reflexivity | right; right; repeat split; reflexivity]).
  Qed.

  (** a pair of occurrences newly put into the set is the pair being checked *)
  Lemma new_pair_is x y a b set :
    In x occs -> In y occs -> In a occs -> In b occs ->
    pm (fst3 a) (fst3 b) ((sel_pos (fst3 x), sel_pos (fst3 y)) :: set) -> pm (fst3 a) (fst3 b) set \/ (a = x /\ b = y).
  Proof.
    unfold pm. intros Hx Hy Ha Hb H. rewrite pair_mem_cons in H. apply orb_true_iff in H as [H | H]; [| left; exact H].
    apply andb_true_iff in H as [H1 H2]. apply pos_eqb_eq in H1. apply pos_eqb_eq in H2. right.
    split; [apply (pos_inj a x Ha Hx H1) | apply (pos_inj b y Hb Hy H2)].
  Qed.

  Lemma memo_shape d : forall x y mm mm',
    In x occs -> In y occs ->
    same_shape_m q pi S D d (fst3 x) (fst3 y) mm = (MOk, mm') -> RS mm mm' /\ GoodS (fst3 x) (fst3 y) (snd mm').
  Proof.
    induction d as [|d IH]; intros x y [cm ss] mm' Hx Hy H.
    - simpl in H. destruct (q_depth q); discriminate.
    - rewrite same_shape_m_unfold in H. cbn [fst snd] in H.
      (* the loops over the merged sub-selections, from any state *)
      assert (forall m1 v1 m2 v2 mmA mmB,
                 add_selections q D [] (sel_sub (fst3 x)) = COk m1 v1 -> add_selections q D m1 (sel_sub (fst3 y)) = COk m2 v2 ->
                 first_err_m (fun g => pairs_first_m (fun a b => same_shape_m q pi S D d (fst3 a) (fst3 b)) (snd g)) (pi _ m2) mmA = (MOk, mmB) ->
                 RS mmA mmB /\ forall k l, In (k, l) m2 -> AllPairs (fun a b => GoodS (fst3 a) (fst3 b) (snd mmB)) l) as Hloops.
      { intros m1 v1 m2 v2 mmA mmB E1 E2 Hl.
        pose proof (merged_occ x y m1 v1 m2 v2 Hx Hy E1 E2) as Hocc.
        destruct (first_err_m_thread RS RS_refl RS_trans
                    (fun g => pairs_first_m (fun a b => same_shape_m q pi S D d (fst3 a) (fst3 b)) (snd g))
                    (fun g m => AllPairs (fun a b => GoodS (fst3 a) (fst3 b) (snd m)) (snd g)) (pi _ m2)) with (mm := mmA) (mm' := mmB) as [R1 P1].
        - intros g m m' Hp [_ [Hs _]]. apply (AllPairs_impl _ _ (snd g) (fun a b _ _ => GoodS_mono _ _ _ _ Hs) Hp).
        - intros [k l] Hg m m' Hc. apply (proj1 (order_in pi Hpi _ _)) in Hg. simpl in Hc |- *.
          apply (pairs_first_m_thread RS RS_refl RS_trans (fun a b => same_shape_m q pi S D d (fst3 a) (fst3 b))
                                      (fun a b m0 => GoodS (fst3 a) (fst3 b) (snd m0)) l) with (mm := m); [| | exact Hc].
          + intros a b m0 m0' Hp [_ [Hs _]]. apply (GoodS_mono _ _ _ _ Hs Hp).
          + intros a b Ha Hb m0 m0' Hc0. apply (IH a b m0 m0' (Hocc k l a Hg Ha) (Hocc k l b Hg Hb) Hc0).
        - exact Hl.
        - split; [exact R1 |]. intros k l Hk. apply (P1 (k, l)). apply (proj2 (order_in pi Hpi _ _)). exact Hk. }
      destruct (already_cases ss (fst3 x) (fst3 y)) as [[Hsub Hal] | [[Hsub [Hmem Hal]] | [Hsub [Hmem Hal]]]]; rewrite Hal in H.
      + (* no sub-selections: nothing is remembered *)
        assert (GoodS (fst3 x) (fst3 y) ss <-> Local0 (fst3 x) (fst3 y)) as Hg by (unfold GoodS; rewrite Hsub; tauto).
        unfold subful in Hsub. apply orb_false_iff in Hsub as [S1 S2].
        unfold Local0. destruct (shape_head (fst3 x) (fst3 y)) as [r | []] eqn:Eh.
        * injection H as -> <-. split; [apply RS_refl |]. apply Hg. unfold Local0. rewrite Eh. reflexivity.
        * rewrite (no_sub_none _ S1), (no_sub_none _ S2) in H. cbn [add_selections] in H. rewrite (pi_nil_nil pi Hpi) in H. simpl in H.
          injection H as <-. split; [apply RS_refl |]. apply Hg. unfold Local0. rewrite Eh. exact I.
      + (* met before *)
        injection H as <-. split; [apply RS_refl |]. unfold GoodS. rewrite Hsub. exact Hmem.
      + (* a new pair *)
        set (ss' := (sel_pos (fst3 x), sel_pos (fst3 y)) :: ss) in *.
        assert (sub_set ss ss') as Hss' by (intros a b Hab; unfold ss'; rewrite pair_mem_cons, Hab; apply orb_true_r).
        assert (pm (fst3 x) (fst3 y) ss') as Hhead by (unfold pm, ss'; rewrite pair_mem_cons, !pos_eqb_refl; reflexivity).
        assert (forall mmB, sub_set ss' (snd mmB) -> fst mmB = cm -> NewS ss' (snd mmB) -> LocalS (fst3 x) (fst3 y) (snd mmB) ->
                            RS (cm, ss) mmB /\ GoodS (fst3 x) (fst3 y) (snd mmB)) as Hfin.
        { intros mmB Hs Hf Hn Hloc. split.
          - split; [exact Hf |]. split; [apply (sub_set_trans _ _ _ Hss' Hs) |].
            intros a b Ha Hb Hab. destruct (Hn a b Ha Hb Hab) as [H' | H']; [| right; exact H'].
            destruct (new_pair_is x y a b ss Hx Hy Ha Hb H') as [H'' | [-> ->]]; [left; exact H'' | right; exact Hloc].
          - unfold GoodS. rewrite Hsub. apply Hs. exact Hhead. }
        destruct (shape_head (fst3 x) (fst3 y)) as [r | []] eqn:Eh.
        * injection H as -> <-. apply Hfin; [apply sub_set_refl | reflexivity | intros a b _ _ Hab; left; exact Hab |].
          unfold LocalS. rewrite Eh. reflexivity.
        * destruct (add_selections q D [] (sel_sub (fst3 x))) as [m1 v1 | e |] eqn:E1; try discriminate.
          destruct (add_selections q D m1 (sel_sub (fst3 y))) as [m2 v2 | e |] eqn:E2; try discriminate.
          destruct (Hloops m1 v1 m2 v2 (cm, ss') mm' eq_refl E2 H) as [[R1 [R2 R3]] Hp].
          apply Hfin; [exact R2 | exact R1 | exact R3 |].
          unfold LocalS. rewrite Eh. exists m1, v1, m2, v2. auto.
  Qed.

  (** ** validateFieldsInSetCanMerge: the part decided at the two fields themselves, after their shapes *)
  Definition pair_head (x y : fp) : mres + unit :=
    match snd (fst x) with
    | None => inl (MErr (sec ENoSelSetInfo (snd x)))
    | Some pa =>
        match snd (fst y) with
        | None => inl (MErr (sec ENoSelSetInfo (snd y)))
        | Some pb =>
            if name_eqb pa pb || negb (is_object_name S pa) || negb (is_object_name S pb) then
              if negb (name_eqb (sel_name (fst3 x)) (sel_name (fst3 y))) then
                inl (MErr (err2 EMergeNames (sel_npos (fst3 x)) (sel_npos (fst3 y))))
              else match args_check q (fst3 x) (fst3 y) with MOk => inr tt | other => inl other end
            else inl MOk
        end
    end.

  Lemma pair_check_unfold recur depth x y :
    pair_check q pi S D recur depth x y =
    match same_shape q pi S D depth (fst3 x) (fst3 y) with
    | MOk =>
        match pair_head x y with
        | inl r => r
        | inr _ =>
            match add_selections q D [] (sel_sub (fst3 x)) with
            | CErr e => MErr e
            | CFuel => MFuel
            | COk m1 _ =>
                match add_selections q D m1 (sel_sub (fst3 y)) with
                | CErr e => MErr e
                | CFuel => MFuel
                | COk m2 _ => recur m2
                end
            end
        end
    | other => other
    end.
  Proof.
    unfold pair_check, pair_head. destruct (same_shape q pi S D depth (fst3 x) (fst3 y)); try reflexivity.
    destruct (snd (fst x)); [| reflexivity]. destruct (snd (fst y)); [| reflexivity].
    destruct (name_eqb _ _ || _ || _); [| reflexivity]. destruct (negb _); [reflexivity |].
    destruct (args_check q (fst3 x) (fst3 y)); reflexivity.
  Qed.

  Lemma pair_check_m_unfold recur depth x y mm :
    pair_check_m q pi S D recur depth x y mm =
    let '(seen, cm') := already (fst mm) (fst3 x) (fst3 y) in
    if seen then (MOk, mm)
    else
      match same_shape_m q pi S D depth (fst3 x) (fst3 y) (cm', snd mm) with
      | (MOk, mm2) =>
          match pair_head x y with
          | inl r => (r, mm2)
          | inr _ =>
              match add_selections q D [] (sel_sub (fst3 x)) with
              | CErr e => (MErr e, mm2)
              | CFuel => (MFuel, mm2)
              | COk m1 _ =>
                  match add_selections q D m1 (sel_sub (fst3 y)) with
                  | CErr e => (MErr e, mm2)
                  | CFuel => (MFuel, mm2)
                  | COk m2 _ => recur m2 mm2
                  end
              end
          end
      | other => other
      end.
  Proof.
    unfold pair_check_m, pair_head. destruct (already (fst mm) (fst3 x) (fst3 y)) as [seen cm']. destruct seen; [reflexivity |].
    destruct (same_shape_m q pi S D depth (fst3 x) (fst3 y) (cm', snd mm)) as [[| e | s |] mm2]; try reflexivity.
    destruct (snd (fst x)); [| reflexivity]. destruct (snd (fst y)); [| reflexivity].
    destruct (name_eqb _ _ || _ || _); [| reflexivity]. destruct (negb _); [reflexivity |].
    destruct (args_check q (fst3 x) (fst3 y)); reflexivity.
  Qed.

  (** ** the certificate for the canMerge set *)
  Definition LocalM0 (x y : fp) (SS : pairset) : Prop :=
    GoodS (fst3 x) (fst3 y) SS /\ match pair_head x y with inl r => r = MOk | inr _ => True end.
  Definition GoodM (x y : fp) (CM SS : pairset) : Prop :=
    if subful (fst3 x) (fst3 y) then pm (fst3 x) (fst3 y) CM else LocalM0 x y SS.
  Definition TopGood (m : fmap) (CM SS : pairset) : Prop :=
    forall k l, In (k, l) m -> AllPairs (fun x y => GoodM x y CM SS) l.
  Definition LocalM (x y : fp) (CM SS : pairset) : Prop :=
    GoodS (fst3 x) (fst3 y) SS /\
    match pair_head x y with
    | inl r => r = MOk
    | inr _ => exists m1 v1 m2 v2,
        add_selections q D [] (sel_sub (fst3 x)) = COk m1 v1 /\ add_selections q D m1 (sel_sub (fst3 y)) = COk m2 v2 /\
        TopGood m2 CM SS
    end.
  Definition CertM (CM SS : pairset) : Prop :=
    forall x y, In x occs -> In y occs -> pm (fst3 x) (fst3 y) CM -> LocalM x y CM SS.
  Definition NewM (mm mm' : memo) : Prop :=
    forall x y, In x occs -> In y occs -> pm (fst3 x) (fst3 y) (fst mm') -> pm (fst3 x) (fst3 y) (fst mm) \/ LocalM x y (fst mm') (snd mm').

  Lemma GoodM_mono x y CM SS CM' SS' : sub_set CM CM' -> sub_set SS SS' -> GoodM x y CM SS -> GoodM x y CM' SS'.
  Proof.
    unfold GoodM, LocalM0, pm. intros H1 H2. destruct (subful (fst3 x) (fst3 y)); [apply H1 |].
    intros [G H]. split; [apply (GoodS_mono _ _ _ _ H2 G) | exact H].
  Qed.
  Lemma TopGood_mono m CM SS CM' SS' : sub_set CM CM' -> sub_set SS SS' -> TopGood m CM SS -> TopGood m CM' SS'.
  Proof. intros H1 H2 H k l Hk. apply (AllPairs_impl _ _ l (fun x y _ _ => GoodM_mono x y _ _ _ _ H1 H2) (H k l Hk)). Qed.
  Lemma LocalM_mono x y CM SS CM' SS' : sub_set CM CM' -> sub_set SS SS' -> LocalM x y CM SS -> LocalM x y CM' SS'.
  Proof.
    unfold LocalM. intros H1 H2 [G H]. split; [apply (GoodS_mono _ _ _ _ H2 G) |].
    destruct (pair_head x y); [exact H |]. destruct H as [m1 [v1 [m2 [v2 [E1 [E2 Ht]]]]]].
    exists m1, v1, m2, v2. split; [exact E1 |]. split; [exact E2 |]. apply (TopGood_mono _ _ _ _ _ H1 H2 Ht).
  Qed.

  (** from certificates: the plain pass says ok *)
  Lemma plain_merge CM SS (HS : CertS SS) (HM : CertM CM SS) d : forall m,
    fm_occ m -> fm_Hle D d m -> TopGood m CM SS -> can_merge q pi S D d m = MOk.
  Proof.
    induction d as [|d IH]; intros m Hocc Hh Ht.
    - cbn [can_merge]. apply first_err_ok. intros [k l] Hg. apply (proj1 (order_in pi Hpi _ _)) in Hg. simpl.
      apply pairs_first_MOk. apply (AllPairs_impl _ _ l) with (2 := Ht k l Hg). intros x y Hx _ _. destruct (Hh k l x Hg Hx).
    - cbn [can_merge]. apply first_err_ok. intros [k l] Hg. apply (proj1 (order_in pi Hpi _ _)) in Hg. simpl.
      apply pairs_first_MOk. apply (AllPairs_impl _ _ l) with (2 := Ht k l Hg). intros x y Hx Hy Hgm.
      pose proof (Hocc k l x Hg Hx) as Ox. pose proof (Hocc k l y Hg Hy) as Oy.
      pose proof (Hh k l x Hg Hx) as HX. pose proof (Hh k l y Hg Hy) as HY.
      assert (GoodS (fst3 x) (fst3 y) SS /\
              match pair_head x y with
              | inl r => r = MOk
              | inr _ => exists m1 v1 m2 v2,
                  add_selections q D [] (sel_sub (fst3 x)) = COk m1 v1 /\ add_selections q D m1 (sel_sub (fst3 y)) = COk m2 v2 /\ TopGood m2 CM SS
              end) as [Hgs Hl].
      { unfold GoodM in Hgm. destruct (subful (fst3 x) (fst3 y)) eqn:Es.
        - apply (HM x y Ox Oy Hgm).
        - destruct Hgm as [G H]. split; [exact G |]. destruct (pair_head x y); [exact H |].
          unfold subful in Es. apply orb_false_iff in Es as [E1 E2].
          rewrite (no_sub_none _ E1), (no_sub_none _ E2). exists [], [], [], []. repeat split. intros k0 l0 []. }
      rewrite pair_check_unfold. rewrite (plain_shape SS HS (Datatypes.S d) x y Ox Oy HX HY Hgs).
      destruct (pair_head x y); [exact Hl |].
      destruct Hl as [m1 [v1 [m2 [v2 [E1 [E2 Ht2]]]]]]. rewrite E1, E2.
      apply IH; [apply (merged_occ x y m1 v1 m2 v2 Ox Oy E1 E2) | | exact Ht2].
      intros k' l' z Hk' Hz. apply (merged_Hle q D d (fst3 x) (fst3 y) m1 v1 m2 v2 HX HY E1 E2 k' l' z Hk' Hz).
  Qed.

  (** ** a successful memoised canMerge leaves certificates behind *)
  Definition RM (mm mm' : memo) : Prop :=
    sub_set (fst mm) (fst mm') /\ sub_set (snd mm) (snd mm') /\ NewS (snd mm) (snd mm') /\ NewM mm mm'.
  Lemma NewS_trans a b c : sub_set b c -> NewS a b -> NewS b c -> NewS a c.
  Proof.
    intros Hbc A3 B3 x y Hx Hy H. destruct (B3 x y Hx Hy H) as [H' | H']; [| right; exact H'].
    destruct (A3 x y Hx Hy H') as [H'' | H'']; [left; exact H'' | right; apply (LocalS_mono _ _ _ _ Hbc H'')].
  Qed.
  Lemma RM_refl mm : RM mm mm.
  Proof. repeat split; try apply sub_set_refl; intros x y _ _ H; left; exact H. Qed.
  Lemma RM_trans a b c : RM a b -> RM b c -> RM a c.
  Proof.
    intros [A1 [A2 [A3 A4]]] [B1 [B2 [B3 B4]]]. split; [apply (sub_set_trans _ _ _ A1 B1) |]. split; [apply (sub_set_trans _ _ _ A2 B2) |].
    split; [apply (NewS_trans _ _ _ B2 A3 B3) |].
    intros x y Hx Hy H. destruct (B4 x y Hx Hy H) as [H' | H']; [| right; exact H'].
    destruct (A4 x y Hx Hy H') as [H'' | H'']; [left; exact H'' | right; apply (LocalM_mono _ _ _ _ _ _ B1 B2 H'')].
  Qed.
  Lemma RS_RM mm mm' : RS mm mm' -> RM mm mm'.
  Proof.
    intros [H1 [H2 H3]]. split; [rewrite H1; apply sub_set_refl |]. split; [exact H2 |]. split; [exact H3 |].
    intros x y _ _ H. left. rewrite H1 in H. exact H.
  Qed.

  Definition RecSpec (recur : fmap -> memo -> mres * memo) : Prop :=
    forall m mm mm', fm_occ m -> recur m mm = (MOk, mm') -> RM mm mm' /\ TopGood m (fst mm') (snd mm').

  Lemma memo_pair recur depth x y mm mm' :
    In x occs -> In y occs -> (depth = 0 \/ RecSpec recur) ->
    pair_check_m q pi S D recur depth x y mm = (MOk, mm') -> RM mm mm' /\ GoodM x y (fst mm') (snd mm').
  Proof.
    intros Hx Hy Hrec H. destruct mm as [cm ss]. rewrite pair_check_m_unfold in H. cbn [fst snd] in H.
    destruct (already_cases cm (fst3 x) (fst3 y)) as [[Hsub Hal] | [[Hsub [Hmem Hal]] | [Hsub [Hmem Hal]]]]; rewrite Hal in H; cbv beta iota zeta in H.
    - (* no sub-selections *)
      revert H. match goal with |- context [same_shape_m ?a ?b ?c ?d ?e ?f ?g ?h] => destruct (same_shape_m a b c d e f g h) as [mr mm2] eqn:Es end.
      intros H. destruct mr as [| e | s0 |]; try discriminate.
      destruct (memo_shape depth x y (cm, ss) mm2 Hx Hy Es) as [Rs Gs].
      assert (forall mmB, sub_set (snd mm2) (snd mmB) -> match pair_head x y with inl r => r = MOk | inr _ => True end -> GoodM x y (fst mmB) (snd mmB)) as Hgm.
      { intros mmB Hs Hh. unfold GoodM. rewrite Hsub. split; [apply (GoodS_mono _ _ _ _ Hs Gs) | exact Hh]. }
      destruct (pair_head x y) as [r | []] eqn:Eh.
      + assert (r = MOk) as -> by (exact (f_equal fst H)). assert (mm2 = mm') as <- by (exact (f_equal snd H)).
        split; [apply (RS_RM _ _ Rs) | apply Hgm; [apply sub_set_refl | reflexivity]].
      + unfold subful in Hsub. apply orb_false_iff in Hsub as [S1 S2].
        rewrite (no_sub_none _ S1), (no_sub_none _ S2) in H. cbn [add_selections] in H.
        destruct Hrec as [-> | Hrec]; [simpl in Es; destruct (q_depth q); discriminate |].
        destruct (Hrec [] mm2 mm' fm_occ_nil H) as [[R1 [R2 [R3 R4]]] _].
        split; [apply (RM_trans _ _ _ (RS_RM _ _ Rs)); repeat split; assumption | apply Hgm; [exact R2 | exact I]].
    - injection H as <-. split; [apply RM_refl |]. unfold GoodM. rewrite Hsub. exact Hmem.
    - (* a new pair *)
      set (cm' := (sel_pos (fst3 x), sel_pos (fst3 y)) :: cm) in *.
      assert (sub_set cm cm') as Hcm' by (intros a b Hab; unfold cm'; rewrite pair_mem_cons, Hab; apply orb_true_r).
      assert (pm (fst3 x) (fst3 y) cm') as Hhead by (unfold pm, cm'; rewrite pair_mem_cons, !pos_eqb_refl; reflexivity).
      revert H. match goal with |- context [same_shape_m ?a ?b ?c ?d ?e ?f ?g ?h] => destruct (same_shape_m a b c d e f g h) as [mr mm2] eqn:Es end.
      intros H. destruct mr as [| e | s0 |]; try discriminate.
      destruct (memo_shape depth x y (cm', ss) mm2 Hx Hy Es) as [[Rs1 [Rs2 Rs3]] Gs]. cbn [fst snd] in Rs1, Rs2, Rs3.
      assert (forall mmB, sub_set cm' (fst mmB) -> sub_set (snd mm2) (snd mmB) -> NewS (snd mm2) (snd mmB) ->
                          (forall a b, In a occs -> In b occs -> pm (fst3 a) (fst3 b) (fst mmB) -> pm (fst3 a) (fst3 b) cm' \/ LocalM a b (fst mmB) (snd mmB)) ->
                          LocalM x y (fst mmB) (snd mmB) ->
                          RM (cm, ss) mmB /\ GoodM x y (fst mmB) (snd mmB)) as Hfin.
      { intros mmB H1 H2 H3 H4 Hloc. split.
        - split; [apply (sub_set_trans _ _ _ Hcm' H1) |]. split; [apply (sub_set_trans _ _ _ Rs2 H2) |].
          split; [apply (NewS_trans _ _ _ H2 Rs3 H3) |].
          intros a b Ha Hb Hab. cbn [fst]. destruct (H4 a b Ha Hb Hab) as [H' | H']; [| right; exact H'].
          destruct (new_pair_is x y a b cm Hx Hy Ha Hb H') as [H'' | [-> ->]]; [left; exact H'' | right; exact Hloc].
        - unfold GoodM. rewrite Hsub. apply H1. exact Hhead. }
      destruct (pair_head x y) as [r | []] eqn:Eh.
      + assert (r = MOk) as -> by (exact (f_equal fst H)). assert (mm2 = mm') as <- by (exact (f_equal snd H)). apply Hfin.
        * rewrite Rs1. apply sub_set_refl.
        * apply sub_set_refl.
        * intros a b _ _ Hab. left. exact Hab.
        * intros a b _ _ Hab. left. rewrite Rs1 in Hab. exact Hab.
        * unfold LocalM. rewrite Eh. split; [exact Gs | reflexivity].
      + destruct (add_selections q D [] (sel_sub (fst3 x))) as [m1 v1 | e |] eqn:E1; try discriminate.
        destruct (add_selections q D m1 (sel_sub (fst3 y))) as [m2 v2 | e |] eqn:E2; try discriminate.
        destruct Hrec as [-> | Hrec]; [simpl in Es; destruct (already (snd (cm', ss)) (fst3 x) (fst3 y)); destruct (q_depth q); discriminate |].
        destruct (Hrec m2 mm2 mm' (merged_occ x y m1 v1 m2 v2 Hx Hy E1 E2) H) as [[R1 [R2 [R3 R4]]] Ht].
        apply Hfin.
        * rewrite <- Rs1. exact R1.
        * exact R2.
        * exact R3.
        * intros a b Ha Hb Hab. destruct (R4 a b Ha Hb Hab) as [H' | H']; [left; rewrite Rs1 in H'; exact H' | right; exact H'].
        * unfold LocalM. rewrite Eh. split; [apply (GoodS_mono _ _ _ _ R2 Gs) |]. exists m1, v1, m2, v2. auto.
  Qed.

  Lemma memo_merge d : RecSpec (can_merge_m q pi S D d).
  Proof.
    induction d as [|d IH]; intros m mm mm' Hocc H; cbn [can_merge_m] in H.
    - destruct (first_err_m_thread RM RM_refl RM_trans
                  (fun g => pairs_first_m (pair_check_m q pi S D (fun _ mm0 => (MOk, mm0)) 0) (snd g))
                  (fun g m0 => AllPairs (fun x y => GoodM x y (fst m0) (snd m0)) (snd g)) (pi _ m)) with (mm := mm) (mm' := mm') as [R1 P1].
      + intros g m0 m0' Hp [H1 [H2 _]]. apply (AllPairs_impl _ _ (snd g) (fun x y _ _ => GoodM_mono x y _ _ _ _ H1 H2) Hp).
      + intros [k l] Hg m0 m0' Hc. apply (proj1 (order_in pi Hpi _ _)) in Hg. simpl in Hc |- *.
        apply (pairs_first_m_thread RM RM_refl RM_trans (pair_check_m q pi S D (fun _ mm0 => (MOk, mm0)) 0)
                                    (fun x y m1 => GoodM x y (fst m1) (snd m1)) l) with (mm := m0); [| | exact Hc].
        * intros x y m1 m1' Hp [H1 [H2 _]]. apply (GoodM_mono x y _ _ _ _ H1 H2 Hp).
        * intros x y Hx Hy m1 m1' Hc1. apply (memo_pair _ 0 x y m1 m1' (Hocc k l x Hg Hx) (Hocc k l y Hg Hy) (or_introl eq_refl) Hc1).
      + exact H.
      + split; [exact R1 |]. intros k l Hk. apply (P1 (k, l)). apply (proj2 (order_in pi Hpi _ _)). exact Hk.
    - destruct (first_err_m_thread RM RM_refl RM_trans
                  (fun g => pairs_first_m (pair_check_m q pi S D (can_merge_m q pi S D d) (Datatypes.S d)) (snd g))
                  (fun g m0 => AllPairs (fun x y => GoodM x y (fst m0) (snd m0)) (snd g)) (pi _ m)) with (mm := mm) (mm' := mm') as [R1 P1].
      + intros g m0 m0' Hp [H1 [H2 _]]. apply (AllPairs_impl _ _ (snd g) (fun x y _ _ => GoodM_mono x y _ _ _ _ H1 H2) Hp).
      + intros [k l] Hg m0 m0' Hc. apply (proj1 (order_in pi Hpi _ _)) in Hg. simpl in Hc |- *.
        apply (pairs_first_m_thread RM RM_refl RM_trans (pair_check_m q pi S D (can_merge_m q pi S D d) (Datatypes.S d))
                                    (fun x y m1 => GoodM x y (fst m1) (snd m1)) l) with (mm := m0); [| | exact Hc].
        * intros x y m1 m1' Hp [H1 [H2 _]]. apply (GoodM_mono x y _ _ _ _ H1 H2 Hp).
        * intros x y Hx Hy m1 m1' Hc1. apply (memo_pair _ (Datatypes.S d) x y m1 m1' (Hocc k l x Hg Hx) (Hocc k l y Hg Hy) (or_intror IH) Hc1).
      + exact H.
      + split; [exact R1 |]. intros k l Hk. apply (P1 (k, l)). apply (proj2 (order_in pi Hpi _ _)). exact Hk.
  Qed.

  (** ** the whole second visitor of validateFields *)
  Lemma merge_enter_m_dirty' st n : ~ clean (fst st) -> ~ clean (fst (fst (merge_enter_m q pi S D st n))).
  Proof.
    intros H. unfold merge_enter_m. destruct n; try exact H.
    destruct (add_selections q D [] (Some s)) as [m v | e |]; [| apply add_errs_dirty; exact H | apply set_abort_dirty; exact H].
    destruct (can_merge_m q pi S D (max_depth D) m (snd st)) as [[| e | s0 |] mm]; cbn [fst];
      [exact H | apply add_errs_dirty; exact H | apply set_abort_dirty; exact H | apply set_abort_dirty; exact H].
  Qed.
  Lemma inspect_m_dirty t st : ~ clean (fst st) -> ~ clean (fst (inspect (merge_enter_m q pi S D) (fun s => s) t st)).
  Proof.
    apply (inspect_dirty (fun s : rst * memo => ~ clean (fst s)) (merge_enter_m q pi S D) (fun s => s) t merge_enter_m_dirty' (fun s H => H)).
  Qed.

  Definition node_good (mm : memo) (n : node) : Prop :=
    match n with
    | NSelSet ss => exists m v, add_selections q D [] (Some ss) = COk m v /\ TopGood m (fst mm) (snd mm)
    | _ => True
    end.
  Lemma node_good_mono mm mm' n : RM mm mm' -> node_good mm n -> node_good mm' n.
  Proof.
    intros [H1 [H2 _]]. destruct n; try exact (fun h => h). intros [m [v [E Ht]]]. exists m, v. split; [exact E | apply (TopGood_mono _ _ _ _ _ H1 H2 Ht)].
  Qed.

  Lemma merge_enter_m_selset st mm s :
    merge_enter_m q pi S D (st, mm) (NSelSet s) =
    match add_selections q D [] (Some s) with
    | CErr e => ((add_errs st [e], mm), false)
    | CFuel => ((set_abort st AFuel, mm), false)
    | COk m _ =>
        match can_merge_m q pi S D (max_depth D) m mm with
        | (MOk, mm1) => ((st, mm1), true)
        | (MErr e, _) => ((add_errs st [e], memo0), false)
        | (MPanic s0, _) => ((set_abort st (APanic s0), memo0), false)
        | (MFuel, _) => ((set_abort st AFuel, memo0), false)
        end
    end.
  Proof. reflexivity. Qed.

  Lemma inspect_memo_cert t : forall st mm,
    (forall ss, In (NSelSet ss) (tree_nodes t) -> In ss (all_subs D)) ->
    clean (fst (inspect (merge_enter_m q pi S D) (fun s => s) t (st, mm))) ->
    fst (inspect (merge_enter_m q pi S D) (fun s => s) t (st, mm)) = st /\
    RM mm (snd (inspect (merge_enter_m q pi S D) (fun s => s) t (st, mm))) /\
    forall n, In n (tree_nodes t) -> node_good (snd (inspect (merge_enter_m q pi S D) (fun s => s) t (st, mm))) n.
  Proof.
    induction t as [n cs IH] using tree_ind'. intros st mm Hsub Hc.
    (* the children, from any state *)
    assert (forall mm0,
               clean (fst (fold_left (fun a c => inspect (merge_enter_m q pi S D) (fun s => s) c a) cs (st, mm0))) ->
               fst (fold_left (fun a c => inspect (merge_enter_m q pi S D) (fun s => s) c a) cs (st, mm0)) = st /\
               RM mm0 (snd (fold_left (fun a c => inspect (merge_enter_m q pi S D) (fun s => s) c a) cs (st, mm0))) /\
               forall m, In m (flat_map tree_nodes cs) -> node_good (snd (fold_left (fun a c => inspect (merge_enter_m q pi S D) (fun s => s) c a) cs (st, mm0))) m) as Hfold.
    { assert (forall c, In c cs -> forall ss, In (NSelSet ss) (tree_nodes c) -> In ss (all_subs D)) as Hsubc.
      { intros c Hcin ss Hss. apply Hsub. right. apply in_flat_map. exists c. split; assumption. }
      clear Hsub Hc. induction IH as [|c cs' Hc0 _ IHcs]; intros mm0 Hcl.
      - simpl. split; [reflexivity |]. split; [apply RM_refl | intros m []].
      - cbn [fold_left] in *. destruct (inspect (merge_enter_m q pi S D) (fun s => s) c (st, mm0)) as [s1 m1] eqn:E1.
        assert (clean s1) as Hs1.
        { destruct (classic_clean s1) as [H | H]; [exact H |]. exfalso.
          assert (forall l s, ~ clean (fst s) -> ~ clean (fst (fold_left (fun a c0 => inspect (merge_enter_m q pi S D) (fun s0 => s0) c0 a) l s))) as Hd.
          { induction l as [|c1 l IHl]; intros s Hs; [exact Hs |]. simpl. apply IHl. apply inspect_m_dirty. exact Hs. }
          apply (Hd cs' (s1, m1) H). exact Hcl. }
        destruct (Hc0 st mm0 (Hsubc c (or_introl eq_refl))) as [C1 [C2 C3]]; [rewrite E1; exact Hs1 |]. rewrite E1 in C1, C2, C3. cbn [fst snd] in C1, C2, C3. subst s1.
        destruct (IHcs (fun c' Hc' => Hsubc c' (or_intror Hc')) m1 Hcl) as [F1 [F2 F3]].
        split; [exact F1 |]. split; [apply (RM_trans _ _ _ C2 F2) |].
        intros m Hm. apply in_app_or in Hm as [Hm | Hm]; [apply (node_good_mono _ _ _ F2 (C3 m Hm)) | apply (F3 m Hm)]. }
    cbn [inspect] in *.
    assert (forall mm1, RM mm mm1 -> node_good mm1 n ->
                        clean (fst (fold_left (fun a c => inspect (merge_enter_m q pi S D) (fun s => s) c a) cs (st, mm1))) ->
                        fst (fold_left (fun a c => inspect (merge_enter_m q pi S D) (fun s => s) c a) cs (st, mm1)) = st /\
                        RM mm (snd (fold_left (fun a c => inspect (merge_enter_m q pi S D) (fun s => s) c a) cs (st, mm1))) /\
                        forall m, In m (tree_nodes (T n cs)) -> node_good (snd (fold_left (fun a c => inspect (merge_enter_m q pi S D) (fun s => s) c a) cs (st, mm1))) m) as Hstep.
    { intros mm1 R1 G1 Hcl. destruct (Hfold mm1 Hcl) as [F1 [F2 F3]]. split; [exact F1 |]. split; [apply (RM_trans _ _ _ R1 F2) |].
      intros m [<- | Hm]; [apply (node_good_mono _ _ _ F2 G1) | apply (F3 m Hm)]. }
    destruct n; try (apply (Hstep mm (RM_refl mm) I Hc)).
    (* a selection set *)
    rewrite merge_enter_m_selset in Hc |- *. revert Hc Hstep.
    destruct (add_selections q D [] (Some s)) as [m v | e |] eqn:Ea; intros Hc Hstep.
    - assert (fm_occ m) as Hocc by (unfold add_selections in Ea; apply (collect_occ _ _ _ _ _ _ Ea (Hsub s (or_introl eq_refl)) fm_occ_nil)).
      revert Hc Hstep. destruct (can_merge_m q pi S D (max_depth D) m mm) as [[| e | s0 |] mm1] eqn:Ec; intros Hc Hstep.
      + destruct (memo_merge (max_depth D) m mm mm1 Hocc Ec) as [R1 Ht].
        apply (Hstep mm1 R1); [exists m, v; split; [exact Ea | exact Ht] | exact Hc].
      + exfalso. exact (add_errs_not_clean _ _ _ Hc).
      + exfalso. exact (set_abort_not_clean _ _ Hc).
      + exfalso. exact (set_abort_not_clean _ _ Hc).
    - exfalso. exact (add_errs_not_clean _ _ _ Hc).
    - exfalso. exact (set_abort_not_clean _ _ Hc).
  Qed.

  (** ** the memo never hides a conflict *)
  Theorem memo_converse_rule F :
    (forall ss f, In ss (all_subs D) -> InC D ss f -> Hle D (max_depth D) f) ->
    rule_fields_m q pi S F D = Done [] -> rule_fields q pi S F D = Done [].
  Proof.
    intros Hdepth. unfold rule_fields_m, rule_fields. rewrite !finish_clean. intros Hc.
    destruct (inspect_memo_cert (tree_doc D) (inspect (fields_enter S F) pop (tree_doc D) rst0) memo0 (selset_nodes_doc D) Hc) as [E1 [[_ [_ [HnS HnM]]] Hgood]].
    set (mmF := snd (inspect (merge_enter_m q pi S D) (fun s => s) (tree_doc D) (inspect (fields_enter S F) pop (tree_doc D) rst0, memo0))) in *.
    assert (CertS (snd mmF)) as HS.
    { intros x y Hx Hy H. destruct (HnS x y Hx Hy H) as [H' | H']; [discriminate H' | exact H']. }
    assert (CertM (fst mmF) (snd mmF)) as HM.
    { intros x y Hx Hy H. destruct (HnM x y Hx Hy H) as [H' | H']; [discriminate H' | exact H']. }
    rewrite (inspect_guard rst clean (merge_ok q S D pi) _ (merge_enter_ok q S D pi) (merge_enter_bad q S D pi)).
    split; [rewrite <- E1; exact Hc |].
    intros n Hn. specialize (Hgood n Hn). unfold merge_ok. destruct n; try reflexivity.
    destruct Hgood as [m [v [Ea Ht]]]. rewrite Ea.
    assert (In s (all_subs D)) as Hs by (apply selset_nodes_doc; exact Hn).
    rewrite (plain_merge (fst mmF) (snd mmF) HS HM (max_depth D) m); [reflexivity | | | exact Ht].
    - unfold add_selections in Ea. apply (collect_occ _ _ _ _ _ _ Ea Hs fm_occ_nil).
    - intros k l x Hk Hx. unfold add_selections in Ea. destruct (collect_InC q D _ _ _ _ _ _ Ea k l x Hk Hx) as [[l0 [[] _]] | Hin].
      apply (Hdepth s (fst3 x) Hs Hin).
  Qed.
End Converse.
