(** * Vld/InspectProofs.v — generic facts about [Inspect.inspect]. *)
From Coq Require Import List NArith Bool.
From ApiFu Require Import Base.Sexp Vld.Ast Vld.Inspect.
Import ListNotations.

Section TreeInd.
  Variable P : tree -> Prop.
  Hypothesis H : forall n cs, Forall P cs -> P (T n cs).
  Fixpoint tree_ind' (t : tree) : P t :=
    match t with
    | T n cs => H n cs ((fix go (l : list tree) : Forall P l :=
                           match l with
                           | [] => Forall_nil _
                           | x :: r => Forall_cons x (tree_ind' x) (go r)
                           end) cs)
    end.
End TreeInd.

(** the nodes a visitor sees when it refuses to descend beneath the nodes where [g] is false *)
Fixpoint vnodes (g : node -> bool) (t : tree) : list node :=
  match t with T n cs => n :: (if g n then flat_map (vnodes g) cs else []) end.

Lemma vnodes_true t : vnodes (fun _ => true) t = tree_nodes t.
Proof.
  induction t as [n cs IH] using tree_ind'. simpl. f_equal.
  induction IH as [|c cs Hc _ IHcs]; [reflexivity |]. simpl. rewrite Hc, IHcs. reflexivity.
Qed.

Lemma vnodes_incl g t n : In n (vnodes g t) -> In n (tree_nodes t).
Proof.
  revert n. induction t as [m cs IH] using tree_ind'. intros n. simpl.
  intros [-> | Hin]; [left; reflexivity | right].
  destruct (g m); [| destruct Hin].
  apply in_flat_map in Hin as [c [Hc Hn]]. apply in_flat_map. exists c. split; [assumption |].
  rewrite Forall_forall in IH. apply IH; assumption.
Qed.

Lemma vnodes_all g t : (forall n, In n (tree_nodes t) -> g n = true) -> vnodes g t = tree_nodes t.
Proof.
  induction t as [n cs IH] using tree_ind'. intros H. simpl. rewrite (H n (or_introl eq_refl)). f_equal.
  assert (forall c, In c cs -> vnodes g c = tree_nodes c) as Hc.
  { intros c Hc. rewrite Forall_forall in IH. apply (IH c Hc). intros m Hm. apply H. right.
    apply in_flat_map. exists c. split; assumption. }
  clear - Hc. induction cs as [|c cs IHcs]; [reflexivity |]. simpl.
  rewrite (Hc c (or_introl eq_refl)), IHcs; [reflexivity |]. intros c' Hc'. apply Hc. right. assumption.
Qed.

Lemma flat_map_nil_iff {A B} (f : A -> list B) l : flat_map f l = [] <-> forall x, In x l -> f x = [].
Proof.
  induction l as [|x l IH]; simpl; [split; [intros _ ? [] | reflexivity] |].
  split.
  - intros H. apply app_eq_nil in H as [H1 H2]. intros y [<- | Hy]; [assumption | apply IH; assumption].
  - intros H. rewrite (H x (or_introl eq_refl)). apply IH. intros y Hy. apply H. right. assumption.
Qed.

Section Accumulate.
  Variable E : Type.
  Variable f : node -> list E.
  Variable g : node -> bool.
  Variable enter : list E -> node -> list E * bool.
  Hypothesis enter_eq : forall st n, enter st n = (st ++ f n, g n).

  Lemma inspect_acc t st : inspect enter (fun s => s) t st = st ++ flat_map f (vnodes g t).
  Proof.
    revert st. induction t as [n cs IH] using tree_ind'. intros st.
    assert (forall acc, fold_left (fun a c => inspect enter (fun s => s) c a) cs acc
                        = acc ++ flat_map f (flat_map (vnodes g) cs)) as Hfold.
    { induction IH as [|c cs' Hc _ IHcs]; intros acc; simpl.
      - rewrite app_nil_r. reflexivity.
      - rewrite Hc, IHcs. rewrite flat_map_app, app_assoc. reflexivity. }
    simpl. rewrite enter_eq. destruct (g n).
    - rewrite Hfold, <- app_assoc. reflexivity.
    - simpl. rewrite app_nil_r. reflexivity.
  Qed.

  (** when the visitor only stops descending at nodes it complains about, it finds nothing iff
      no node of the whole tree makes it complain *)
  Hypothesis g_true : forall n, f n = [] -> g n = true.
  Lemma visit_nil_iff t : flat_map f (vnodes g t) = [] <-> (forall n, In n (tree_nodes t) -> f n = []).
  Proof.
    induction t as [n cs IH] using tree_ind'. simpl. split.
    - intros H. apply app_eq_nil in H as [Hn Hcs]. rewrite (g_true n Hn) in Hcs.
      intros m [<- | Hm]; [assumption |].
      apply in_flat_map in Hm as [c [Hc Hm]].
      rewrite Forall_forall in IH. apply (proj1 (IH c Hc)); [| assumption].
      clear - Hcs Hc. induction cs as [|c' cs IHcs]; [destruct Hc |].
      simpl in Hcs. rewrite flat_map_app in Hcs. apply app_eq_nil in Hcs as [H1 H2].
      destruct Hc as [-> | Hc]; [assumption | apply IHcs; assumption].
    - intros H. rewrite (H n (or_introl eq_refl)). simpl.
      rewrite (g_true n (H n (or_introl eq_refl))).
      assert (forall c, In c cs -> flat_map f (vnodes g c) = []) as Hc.
      { intros c Hc. rewrite Forall_forall in IH. apply (proj2 (IH c Hc)).
        intros m Hm. apply H. right. apply in_flat_map. exists c. split; assumption. }
      clear - Hc. induction cs as [|c cs IHcs]; [reflexivity |].
      simpl. rewrite flat_map_app, (Hc c (or_introl eq_refl)). simpl.
      apply IHcs. intros c' Hc'. apply Hc. right. assumption.
  Qed.
End Accumulate.

(** a visitor with two accumulators: errors (appended) and a set (consed), always descending *)
Section Pair.
  Variables (E U : Type).
  Variable fe : node -> list E.
  Variable fu : node -> list U.
  Variable enter : list E * list U -> node -> (list E * list U) * bool.
  Hypothesis enter_eq : forall e u n, enter (e, u) n = ((e ++ fe n, fu n ++ u), true).

  Lemma inspect_pair t : forall e u,
    exists u', inspect enter (fun s => s) t (e, u) = (e ++ flat_map fe (tree_nodes t), u') /\
               (forall x, In x u' <-> In x u \/ exists n, In n (tree_nodes t) /\ In x (fu n)).
  Proof.
    induction t as [n cs IH] using tree_ind'. intros e u.
    assert (forall e u, exists u', fold_left (fun a c => inspect enter (fun s => s) c a) cs (e, u)
                                    = (e ++ flat_map fe (flat_map tree_nodes cs), u') /\
                                   (forall x, In x u' <-> In x u \/ exists n, In n (flat_map tree_nodes cs) /\ In x (fu n))) as Hfold.
    { clear e u. induction IH as [|c cs' Hc _ IHcs]; intros e u; simpl.
      - exists u. split; [rewrite app_nil_r; reflexivity |]. intros x. split; [tauto | intros [H | [m [[] _]]]; exact H].
      - destruct (Hc e u) as [u1 [E1 M1]]. rewrite E1. destruct (IHcs (e ++ flat_map fe (tree_nodes c)) u1) as [u2 [E2 M2]].
        exists u2. split; [rewrite E2, flat_map_app, app_assoc; reflexivity |].
        intros x. rewrite M2, M1. split.
        + intros [[H | [m [Hm Hx]]] | [m [Hm Hx]]]; [tauto | |]; right; exists m; (split; [apply in_or_app | exact Hx]); tauto.
        + intros [H | [m [Hm Hx]]]; [tauto |]. apply in_app_or in Hm as [Hm | Hm]; [left; right | right]; exists m; tauto. }
    simpl. rewrite enter_eq. destruct (Hfold (e ++ fe n) (fu n ++ u)) as [u' [E' M']].
    exists u'. split; [rewrite E', <- app_assoc; reflexivity |].
    intros x. rewrite M'. rewrite in_app_iff. split.
    - intros [[H | H] | [m [Hm Hx]]]; [right; exists n; split; [left; reflexivity | exact H] | tauto | right; exists m; tauto].
    - intros [H | [m [[<- | Hm] Hx]]]; [tauto | tauto | right; exists m; tauto].
  Qed.
End Pair.

(** the same as [inspect_acc] for any state on which lists of errors act *)
Section AccumulateGen.
  Variables (St E : Type).
  Variable act : St -> list E -> St.
  Hypothesis act_nil : forall s, act s [] = s.
  Hypothesis act_app : forall s a b, act (act s a) b = act s (a ++ b).
  Variable f : node -> list E.
  Variable g : node -> bool.
  Variable enter : St -> node -> St * bool.
  Hypothesis enter_eq : forall st n, enter st n = (act st (f n), g n).

  Lemma inspect_acc_gen t st : inspect enter (fun s => s) t st = act st (flat_map f (vnodes g t)).
  Proof.
    revert st. induction t as [n cs IH] using tree_ind'. intros st.
    assert (forall acc, fold_left (fun a c => inspect enter (fun s => s) c a) cs acc
                        = act acc (flat_map f (flat_map (vnodes g) cs))) as Hfold.
    { induction IH as [|c cs' Hc _ IHcs]; intros acc; simpl.
      - rewrite act_nil. reflexivity.
      - rewrite Hc, IHcs, act_app, flat_map_app. reflexivity. }
    simpl. rewrite enter_eq. destruct (g n).
    - rewrite Hfold, act_app. reflexivity.
    - simpl. rewrite app_nil_r. reflexivity.
  Qed.
End AccumulateGen.
