(** * Vld/ProofsPossibleFields.v — conjunct (f) of C01's doc_ok: a field that is defined on the
    parent type of its selection set is defined on every object type a value at that position can
    have (the Spec's [possible]: the type itself, the visible object types that declare the
    interface, the members of the union). *)
From Coq Require Import List NArith Arith Bool Lia.
From ApiFu Require Import Base.Sexp Vld.Ast Vld.TypeInfoModel Vld.TypeInfoPure Vld.Enumerate Vld.SpecEnum Vld.ValidatorModel Vld.ValidSpec
     Vld.Hyps Vld.ProofsCommon Vld.ProofsFields Vld.ValidatorProofs Vld.ProofsSecondaryRules.
Import ListNotations.

Lemma subset_trans a b c : subset a b = true -> subset b c = true -> subset a c = true.
Proof.
  unfold subset. rewrite !forallb_forall. intros H1 H2 x Hx. apply H2. apply mem_in. apply H1. exact Hx.
Qed.

Section Possible.
  Variable S : schema.
  Variable F : features.
  Hypothesis Himpl : schema_impls_ok S = true.
  Hypothesis Hif : schema_ifaces_ok S = true.

  Lemma types_nodup' : NoDup (map fst (s_types S)).
  Proof. pose proof Himpl as Hi. unfold schema_impls_ok in Hi. apply andb_true_iff in Hi as [H _]. apply nodupb_NoDup. exact H. Qed.

  Lemma raw_body_in x dx : In (x, dx) (s_types S) -> raw_body S x = Some (t_body dx).
  Proof.
    intros H. unfold raw_body, raw_type. pose proof (nodup_assoc (s_types S) (x, dx) types_nodup' H) as E. cbn [fst snd] in E. rewrite E. reflexivity.
  Qed.

  (** a possible type is an object type of the schema *)
  Lemma possible_object p x : In x (possible S F p) -> exists ofs ifs, raw_body S x = Some (TObject ofs ifs).
  Proof.
    unfold possible, parent_body. destruct (raw_body S p) as [[| | | ofs ifs | ifs | ms]|] eqn:Ep; try (intros []; fail).
    - intros [<- | []]. eauto.
    - intros H. apply in_flat_map in H as [[x' dx] [Hin H]]. cbn [fst snd] in H. destruct (t_body dx) as [| | | ofs ifs' | |] eqn:Eb; try destruct H.
      destruct (mem p ifs' && subset (t_req dx) F); [| destruct H]. destruct H as [<- | []].
      exists ofs, ifs'. rewrite (raw_body_in x' dx Hin), Eb. reflexivity.
    - intros H. pose proof Hif as Hi. unfold schema_ifaces_ok in Hi. rewrite forallb_forall in Hi.
      unfold raw_body, raw_type in Ep. destruct (assoc p (s_types S)) as [dp|] eqn:Ea; [| discriminate]. apply assoc_in in Ea.
      specialize (Hi _ Ea). cbn [snd] in Hi. inversion Ep as [Ep']. rewrite Ep' in Hi. rewrite forallb_forall in Hi. specialize (Hi x H).
      destruct (raw_body S x) as [[| | | ofs ifs | |]|]; try discriminate Hi. eauto.
  Qed.

  Theorem defined_on_possible p n d :
    field_def_of S F p n = Some d -> forall x, In x (possible S F p) -> field_def_of S F x n <> None.
  Proof.
    intros Hd x Hx. destruct (possible_object p x Hx) as [ofs [ifs Ex]]. unfold field_def_of in *.
    destruct (name_eqb n s_typename).
    - unfold composite, parent_body. rewrite Ex. discriminate.
    - rewrite declared_field_eq in *. unfold possible, parent_body in Hx. unfold field_of_scope in Hd.
      destruct (raw_body S p) as [[| | | pfs pifs | pfs | ms]|] eqn:Ep; try discriminate Hd.
      + destruct Hx as [<- | []]. unfold field_of_scope. rewrite Ep. rewrite Hd. discriminate.
      + (* an interface *)
        apply in_flat_map in Hx as [[x' dx] [Hin Hx]]. cbn [fst snd] in Hx. destruct (t_body dx) as [| | | ofs' ifs' | |] eqn:Eb; try destruct Hx.
        destruct (mem p ifs') eqn:Em; [| destruct Hx]. destruct (subset (t_req dx) F); [| destruct Hx]. destruct Hx as [<- | []].
        pose proof Hif as Hi. unfold schema_ifaces_ok in Hi. rewrite forallb_forall in Hi. specialize (Hi _ Hin). cbn [snd] in Hi. rewrite Eb in Hi.
        rewrite forallb_forall in Hi. apply mem_in in Em. specialize (Hi p Em). unfold implements_ok in Hi. rewrite Ep in Hi. rewrite forallb_forall in Hi.
        unfold get_field in Hd. destruct (assoc n pfs) as [fd|] eqn:Ea; [| discriminate]. destruct (subset (f_req fd) F) eqn:Es; [| discriminate].
        specialize (Hi (n, fd) (assoc_in _ _ _ Ea)). cbn [fst snd] in Hi. destruct (assoc n ofs') as [fd'|] eqn:Ea'; [| discriminate Hi].
        unfold field_of_scope. rewrite (raw_body_in x' dx Hin), Eb. unfold get_field. rewrite Ea', (subset_trans _ _ _ Hi Es). discriminate.
  Qed.
End Possible.

(** conjunct (f): for the field occurrences of a document whose fields are all defined *)
Theorem fields_defined_on_possible S F D :
  schema_impls_ok S = true -> schema_ifaces_ok S = true -> fields_defined S F D = true ->
  forall o, In o (all_fields S F D) ->
  forall p, fo_parent o = Some p ->
  match fo_field o with
  | SField _ _ n _ _ _ _ => forall x, In x (possible S F p) -> field_def_of S F x n <> None
  | _ => True
  end.
Proof.
  intros Himpl Hif Hfd o Ho p Hp. pose proof (fields_defined_spec S F D Hfd o Ho) as Hd. unfold fo_def in Hd. rewrite Hp in Hd.
  destruct (fo_field o) as [a al n np args dirs sub | |]; try exact I.
  destruct (field_def_of S F p n) as [d|] eqn:Ed; [| congruence]. apply (defined_on_possible S F Himpl Hif p n d Ed).
Qed.
