(** * Vld/ProofsSpecCollect.v — the Spec's CollectFields ([ValidSpec.collected]: fragments expanded at
    most once, visited set of fragment NAMES, one unit of fuel per nesting level of spreads) against
    the inductive collection: it collects exactly the fields written in the selection set, in an
    inline fragment of it, or in a fragment it spreads, transitively.  The fuel, one more than the
    number of fragment definitions, never runs out: each nesting level marks a defined fragment that
    was not marked before (pigeonhole on the names not yet visited). *)
From Coq Require Import List NArith Arith Bool Lia.
From ApiFu Require Import Base.Sexp Vld.Ast Vld.AstInd Vld.TypeInfoModel Vld.ValidSpec Vld.ProofsCommon Vld.ProofsSpreads Vld.ProofsDepth Vld.ProofsSpecReach.
Import ListNotations.

Section SpecCollect.
  Variable S : schema.
  Variable F : features.
  Variable D : document.

  (** the inductive collection, on the document as written *)
  Inductive InCS : selset -> selection -> Prop :=
  | InCS_field a sels p f : In f sels -> is_fieldb f = true -> InCS (SelSet a sels p) f
  | InCS_inline a sels p c dirs sub e f : In (SInline c dirs sub e) sels -> InCS sub f -> InCS (SelSet a sels p) f
  | InCS_spread a sels p n np dirs e d f :
      In (SSpread n np dirs e) sels -> fragment D n = Some d -> InCS (def_sub d) f -> InCS (SelSet a sels p) f.

  (** fields and spreads reached through inline fragments only *)
  Inductive IFld : selset -> selection -> Prop :=
  | IFld_here a sels p f : In f sels -> is_fieldb f = true -> IFld (SelSet a sels p) f
  | IFld_inline a sels p c dirs sub e f : In (SInline c dirs sub e) sels -> IFld sub f -> IFld (SelSet a sels p) f.
  Inductive ISpr : selset -> name -> Prop :=
  | ISpr_here a sels p n np dirs e : In (SSpread n np dirs e) sels -> ISpr (SelSet a sels p) n
  | ISpr_inline a sels p c dirs sub e n : In (SInline c dirs sub e) sels -> ISpr sub n -> ISpr (SelSet a sels p) n.

  Notation csel := (collect_sel S F).
  Notation css := (collect_ss S F).
  Notation efuel := (expand_fuel S F D).

  (** the loop of [collect_ss], named *)
  Fixpoint cgo (E : list name -> name -> list cfield * list name) (parent : option name) (l : list selection) (visited : list name)
    : list cfield * list name :=
    match l with
    | [] => ([], visited)
    | x :: r => let '(a, v1) := csel E parent visited x in
                let '(b, v2) := cgo E parent r v1 in (a ++ b, v2)
    end.
  Definition lgo (E : list name -> name -> list cfield * list name) (parent : option name) :=
    fix go (l : list selection) (visited : list name) : list cfield * list name :=
      match l with
      | [] => ([], visited)
      | x :: r => let '(a, v1) := csel E parent visited x in
                  let '(b, v2) := go r v1 in (a ++ b, v2)
      end.
  Lemma lgo_eq E parent l : forall v, lgo E parent l v = cgo E parent l v.
  Proof.
    induction l as [|x r IH]; intros v; [reflexivity |]. cbn [lgo cgo]. destruct (csel E parent v x) as [a0 v1]. fold (lgo E parent). rewrite IH. reflexivity.
  Qed.
  Lemma css_eq E parent visited a sels p : css E parent visited (SelSet a sels p) = cgo E parent sels visited.
  Proof. rewrite <- lgo_eq. reflexivity. Qed.

  Definition has (out : list cfield) (f : selection) : Prop := exists par, In (f, par) out.

  (** ** soundness: whatever the fuel *)
  Lemma collect_sound_gen (E : list name -> name -> list cfield * list name) :
    (forall V n out V', E V n = (out, V') -> forall f, has out f -> exists d, fragment D n = Some d /\ InCS (def_sub d) f) ->
    (forall s parent V out V', csel E parent V s = (out, V') -> forall f, has out f ->
       (is_fieldb s = true /\ f = s) \/ (exists c dirs sub e, s = SInline c dirs sub e /\ InCS sub f) \/
       (exists n np dirs e d, s = SSpread n np dirs e /\ fragment D n = Some d /\ InCS (def_sub d) f)) /\
    (forall ss parent V out V', css E parent V ss = (out, V') -> forall f, has out f -> InCS ss f).
  Proof.
    intros HE. apply sel_ss_ind.
    - intros a al n np args dirs sub _ parent V out V' H f [par Hf]. cbn [collect_sel] in H. inversion H; subst. destruct Hf as [Hf | []]. inversion Hf; subst. left. split; reflexivity.
    - intros n np dirs e parent V out V' H f Hf. cbn [collect_sel] in H. right. right.
      destruct (mem n V); [inversion H; subst; destruct Hf as [par []] |].
      destruct (HE _ _ _ _ H f Hf) as [d [Hd Hin]]. exists n, np, dirs, e, d. auto.
    - intros cond dirs sub e IH parent V out V' H f Hf. cbn [collect_sel] in H. right. left. exists cond, dirs, sub, e. split; [reflexivity | apply (IH _ _ _ _ H f Hf)].
    - intros a sels p IH parent V out V' H f Hf. rewrite css_eq in H. rewrite Forall_forall in IH.
      assert (forall l V0 out0 V1, (forall s, In s l -> In s sels) -> cgo E parent l V0 = (out0, V1) -> has out0 f -> InCS (SelSet a sels p) f) as Hgo.
      { induction l as [|x r IHl]; intros V0 out0 V1 Hl Hc [par Hin]; cbn [cgo] in Hc; [inversion Hc; subst; destruct Hin |].
        destruct (csel E parent V0 x) as [oa v1] eqn:Ex. destruct (cgo E parent r v1) as [ob v2] eqn:Er. inversion Hc; subst out0 V1.
        apply in_app_or in Hin as [Hin | Hin].
        - assert (In x sels) as Hx by (apply Hl; left; reflexivity).
          destruct (IH x Hx parent V0 oa v1 Ex f (ex_intro _ par Hin)) as [[Hfld ->] | [[c [dirs [sub [e [-> Hs]]]]] | [n [np [dirs [e [d [-> [Hd Hs]]]]]]]]].
          + apply InCS_field; assumption.
          + apply (InCS_inline a sels p c dirs sub e f Hx Hs).
          + apply (InCS_spread a sels p n np dirs e d f Hx Hd Hs).
        - apply (IHl v1 ob v2 (fun s Hs => Hl s (or_intror Hs)) Er (ex_intro _ par Hin)). }
      apply (Hgo sels V out V' (fun s Hs => Hs) H Hf).
  Qed.

  Lemma efuel_sound k : forall V n out V', efuel k V n = (out, V') -> forall f, has out f -> exists d, fragment D n = Some d /\ InCS (def_sub d) f.
  Proof.
    induction k as [|k IH]; intros V n out V' H f Hf; cbn [expand_fuel] in H; [inversion H; subst; destruct Hf as [par []] |].
    destruct (fragment D n) as [d|] eqn:Ed; [| inversion H; subst; destruct Hf as [par []]].
    exists d. split; [reflexivity |]. apply (proj2 (collect_sound_gen (efuel k) IH) _ _ _ _ _ H f Hf).
  Qed.

  Theorem collected_sound parent ss f : has (collected S F D parent ss) f -> InCS ss f.
  Proof.
    unfold collected. intros H. destruct (css (efuel (Datatypes.S (n_frags D))) parent [] ss) as [out V'] eqn:E. cbn [fst] in H.
    apply (proj2 (collect_sound_gen _ (efuel_sound _)) _ _ _ _ _ E f H).
  Qed.

  (** ** completeness *)
  (** the defined fragment names not yet visited *)
  Definition unvisited (V : list name) : nat := length (filter (fun x => negb (mem x V)) (dedup (frag_names D))).

  Definition done_for (out : list cfield) (V' : list name) (ss : selset) : Prop :=
    (forall f, IFld ss f -> has out f) /\ (forall n, ISpr ss n -> In n V').
  Definition closed_since (V : list name) (out : list cfield) (V' : list name) : Prop :=
    forall n d, In n V' -> fragment D n = Some d -> In n V \/ done_for out V' (def_sub d).

  Lemma done_for_mono out V1 out' V2 ss : (forall f, has out f -> has out' f) -> incl V1 V2 -> done_for out V1 ss -> done_for out' V2 ss.
  Proof. intros Ho Hv [H1 H2]. split; [intros f Hf; apply Ho, H1, Hf | intros n Hn; apply Hv, H2, Hn]. Qed.

  Lemma fragment_in_names n d : fragment D n = Some d -> In n (frag_names D).
  Proof.
    intros H. unfold fragment in H.
    destruct (in_dec (fun a b => match list_eq_dec N.eq_dec a b with left e => left e | right e => right e end) n (frag_names D)) as [Hi | Hi]; [exact Hi |].
    apply frag_first_none in Hi. congruence.
  Qed.

  Lemma unvisited_cons n d V : fragment D n = Some d -> ~ In n V -> unvisited (n :: V) < unvisited V.
  Proof.
    intros Hd Hn. unfold unvisited. apply (filter_lt _ _ _ n).
    - intros x Hx. rewrite negb_true_iff in *. apply mem_false in Hx. apply mem_false. intros Hin. apply Hx. right. exact Hin.
    - apply dedup_in. apply (fragment_in_names n d Hd).
    - apply negb_true_iff, mem_false. exact Hn.
    - apply negb_false_iff, mem_in. left. reflexivity.
  Qed.
  Lemma unvisited_mono V V' : incl V V' -> unvisited V' <= unvisited V.
  Proof.
    intros H. unfold unvisited. induction (dedup (frag_names D)) as [|x l IH]; [reflexivity |]. cbn [filter].
    destruct (mem x V') eqn:E'; cbn [negb].
    - destruct (mem x V); cbn [negb length]; lia.
    - assert (mem x V = false) as -> by (apply mem_false; intros Hx; apply mem_false in E'; apply E', H, Hx). cbn [negb length]. lia.
  Qed.

  (** what has been done for one selection *)
  Definition item_done (s : selection) (out : list cfield) (V' : list name) : Prop :=
    match s with
    | SField _ _ _ _ _ _ _ => has out s
    | SSpread n _ _ _ => In n V'
    | SInline _ _ sub _ => done_for out V' sub
    end.
  Lemma item_done_mono s out V1 out' V2 : (forall f, has out f -> has out' f) -> incl V1 V2 -> item_done s out V1 -> item_done s out' V2.
  Proof. intros Ho Hv. destruct s; cbn [item_done]; [apply Ho | apply Hv | apply (done_for_mono _ _ _ _ _ Ho Hv)]. Qed.
  Lemma has_app_l a b f : has a f -> has (a ++ b) f.
  Proof. intros [par H]. exists par. apply in_or_app. left. exact H. Qed.
  Lemma has_app_r a b f : has b f -> has (a ++ b) f.
  Proof. intros [par H]. exists par. apply in_or_app. right. exact H. Qed.

  Lemma css_facts k : forall ss parent V out V',
    unvisited V < k -> css (efuel k) parent V ss = (out, V') ->
    incl V V' /\ closed_since V out V' /\ done_for out V' ss.
  Proof.
    induction k as [|k IHk]; [intros; lia |].
    assert ((forall s parent V out V', unvisited V < Datatypes.S k -> csel (efuel (Datatypes.S k)) parent V s = (out, V') ->
                                       incl V V' /\ closed_since V out V' /\ item_done s out V') /\
            (forall ss parent V out V', unvisited V < Datatypes.S k -> css (efuel (Datatypes.S k)) parent V ss = (out, V') ->
                                        incl V V' /\ closed_since V out V' /\ done_for out V' ss)) as [_ H]; [| exact H].
    apply sel_ss_ind.
    - intros a al n np args dirs sub _ parent V out V' _ H. cbn [collect_sel] in H. inversion H; subst.
      split; [apply incl_refl |]. split; [intros m d Hm _; left; exact Hm |]. exists parent. left. reflexivity.
    - intros n np dirs e parent V out V' Hk H. cbn [collect_sel] in H. destruct (mem n V) eqn:Em.
      + inversion H; subst. apply mem_in in Em. split; [apply incl_refl |]. split; [intros m d Hm _; left; exact Hm | exact Em].
      + apply mem_false in Em. cbn [expand_fuel] in H. destruct (fragment D n) as [d|] eqn:Ed.
        * pose proof (unvisited_cons n d V Ed Em) as Hlt.
          destruct (IHk (def_sub d) (def_scope S F d) (n :: V) out V' ltac:(lia) H) as [H1 [H2 H3]].
          split; [intros x Hx; apply H1; right; exact Hx |]. split; [| apply H1; left; reflexivity].
          intros m dm Hm Hdm. destruct (H2 m dm Hm Hdm) as [[<- | Hin] | Hdone]; [| left; exact Hin | right; exact Hdone].
          right. rewrite Ed in Hdm. inversion Hdm; subst dm. exact H3.
        * inversion H; subst. split; [intros x Hx; right; exact Hx |]. split; [| left; reflexivity].
          intros m dm [<- | Hm] Hdm; [congruence | left; exact Hm].
    - intros cond dirs sub e IH parent V out V' Hk H. cbn [collect_sel] in H. apply (IH _ _ _ _ Hk H).
    - intros a sels p IH parent V out V' Hk H. rewrite css_eq in H. rewrite Forall_forall in IH.
      assert (forall l V0 out0 V1, (forall s, In s l -> In s sels) -> unvisited V0 < Datatypes.S k -> cgo (efuel (Datatypes.S k)) parent l V0 = (out0, V1) ->
                                   incl V0 V1 /\ closed_since V0 out0 V1 /\ forall s, In s l -> item_done s out0 V1) as Hgo.
      { induction l as [|x r IHl]; intros V0 out0 V1 Hl Hk0 Hc; cbn [cgo] in Hc.
        - inversion Hc; subst. split; [apply incl_refl |]. split; [intros m d Hm _; left; exact Hm | intros s []].
        - destruct (csel (efuel (Datatypes.S k)) parent V0 x) as [oa v1] eqn:Ex. destruct (cgo (efuel (Datatypes.S k)) parent r v1) as [ob v2] eqn:Er.
          inversion Hc; subst out0 V1.
          destruct (IH x (Hl x (or_introl eq_refl)) parent V0 oa v1 Hk0 Ex) as [X1 [X2 X3]].
          pose proof (unvisited_mono V0 v1 X1) as Hm1.
          destruct (IHl v1 ob v2 (fun s Hs => Hl s (or_intror Hs)) ltac:(lia) Er) as [R1 [R2 R3]].
          split; [intros y Hy; apply R1, X1, Hy |]. split.
          + intros m dm Hm Hdm. destruct (R2 m dm Hm Hdm) as [Hin | Hd].
            * destruct (X2 m dm Hin Hdm) as [Hin0 | Hd]; [left; exact Hin0 | right; apply (done_for_mono oa v1 _ v2 _ (has_app_l oa ob) R1 Hd)].
            * right. apply (done_for_mono ob v2 _ v2 _ (has_app_r oa ob) (incl_refl _) Hd).
          + intros s [<- | Hs]; [apply (item_done_mono _ oa v1 _ v2 (has_app_l oa ob) R1 X3) | apply (item_done_mono _ ob v2 _ v2 (has_app_r oa ob) (incl_refl _) (R3 s Hs))]. }
      destruct (Hgo sels V out V' (fun s Hs => Hs) Hk H) as [G1 [G2 G3]]. split; [exact G1 |]. split; [exact G2 |]. split.
      + intros f Hf. inversion Hf as [a0 sels0 p0 f0 Hin Hfld | a0 sels0 p0 c dirs sub e f0 Hin Hsub]; subst.
        * specialize (G3 f Hin). destruct f; try discriminate Hfld. exact G3.
        * specialize (G3 _ Hin). cbn [item_done] in G3. apply (proj1 G3 f Hsub).
      + intros n Hn. inversion Hn as [a0 sels0 p0 n0 np dirs e Hin | a0 sels0 p0 c dirs sub e n0 Hin Hsub]; subst.
        * apply (G3 _ Hin).
        * specialize (G3 _ Hin). cbn [item_done] in G3. apply (proj2 G3 n Hsub).
  Qed.

  Theorem collected_complete parent ss f : InCS ss f -> has (collected S F D parent ss) f.
  Proof.
    unfold collected. destruct (css (efuel (Datatypes.S (n_frags D))) parent [] ss) as [out V'] eqn:E. cbn [fst].
    assert (unvisited [] < Datatypes.S (n_frags D)) as Hk.
    { unfold unvisited, n_frags. pose proof (filter_len (fun x => negb (mem x [])) (dedup (frag_names D))). pose proof (dedup_len (frag_names D)). lia. }
    destruct (css_facts _ ss parent [] out V' Hk E) as [_ [Hcl Hdone]].
    assert (forall t g, InCS t g -> done_for out V' t -> has out g) as Hall.
    { intros t g Hin. induction Hin as [a sels p g Hg Hfld | a sels p c dirs sub e g Hs _ IH | a sels p n np dirs e d g Hs Hd _ IH]; intros Ht.
      - apply (proj1 Ht). apply IFld_here; assumption.
      - apply IH. split; [intros f0 Hf0; apply (proj1 Ht); apply (IFld_inline a sels p c dirs sub e f0 Hs Hf0) | intros m Hm; apply (proj2 Ht); apply (ISpr_inline a sels p c dirs sub e m Hs Hm)].
      - apply IH. assert (In n V') as Hn by (apply (proj2 Ht); apply (ISpr_here a sels p n np dirs e Hs)).
        destruct (Hcl n d Hn Hd) as [[] | Hdn]. exact Hdn. }
    intros Hf. apply (Hall ss f Hf Hdone).
  Qed.
End SpecCollect.
