(** * Vld/ProofsCollect.v — addFieldSelections against an inductive characterisation: when selection
    sets sit at pairwise distinct positions, the response names it files fields under are exactly
    the response names of the fields collected ([InC]) from the selection set — whatever it visits
    first, however often a fragment is spread.  This is the model side of 5.2.3.1 (one root field
    of a subscription). *)
From Coq Require Import List NArith Arith Bool Lia.
From ApiFu Require Import Base.Sexp Vld.Ast Vld.AstInd Vld.Inspect Vld.InspectProofs Vld.TypeInfoModel Vld.TypeInfoPure
     Vld.ValidatorModel Vld.ProofsCommon Vld.ProofsCycles Vld.ProofsTotal Vld.ProofsDepth Vld.ProofsOperations.
Import ListNotations.

Definition keys (m : fmap) : list name := map fst m.

Lemma fmap_add_keys k x m k' : In k' (keys (fmap_add k x m)) <-> k' = k \/ In k' (keys m).
Proof.
  unfold keys. induction m as [|[k0 l] r IH]; cbn [fmap_add map fst In].
  - split; [intros [H | []]; left; symmetry; exact H | intros [H | []]; left; symmetry; exact H].
  - destruct (name_eqb k k0) eqn:E; cbn [map fst In].
    + apply name_eqb_eq in E. subst k0. split; [tauto | intros [-> | H]; [left; reflexivity | exact H]].
    + rewrite IH. split; [intros [H | [H | H]]; tauto | intros [H | [H | H]]; tauto].
Qed.

Lemma fmap_add_keys_nodup k x m : NoDup (keys m) -> NoDup (keys (fmap_add k x m)).
Proof.
  unfold keys. induction m as [|[k0 l] r IH]; cbn [fmap_add map fst]; intros H.
  - constructor; [intros [] | constructor].
  - destruct (name_eqb k k0) eqn:E; cbn [map fst]; [exact H |]. inversion H as [| ? ? Hni Hnd]; subst. constructor; [| apply IH; exact Hnd].
    intros Hin. apply (fmap_add_keys k x r k0) in Hin as [Heq | Hin]; [subst; rewrite name_eqb_refl in E; discriminate | exact (Hni Hin)].
Qed.

Section Collect.
  Variable A : document.
  Hypothesis sets_distinct : forall s1 s2, In s1 (all_subs A) -> In s2 (all_subs A) -> ss_pos s1 = ss_pos s2 -> s1 = s2.
  Notation collect := (collect repaired A).

  (** what has been done for a selection set once it is visited: its fields are filed, the
      selection sets it leads to are visited *)
  Definition done_for (m : fmap) (V : list pos) (ss1 : selset) : Prop :=
    forall s, In s (ss_sels ss1) ->
              match s with
              | SField _ _ _ _ _ _ _ => In (response_name s) (keys m)
              | SInline _ _ sub _ => In (ss_pos sub) V
              | SSpread n _ _ _ => forall d, frag_last A n = Some d -> In (ss_pos (def_sub d)) V
              end.

  Lemma done_for_mono m V m' V' ss1 : incl (keys m) (keys m') -> incl V V' -> done_for m V ss1 -> done_for m' V' ss1.
  Proof.
    intros Hm HV H s Hs. specialize (H s Hs). destruct s; [apply Hm; exact H | intros d Hd; apply HV; apply (H d Hd) | apply HV; exact H].
  Qed.

  Definition closed_since (visited : list pos) (m' : fmap) (v' : list pos) : Prop :=
    forall ss1, In ss1 (all_subs A) -> In (ss_pos ss1) v' -> In (ss_pos ss1) visited \/ done_for m' v' ss1.

  Lemma collect_facts fuel : forall m visited ss m' v',
    In ss (all_subs A) -> collect fuel m visited ss = COk m' v' ->
    incl (keys m) (keys m') /\ incl visited v' /\ In (ss_pos ss) v' /\ (NoDup (keys m) -> NoDup (keys m')) /\ closed_since visited m' v'.
  Proof.
    induction fuel as [|fuel IH]; intros m visited ss m' v' Hss H; rewrite collect_unfold in H; [discriminate |].
    destruct ss as [a sels p]. cbn [ss_pos]. destruct (pmem p visited) eqn:Ep.
    - cbn [q_revisit_ok repaired] in H. inversion H; subst m' v'. apply pmem_in in Ep.
      split; [apply incl_refl |]. split; [apply incl_refl |]. split; [exact Ep |]. split; [exact (fun h => h) |]. intros ss1 _ H1. left. exact H1.
    - (* the loop over the selections *)
      assert (forall l m0 v0 m1 v1, (forall s, In s l -> In s sels) -> collect_go A (collect fuel) a p l m0 v0 = COk m1 v1 ->
                incl (keys m0) (keys m1) /\ incl v0 v1 /\ (NoDup (keys m0) -> NoDup (keys m1)) /\ closed_since v0 m1 v1 /\
                forall s, In s l -> match s with
                                    | SField _ _ _ _ _ _ _ => In (response_name s) (keys m1)
                                    | SInline _ _ sub _ => In (ss_pos sub) v1
                                    | SSpread n _ _ _ => forall d, frag_last A n = Some d -> In (ss_pos (def_sub d)) v1
                                    end) as Hgo.
      { induction l as [|s r IHl]; intros m0 v0 m1 v1 Hl Hc.
        - cbn [collect_go] in Hc. inversion Hc; subst. split; [apply incl_refl |]. split; [apply incl_refl |]. split; [exact (fun h => h) |].
          split; [intros ss1 _ H1; left; exact H1 | intros s []].
        - cbn [collect_go] in Hc.
          assert (forall s', In s' r -> In s' sels) as Hr by (intros s' Hs'; apply Hl; right; exact Hs').
          assert (In s sels) as Hs by (apply Hl; left; reflexivity).
          (* a sub-call followed by the rest of the loop *)
          assert (forall sub, In sub (all_subs A) ->
                              match collect fuel m0 v0 sub with COk m2 v2 => collect_go A (collect fuel) a p r m2 v2 | _ => collect fuel m0 v0 sub end = COk m1 v1 ->
                              incl (keys m0) (keys m1) /\ incl v0 v1 /\ (NoDup (keys m0) -> NoDup (keys m1)) /\ closed_since v0 m1 v1 /\ In (ss_pos sub) v1 /\
                              forall s', In s' r -> match s' with
                                                    | SField _ _ _ _ _ _ _ => In (response_name s') (keys m1)
                                                    | SInline _ _ sub' _ => In (ss_pos sub') v1
                                                    | SSpread n _ _ _ => forall d, frag_last A n = Some d -> In (ss_pos (def_sub d)) v1
                                                    end) as Hrec.
          { intros sub Hin Hc2. destruct (collect fuel m0 v0 sub) as [m2 v2 | e0 |] eqn:Ec; try discriminate Hc2.
            destruct (IH _ _ _ _ _ Hin Ec) as [C1 [C2 [C3 [C4 C5]]]]. destruct (IHl _ _ _ _ Hr Hc2) as [G1 [G2 [G3 [G4 G5]]]].
            split; [intros x Hx; apply G1, C1, Hx |]. split; [intros x Hx; apply G2, C2, Hx |]. split; [intros Hn; apply G3, C4, Hn |].
            split; [| split; [apply G2, C3 | exact G5]].
            intros ss1 Hs1 H1. destruct (G4 ss1 Hs1 H1) as [H2 | H2]; [| right; exact H2].
            destruct (C5 ss1 Hs1 H2) as [H3 | H3]; [left; exact H3 | right; apply (done_for_mono m2 v2 m1 v1 ss1 G1 G2 H3)]. }
          destruct s as [a0 al n np args dirs sub | n np dirs e | cond dirs sub e].
          + destruct (IHl _ _ _ _ Hr Hc) as [G1 [G2 [G3 [G4 G5]]]].
            assert (incl (keys m0) (keys m1)) as Hk by (intros x Hx; apply G1; apply fmap_add_keys; right; exact Hx).
            split; [exact Hk |]. split; [exact G2 |]. split; [intros Hn; apply G3, fmap_add_keys_nodup, Hn |]. split; [exact G4 |].
            intros s' [<- | Hs']; [apply G1; apply fmap_add_keys; left; reflexivity | apply (G5 s' Hs')].
          + destruct (frag_last A n) as [d|] eqn:Ed; [| discriminate Hc].
            destruct (Hrec (def_sub d) (frag_sub_in A n d Ed) Hc) as [R1 [R2 [R3 [R4 [R5 R6]]]]].
            split; [exact R1 |]. split; [exact R2 |]. split; [exact R3 |]. split; [exact R4 |].
            intros s' [<- | Hs']; [intros d' Hd'; rewrite Ed in Hd'; inversion Hd'; subst d'; exact R5 | apply (R6 s' Hs')].
          + destruct (Hrec sub (subs_closed A a sels p _ sub Hss Hs eq_refl) Hc) as [R1 [R2 [R3 [R4 [R5 R6]]]]].
            split; [exact R1 |]. split; [exact R2 |]. split; [exact R3 |]. split; [exact R4 |].
            intros s' [<- | Hs']; [exact R5 | apply (R6 s' Hs')]. }
      destruct (Hgo sels m (p :: visited) m' v' (fun s h => h) H) as [G1 [G2 [G3 [G4 G5]]]].
      split; [exact G1 |]. split; [intros x Hx; apply G2; right; exact Hx |]. split; [apply G2; left; reflexivity |]. split; [exact G3 |].
      intros ss1 Hs1 H1. destruct (G4 ss1 Hs1 H1) as [[Heq | H2] | H2]; [| left; exact H2 | right; exact H2].
      right. assert (ss1 = SelSet a sels p) as -> by (apply sets_distinct; [exact Hs1 | exact Hss | symmetry; exact Heq]).
      intros s Hs. apply (G5 s Hs).
  Qed.

  (** every collected field is filed *)
  Theorem collect_complete fuel ss m v :
    In ss (all_subs A) -> collect fuel [] [] ss = COk m v ->
    forall f, InC A ss f -> In (response_name f) (keys m).
  Proof.
    intros Hss H. destruct (collect_facts fuel [] [] ss m v Hss H) as [_ [_ [Hp [_ Hcl]]]].
    assert (forall ss1 f, InC A ss1 f -> In ss1 (all_subs A) -> In (ss_pos ss1) v -> In (response_name f) (keys m)) as Hall.
    { intros ss1 f Hin. induction Hin as [a sels p f Hf Hfld | a sels p c dirs sub e f Hs _ IH | a sels p n np dirs e d f Hs Hd _ IH]; intros Hs1 Hv.
      - destruct (Hcl _ Hs1 Hv) as [[] | Hd]. specialize (Hd f Hf). destruct f; try discriminate Hfld. exact Hd.
      - destruct (Hcl _ Hs1 Hv) as [[] | Hd]. specialize (Hd _ Hs). cbn beta iota in Hd.
        apply IH; [apply (subs_closed A a sels p _ sub Hs1 Hs eq_refl) | exact Hd].
      - destruct (Hcl _ Hs1 Hv) as [[] | Hdn]. specialize (Hdn _ Hs d Hd). apply IH; [apply (frag_sub_in A n d Hd) | exact Hdn]. }
    intros f Hf. apply (Hall ss f Hf Hss Hp).
  Qed.

  (** a property of the map that filing a field under its response name preserves is preserved *)
  Lemma collect_preserves (I : fmap -> Prop) :
    (forall m s a p, I m -> is_fieldb s = true -> I (fmap_add (response_name s) (s, a, p) m)) ->
    forall fuel m visited ss m' v', collect fuel m visited ss = COk m' v' -> I m -> I m'.
  Proof.
    intros Hadd. induction fuel as [|fuel IH]; intros m visited ss m' v' H Hm; rewrite collect_unfold in H; [discriminate |].
    destruct ss as [a sels p]. destruct (pmem p visited); [cbn [q_revisit_ok repaired] in H; inversion H; subst; exact Hm |].
    revert m Hm H. generalize (p :: visited). induction sels as [|s r IHl]; intros v m Hm H; [cbn [collect_go] in H; inversion H; subst; exact Hm |].
    cbn [collect_go] in H. destruct s as [a0 al n np args dirs sub | n np dirs e | cond dirs sub e].
    - apply (IHl _ _ (Hadd m (SField a0 al n np args dirs sub) a p Hm eq_refl) H).
    - destruct (frag_last A n) as [d|]; [| discriminate H]. destruct (collect fuel m v (def_sub d)) as [m2 v2 | |] eqn:Ec; try discriminate H.
      apply (IHl _ _ (IH _ _ _ _ _ Ec Hm) H).
    - destruct (collect fuel m v sub) as [m2 v2 | |] eqn:Ec; try discriminate H. apply (IHl _ _ (IH _ _ _ _ _ Ec Hm) H).
  Qed.

  Definition witnessed (m : fmap) : Prop := forall k l, In (k, l) m -> exists x, In x l /\ response_name (fst3 x) = k.

  Lemma fmap_add_witnessed m s a p : witnessed m -> witnessed (fmap_add (response_name s) (s, a, p) m).
  Proof.
    intros Hm. induction m as [|[k0 l0] r IH]; cbn [fmap_add].
    - intros k l [H | []]. inversion H; subst. exists (s, a, p). split; [left; reflexivity | reflexivity].
    - destruct (name_eqb (response_name s) k0) eqn:E.
      + intros k l [H | H].
        * inversion H; subst. destruct (Hm k (l0) (or_introl eq_refl)) as [x [Hx Hk]]. exists x. split; [apply in_or_app; left; exact Hx | exact Hk].
        * apply (Hm k l). right. exact H.
      + intros k l [H | H].
        * inversion H; subst. apply (Hm k l). left. reflexivity.
        * apply IH; [intros k1 l1 H1; apply (Hm k1 l1); right; exact H1 | exact H].
  Qed.

  (** and only collected fields are *)
  Theorem collect_sound fuel ss m v k :
    collect fuel [] [] ss = COk m v -> In k (keys m) -> exists f, InC A ss f /\ response_name f = k.
  Proof.
    intros H Hk. unfold keys in Hk. apply in_map_iff in Hk as [[k' l] [<- Hkl]]. cbn [fst].
    assert (witnessed m) as Hw.
    { apply (collect_preserves witnessed (fun m0 s a p Hm0 _ => fmap_add_witnessed m0 s a p Hm0) fuel [] [] ss m v H). intros k0 l0 []. }
    destruct (Hw k' l Hkl) as [x [Hx Hn]].
    destruct (collect_InC repaired A fuel [] [] ss m v H k' l x Hkl Hx) as [[l0 [[] _]] | Hin].
    exists (fst3 x). split; [exact Hin | exact Hn].
  Qed.

  (** the subscription check: one root field = the collected fields exist and share one response name *)
  Theorem single_key_iff ss m v :
    In ss (all_subs A) -> add_selections repaired A [] (Some ss) = COk m v ->
    (Nat.eqb (length m) 1 = true <->
     (exists f, InC A ss f) /\ forall f g, InC A ss f -> InC A ss g -> response_name f = response_name g).
  Proof.
    intros Hss H. unfold add_selections in H.
    destruct (collect_facts _ [] [] ss m v Hss H) as [_ [_ [_ [Hnd _]]]]. specialize (Hnd (NoDup_nil _)).
    assert (length m = length (keys m)) as El by (unfold keys; rewrite map_length; reflexivity).
    rewrite El, Nat.eqb_eq. split.
    - intros H1. destruct (keys m) as [|k [|k1 r]] eqn:Ek; try discriminate H1.
      assert (In k (keys m)) as Hk by (rewrite Ek; left; reflexivity).
      destruct (collect_sound _ ss m v k H Hk) as [f [Hf Hn]]. split; [exists f; exact Hf |].
      intros f1 g1 Hf1 Hg1. pose proof (collect_complete _ ss m v Hss H f1 Hf1) as K1. pose proof (collect_complete _ ss m v Hss H g1 Hg1) as K2.
      rewrite Ek in K1, K2. destruct K1 as [<- | []]. destruct K2 as [<- | []]. reflexivity.
    - intros [[f Hf] Hall]. pose proof (collect_complete _ ss m v Hss H f Hf) as K.
      destruct (keys m) as [|k [|k1 r]] eqn:Ek; [destruct K | reflexivity | exfalso].
      assert (In k (keys m)) as Hk by (rewrite Ek; left; reflexivity).
      assert (In k1 (keys m)) as Hk1 by (rewrite Ek; right; left; reflexivity).
      destruct (collect_sound _ ss m v k H Hk) as [f0 [Hf0 Hn0]]. destruct (collect_sound _ ss m v k1 H Hk1) as [f1 [Hf1 Hn1]].
      pose proof (Hall f0 f1 Hf0 Hf1) as Heq. rewrite Hn0, Hn1 in Heq.
      inversion Hnd as [| ? ? Hni _]; subst. apply Hni. left. symmetry. exact Heq.
  Qed.
End Collect.
