(** * Vld/ProofsSecondary.v — towards secondary_never_alone: when the pipeline emits no PRIMARY
    error, which rule groups are then entirely silent.

    Root-cause argument: a secondary error says "I could not do my job" because a scope (parent
    type) is unknown or not composite, a field / directive / fragment is undefined, ...; every such
    cause is reported as a primary error by the rule that owns it.  Proved here: without a primary
    error every selection set of the document has a composite parent type, and the first visitor of
    validateFields, validateFragmentDeclarations, validateDirectives and the visitor of
    validateFragmentSpreads emit nothing at all. *)
From Coq Require Import List NArith Arith Bool Lia.
From ApiFu Require Import Base.Sexp Vld.Ast Vld.AstInd Vld.Inspect Vld.InspectProofs Vld.TypeInfoModel Vld.TypeInfoPure
     Vld.Enumerate Vld.SpecEnum Vld.ValidatorModel Vld.ValidSpec Vld.Hyps Vld.ProofsCommon Vld.ProofsDirectives Vld.ProofsArguments
     Vld.ProofsFragDecl Vld.ProofsOperations Vld.ProofsOrder Vld.ProofsTotal Vld.ProofsFields Vld.ProofsSpreads Vld.ProofsMemo Vld.ValidatorProofs.
Import ListNotations.

Definition all_primary (l : list verror) : Prop := forall e, In e l -> e_sec e = false.
Lemma primary_nil_all l : all_primary l -> primary l = [] -> l = [].
Proof. intros H1 H2. rewrite (primary_all_primary l H1) in H2. exact H2. Qed.
Lemma primary_app_nil a b : primary (a ++ b) = [] <-> primary a = [] /\ primary b = [].
Proof. rewrite primary_app. split; [apply app_eq_nil | intros [-> ->]; reflexivity]. Qed.

Section Fields.
  Variable S : schema.
  Variable F : features.
  Hypothesis no_typename_field : forall top, field_of_scope S F top n_typename = None.
  Variable qo : bool.

  (** beneath a composite parent type an undefined field is reported as missing *)
  Lemma undefined_is_missing tn n :
    composite_name S tn = true -> field_of_scope S F (Some tn) n = None -> fe_missing S F (Some tn) n = true.
  Proof.
    unfold composite_name, field_of_scope, fe_missing. destruct (raw_body S tn) as [[| | | fields ifs | fields | ms]|]; try discriminate; intros _.
    - destruct (get_field F fields n); [discriminate |]. simpl.
      destruct (name_eqb tn (s_query S)); simpl; [intros ->; reflexivity | reflexivity].
    - destruct (get_field F fields n); [discriminate | reflexivity].
    - reflexivity.
  Qed.

  Lemma fe_e3_primary ex sh sub p : all_primary (fe_e3 ex sh sub p).
  Proof.
    unfold fe_e3. intros e He. destruct ex; [| destruct He]. destruct sh.
    - destruct sub as [[a0 [|s l] p0]|]; simpl in He; try (destruct He as [<- | []]; reflexivity); destruct He.
    - destruct sub; simpl in He; [destruct He as [<- | []]; reflexivity | destruct He].
  Qed.

  (** at a field beneath a good scope: no primary error -> no error at all *)
  Lemma field_primary_silent top a al n np args dirs sub :
    good S top -> primary (fe_ev1 S F top (pti_sel qo S F top (SField a al n np args dirs sub))) = [] ->
    fe_ev1 S F top (pti_sel qo S F top (SField a al n np args dirs sub)) = [].
  Proof.
    intros [tn [-> Hc]] H. rewrite pti_sel_field_eq in *. cbn [fe_ev1] in *.
    apply primary_app_nil in H as [_ H]. apply primary_app_nil in H as [H2 H3].
    assert (fe_e1 (field_of_scope S F (Some tn) n) n (sel_pos (SField (field_of_scope S F (Some tn) n) al n np (field_args qo S F (Some tn) n args)
                                                                        (map (ti_dir qo S) dirs) match sub with Some ss => Some (pti_ss qo S F (field_scope S F (Some tn) n) ss) | None => None end)) = []) as E1.
    { unfold fe_e1. destruct (field_of_scope S F (Some tn) n) eqn:Ef; [reflexivity |].
      destruct (negb (name_eqb n n_typename)) eqn:En; [| reflexivity]. exfalso.
      rewrite (undefined_is_missing tn n Hc Ef) in H2. simpl in H2. discriminate. }
    rewrite E1. cbn [app].
    apply primary_nil_all in H2.
    2:{ intros e He. destruct (_ && _); [destruct He as [<- | []]; reflexivity | destruct He]. }
    apply primary_nil_all in H3; [| apply fe_e3_primary].
    rewrite H2, H3. reflexivity.
  Qed.

  Definition occ_fine' (o : scope * selection) : Prop :=
    primary (fe_ev1 S F (fst o) (pti_sel qo S F (fst o) (snd o))) = [] /\
    match snd o with
    | SInline (Some (c, _)) _ _ _ => exists b, named_type S F c = Some b /\ is_composite_body b = true
    | _ => True
    end.

  Lemma scopes_good' :
    (forall s top, good S top -> (forall o, In o (ssels_sel S F top s) -> occ_fine' o) -> forall o, In o (ssels_sel S F top s) -> good S (fst o)) /\
    (forall ss top, good S top -> (forall o, In o (ssels_ss S F top ss) -> occ_fine' o) -> forall o, In o (ssels_ss S F top ss) -> good S (fst o)).
  Proof.
    apply sel_ss_ind.
    - intros a al n np args dirs sub IH top Hg Hf o Ho.
      assert (ssels_sel S F top (SField a al n np args dirs sub) =
              (top, SField a al n np args dirs sub) :: match sub with Some ss => ssels_ss S F (field_scope S F top n) ss | None => [] end) as E
          by (destruct sub; reflexivity).
      rewrite E in *. destruct Ho as [<- | Ho]; [exact Hg |]. destruct sub as [ss|]; [| destruct Ho].
      apply (IH ss eq_refl (field_scope S F top n)); [| intros o' Ho'; apply Hf; right; exact Ho' | exact Ho].
      apply (field_opens_good S F no_typename_field qo top a al n np args dirs ss Hg).
      apply (field_primary_silent top a al n np args dirs (Some ss) Hg). apply (Hf (top, SField a al n np args dirs (Some ss))). left. reflexivity.
    - intros n np dirs e top Hg Hf o [<- | []]. exact Hg.
    - intros cond dirs sub e IH top Hg Hf o Ho.
      change (ssels_sel S F top (SInline cond dirs sub e)) with ((top, SInline cond dirs sub e) :: ssels_ss S F (inline_scope S F top cond) sub) in *.
      destruct Ho as [<- | Ho]; [exact Hg |].
      apply (IH (inline_scope S F top cond)); [| intros o' Ho'; apply Hf; right; exact Ho' | exact Ho].
      destruct cond as [[c cp]|]; [| exact Hg].
      destruct (Hf (top, SInline (Some (c, cp)) dirs sub e) (or_introl eq_refl)) as [_ [b [Hb Hc]]]. simpl.
      rewrite Hb. exists c. split; [reflexivity |]. unfold composite_name. rewrite (named_type_raw S F c b Hb). exact Hc.
    - intros a sels p IH top Hg Hf o Ho. rewrite ssels_ss_eq in *. apply in_flat_map in Ho as [s [Hs Ho]].
      rewrite Forall_forall in IH. apply (IH s Hs top Hg); [| exact Ho].
      intros o' Ho'. apply Hf. apply in_flat_map. exists s. split; assumption.
  Qed.
End Fields.

(** ** rule groups all of whose errors are primary *)
Lemma all_primary_app a b : all_primary a -> all_primary b -> all_primary (a ++ b).
Proof. intros Ha Hb e He. apply in_app_or in He as [He | He]; [apply Ha | apply Hb]; exact He. Qed.
Lemma all_primary_flat_map {A} (f : A -> list verror) l : (forall x, In x l -> all_primary (f x)) -> all_primary (flat_map f l).
Proof. intros H e He. apply in_flat_map in He as [x [Hx He]]. apply (H x Hx e He). Qed.

Section PrimaryRules.
  Variable pi : order.
  Variable S : schema.
  Variable F : features.

  Lemma type_condition_primary tc : all_primary (type_condition S F tc).
  Proof.
    unfold type_condition. intros e He. destruct (named_type S F (fst tc)) as [b|]; [destruct (is_composite_body b); [destruct He |] |];
      destruct He as [<- | []]; reflexivity.
  Qed.
  Lemma frag_decls_primary A : forall by_name errs by', frag_decls S F A by_name = (errs, by') -> all_primary errs.
  Proof.
    induction A as [|d r IH]; intros by_name errs by' H; simpl in H.
    - inversion H; subst. intros e [].
    - destruct d as [| kw n np cond dirs sub]; [apply (IH _ _ _ H) |].
      destruct (assoc n by_name).
      + destruct (frag_decls S F r by_name) as [e b] eqn:E. inversion H; subst.
        intros x [<- | Hx]; [reflexivity |]. apply in_app_or in Hx as [Hx | Hx]; [apply (type_condition_primary cond x Hx) | apply (IH _ _ _ E x Hx)].
      + destruct (frag_decls S F r (by_name ++ [(n, DFrag kw n np cond dirs sub)])) as [e b] eqn:E. inversion H; subst.
        intros x Hx. apply in_app_or in Hx as [Hx | Hx]; [apply (type_condition_primary cond x Hx) | apply (IH _ _ _ E x Hx)].
  Qed.
  Lemma rule_fragment_declarations_primary A : all_primary (rule_fragment_declarations pi S F A).
  Proof.
    unfold rule_fragment_declarations. destruct (frag_decls S F A []) as [e1 by_name] eqn:Ed.
    destruct (inspect_pair _ _ (decl_fe S F) decl_fu _ (decl_enter_eq S F) (tree_doc A) e1 []) as [used [Ei _]]. rewrite Ei.
    apply all_primary_app; [apply all_primary_app; [apply (frag_decls_primary A _ _ _ Ed) |] |].
    - apply all_primary_flat_map. intros n _. unfold decl_fe. destruct n; try (intros e []). destruct s as [| | [tc|] dirs sub e0]; try (intros e []). apply type_condition_primary.
    - apply all_primary_flat_map. intros nd _ e He. destruct (mem (fst nd) used); [destruct He | destruct He as [<- | []]; reflexivity].
  Qed.

  Lemma dirs_loop_primary loc dirs : forall seen, all_primary (dirs_loop S loc dirs seen).
  Proof.
    induction dirs as [|d r IH]; intros seen e He; [destruct He |]. simpl in He.
    assert (all_primary (match assoc (d_name d) (s_directives S) with
                         | None => [err EDirUndefined (d_at d)]
                         | Some dd => if match loc with Some l => existsb (dirloc_eqb l) (dd_locs dd) | None => false end then [] else [err EDirLocation (d_at d)]
                         end)) as H1.
    { intros x Hx. destruct (assoc (d_name d) (s_directives S)) as [dd|]; [destruct (match loc with Some l => _ | None => false end); [destruct Hx |] |];
        destruct Hx as [<- | []]; reflexivity. }
    destruct (mem (d_name d) seen).
    - apply in_app_or in He as [He | [<- | He]]; [apply (H1 e He) | reflexivity | apply (IH seen e He)].
    - apply in_app_or in He as [He | He]; [apply (H1 e He) | apply (IH _ e He)].
  Qed.
  Lemma rule_directives_primary A errs : rule_directives repaired S A = Done errs -> all_primary errs.
  Proof.
    unfold rule_directives. rewrite (inspect_acc _ (dir_f S) (fun _ => true) _ (directives_enter_eq S)), app_nil_l.
    intros H. inversion H; subst. apply all_primary_flat_map. intros n _. unfold dir_f, dir_go.
    destruct n; try (intros e []).
    - destruct (def_dirs d); [intros e [] | apply dirs_loop_primary].
    - destruct (sel_dirs s); [intros e [] | apply dirs_loop_primary].
  Qed.

  (** validateSpread beneath a composite parent type only ever reports "impossible" *)
  Lemma vs_errs_good tc sc : good S sc -> all_primary (vs_errs pi S F tc sc).
  Proof.
    intros [pn [-> Hc]]. unfold vs_errs, validate_spread.
    assert (is_composite_name S pn = true) as Hc' by exact Hc. rewrite Hc'. simpl.
    destruct (named_type S F (fst tc)) as [b|]; [| intros e []]. destruct (is_composite_body b); [| intros e []].
    destruct (possible_types repaired S F (fst tc)); [| intros e []]. destruct (possible_types repaired S F pn); [| intros e []].
    destruct (existsb _ _); [intros e [] | intros e [<- | []]; reflexivity].
  Qed.
  Lemma sp_ev1_good A sc x : good S sc -> all_primary (sp_ev1 pi S F A sc x).
  Proof.
    intros Hg. unfold sp_ev1. destruct x as [| fname np dirs e | [tc|] dirs sub e]; try (intros x []).
    - destruct (frag_last A fname) as [[| kw n' np' cond dirs' sub']|]; [intros x [] | apply (vs_errs_good cond sc Hg) | intros x [<- | []]; reflexivity].
    - apply (vs_errs_good tc sc Hg).
  Qed.
End PrimaryRules.

(** ** the pipeline's error list, group by group *)
Lemma seq_outcome_done a b e : seq_outcome a b = Done e -> exists ea eb, a = Done ea /\ b = Done eb /\ e = ea ++ eb.
Proof. destruct a as [ea | |]; destruct b as [eb | |]; simpl; try discriminate. intros H. inversion H. exists ea, eb. auto. Qed.

Definition rules_with (q : quirks) (pi : order) (S : schema) (F : features) (A : document) (rf : outcome) : outcome :=
  fold_left seq_outcome
    [rule_operations q A; rf; rule_arguments q pi S A; rule_fragments q pi S F A; rule_values q pi S A; rule_directives q S A; rule_variables pi S A]
    rule_document.
Lemma all_rules_with q pi S F A : all_rules q pi S F A = rules_with q pi S F A (rule_fields q pi S F A).
Proof. reflexivity. Qed.
Lemma all_rules_m_with q pi S F A : all_rules_m q pi S F A = rules_with q pi S F A (rule_fields_m q pi S F A).
Proof. reflexivity. Qed.

Lemma rules_with_split q pi S F A rf errs :
  rules_with q pi S F A rf = Done errs ->
  exists e1 e2 e3 e5 e6 e7 e8,
    rule_operations q A = Done e1 /\ rf = Done e2 /\ rule_arguments q pi S A = Done e3 /\
    rule_fragment_spreads q pi S F A = Done e5 /\ rule_values q pi S A = Done e6 /\ rule_directives q S A = Done e7 /\
    rule_variables pi S A = Done e8 /\
    errs = e1 ++ e2 ++ e3 ++ (rule_fragment_declarations pi S F A ++ e5) ++ e6 ++ e7 ++ e8.
Proof.
  unfold rules_with, rule_document, rule_fragments. cbn [fold_left]. intros H.
  apply seq_outcome_done in H as [x7 [e8 [H [R8 ->]]]].
  apply seq_outcome_done in H as [x6 [e7 [H [R7 ->]]]].
  apply seq_outcome_done in H as [x5 [e6 [H [R6 ->]]]].
  apply seq_outcome_done in H as [x4 [e45 [H [R45 ->]]]].
  apply seq_outcome_done in H as [x3 [e3 [H [R3 ->]]]].
  apply seq_outcome_done in H as [x2 [e2 [H [R2 ->]]]].
  apply seq_outcome_done in H as [x1 [e1 [H [R1 ->]]]].
  inversion H; subst x1.
  apply seq_outcome_done in R45 as [ed [e5 [Hd [R5 ->]]]]. inversion Hd; subst ed.
  exists e1, e2, e3, e5, e6, e7, e8. repeat split; try assumption. simpl. rewrite <- !app_assoc. reflexivity.
Qed.

Lemma all_rules_split q pi S F A errs :
  all_rules q pi S F A = Done errs ->
  exists e1 e2 e3 e5 e6 e7 e8,
    rule_operations q A = Done e1 /\ rule_fields q pi S F A = Done e2 /\ rule_arguments q pi S A = Done e3 /\
    rule_fragment_spreads q pi S F A = Done e5 /\ rule_values q pi S A = Done e6 /\ rule_directives q S A = Done e7 /\
    rule_variables pi S A = Done e8 /\
    errs = e1 ++ e2 ++ e3 ++ (rule_fragment_declarations pi S F A ++ e5) ++ e6 ++ e7 ++ e8.
Proof. rewrite all_rules_with. apply rules_with_split. Qed.

Lemma finish_done_inv st e : finish st = Done e -> r_errs st = e.
Proof. unfold finish. destruct (r_abort st) as [[s|]|]; try discriminate. intros H. inversion H. reflexivity. Qed.

(** ** validateOperations: an operation whose root type the schema lacks is a primary error *)
Section OpsPrimary.
  Variable q : quirks.
  Variable A : document.
  Notation step := (ops_step q A).

  Lemma ops_step_mono acc d e : In e (r_errs (snd acc)) -> In e (r_errs (snd (step acc d))).
  Proof.
    destruct acc as [[anon seen] st]. destruct d as [ot n vars dirs sub | kw n np cond dirs sub]; [| exact (fun H => H)].
    intros H. cbn [ops_step snd] in *.
    destruct (match n with None => (Datatypes.S anon, seen, st) | Some (nm, p) => if mem nm seen then (anon, seen, add_errs st [err EOpDupName p]) else (anon, nm :: seen, st) end)
      as [[anon1 seen1] st1] eqn:E1.
    assert (In e (r_errs st1)) as H1.
    { destruct n as [[nm p]|]; [destruct (mem nm seen) |]; inversion E1; subst; [simpl; apply in_or_app; left; exact H | exact H | exact H]. }
    cbn [snd].
    assert (In e (r_errs (match ss_ann sub with None => add_errs st1 [err EOpUnsupported (def_pos (DOp ot n vars dirs sub))] | Some _ => st1 end))) as H2.
    { destruct (ss_ann sub); [exact H1 | simpl; apply in_or_app; left; exact H1]. }
    destruct (is_subscription ot); [| exact H2].
    destruct (add_selections q A [] (Some sub)) as [m v | e0 |]; [destruct (Nat.eqb (length m) 1); [exact H2 |] | | exact H2];
      simpl; apply in_or_app; left; exact H2.
  Qed.

  Lemma ops_step_root acc d : root_ok d = false -> In (err EOpUnsupported (def_pos d)) (r_errs (snd (step acc d))).
  Proof.
    destruct acc as [[anon seen] st]. destruct d as [ot n vars dirs sub | kw n np cond dirs sub]; [| discriminate].
    unfold root_ok. intros H. cbn [ops_step].
    destruct (match n with None => (Datatypes.S anon, seen, st) | Some (nm, p) => if mem nm seen then (anon, seen, add_errs st [err EOpDupName p]) else (anon, nm :: seen, st) end)
      as [[anon1 seen1] st1].
    cbn [snd]. destruct (ss_ann sub); [discriminate |].
    assert (In (err EOpUnsupported (def_pos (DOp ot n vars dirs sub))) (r_errs (add_errs st1 [err EOpUnsupported (def_pos (DOp ot n vars dirs sub))]))) as H2
        by (simpl; apply in_or_app; right; left; reflexivity).
    destruct (is_subscription ot); [| exact H2].
    destruct (add_selections q A [] (Some sub)) as [m v | e0 |]; [destruct (Nat.eqb (length m) 1); [exact H2 |] | | exact H2];
      simpl; apply in_or_app; left; exact H2.
  Qed.

  Lemma ops_fold_mono l : forall acc e, In e (r_errs (snd acc)) -> In e (r_errs (snd (fold_left step l acc))).
  Proof. induction l as [|d l IH]; intros acc e H; [exact H |]. cbn [fold_left]. apply IH, ops_step_mono, H. Qed.

  Lemma ops_fold_root l : forall acc d, In d l -> root_ok d = false ->
    In (err EOpUnsupported (def_pos d)) (r_errs (snd (fold_left step l acc))).
  Proof.
    induction l as [|d0 l IH]; intros acc d Hin Hr; [destruct Hin |]. destruct Hin as [<- | Hd]; cbn [fold_left].
    - apply ops_fold_mono, ops_step_root, Hr.
    - apply IH; assumption.
  Qed.

  Theorem operations_primary_root errs :
    rule_operations q A = Done errs -> primary errs = [] -> forall d, In d A -> root_ok d = true.
  Proof.
    unfold rule_operations. intros H P d Hd. destruct (root_ok d) eqn:Hr; [reflexivity | exfalso].
    pose proof (ops_fold_root A (O, [], rst0) d Hd Hr) as Hin.
    destruct (fold_left step A (O, [], rst0)) as [[anon seen] st]. cbn [snd] in Hin.
    apply finish_done_inv in H.
    assert (In (err EOpUnsupported (def_pos d)) errs) as He.
    { rewrite <- H. destruct (Nat.ltb 0 anon); [| exact Hin].
      destruct (filter is_op A) as [|d1 [|d2 r]]; [exact Hin | exact Hin | simpl; apply in_or_app; left; exact Hin]. }
    assert (In (err EOpUnsupported (def_pos d)) (primary errs)) as Hp by (apply filter_In; split; [exact He | reflexivity]).
    rewrite P in Hp. destruct Hp.
  Qed.
End OpsPrimary.

(** ** no primary error: which rule groups are then silent *)
Local Notation QO := (q_unwrap_obj repaired).
Local Notation AD S F D := (pti_doc QO S F D).
(** [rf]: the outcome of validateFields, of which only this is used: its errors begin with those of
    the first visitor *)
Definition fields_prefix (S : schema) (F : features) (D : document) (rf : outcome) : Prop :=
  forall e2, rf = Done e2 ->
             exists l, e2 = r_errs (inspect (fields_enter S F) pop (tree_doc (pti_doc (q_unwrap_obj repaired) S F D)) rst0) ++ l.

Theorem no_primary_then_silent_gen pi S F D rf errs :
  order_ok pi -> schema_ok S = true -> fields_prefix S F D rf ->
  rules_with repaired pi S F (pti_doc (q_unwrap_obj repaired) S F D) rf = Done errs -> primary errs = [] ->
  valid_root S D = true /\
  (forall d o, In d D -> In o (ssels_ss S F (model_def_scope S F d) (def_sub d)) -> good S (fst o)) /\
  r_errs (inspect (fields_enter S F) pop (tree_doc (pti_doc (q_unwrap_obj repaired) S F D)) rst0) = [] /\
  rule_fragment_declarations pi S F (pti_doc (q_unwrap_obj repaired) S F D) = [] /\
  rule_directives repaired S (pti_doc (q_unwrap_obj repaired) S F D) = Done [] /\
  rule_fragment_spreads repaired pi S F (pti_doc (q_unwrap_obj repaired) S F D) = Done [].
Proof.
  intros Hpi Hs Hrf Hall Hprim.
  destruct (rules_with_split _ _ _ _ _ _ _ Hall) as [e1 [e2 [e3 [e5 [e6 [e7 [e8 [R1 [R2 [R3 [R5 [R6 [R7 [R8 ->]]]]]]]]]]]]]].
  rewrite !primary_app_nil in Hprim. destruct Hprim as [P1 [P2 [P3 [[P4 P5] [P6 [P7 P8]]]]]].
  assert (valid_root S D = true) as Hroot.
  { unfold valid_root. apply forallb_forall. intros d Hd.
    pose proof (operations_primary_root repaired (AD S F D) e1 R1 P1 (pti_def QO S F d) (in_map _ _ _ Hd)) as Hr.
    rewrite root_ok_pti in Hr. destruct d; [exact Hr | reflexivity]. }
  split; [exact Hroot |].
  unfold schema_ok in Hs. apply andb_true_iff in Hs as [Hs Hs3]. apply andb_true_iff in Hs as [Hs1 Hs2].
  pose proof (schema_no_typename_spec S F Hs1) as Hnt.
  (* declarations and directives: all their errors are primary *)
  assert (rule_fragment_declarations pi S F (AD S F D) = []) as Hdecl by (apply (primary_nil_all _ (rule_fragment_declarations_primary pi S F (AD S F D)) P4)).
  assert (e7 = []) as -> by (apply (primary_nil_all _ (rule_directives_primary S (AD S F D) e7 R7) P7)).
  pose proof (proj1 (rule_fragment_declarations_iff pi Hpi S F D) Hdecl) as H551.
  (* the first field visitor: its errors are a prefix of the rule's *)
  destruct (Hrf e2 R2) as [l2 E2].
  subst e2. apply primary_app_nil in P2 as [P2 _]. rewrite fields_pass_errors in P2. rewrite primary_flat_map in P2.
  assert (forall d o, In d D -> In o (ssels_ss S F (model_def_scope S F d) (def_sub d)) -> primary (fe_ev1 S F (fst o) (pti_sel QO S F (fst o) (snd o))) = []) as Hprim1.
  { intros d o Hd Ho. rewrite flat_map_nil_iff in P2. specialize (P2 d Hd). rewrite primary_flat_map, flat_map_nil_iff in P2. apply (P2 o Ho). }
  (* type conditions, roots *)
  assert (forall c, In c (type_conditions D) -> exists b, named_type S F c = Some b /\ is_composite_body b = true) as Hcond.
  { unfold valid_5_5_1 in H551. rewrite !andb_true_iff in H551. destruct H551 as [[[_ H2] H3] _].
    unfold valid_5_5_1_2, valid_5_5_1_3 in *. rewrite forallb_forall in H2, H3. intros c Hc.
    specialize (H2 c Hc). specialize (H3 c Hc). unfold type_of in *. destruct (named_type S F c) as [b|]; [exists b; auto | discriminate]. }
  assert (forall d o, In d D -> In o (ssels_ss S F (model_def_scope S F d) (def_sub d)) -> occ_fine' S F QO o) as Hfine.
  { intros d [sc s0] Hd Ho. split; [apply (Hprim1 d _ Hd Ho) |]. simpl.
    destruct s0 as [| | [[c cp]|] dirs sub e]; try exact I. apply Hcond. rewrite type_conditions_split. apply in_or_app. right.
    apply in_flat_map. exists (SInline (Some (c, cp)) dirs sub e). split; [| left; reflexivity].
    apply (in_all_sels S F D). exists d, sc. auto. }
  assert (forall d, In d D -> good S (model_def_scope S F d)) as Hroots.
  { intros d Hd. destruct d as [ot n vars dirs sub | kw n np [c cp] dirs sub].
    - unfold valid_root in Hroot. rewrite forallb_forall in Hroot. specialize (Hroot _ Hd). simpl in Hroot.
      change (model_def_scope S F (DOp ot n vars dirs sub)) with (TypeInfoPure.op_scope S ot).
      pose proof (spec_def_scope_eq S F (DOp ot n vars dirs sub)) as E. simpl in E. rewrite <- E.
      destruct (root_type S ot) as [tn|] eqn:Er; [| discriminate]. exists tn. split; [reflexivity | apply (roots_composite S ot tn Hs3 Er)].
    - simpl. unfold TypeInfoPure.frag_scope. simpl.
      destruct (Hcond c) as [b [Hb Hc]].
      { rewrite type_conditions_split. apply in_or_app. left. unfold frag_conds. apply in_flat_map. exists (DFrag kw n np (c, cp) dirs sub). split; [exact Hd | left; reflexivity]. }
      rewrite Hb. exists c. split; [reflexivity |]. unfold composite_name. rewrite (named_type_raw S F c b Hb). exact Hc. }
  assert (forall d o, In d D -> In o (ssels_ss S F (model_def_scope S F d) (def_sub d)) -> good S (fst o)) as Hgood.
  { intros d o Hd Ho. apply (proj2 (scopes_good' S F Hnt QO) (def_sub d) (model_def_scope S F d) (Hroots d Hd)); [| exact Ho].
    intros o' Ho'. apply (Hfine d o' Hd Ho'). }
  split; [exact Hgood |]. split; [| split; [exact Hdecl | split; [exact R7 |]]].
  - (* the first field visitor is entirely silent *)
    rewrite fields_pass_errors. apply flat_map_nil_iff. intros d Hd. apply flat_map_nil_iff. intros [sc s0] Ho.
    cbn [fst snd]. destruct s0 as [a al n np args dirs sub | n np dirs e | cond dirs sub e]; try reflexivity.
    apply (field_primary_silent S F QO sc a al n np args dirs sub (Hgood d _ Hd Ho) (Hprim1 d _ Hd Ho)).
  - (* the spread visitor *)
    rewrite R5. f_equal. rewrite rule_fragment_spreads_eq in R5.
    apply finish_done_inv in R5. rename R5 into E5.
    rewrite (spreads_pass_errors pi S F D) in E5 by apply cycle_fold_stack. rewrite <- E5 in P5 |- *.
    apply primary_app_nil in P5 as [Pc Pv].
    assert (forall l st, all_primary (r_errs st) -> all_primary (r_errs (fold_left (cycle_step (AD S F D) pi) l st))) as Hcyc.
    { induction l as [|n l IHl]; intros st Hst; [exact Hst |]. simpl. apply IHl. unfold cycle_step.
      match goal with |- context [cycle_search ?a ?b ?c ?d ?e ?f] => destruct (cycle_search a b c d e f) as [[|]|] end; [| exact Hst | exact Hst].
      match goal with |- context [frag_last ?a ?b] => destruct (frag_last a b) end; [| exact Hst].
      simpl. apply all_primary_app; [exact Hst | intros e [<- | []]; reflexivity]. }
    assert (all_primary (r_errs rst0)) as H0 by (intros e []).
    pose proof (primary_nil_all _ (Hcyc _ rst0 H0) Pc) as Ec. rewrite Ec. cbn [app].
    apply flat_map_nil_iff. intros d Hd. apply flat_map_nil_iff. intros o Ho.
    rewrite primary_flat_map, flat_map_nil_iff in Pv. specialize (Pv d Hd). rewrite primary_flat_map, flat_map_nil_iff in Pv.
    apply (primary_nil_all _ (sp_ev1_good pi S F (AD S F D) (fst o) _ (Hgood d o Hd Ho)) (Pv o Ho)).
Qed.

Lemma rule_fields_prefix pi S F D : fields_prefix S F D (rule_fields repaired pi S F (AD S F D)).
Proof.
  intros e2 R2.
  unfold rule_fields in R2.
    assert (exists l, r_errs (inspect (merge_enter repaired pi S (AD S F D)) (fun s => s) (tree_doc (AD S F D)) (inspect (fields_enter S F) pop (tree_doc (AD S F D)) rst0))
                      = r_errs (inspect (fields_enter S F) pop (tree_doc (AD S F D)) rst0) ++ l) as [l Hl].
    { apply (inspect_inv (fun st => exists l, r_errs st = r_errs (inspect (fields_enter S F) pop (tree_doc (AD S F D)) rst0) ++ l)).
      - intros n _ st [l Hl]. unfold merge_enter. destruct n; try (exists l; exact Hl).
        destruct (add_selections repaired (AD S F D) [] (Some s)) as [m v | e0 |]; [| exists (l ++ [e0]); simpl; rewrite Hl, app_assoc; reflexivity | exists l; exact Hl].
        destruct (can_merge repaired pi S (AD S F D) (max_depth (AD S F D)) m); try (exists l; exact Hl). exists (l ++ [e]). simpl. rewrite Hl, app_assoc. reflexivity.
      - exists []. rewrite app_nil_r. reflexivity. }
    unfold finish in R2. destruct (r_abort _) as [[s|]|]; try discriminate. inversion R2; subst e2. exists l. exact Hl.
Qed.

Lemma rule_fields_m_prefix pi S F D : fields_prefix S F D (rule_fields_m repaired pi S F (AD S F D)).
Proof.
  intros e2 R2. unfold rule_fields_m in R2.
  assert (exists l, r_errs (fst (inspect (merge_enter_m repaired pi S (AD S F D)) (fun s => s) (tree_doc (AD S F D)) (inspect (fields_enter S F) pop (tree_doc (AD S F D)) rst0, memo0)))
                    = r_errs (inspect (fields_enter S F) pop (tree_doc (AD S F D)) rst0) ++ l) as [l Hl].
  { apply (inspect_inv (fun st : rst * memo => exists l, r_errs (fst st) = r_errs (inspect (fields_enter S F) pop (tree_doc (AD S F D)) rst0) ++ l)).
    - intros n _ st [l Hl]. unfold merge_enter_m. destruct n; try (exists l; exact Hl).
      destruct (add_selections repaired (AD S F D) [] (Some s)) as [m v | e0 |]; [| exists (l ++ [e0]); simpl; rewrite Hl, app_assoc; reflexivity | exists l; exact Hl].
      destruct (can_merge_m repaired pi S (AD S F D) (max_depth (AD S F D)) m (snd st)) as [[| e | s0 |] mm]; try (exists l; exact Hl).
      exists (l ++ [e]). simpl. rewrite Hl, app_assoc. reflexivity.
    - exists []. rewrite app_nil_r. reflexivity. }
  apply finish_done_inv in R2. subst e2. exists l. exact Hl.
Qed.

Theorem no_primary_then_silent pi S F D errs :
  order_ok pi -> schema_ok S = true ->
  all_rules repaired pi S F (pti_doc (q_unwrap_obj repaired) S F D) = Done errs -> primary errs = [] ->
  valid_root S D = true /\
  (forall d o, In d D -> In o (ssels_ss S F (model_def_scope S F d) (def_sub d)) -> good S (fst o)) /\
  r_errs (inspect (fields_enter S F) pop (tree_doc (pti_doc (q_unwrap_obj repaired) S F D)) rst0) = [] /\
  rule_fragment_declarations pi S F (pti_doc (q_unwrap_obj repaired) S F D) = [] /\
  rule_directives repaired S (pti_doc (q_unwrap_obj repaired) S F D) = Done [] /\
  rule_fragment_spreads repaired pi S F (pti_doc (q_unwrap_obj repaired) S F D) = Done [].
Proof.
  intros Hpi Hs Hall Hprim. rewrite all_rules_with in Hall.
  apply (no_primary_then_silent_gen pi S F D _ errs Hpi Hs (rule_fields_prefix pi S F D) Hall Hprim).
Qed.
