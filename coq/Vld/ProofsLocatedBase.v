(** * Vld/ProofsLocatedBase.v — for validate_error_located: the tree of a document is closed under
    "the subtree of a node": whenever a node occurs in [tree_doc D], all the nodes [ast.Inspect] would
    visit beneath it occur as well (every subtree of the tree is the canonical tree of its root node).
    So a visitor that reports, at a node, the position of a part of that node reports the position of
    a node of the document. *)
From Coq Require Import List NArith Arith Bool Lia.
From ApiFu Require Import Base.Sexp Vld.Ast Vld.AstInd Vld.Inspect Vld.InspectProofs.
Import ListNotations.

Fixpoint subtrees (t : tree) : list tree := match t with T n cs => t :: flat_map subtrees cs end.

Lemma subtrees_self t : In t (subtrees t).
Proof. destruct t. left. reflexivity. Qed.

Lemma subtrees_nodes t : forall t', In t' (subtrees t) -> incl (tree_nodes t') (tree_nodes t).
Proof.
  induction t as [n cs IH] using tree_ind'. intros t' [<- | H]; [apply incl_refl |]. cbn [subtrees] in H.
  apply in_flat_map in H as [c [Hc H]]. rewrite Forall_forall in IH. intros m Hm. cbn [tree_nodes]. right. apply in_flat_map. exists c.
  split; [exact Hc | apply (IH c Hc t' H m Hm)].
Qed.

Lemma node_subtree t : forall n, In n (tree_nodes t) -> exists cs, In (T n cs) (subtrees t).
Proof.
  induction t as [m cs IH] using tree_ind'. intros n [<- | H]; [exists cs; left; reflexivity |].
  apply in_flat_map in H as [c [Hc H]]. rewrite Forall_forall in IH. destruct (IH c Hc n H) as [cs' H'].
  exists cs'. cbn [subtrees]. right. apply in_flat_map. exists c. auto.
Qed.

(** the tree [ast.Inspect] walks beneath a node *)
Definition tree_of (n : node) : tree :=
  match n with
  | NDoc D => tree_doc D
  | NDef d => tree_def d
  | NOpType k p => T (NOpType k p) []
  | NName x p => T (NName x p) []
  | NVarDef v => tree_vardef v
  | NType t => tree_ty t
  | NDirective d => tree_dir d
  | NSelSet s => tree_ss s
  | NSel s => tree_sel s
  | NArgument a => tree_arg a
  | NValue v => tree_value v
  | NObjField x p v => T (NObjField x p v) [name_tree (x, p); tree_value v]
  end.

Definition canon (t : tree) : Prop := match t with T n _ => t = tree_of n end.
Definition Canon (t : tree) : Prop := forall t', In t' (subtrees t) -> canon t'.

Lemma Canon_node n cs : canon (T n cs) -> Forall Canon cs -> Canon (T n cs).
Proof.
  intros Hc Hcs t' [<- | H]; [exact Hc |]. apply in_flat_map in H as [c [Hcin H]]. rewrite Forall_forall in Hcs. apply (Hcs c Hcin t' H).
Qed.
Lemma Forall_map_canon {X} (f : X -> tree) l : (forall x, In x l -> Canon (f x)) -> Forall Canon (map f l).
Proof. intros H. apply Forall_forall. intros t Ht. apply in_map_iff in Ht as [x [<- Hx]]. apply H, Hx. Qed.
Lemma Forall_app' {X} (P : X -> Prop) a b : Forall P a -> Forall P b -> Forall P (a ++ b).
Proof. intros Ha Hb. apply Forall_forall. intros x Hx. apply in_app_or in Hx as [Hx | Hx]; [apply (proj1 (Forall_forall _ _) Ha x Hx) | apply (proj1 (Forall_forall _ _) Hb x Hx)]. Qed.
Lemma Forall_opt_canon {X} (f : X -> tree) o : (forall x, Canon (f x)) -> Forall Canon (opt_tree f o).
Proof. intros H. destruct o; cbn [opt_tree]; [constructor; [apply H | constructor] | constructor]. Qed.

Lemma canon_name np : Canon (name_tree np).
Proof. destruct np as [n p]. apply Canon_node; [reflexivity | constructor]. Qed.

Lemma canon_value v : Canon (tree_value v).
Proof.
  induction v as [a n d np | a l p | a l p | a s p | a b p | a p | a n p | a vs p IH | a fs p IH] using value_ind';
    cbn [tree_value]; apply Canon_node; try reflexivity; try (constructor; fail).
  - constructor; [apply canon_name | constructor].
  - apply Forall_map_canon. intros x Hx. rewrite Forall_forall in IH. apply (IH x Hx).
  - apply Forall_map_canon. intros [[n q] x] Hx. rewrite Forall_forall in IH. apply Canon_node; [reflexivity |].
    constructor; [apply canon_name |]. constructor; [apply (IH _ Hx) | constructor].
Qed.

Lemma canon_ty t : Canon (tree_ty t).
Proof.
  induction t as [n p | t IH o | t IH]; cbn [tree_ty]; apply Canon_node; try reflexivity.
  - constructor; [apply canon_name | constructor].
  - constructor; [exact IH | constructor].
  - constructor; [exact IH | constructor].
Qed.
Lemma canon_named_type np : Canon (tree_named_type np).
Proof. destruct np as [n p]. apply (canon_ty (TNamed n p)). Qed.

Lemma canon_arg a : Canon (tree_arg a).
Proof. apply Canon_node; [reflexivity |]. constructor; [apply canon_name |]. constructor; [apply canon_value | constructor]. Qed.
Lemma canon_dir d : Canon (tree_dir d).
Proof. apply Canon_node; [reflexivity |]. constructor; [apply canon_name |]. apply Forall_map_canon. intros a _. apply canon_arg. Qed.

Lemma canon_sel_ss : (forall s, Canon (tree_sel s)) /\ (forall ss, Canon (tree_ss ss)).
Proof.
  apply sel_ss_ind.
  - intros a al n np args dirs sub IH. cbn [tree_sel]. apply Canon_node; [reflexivity |].
    apply Forall_app'; [apply Forall_opt_canon; apply canon_name |]. apply Forall_app'; [constructor; [apply canon_name | constructor] |].
    apply Forall_app'; [apply Forall_map_canon; intros x _; apply canon_arg |]. apply Forall_app'; [apply Forall_map_canon; intros x _; apply canon_dir |].
    destruct sub as [ss|]; cbn [opt_tree]; [constructor; [apply (IH ss eq_refl) | constructor] | constructor].
  - intros n np dirs e. cbn [tree_sel]. apply Canon_node; [reflexivity |]. constructor; [apply canon_name |]. apply Forall_map_canon. intros x _. apply canon_dir.
  - intros cond dirs sub e IH. cbn [tree_sel]. apply Canon_node; [reflexivity |].
    apply Forall_app'; [apply Forall_opt_canon; apply canon_named_type |]. apply Forall_app'; [apply Forall_map_canon; intros x _; apply canon_dir |].
    constructor; [exact IH | constructor].
  - intros a sels p IH. cbn [tree_ss]. apply Canon_node; [reflexivity |]. apply Forall_map_canon. intros s Hs. rewrite Forall_forall in IH. apply (IH s Hs).
Qed.

Lemma canon_vardef v : Canon (tree_vardef v).
Proof.
  unfold tree_vardef. apply Canon_node; [reflexivity |]. apply Forall_app'; [| apply Forall_opt_canon; apply canon_value].
  constructor; [apply canon_value |]. constructor; [apply canon_ty | constructor].
Qed.

Lemma canon_def d : Canon (tree_def d).
Proof.
  destruct d as [ot n vars dirs sub | kw n np cond dirs sub]; unfold tree_def; apply Canon_node; try reflexivity.
  - apply Forall_app'; [apply Forall_opt_canon; intros [k p]; apply Canon_node; [reflexivity | constructor] |].
    apply Forall_app'; [apply Forall_opt_canon; apply canon_name |]. apply Forall_app'; [apply Forall_map_canon; intros x _; apply canon_vardef |].
    apply Forall_app'; [apply Forall_map_canon; intros x _; apply canon_dir |]. constructor; [apply (proj2 canon_sel_ss) | constructor].
  - constructor; [apply canon_name |]. apply Forall_app'; [apply Forall_map_canon; intros x _; apply canon_dir |]. constructor; [apply (proj2 canon_sel_ss) | constructor].
Qed.

Lemma canon_doc D : Canon (tree_doc D).
Proof. unfold tree_doc. apply Canon_node; [reflexivity |]. apply Forall_map_canon. intros d _. apply canon_def. Qed.

(** the closure property *)
Theorem node_closure D n : In n (tree_nodes (tree_doc D)) -> incl (tree_nodes (tree_of n)) (tree_nodes (tree_doc D)).
Proof.
  intros H. destruct (node_subtree _ n H) as [cs Hcs]. pose proof (canon_doc D _ Hcs) as Hc. cbn [canon] in Hc. rewrite <- Hc.
  apply (subtrees_nodes _ _ Hcs).
Qed.
