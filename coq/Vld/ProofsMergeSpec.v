(** * Vld/ProofsMergeSpec.v — 5.3.2 in the Spec's own encoding, soundness: on a document the
    validator accepts, [fields_can_merge nesting_bound (collected parent ss)] holds of every selection
    set.  The Spec pairs ALL fields of [collected] that have equal response names, in the order of its
    own traversal; the validator pairs the fields it filed under one key, in the order of its own.
    No correspondence of the orders is needed: every field the Spec collects is filed by the
    validator as an entry (ProofsSpecCollect / ProofsCollectEntries), two entries under one key were
    compared in one order or the other or are the same entry, and the Spec's comparisons are
    symmetric and — given that every selection set of the document passed — reflexive. *)
From Coq Require Import List NArith Arith Bool Lia.
From ApiFu Require Import Base.Sexp Vld.Ast Vld.AstInd Vld.Inspect Vld.InspectProofs Vld.TypeInfoModel Vld.TypeInfoPure Vld.Enumerate Vld.SpecEnum
     Vld.ValidatorModel Vld.ValidSpec Vld.Hyps Vld.ProofsCommon Vld.ProofsCycles Vld.ProofsFragDecl Vld.ProofsTotal Vld.ProofsSpreads Vld.ProofsDepth
     Vld.ProofsSpecReach Vld.ProofsVarsSpec Vld.ProofsCollect Vld.ProofsCollectEntries Vld.ProofsSpecCollect Vld.ProofsSubscription
     Vld.MemoEquiv Vld.ProofsMergeSound Vld.ProofsMergeNames Vld.ProofsMergeLocal Vld.ProofsSpecSym.
Import ListNotations.

(** ** the Spec's collection, with the parent type each field is collected under *)
Section SpecParents.
  Variable S : schema.
  Variable F : features.
  Variable D : document.

  Inductive InCSp : option name -> selset -> cfield -> Prop :=
  | InCSp_field par a sels p f : In f sels -> is_fieldb f = true -> InCSp par (SelSet a sels p) (f, par)
  | InCSp_inline par a sels p c dirs sub e x :
      In (SInline c dirs sub e) sels -> InCSp (sub_scope S F par (SInline c dirs sub e)) sub x -> InCSp par (SelSet a sels p) x
  | InCSp_spread par a sels p n np dirs e d x :
      In (SSpread n np dirs e) sels -> fragment D n = Some d -> InCSp (def_scope S F d) (def_sub d) x -> InCSp par (SelSet a sels p) x.

  Notation csel := (collect_sel S F).
  Notation css := (collect_ss S F).
  Notation efuel := (expand_fuel S F D).

  Lemma collect_sound_p (E : list name -> name -> list cfield * list name) :
    (forall V n out V', E V n = (out, V') -> forall x, In x out -> exists d, fragment D n = Some d /\ InCSp (def_scope S F d) (def_sub d) x) ->
    (forall s parent V out V', csel E parent V s = (out, V') -> forall x, In x out ->
       (is_fieldb s = true /\ x = (s, parent)) \/ (exists c dirs sub e, s = SInline c dirs sub e /\ InCSp (sub_scope S F parent s) sub x) \/
       (exists n np dirs e d, s = SSpread n np dirs e /\ fragment D n = Some d /\ InCSp (def_scope S F d) (def_sub d) x)) /\
    (forall ss parent V out V', css E parent V ss = (out, V') -> forall x, In x out -> InCSp parent ss x).
  Proof.
    intros HE. apply sel_ss_ind.
    - intros a al n np args dirs sub _ parent V out V' H x Hx. cbn [collect_sel] in H. inversion H; subst. destruct Hx as [<- | []]. left. split; reflexivity.
    - intros n np dirs e parent V out V' H x Hx. cbn [collect_sel] in H. right. right.
      destruct (mem n V); [inversion H; subst; destruct Hx |].
      destruct (HE _ _ _ _ H x Hx) as [d [Hd Hin]]. exists n, np, dirs, e, d. auto.
    - intros cond dirs sub e IH parent V out V' H x Hx. cbn [collect_sel] in H. right. left. exists cond, dirs, sub, e. split; [reflexivity | apply (IH _ _ _ _ H x Hx)].
    - intros a sels p IH parent V out V' H x Hx. rewrite css_eq in H. rewrite Forall_forall in IH.
      assert (forall l V0 out0 V1, (forall s, In s l -> In s sels) -> cgo S F E parent l V0 = (out0, V1) -> In x out0 -> InCSp parent (SelSet a sels p) x) as Hgo.
      { induction l as [|y r IHl]; intros V0 out0 V1 Hl Hc Hin; cbn [cgo] in Hc; [inversion Hc; subst; destruct Hin |].
        destruct (csel E parent V0 y) as [oa v1] eqn:Ey. destruct (cgo S F E parent r v1) as [ob v2] eqn:Er. inversion Hc; subst out0 V1.
        apply in_app_or in Hin as [Hin | Hin].
        - assert (In y sels) as Hy by (apply Hl; left; reflexivity).
          destruct (IH y Hy parent V0 oa v1 Ey x Hin) as [[Hfld ->] | [[c [dirs [sub [e [-> Hs]]]]] | [n [np [dirs [e [d [-> [Hd Hs]]]]]]]]].
          + apply InCSp_field; assumption.
          + apply (InCSp_inline parent a sels p c dirs sub e x Hy Hs).
          + apply (InCSp_spread parent a sels p n np dirs e d x Hy Hd Hs).
        - apply (IHl v1 ob v2 (fun s Hs => Hl s (or_intror Hs)) Er Hin). }
      apply (Hgo sels V out V' (fun s Hs => Hs) H Hx).
  Qed.

  Lemma efuel_sound_p k : forall V n out V', efuel k V n = (out, V') -> forall x, In x out -> exists d, fragment D n = Some d /\ InCSp (def_scope S F d) (def_sub d) x.
  Proof.
    induction k as [|k IH]; intros V n out V' H x Hx; cbn [expand_fuel] in H; [inversion H; subst; destruct Hx |].
    destruct (fragment D n) as [d|] eqn:Ed; [| inversion H; subst; destruct Hx].
    exists d. split; [reflexivity |]. apply (proj2 (collect_sound_p (efuel k) IH) _ _ _ _ _ H x Hx).
  Qed.

  Theorem collected_sound_p parent ss x : In x (collected S F D parent ss) -> InCSp parent ss x.
  Proof.
    unfold collected. intros H. destruct (css (efuel (Datatypes.S (n_frags D))) parent [] ss) as [out V'] eqn:E. cbn [fst] in H.
    apply (proj2 (collect_sound_p _ (efuel_sound_p _)) _ _ _ _ _ E x H).
  Qed.
End SpecParents.

(** ** facts about [InCw] *)
Lemma incw_inc A t w f : InCw A t w f -> InC A t f.
Proof.
  intros H. induction H as [a sels p f Hf Hfld | a sels p c dirs sub e w f Hs _ IH | a sels p n np dirs e d w f Hs Hd _ IH].
  - apply InC_field; assumption.
  - apply (InC_inline A a sels p c dirs sub e f Hs IH).
  - apply (InC_spread A a sels p n np dirs e d f Hs Hd IH).
Qed.
Lemma incw_where A t w f : InCw A t w f -> In t (all_subs A) -> In w (all_subs A) /\ In f (ss_sels w) /\ is_fieldb f = true.
Proof.
  intros H. induction H as [a sels p f Hf Hfld | a sels p c dirs sub e w f Hs _ IH | a sels p n np dirs e d w f Hs Hd _ IH]; intros Ht.
  - auto.
  - apply IH. apply (subs_closed A a sels p _ sub Ht Hs eq_refl).
  - apply IH. apply (frag_sub_in A n d Hd).
Qed.

Section Bridge.
  Variable S : schema.
  Variable F : features.
  Variable D : document.
  Notation qo := (q_unwrap_obj repaired).
  Notation A := (pti_doc qo S F D).
  Hypothesis names_unique : NoDup (frag_names D).

  (** what the Spec collects under [par] is, annotated, what the validator finds in a set annotated [par] *)
  Lemma incsp_incw par ss x :
    InCSp S F D par ss x -> exists w, InCw A (pti_ss qo S F par ss) w (pti_sel qo S F (snd x) (fst x)) /\ ss_ann w = snd x.
  Proof.
    intros H. induction H as [par a sels p f Hf Hfld | par a sels p c dirs sub e x Hs _ IH | par a sels p n np dirs e d x Hs Hd _ IH]; rewrite pti_ss_eq.
    - exists (SelSet par (map (pti_sel qo S F par) sels) p). split; [| reflexivity]. cbn [fst snd].
      apply InCw_here; [apply in_map; exact Hf | rewrite (proj2 (pti_sel_pos qo S F par f)); exact Hfld].
    - destruct IH as [w [Hw Ha]]. exists w. split; [| exact Ha]. rewrite sub_scope_inline in Hw.
      apply (InCw_inline A par _ p c (map (ti_dir qo S) dirs) (pti_ss qo S F (inline_scope S F par c) sub) e w _); [| exact Hw].
      rewrite <- (pti_sel_inline_eq qo S F par c dirs sub e). apply in_map. exact Hs.
    - destruct IH as [w [Hw Ha]]. exists w. split; [| exact Ha]. rewrite spec_def_scope_eq in Hw.
      apply (InCw_spread A par _ p n np (map (ti_dir qo S) dirs) e (pti_def qo S F d) w _).
      + change (SSpread n np (map (ti_dir qo S) dirs) e) with (pti_sel qo S F par (SSpread n np dirs e)). apply in_map. exact Hs.
      + rewrite frag_last_pti. unfold fragment in Hd. rewrite (frag_first_last D names_unique n d Hd). reflexivity.
      + rewrite pti_def_sub. exact Hw.
  Qed.
End Bridge.

(** ** small facts *)
Lemma sty_eqb_refl t : sty_eqb t t = true.
Proof. induction t as [n | t IH | t IH]; cbn; [apply name_eqb_refl | exact IH | exact IH]. Qed.
Lemma sty_eqb_sym a : forall b, sty_eqb a b = sty_eqb b a.
Proof. induction a as [n | a IH | a IH]; intros b; destruct b as [m | b | b]; cbn; try reflexivity; [apply name_eqb_sym | apply IH | apply IH]. Qed.

Lemma all_pairs_forall {X} (f : X -> X -> bool) l : (forall a b, In a l -> In b l -> f a b = true) -> all_pairs f l = true.
Proof.
  induction l as [|x r IH]; intros H; [reflexivity |]. cbn [all_pairs]. apply andb_true_iff. split.
  - apply forallb_forall. intros y Hy. apply H; [left; reflexivity | right; exact Hy].
  - apply IH. intros a b Ha Hb. apply H; right; assumption.
Qed.

Lemma keys_unique m k l l' : NoDup (keys m) -> In (k, l) m -> In (k, l') m -> l = l'.
Proof.
  unfold keys. induction m as [|[k0 l0] r IH]; intros Hnd H H'; [destruct H |]. cbn [map fst] in Hnd. inversion Hnd as [| ? ? Hni Hnd']; subst.
  destruct H as [H | H], H' as [H' | H'].
  - inversion H; inversion H'; subst. reflexivity.
  - inversion H; subst. exfalso. apply Hni. apply (in_map fst) in H'. exact H'.
  - inversion H'; subst. exfalso. apply Hni. apply (in_map fst) in H. exact H.
  - apply IH; assumption.
Qed.

Lemma add_selections_keys_nodup A m sub m' v :
  (forall ss, sub = Some ss -> In ss (all_subs A)) -> add_selections repaired A m sub = COk m' v -> NoDup (keys m) -> NoDup (keys m').
Proof.
  intros Hsub H. unfold add_selections in H. destruct sub as [ss|]; [| inversion H; subst; exact (fun h => h)].
  (* the fact does not need distinct positions: filing keeps keys distinct *)
  intros Hnd. revert Hnd. apply (collect_preserves A (fun m0 => NoDup (keys m0)) (fun m0 s a p Hm0 _ => fmap_add_keys_nodup _ _ m0 Hm0) _ m [] ss m' v H).
Qed.

Section Main.
  Variable S : schema.
  Variable F : features.
  Variable D : document.
  Notation qo := (q_unwrap_obj repaired).
  Notation A := (pti_doc qo S F D).
  Hypothesis names_unique : NoDup (frag_names D).
  Hypothesis sets_distinct : forall s1 s2, In s1 (all_subs A) -> In s2 (all_subs A) -> ss_pos s1 = ss_pos s2 -> s1 = s2.
  Hypothesis all_merge_ok : forall ss, In ss (all_subs A) -> exists m v, add_selections repaired A [] (Some ss) = COk m v /\ MergeOK S A m.
  Hypothesis types_wf : forall top n fd, field_of_scope S F top n = Some fd -> wf_sty (f_type fd) = true.
  Hypothesis no_typename_field : forall top, field_of_scope S F top n_typename = None.
  Hypothesis args_unique : forall a sels p fa al n np args dirs sub,
      In (SelSet a sels p) (all_subs A) -> In (SField fa al n np args dirs sub) sels -> NoDup (map a_name args).
  Hypothesis typename_leaf : forall a sels p fa al n np args dirs sub,
      In (SelSet a sels p) (all_subs A) -> In (SField fa al n np args dirs sub) sels -> name_eqb n n_typename = true -> sub = None.

  (** a Spec field and the entry that stands for it *)
  Definition Rep (c : cfield) (x : fp) : Prop := fst3 x = pti_sel qo S F (snd c) (fst c) /\ snd (fst x) = snd c.
  (** what is known of an entry: a field of a selection set of the document, with a bound on the
      chains of nested fields below it *)
  Definition Ent (n : nat) (x : fp) : Prop :=
    Hle A n (fst3 x) /\ exists w, In w (all_subs A) /\ In (fst3 x) (ss_sels w) /\ is_fieldb (fst3 x) = true.

  Lemma ent_field_ok n x : Ent n x -> field_ok A (fst3 x).
  Proof.
    intros [_ [[a sels p] [Hw [Hin _]]]] ss Hsub. cbn [ss_sels] in Hin. apply (subs_closed A a sels p (fst3 x) ss Hw Hin).
    destruct (fst3 x); cbn in *; [exact Hsub | discriminate | inversion Hsub; reflexivity].
  Qed.

  (** the field definition the Spec finds is the annotation the validator reads the type from *)
  Lemma cf_def_shape c d : is_fieldb (fst c) = true -> cf_def S F c = Some d -> shape_type (pti_sel qo S F (snd c) (fst c)) = inl (f_type d).
  Proof.
    destruct c as [s par]. cbn [fst snd]. destruct s as [fa al n np args dirs sub | |]; try discriminate. intros _ H.
    rewrite pti_sel_field_eq. unfold shape_type. cbn [sel_name sel_fann]. unfold cf_def in H. cbn [fst snd] in H.
    destruct par as [p|]; [| discriminate H]. unfold field_def_of in H. change s_typename with n_typename in H.
    destruct (name_eqb n n_typename).
    - destruct (composite S p); [| discriminate H]. inversion H; subst d. reflexivity.
    - rewrite declared_field_eq in H. rewrite H. reflexivity.
  Qed.

  Lemma cf_def_wf c d : cf_def S F c = Some d -> wf_sty (f_type d) = true.
  Proof.
    destruct c as [s par]. unfold cf_def. cbn [fst snd]. destruct par as [p|]; [| discriminate]. destruct s as [fa al n np args dirs sub | |]; try discriminate.
    unfold field_def_of. destruct (name_eqb n s_typename).
    - destruct (composite S p); [| discriminate]. intros H. inversion H; subst. reflexivity.
    - rewrite declared_field_eq. apply types_wf.
  Qed.

  (** the sub-selections the Spec collects below a field are filed by the validator when it collects
      the annotated field's selection set *)
  Lemma cf_sub_entries n c x m m' v :
    Rep c x -> Ent (Datatypes.S n) x -> add_selections repaired A m (sel_sub (fst3 x)) = COk m' v ->
    forall g, In g (cf_sub S F D c) ->
    exists y l, In (resp_name (fst g), l) m' /\ In y l /\ Rep g y /\ Ent n y.
  Proof.
    intros [Hr Hp] Hent Hadd g Hg. destruct c as [s par]. cbn [fst snd] in *. unfold cf_sub in Hg. cbn [fst] in Hg.
    destruct s as [fa al fname np args dirs [ss_sub|] | |]; try (destruct Hg; fail).
    destruct (cf_def S F (SField fa al fname np args dirs (Some ss_sub), par)) as [d|] eqn:Ed; [| destruct Hg].
    (* not __typename: it has a selection set *)
    destruct Hent as [HL [[aw selsw pw] [Hw [Hin Hfld]]]]. cbn [ss_sels] in Hin.
    rewrite Hr, pti_sel_field_eq in Hin, Hadd, HL. cbn [sel_sub] in Hadd.
    assert (name_eqb fname n_typename = false) as Hnt.
    { destruct (name_eqb fname n_typename) eqn:E; [| reflexivity]. pose proof (typename_leaf _ _ _ _ _ _ _ _ _ _ Hw Hin E) as Hnone. discriminate Hnone. }
    assert (field_scope S F par fname = Some (result_type d)) as Hscope.
    { unfold cf_def in Ed. cbn [fst snd] in Ed. destruct par as [p|]; [| discriminate Ed]. unfold field_def_of in Ed. change s_typename with n_typename in Ed.
      rewrite Hnt in Ed. rewrite declared_field_eq in Ed. unfold field_scope. rewrite Ed. reflexivity. }
    rewrite Hscope in *.
    apply (collected_sound_p S F D) in Hg. destruct (incsp_incw S F D names_unique _ _ g Hg) as [w [Hcw Ha]].
    set (t := pti_ss qo S F (Some (result_type d)) ss_sub) in *.
    assert (In t (all_subs A)) as Ht by (apply (subs_closed A aw selsw pw _ t Hw Hin eq_refl)).
    destruct (add_selections_entries A sets_distinct m t m' v Ht Hadd) as [_ Hall].
    destruct (Hall w _ Hcw) as [l [Hkl Hyl]].
    exists (pti_sel qo S F (snd g) (fst g), ss_ann w, ss_pos w), l.
    destruct (incw_where A t w _ Hcw Ht) as [Hw' [Hin' Hfld']].
    assert (response_name (pti_sel qo S F (snd g) (fst g)) = resp_name (fst g)) as Hname.
    { rewrite response_name_pti. symmetry. apply resp_name_field. rewrite <- (proj2 (pti_sel_pos qo S F (snd g) (fst g))). exact Hfld'. }
    rewrite Hname in Hkl. split; [exact Hkl |]. split; [exact Hyl |]. split; [split; [reflexivity | exact Ha] |].
    split; [| exists w; auto].
    cbn [fst3 fst]. cbn [Hle] in HL. apply (HL t _ eq_refl). apply (incw_inc A t w _ Hcw).
  Qed.

  (** two entries under one key: the same, or compared in one order or the other *)
  Definition shape_rel (u v : fp) : Prop := u = v \/ ShapeOK S A (fst3 u) (fst3 v) \/ ShapeOK S A (fst3 v) (fst3 u).

  Definition Sh (n : nat) : Prop :=
    forall c c' x y, Rep c x -> Rep c' y -> Ent n x -> Ent n y -> shape_rel x y ->
                     forall f, n <= f -> same_response_shape S F D f c c' = true.

  Definition has_ent (n : nat) (m : fmap) (g : cfield) : Prop :=
    exists y l, In (resp_name (fst g), l) m /\ In y l /\ Rep g y /\ Ent n y.

  Lemma has_ent_lift n m m' g : ents_incl m m' -> has_ent n m g -> has_ent n m' g.
  Proof. intros Hi [y [l [Hk [Hy [Hr He]]]]]. destruct (Hi _ l y Hk Hy) as [l' [Hk' Hy']]. exists y, l'. auto. Qed.

  Lemma sub_pairs n f' m L :
    Sh n -> NoDup (keys m) ->
    (forall k l, In (k, l) m -> forall u v, In u l -> In v l -> shape_rel u v) ->
    (forall g, In g L -> has_ent n m g) -> n <= f' ->
    all_pairs (fun p q => if same_resp p q then same_response_shape S F D f' p q else true) L = true.
  Proof.
    intros HSh Hnd Hrel Hent Hle. apply all_pairs_forall. intros p q Hp Hq. destruct (same_resp p q) eqn:Esr; [| reflexivity].
    destruct (Hent p Hp) as [yp [lp [Hkp [Hyp [Hrp Hep]]]]]. destruct (Hent q Hq) as [yq [lq [Hkq [Hyq [Hrq Heq]]]]].
    unfold same_resp in Esr. apply name_eqb_eq in Esr. rewrite <- Esr in Hkq. rewrite (keys_unique m _ lq lp Hnd Hkq Hkp) in Hyq.
    apply (HSh p q yp yq Hrp Hrq Hep Heq (Hrel _ lp Hkp yp yq Hyp Hyq) f' Hle).
  Qed.

  (** the collected sub-selections of a field, as a map: what the validator's own check of that selection set left *)
  Lemma self_map n x : Ent (Datatypes.S n) x ->
    exists m v, add_selections repaired A [] (sel_sub (fst3 x)) = COk m v /\ MergeOK S A m /\ NoDup (keys m).
  Proof.
    intros He. pose proof (ent_field_ok _ x He) as Hok. destruct (sel_sub (fst3 x)) as [t|] eqn:Et.
    - destruct (all_merge_ok t (Hok t Et)) as [m [v [E Hm]]]. exists m, v. split; [exact E |]. split; [exact Hm |].
      apply (add_selections_keys_nodup A [] (Some t) m v (fun ss Ess => ltac:(inversion Ess; subst; exact (Hok ss Et))) E). constructor.
    - exists [], []. split; [reflexivity |]. split; [constructor; intros k l [] | constructor].
  Qed.

  Lemma merge_ok_shape_rel m : MergeOK S A m -> forall k l, In (k, l) m -> forall u v, In u l -> In v l -> shape_rel u v.
  Proof.
    intros Hm k l Hkl u v Hu Hv. pose proof (merge_ok_unfold S A m Hm k l Hkl) as Hp.
    destruct (ForallOrdPairs_In Hp u v Hu Hv) as [Heq | [[H _] | [H _]]]; [left; exact Heq | right; left; exact H | right; right; exact H].
  Qed.

  Lemma rep_field c x n : Rep c x -> Ent n x -> is_fieldb (fst c) = true.
  Proof. intros [Hr _] [_ [w [_ [_ Hf]]]]. rewrite Hr in Hf. rewrite (proj2 (pti_sel_pos qo S F (snd c) (fst c))) in Hf. exact Hf. Qed.

  Lemma shape_step n : Sh n -> Sh (Datatypes.S n).
  Proof.
    intros IH c c' x y Hrx Hry Hex Hey Hrel f Hf. destruct f as [|f']; [lia |]. assert (n <= f') as Hf' by lia.
    cbn [same_response_shape]. destruct (cf_def S F c) as [dx|] eqn:Edx; [| reflexivity]. destruct (cf_def S F c') as [dy|] eqn:Edy; [| reflexivity].
    pose proof (cf_def_shape c dx (rep_field c x _ Hrx Hex) Edx) as Stx. pose proof (cf_def_shape c' dy (rep_field c' y _ Hry Hey) Edy) as Sty.
    destruct Hrx as [Hrx Hpx]. destruct Hry as [Hry Hpy]. rewrite <- Hrx in Stx. rewrite <- Hry in Sty.
    pose proof (ent_field_ok _ x Hex) as Hokx. pose proof (ent_field_ok _ y Hey) as Hoky.
    destruct Hrel as [Heq | [Hs | Hs]].
    - (* the same entry *)
      subst y. assert (f_type dy = f_type dx) as Et by congruence. rewrite Et. destruct (strip_shape_refl (f_type dx)) as [a Ea]. rewrite Ea.
      destruct (leaf_sty S a || leaf_sty S a); [apply sty_eqb_refl |].
      destruct (self_map n x Hex) as [m [v [E [Hm Hnd]]]].
      apply (sub_pairs n f' m _ IH Hnd (merge_ok_shape_rel m Hm)); [| exact Hf'].
      intros g Hg. apply in_app_or in Hg as [Hg | Hg]; [apply (cf_sub_entries n c x [] m v (conj Hrx Hpx) Hex E g Hg) | apply (cf_sub_entries n c' x [] m v (conj Hry Hpy) Hey E g Hg)].
    - (* compared as (x, y) *)
      destruct (shape_ok_unfold S A _ _ Hs) as [tX [tY [a [b [E1 [E2 [El [Hleaf Hsub]]]]]]]]. rewrite Stx in E1. rewrite Sty in E2. inversion E1; inversion E2; subst tX tY.
      apply (shape_loop_strip _ _ a b (cf_def_wf c dx Edx) (cf_def_wf c' dy Edy)) in El. rewrite El.
      change (leaf_sty S a || leaf_sty S b) with (is_leaf_sty S a || is_leaf_sty S b). destruct (is_leaf_sty S a || is_leaf_sty S b) eqn:Elf; [apply Hleaf; reflexivity |].
      destruct (Hsub eq_refl) as [m1 [v1 [m2 [v2 [A1 [A2 Hfop]]]]]].
      assert (NoDup (keys m2)) as Hnd.
      { apply (add_selections_keys_nodup A m1 _ m2 v2 Hoky A2). apply (add_selections_keys_nodup A [] _ m1 v1 Hokx A1). constructor. }
      apply (sub_pairs n f' m2 _ IH Hnd); [| | exact Hf'].
      + intros k l Hkl u v Hu Hv. destruct (ForallOrdPairs_In (Hfop k l Hkl) u v Hu Hv) as [H | [H | H]]; [left; exact H | right; left; exact H | right; right; exact H].
      + intros g Hg. apply in_app_or in Hg as [Hg | Hg].
        * assert (ents_incl m1 m2) as Hi.
          { destruct (sel_sub (fst3 y)) as [t|] eqn:Et; [| cbn in A2; inversion A2; subst; apply ents_incl_refl].
            apply (add_selections_entries A sets_distinct m1 t m2 v2 (Hoky t Et) A2). }
          apply (has_ent_lift n m1 m2 g Hi). apply (cf_sub_entries n c x [] m1 v1 (conj Hrx Hpx) Hex A1 g Hg).
        * apply (cf_sub_entries n c' y m1 m2 v2 (conj Hry Hpy) Hey A2 g Hg).
    - (* compared as (y, x) *)
      destruct (shape_ok_unfold S A _ _ Hs) as [tY [tX [b [a [E2 [E1 [El [Hleaf Hsub]]]]]]]]. rewrite Stx in E1. rewrite Sty in E2. inversion E1; inversion E2; subst tX tY.
      apply (shape_loop_strip _ _ b a (cf_def_wf c' dy Edy) (cf_def_wf c dx Edx)) in El. apply strip_shape_sym in El. rewrite El.
      change (leaf_sty S a || leaf_sty S b) with (is_leaf_sty S a || is_leaf_sty S b). rewrite orb_comm.
      destruct (is_leaf_sty S b || is_leaf_sty S a) eqn:Elf; [rewrite sty_eqb_sym; apply Hleaf; reflexivity |].
      destruct (Hsub eq_refl) as [m1 [v1 [m2 [v2 [A1 [A2 Hfop]]]]]].
      assert (NoDup (keys m2)) as Hnd.
      { apply (add_selections_keys_nodup A m1 _ m2 v2 Hokx A2). apply (add_selections_keys_nodup A [] _ m1 v1 Hoky A1). constructor. }
      apply (sub_pairs n f' m2 _ IH Hnd); [| | exact Hf'].
      + intros k l Hkl u v Hu Hv. destruct (ForallOrdPairs_In (Hfop k l Hkl) u v Hu Hv) as [H | [H | H]]; [left; exact H | right; left; exact H | right; right; exact H].
      + intros g Hg. apply in_app_or in Hg as [Hg | Hg].
        * apply (cf_sub_entries n c x m1 m2 v2 (conj Hrx Hpx) Hex A2 g Hg).
        * assert (ents_incl m1 m2) as Hi.
          { destruct (sel_sub (fst3 x)) as [t|] eqn:Et; [| cbn in A2; inversion A2; subst; apply ents_incl_refl].
            apply (add_selections_entries A sets_distinct m1 t m2 v2 (Hokx t Et) A2). }
          apply (has_ent_lift n m1 m2 g Hi). apply (cf_sub_entries n c' y [] m1 v1 (conj Hry Hpy) Hey A1 g Hg).
  Qed.

  Lemma shape_all n : Sh n.
  Proof.
    induction n as [|n IH]; [| apply shape_step; exact IH].
    intros c c' x y _ _ [H _]. destruct H.
  Qed.

  (** ** FieldsInSetCanMerge *)
  Lemma rep_name c x : Rep c x -> is_fieldb (fst c) = true -> sel_name (fst3 x) = cf_name c.
  Proof. intros [Hr _] Hf. rewrite Hr. destruct c as [[fa al n np args dirs sub | |] par]; try discriminate Hf. reflexivity. Qed.
  Lemma rep_args c x : Rep c x -> is_fieldb (fst c) = true ->
    exists defs dn, sel_args (fst3 x) = ti_args qo S defs dn (cf_args c).
  Proof.
    intros [Hr _] Hf. rewrite Hr. destruct c as [[fa al n np args dirs sub | |] par]; try discriminate Hf.
    cbn [fst snd]. rewrite pti_sel_field_eq. cbn [sel_args cf_args fst]. unfold field_args. eexists _, _. reflexivity.
  Qed.
  Lemma ent_args_unique n x : Ent n x -> NoDup (map a_name (sel_args (fst3 x))).
  Proof.
    intros [_ [[a sels p] [Hw [Hin Hf]]]]. cbn [ss_sels] in Hin. destruct (fst3 x) as [fa al fn np args dirs sub | |] eqn:E; try discriminate Hf.
    cbn [sel_args]. apply (args_unique a sels p fa al fn np args dirs sub Hw Hin).
  Qed.

  Definition Mg (n : nat) : Prop :=
    forall L m, MergeOK S A m -> NoDup (keys m) -> (forall g, In g L -> has_ent n m g) ->
                forall f, n <= f -> fields_can_merge S F D (Datatypes.S f) L = true.

  (** what the Spec asks of a pair beyond the shapes, from what the validator checked of it *)
  Definition pair_rest (f : nat) (p q : cfield) : bool :=
    match snd p, snd q with
    | Some px, Some py =>
        if name_eqb px py || negb (is_object S px) || negb (is_object S py) then
          name_eqb (cf_name p) (cf_name q) && same_args (cf_args p) (cf_args q) && fields_can_merge S F D f (cf_sub S F D p ++ cf_sub S F D q)
        else true
    | _, _ => true
    end.

  Lemma merge_step n : Mg n -> Mg (Datatypes.S n).
  Proof.
    intros IH L m Hm Hnd Hent f Hf. destruct f as [|f']; [lia |]. assert (n <= f') as Hf' by lia.
    cbn [fields_can_merge]. apply all_pairs_forall. intros p q Hp Hq. destruct (same_resp p q) eqn:Esr; [| reflexivity].
    destruct (Hent p Hp) as [yp [lp [Hkp [Hyp [Hrp Hep]]]]]. destruct (Hent q Hq) as [yq [lq [Hkq [Hyq [Hrq Heq]]]]].
    pose proof Esr as Esr'. unfold same_resp in Esr'. apply name_eqb_eq in Esr'. rewrite <- Esr' in Hkq. rewrite (keys_unique m _ lq lp Hnd Hkq Hkp) in Hyq.
    apply andb_true_iff. split.
    - apply (shape_all (Datatypes.S n) p q yp yq Hrp Hrq Hep Heq (merge_ok_shape_rel m Hm _ lp Hkp yp yq Hyp Hyq)). lia.
    - change (pair_rest (Datatypes.S f') p q = true). unfold pair_rest.
      pose proof (rep_field p yp _ Hrp Hep) as Hfp. pose proof (rep_field q yq _ Hrq Heq) as Hfq.
      pose proof (ent_field_ok _ yp Hep) as Hokp. pose proof (ent_field_ok _ yq Heq) as Hokq.
      destruct (snd p) as [px|] eqn:Epx; [| reflexivity]. destruct (snd q) as [py|] eqn:Epy; [| reflexivity].
      change (name_eqb px py || negb (is_object S px) || negb (is_object S py)) with (may_overlap S px py).
      destruct (may_overlap S px py) eqn:Eov; [| reflexivity].
      destruct (rep_args p yp Hrp Hfp) as [dfp [dnp Eap]]. destruct (rep_args q yq Hrq Hfq) as [dfq [dnq Eaq]].
      pose proof (merge_ok_unfold S A m Hm _ lp Hkp) as Hfop.
      destruct (ForallOrdPairs_In Hfop yp yq Hyp Hyq) as [Hsame | [[_ Hpq] | [_ Hqp]]].
      + (* the same entry *)
        subst yq. rewrite <- (rep_name p yp Hrp Hfp), <- (rep_name q yp Hrq Hfq), name_eqb_refl. cbn [andb].
        assert (same_args (cf_args p) (cf_args q) = true) as ->.
        { rewrite <- (same_args_annot qo S dfp dnp dfq dnq), <- Eap, <- Eaq. apply same_args_refl. }
        cbn [andb]. destruct (self_map n yp Hep) as [ms [vs [Es [Hms Hnds]]]].
        apply (IH _ ms Hms Hnds); [| exact Hf'].
        intros g Hg. apply in_app_or in Hg as [Hg | Hg]; [apply (cf_sub_entries n p yp [] ms vs Hrp Hep Es g Hg) | apply (cf_sub_entries n q yp [] ms vs Hrq Heq Es g Hg)].
      + (* compared as (p, q) *)
        destruct Hpq as [pa [pb [Ha [Hb Hov]]]]. destruct Hrp as [Hrp1 Hrp2]. destruct Hrq as [Hrq1 Hrq2].
        assert (pa = px) as -> by congruence. assert (pb = py) as -> by congruence.
        destruct (Hov Eov) as [Hn [Hargs [m1 [v1 [m2 [v2 [A1 [A2 Hm2]]]]]]]].
        rewrite <- (rep_name p yp (conj Hrp1 Hrp2) Hfp), <- (rep_name q yq (conj Hrq1 Hrq2) Hfq), Hn. cbn [andb].
        assert (same_args (cf_args p) (cf_args q) = true) as ->.
        { rewrite <- (same_args_annot qo S dfp dnp dfq dnq), <- Eap, <- Eaq.
          apply (args_check_same_args _ _ (ent_args_unique _ yp Hep) (ent_args_unique _ yq Heq)). exact Hargs. }
        cbn [andb].
        assert (NoDup (keys m2)) as Hnd2.
        { apply (add_selections_keys_nodup A m1 _ m2 v2 Hokq A2). apply (add_selections_keys_nodup A [] _ m1 v1 Hokp A1). constructor. }
        apply (IH _ m2 Hm2 Hnd2); [| exact Hf'].
        intros g Hg. apply in_app_or in Hg as [Hg | Hg].
        * assert (ents_incl m1 m2) as Hi.
          { destruct (sel_sub (fst3 yq)) as [t|] eqn:Et; [| cbn in A2; inversion A2; subst; apply ents_incl_refl].
            apply (add_selections_entries A sets_distinct m1 t m2 v2 (Hokq t Et) A2). }
          apply (has_ent_lift n m1 m2 g Hi). apply (cf_sub_entries n p yp [] m1 v1 (conj Hrp1 Hrp2) Hep A1 g Hg).
        * apply (cf_sub_entries n q yq m1 m2 v2 (conj Hrq1 Hrq2) Heq A2 g Hg).
      + (* compared as (q, p) *)
        destruct Hqp as [pb [pa [Hb [Ha Hov]]]]. destruct Hrp as [Hrp1 Hrp2]. destruct Hrq as [Hrq1 Hrq2].
        assert (pa = px) as -> by congruence. assert (pb = py) as -> by congruence.
        rewrite may_overlap_sym in Eov.
        destruct (Hov Eov) as [Hn [Hargs [m1 [v1 [m2 [v2 [A1 [A2 Hm2]]]]]]]].
        rewrite <- (rep_name p yp (conj Hrp1 Hrp2) Hfp), <- (rep_name q yq (conj Hrq1 Hrq2) Hfq), name_eqb_sym, Hn. cbn [andb].
        assert (same_args (cf_args p) (cf_args q) = true) as ->.
        { rewrite same_args_sym, <- (same_args_annot qo S dfq dnq dfp dnp), <- Eap, <- Eaq.
          apply (args_check_same_args _ _ (ent_args_unique _ yq Heq) (ent_args_unique _ yp Hep)). exact Hargs. }
        cbn [andb].
        assert (NoDup (keys m2)) as Hnd2.
        { apply (add_selections_keys_nodup A m1 _ m2 v2 Hokp A2). apply (add_selections_keys_nodup A [] _ m1 v1 Hokq A1). constructor. }
        apply (IH _ m2 Hm2 Hnd2); [| exact Hf'].
        intros g Hg. apply in_app_or in Hg as [Hg | Hg].
        * apply (cf_sub_entries n p yp m1 m2 v2 (conj Hrp1 Hrp2) Hep A2 g Hg).
        * assert (ents_incl m1 m2) as Hi.
          { destruct (sel_sub (fst3 yp)) as [t|] eqn:Et; [| cbn in A2; inversion A2; subst; apply ents_incl_refl].
            apply (add_selections_entries A sets_distinct m1 t m2 v2 (Hokp t Et) A2). }
          apply (has_ent_lift n m1 m2 g Hi). apply (cf_sub_entries n q yq [] m1 v1 (conj Hrq1 Hrq2) Heq A1 g Hg).
  Qed.

  Lemma merge_all n : Mg n.
  Proof.
    induction n as [|n IH]; [| apply merge_step; exact IH].
    intros L m _ _ Hent f _. cbn [fields_can_merge]. apply all_pairs_forall. intros p q Hp _.
    destruct (Hent p Hp) as [y [l [_ [_ [_ [H _]]]]]]. destruct H.
  Qed.

  (** ** every selection set the Spec enumerates *)
  Hypothesis names_unique_A : NoDup (frag_names A).
  Hypothesis acyclic_A : forall n, In n (frag_names A) -> ~ exists x, reach A n x /\ edge A x n.

  Lemma sets_pti :
    (forall s parent o, In o (sets_sel S F parent s) -> In (pti_ss qo S F (so_parent o) (so_set o)) (subs_sel (pti_sel qo S F parent s))) /\
    (forall ss parent o, In o (sets_ss S F parent ss) -> In (pti_ss qo S F (so_parent o) (so_set o)) (subs_ss (pti_ss qo S F parent ss))).
  Proof.
    apply sel_ss_ind.
    - intros a al n np args dirs sub IH parent o Ho. rewrite (pti_sel_field_eq qo S F parent a al n np args dirs sub).
      destruct sub as [ss|]; [| destruct Ho]. cbn [sets_sel] in Ho. rewrite sub_scope_field in Ho. cbn [subs_sel]. apply (IH ss eq_refl _ o Ho).
    - intros n np dirs e parent o [].
    - intros cond dirs sub e IH parent o Ho. rewrite (pti_sel_inline_eq qo S F parent cond dirs sub e). cbn [sets_sel] in Ho. rewrite sub_scope_inline in Ho.
      cbn [subs_sel]. apply (IH _ o Ho).
    - intros a sels p IH parent o Ho. cbn [sets_ss] in Ho. rewrite pti_ss_eq, subs_ss_eq. destruct Ho as [<- | Ho].
      + left. cbn [so_parent so_set]. rewrite pti_ss_eq. reflexivity.
      + right. apply in_flat_map in Ho as [s [Hs Ho]]. apply in_flat_map. exists (pti_sel qo S F parent s). split; [apply in_map; exact Hs |].
        rewrite Forall_forall in IH. apply (IH s Hs parent o Ho).
  Qed.

  Lemma all_sets_pti o : In o (all_sets S F D) -> In (pti_ss qo S F (so_parent o) (so_set o)) (all_subs A).
  Proof.
    unfold all_sets, all_subs, pti_doc. intros H. apply in_flat_map in H as [d [Hd H]]. apply in_flat_map. exists (pti_def qo S F d).
    split; [apply in_map; exact Hd |]. rewrite pti_def_sub. rewrite spec_def_scope_eq in H. apply (proj2 sets_pti _ _ o H).
  Qed.

  Lemma count_pti :
    (forall s top, count_fields_sel (pti_sel qo S F top s) = n_fields_sel s) /\
    (forall ss top, count_fields_ss (pti_ss qo S F top ss) = n_fields_ss ss).
  Proof.
    apply sel_ss_ind.
    - intros a al n np args dirs sub IH top. rewrite (pti_sel_field_eq qo S F top a al n np args dirs sub). destruct sub as [ss|]; [| reflexivity].
      cbn [count_fields_sel n_fields_sel]. f_equal. apply (IH ss eq_refl).
    - reflexivity.
    - intros cond dirs sub e IH top. rewrite (pti_sel_inline_eq qo S F top cond dirs sub e). apply IH.
    - intros a sels p IH top. rewrite pti_ss_eq. cbn [count_fields_ss n_fields_ss]. rewrite map_map. f_equal.
      induction IH as [|s l Hs _ IHl]; [reflexivity |]. cbn [map]. rewrite Hs, IHl. reflexivity.
  Qed.
  Lemma nesting_bound_depth : nesting_bound D = Datatypes.S (max_depth A).
  Proof.
    unfold nesting_bound, max_depth, pti_doc. rewrite map_map. do 3 f_equal. apply map_ext. intros d. rewrite pti_def_sub. symmetry. apply (proj2 count_pti).
  Qed.

  Theorem merge_spec_sets o : In o (all_sets S F D) -> fields_can_merge S F D (nesting_bound D) (collected S F D (so_parent o) (so_set o)) = true.
  Proof.
    intros Ho. pose proof (all_sets_pti o Ho) as Ht. set (t := pti_ss qo S F (so_parent o) (so_set o)) in *.
    destruct (all_merge_ok t Ht) as [m [v [E Hm]]].
    assert (NoDup (keys m)) as Hnd by (apply (add_selections_keys_nodup A [] (Some t) m v (fun ss Ess => ltac:(inversion Ess; subst; exact Ht)) E); constructor).
    rewrite nesting_bound_depth. apply (merge_all (max_depth A) _ m Hm Hnd); [| apply le_n].
    intros g Hg. apply (collected_sound_p S F D) in Hg. destruct (incsp_incw S F D names_unique _ _ g Hg) as [w [Hcw Ha]]. fold t in Hcw.
    destruct (add_selections_entries A sets_distinct [] t m v Ht E) as [_ Hall]. destruct (Hall w _ Hcw) as [l [Hkl Hyl]].
    destruct (incw_where A t w _ Hcw Ht) as [Hw' [Hin' Hfld']].
    exists (pti_sel qo S F (snd g) (fst g), ss_ann w, ss_pos w), l.
    assert (response_name (pti_sel qo S F (snd g) (fst g)) = resp_name (fst g)) as Hname.
    { rewrite response_name_pti. symmetry. apply resp_name_field. rewrite <- (proj2 (pti_sel_pos qo S F (snd g) (fst g))). exact Hfld'. }
    rewrite Hname in Hkl. split; [exact Hkl |]. split; [exact Hyl |]. split; [split; [reflexivity | exact Ha] |].
    split; [| exists w; auto]. cbn [fst3 fst].
    apply (depth_suffices A names_unique_A acyclic_A t _ Ht (incw_inc A t w _ Hcw)).
  Qed.
End Main.
