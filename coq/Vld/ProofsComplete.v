(** * Vld/ProofsComplete.v — the completeness half of validate_verdict, up to the two rules whose
    equivalence with the Spec is open: a document of which every section of chapter 5 other than
    5.2.3.1 and 5.3.2 holds in the Spec's formulation is accepted, provided the subscription check
    and the overlapping-fields pass (stated in the model's terms) find nothing. *)
From Coq Require Import List NArith Arith Bool Lia.
From ApiFu Require Import Base.Sexp Vld.Ast Vld.Inspect Vld.InspectProofs Vld.TypeInfoModel Vld.TypeInfoPure Vld.Enumerate
     Vld.SpecEnum Vld.ValidatorModel Vld.ValidSpec Vld.Hyps Vld.ProofsCommon Vld.ProofsDirectives Vld.ProofsArguments Vld.ProofsFragDecl
     Vld.ProofsValues Vld.ProofsOrder Vld.ProofsOperations Vld.ProofsTotal Vld.ProofsFields Vld.ProofsMemo Vld.ValidatorProofs Vld.MemoTransfer
     Vld.ProofsSecondary Vld.ProofsSecondaryRules Vld.ProofsSecondaryAll Vld.ProofsSpreadsSpec Vld.ProofsFieldsConverse Vld.ProofsVarsConverse Vld.ProofsSpreads Vld.ProofsSpecReach Vld.ProofsSubscription.
Import ListNotations.

Lemma schema_input_flags S :
  schema_defaults_ok S = true -> forall tn defs n d, raw_body S tn = Some (TInput defs) -> assoc n defs = Some d -> flag_ok d.
Proof.
  unfold schema_defaults_ok. rewrite andb_true_iff, !forallb_forall. intros [H _] tn defs n d Hb Hd.
  unfold raw_body, raw_type in Hb. destruct (assoc tn (s_types S)) as [td|] eqn:Et; [| discriminate]. apply assoc_in in Et.
  specialize (H _ Et). cbn [snd] in H. inversion Hb as [Hb']. rewrite Hb' in H. rewrite forallb_forall in H.
  apply default_ok_flag. apply (H (n, d)). apply assoc_in. exact Hd.
Qed.
Lemma schema_directive_flags S :
  schema_defaults_ok S = true -> forall n dd a d, assoc n (s_directives S) = Some dd -> assoc a (dd_args dd) = Some d -> flag_ok d.
Proof.
  unfold schema_defaults_ok. rewrite andb_true_iff, !forallb_forall. intros [_ H] n dd a d Hn Ha.
  apply assoc_in in Hn. specialize (H _ Hn). cbn [snd] in H. rewrite forallb_forall in H. apply default_ok_flag. apply (H (a, d)). apply assoc_in. exact Ha.
Qed.

Theorem valid_accepted_partial pi S F D :
  order_ok pi ->
  schema_ok S = true -> schema_args_ok S = true -> schema_impls_ok S = true -> schema_defaults_ok S = true ->
  valid_5_2_1_1 D = true -> valid_5_2_2_1 D = true -> valid_root S D = true ->
  valid_5_3_1 S F D = true -> valid_5_3_3 S F D = true ->
  valid_5_4 S F D = true ->
  valid_5_5_1 S F D = true -> valid_5_5_2_1 D = true -> valid_5_5_2_2 D = true -> valid_5_5_2_3 S F D = true ->
  valid_5_6 S F D = true ->
  valid_5_7 S D = true ->
  valid_5_8_1 D = true -> valid_5_8_2 S F D = true -> valid_5_8_3 S F D = true -> valid_5_8_4 S F D = true -> valid_5_8_5 S F D = true ->
  (* the subscription check (5.2.3.1), in the model's terms *)
  (forall d, In d D -> sub_ok repaired (pti_doc (q_unwrap_obj repaired) S F D) (pti_def (q_unwrap_obj repaired) S F d) = true) ->
  (* the overlapping-fields pass (5.3.2), in the model's terms *)
  (forall e2, rule_fields_m repaired pi S F (pti_doc (q_unwrap_obj repaired) S F D) = Done e2 -> primary e2 = []) ->
  validate_model_memo repaired pi S F D = Done [].
Proof.
  intros Hpi Hs Hargs Himpl Hdef V1 V2 V3 V4 V5 V6 V7 V8 V9 V10 V11 V12 W1 W2 W3 W4 W5 Hsub Hmerge.
  destruct (validate_memo_no_panic pi S F D Hpi) as [errs Hv].
  unfold validate_model_memo in *. rewrite type_info_pure in *.
  destruct (all_rules_m repaired pi S F (pti_doc (q_unwrap_obj repaired) S F D)) as [errs0 | s |] eqn:Ea; try discriminate Hv. clear Hv errs.
  assert (primary errs0 = []) as Hp.
  { pose proof Hs as Hs'. unfold schema_ok in Hs'. apply andb_true_iff in Hs' as [Hs' Hs3]. apply andb_true_iff in Hs' as [Hs1 Hs2].
    pose proof (schema_no_typename_spec S F Hs1) as Hnt. pose proof (schema_input_closed_spec S Hs2) as Hic.
    assert (composite_name S n_String = false) as Hstr.
    { unfold schema_roots_ok in Hs3. rewrite !andb_true_iff in Hs3. destruct Hs3 as [_ H]. apply negb_true_iff in H. exact H. }
    destruct (fields_valid_silent S F D Hs V3 V7 V4 V5) as [Hgood Hpass].
    pose proof (silent_fields_known S F D Hnt Hstr Hgood Hpass) as Hfk.
    assert (valid_5_7_1 S D = true) as Hdk by (unfold valid_5_7 in V12; rewrite !andb_true_iff in V12; tauto).
    assert (valid_5_5_1_1 D = true) as Hnd by (unfold valid_5_5_1 in V7; rewrite !andb_true_iff in V7; tauto).
    rewrite all_rules_m_with in Ea.
    destruct (rules_with_split _ _ _ _ _ _ _ Ea) as [e1 [e2 [e3 [e5 [e6 [e7 [e8 [R1 [R2 [R3 [R5 [R6 [R7 [R8 ->]]]]]]]]]]]]]].
    rewrite !primary_app_nil. repeat split.
    - (* operations *)
      assert (rule_operations repaired (pti_doc (q_unwrap_obj repaired) S F D) = Done []) as R by (apply rule_operations_iff; auto).
      rewrite R in R1. apply Done_inj in R1. subst e1. reflexivity.
    - apply (Hmerge e2 R2).
    - destruct (rule_arguments_iff pi Hpi S F D Hfk Hdk Hnt) as [errs' [Ra Hiff]]. rewrite R3 in Ra. apply Done_inj in Ra. subst errs'. apply Hiff. exact V6.
    - rewrite (proj2 (rule_fragment_declarations_iff pi Hpi S F D) V7). reflexivity.
    - apply (spreads_valid_no_primary pi Hpi S F D Himpl (proj1 (nodupb_NoDup _) Hnd) e5 V8 V9 V10 R5).
    - pose proof (values_typed_input_holds S F D Hargs Hfk Hdk W2) as Hti.
      destruct (rule_values_iff pi Hpi S F Hic Hnt D (values_typed_input_spec S F D Hti)) as [errs' [Rv Hiff]]. rewrite R6 in Rv. apply Done_inj in Rv. subst errs'.
      apply Hiff. exact V11.
    - assert (rule_directives repaired S (pti_doc (q_unwrap_obj repaired) S F D) = Done []) as R by (apply (rule_directives_iff S F D); exact V12).
      rewrite R in R7. apply Done_inj in R7. subst e7. reflexivity.
    - apply (variables_valid_no_primary pi Hpi S F D Hnt (schema_input_flags S Hdef) (schema_directive_flags S Hdef) (proj1 (nodupb_NoDup _) Hnd) W1 W2 W3 W4 W5 e8 R8). }
  rewrite (no_primary_then_nothing_memo pi Hpi S F D errs0 Hs Hargs Ea Hp). reflexivity.
Qed.

(** 5.8 alone, with the hypothesis on the schema in its decidable form *)
Theorem variables_valid_no_primary_schema pi S F D errs :
  order_ok pi -> schema_ok S = true -> schema_defaults_ok S = true -> valid_5_5_1_1 D = true ->
  valid_5_8_1 D = true -> valid_5_8_2 S F D = true -> valid_5_8_3 S F D = true -> valid_5_8_4 S F D = true -> valid_5_8_5 S F D = true ->
  rule_variables pi S (pti_doc (q_unwrap_obj repaired) S F D) = Done errs -> primary errs = [].
Proof.
  intros Hpi Hs Hdef Hnd W1 W2 W3 W4 W5 H.
  unfold schema_ok in Hs. apply andb_true_iff in Hs as [Hs _]. apply andb_true_iff in Hs as [Hs1 _].
  apply (variables_valid_no_primary pi Hpi S F D (schema_no_typename_spec S F Hs1) (schema_input_flags S Hdef) (schema_directive_flags S Hdef)
                                    (proj1 (nodupb_NoDup _) Hnd) W1 W2 W3 W4 W5 errs H).
Qed.

(** ** validate_verdict, up to the two open rules stated in the model's terms *)
Definition sections_but_two (S : schema) (F : features) (D : document) : Prop :=
  valid_5_2_1_1 D = true /\ valid_5_2_2_1 D = true /\ valid_root S D = true /\
  valid_5_3_1 S F D = true /\ valid_5_3_3 S F D = true /\
  valid_5_4 S F D = true /\
  valid_5_5_1 S F D = true /\ valid_5_5_2_1 D = true /\ valid_5_5_2_2 D = true /\ valid_5_5_2_3 S F D = true /\
  valid_5_6 S F D = true /\
  valid_5_7 S D = true /\
  valid_5_8_1 D = true /\ valid_5_8_2 S F D = true /\ valid_5_8_3 S F D = true /\ valid_5_8_4 S F D = true /\ valid_5_8_5 S F D = true.

Theorem verdict_up_to_two_rules pi S F D :
  order_ok pi ->
  schema_ok S = true -> schema_args_ok S = true -> schema_impls_ok S = true -> schema_defaults_ok S = true ->
  (validate_model_memo repaired pi S F D = Done [] <->
   sections_but_two S F D /\
   (forall d, In d D -> sub_ok repaired (pti_doc (q_unwrap_obj repaired) S F D) (pti_def (q_unwrap_obj repaired) S F d) = true) /\
   (forall e2, rule_fields_m repaired pi S F (pti_doc (q_unwrap_obj repaired) S F D) = Done e2 -> primary e2 = [])).
Proof.
  intros Hpi Hs Hargs Himpl Hdef. split.
  - intros H.
    destruct (memo_accepted_valid_sections pi S F D Hpi Hs Hargs H) as [A1 [A2 [A3 [A4 [A5 [A6 [A7 [A8 [A9 [A10 [A11 [A12 [A13 [A14 [A15 A16]]]]]]]]]]]]]]].
    pose proof (memo_accepted_spreads_possible pi S F D Hpi Himpl H) as A17.
    split; [unfold sections_but_two; repeat split; assumption |].
    pose proof (memo_accepted_silent pi S F D H) as Hsil. destruct Hsil as [Ho _].
    split.
    + apply (rule_operations_iff S F D) in Ho. destruct Ho as [_ [_ [_ Hsub]]]. exact Hsub.
    + apply validate_memo_nil in H. apply all_rules_m_nil in H as [_ [Hf _]]. intros e2 R2. rewrite Hf in R2. apply Done_inj in R2. subst e2. reflexivity.
  - intros [Hsec [Hsub Hmerge]]. unfold sections_but_two in Hsec.
    destruct Hsec as [V1 [V2 [V3 [V4 [V5 [V6 [V7 [V8 [V9 [V10 [V11 [V12 [W1 [W2 [W3 [W4 W5]]]]]]]]]]]]]]]].
    apply (valid_accepted_partial pi S F D Hpi Hs Hargs Himpl Hdef); assumption.
Qed.

(** every spread of the annotated document has a target when 5.5.2.1 holds *)
Lemma spreads_defined_pti S F D :
  valid_5_5_2_1 D = true ->
  forall a sels p n np dirs e, In (SelSet a sels p) (all_subs (pti_doc (q_unwrap_obj repaired) S F D)) -> In (SSpread n np dirs e) sels ->
                               frag_last (pti_doc (q_unwrap_obj repaired) S F D) n <> None.
Proof.
  intros H5521 a sels p n np dirs e Hss Hin.
  destruct (all_subs_pti_occ (q_unwrap_obj repaired) S F D a sels p _ Hss Hin) as [d [s0 [Hd [Ho Heq]]]].
  destruct s0 as [| n0 np0 dirs0 e0 |]; try discriminate Heq. cbn [pti_sel] in Heq. inversion Heq; subst n0 np0 e0.
  assert (In n (spread_names D)) as Hn.
  { unfold spread_names, all_sels. apply in_flat_map. exists (SSpread n np dirs0 e). split; [| left; reflexivity].
    apply in_flat_map. exists d. split; [exact Hd |]. rewrite <- (proj2 (ssels_sels S F) (def_sub d) (model_def_scope S F d)).
    apply (in_map snd) in Ho. exact Ho. }
  unfold valid_5_5_2_1 in H5521. rewrite forallb_forall in H5521. specialize (H5521 n Hn). unfold fragment in H5521.
  rewrite frag_last_pti. intros Hnone. destruct (frag_last D n) eqn:El; [discriminate |].
  apply frag_last_none in El. apply (proj2 (frag_first_none D n)) in El. rewrite El in H5521. discriminate H5521.
Qed.

(** ** validate_verdict up to 5.3.2: with selection sets at distinct positions the subscription check
    is 5.2.3.1 *)
Theorem verdict_up_to_merge pi S F D :
  order_ok pi ->
  schema_ok S = true -> schema_args_ok S = true -> schema_impls_ok S = true -> schema_defaults_ok S = true ->
  doc_set_positions_distinct D ->
  (validate_model_memo repaired pi S F D = Done [] <->
   sections_but_two S F D /\ valid_5_2_3_1 S F D = true /\
   (forall e2, rule_fields_m repaired pi S F (pti_doc (q_unwrap_obj repaired) S F D) = Done e2 -> primary e2 = [])).
Proof.
  intros Hpi Hs Hargs Himpl Hdef Hpos. rewrite (verdict_up_to_two_rules pi S F D Hpi Hs Hargs Himpl Hdef). split.
  - intros [Hsec [Hsub Hm]]. split; [exact Hsec |]. split; [| exact Hm].
    destruct Hsec as [_ [_ [_ [_ [_ [_ [V7 _]]]]]]]. unfold valid_5_5_1 in V7. rewrite !andb_true_iff in V7. destruct V7 as [[[Hnd _] _] _].
    apply (sub_ok_valid_5_2_3_1 S F D (proj1 (nodupb_NoDup _) Hnd) Hpos Hsub).
  - intros [Hsec [H5231 Hm]]. split; [exact Hsec |]. split; [| exact Hm].
    pose proof Hsec as Hsec'. destruct Hsec' as [_ [_ [_ [_ [_ [_ [V7 [V8 _]]]]]]]]. unfold valid_5_5_1 in V7. rewrite !andb_true_iff in V7. destruct V7 as [[[Hnd _] _] _].
    apply (valid_5_2_3_1_sub_ok S F D (proj1 (nodupb_NoDup _) Hnd) Hpos (spreads_defined_pti S F D V8) H5231).
Qed.

Theorem memo_accepted_5_2_3_1 pi S F D :
  order_ok pi -> schema_ok S = true -> schema_args_ok S = true -> schema_impls_ok S = true -> schema_defaults_ok S = true ->
  doc_set_positions_distinct D -> validate_model_memo repaired pi S F D = Done [] -> valid_5_2_3_1 S F D = true.
Proof.
  intros Hpi Hs Hargs Himpl Hdef Hpos H. apply (verdict_up_to_merge pi S F D Hpi Hs Hargs Himpl Hdef Hpos) in H. tauto.
Qed.
