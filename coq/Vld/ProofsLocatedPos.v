(** * Vld/ProofsLocatedPos.v — NewTypeInfo does not move anything: the positions of the nodes of the
    annotated document are those of the document. *)
From Coq Require Import List NArith Arith Bool Lia.
From ApiFu Require Import Base.Sexp Vld.Ast Vld.AstInd Vld.Inspect Vld.InspectProofs Vld.TypeInfoModel Vld.TypeInfoPure Vld.ValidatorModel Vld.ValidatorCheck.
Import ListNotations.

Definition tpos (t : tree) : list pos := map node_pos (tree_nodes t).

Lemma map_flat_map' {X Y Z} (f : Y -> Z) (g : X -> list Y) l : map f (flat_map g l) = flat_map (fun x => map f (g x)) l.
Proof. induction l as [|x r IH]; [reflexivity |]. cbn [flat_map]. rewrite map_app, IH. reflexivity. Qed.
Lemma tpos_T n cs : tpos (T n cs) = node_pos n :: flat_map tpos cs.
Proof. unfold tpos. cbn [tree_nodes map]. rewrite map_flat_map'. reflexivity. Qed.
Lemma flat_tpos_map {X} (f g : X -> tree) l : (forall x, In x l -> tpos (f x) = tpos (g x)) -> flat_map tpos (map f l) = flat_map tpos (map g l).
Proof.
  induction l as [|x r IH]; intros H; [reflexivity |]. cbn [map flat_map]. rewrite (H x (or_introl eq_refl)), IH; [reflexivity |]. intros y Hy. apply H. right. exact Hy.
Qed.
Lemma flat_tpos_map2 {X} (f : X -> tree) (h : X -> X) l : (forall x, In x l -> tpos (f (h x)) = tpos (f x)) -> flat_map tpos (map f (map h l)) = flat_map tpos (map f l).
Proof. intros H. rewrite map_map. apply flat_tpos_map. exact H. Qed.
Lemma flat_tpos_app a b : flat_map tpos (a ++ b) = flat_map tpos a ++ flat_map tpos b.
Proof. apply flat_map_app. Qed.

Section Pos.
  Variable qo : bool.
  Variable S : schema.
  Variable F : features.

  Lemma tpos_value v : forall sc e d, tpos (tree_value (ti_value_in qo S sc e d v)) = tpos (tree_value v).
  Proof.
    induction v as [a n dl np | a l p | a l p | a s p | a b p | a p | a n p | a vs p IH | a fs p IH] using value_ind'; intros sc e d; try reflexivity.
    - cbn [ti_value_in tree_value]. rewrite !tpos_T. cbn [node_pos v_pos]. f_equal. rewrite map_map. apply flat_tpos_map. intros x Hx. rewrite Forall_forall in IH. apply (IH x Hx).
    - cbn [ti_value_in tree_value]. rewrite !tpos_T. cbn [node_pos v_pos]. f_equal. rewrite map_map. apply flat_tpos_map. intros [[n np] x] Hx.
      rewrite Forall_forall in IH. specialize (IH _ Hx). cbn [snd] in IH.
      destruct (match object_fields qo S e with Some l => assoc n l | None => None end) as [def|]; rewrite !tpos_T; cbn [flat_map]; rewrite IH; reflexivity.
  Qed.

  Lemma tpos_args defs dn args : flat_map tpos (map tree_arg (ti_args qo S defs dn args)) = flat_map tpos (map tree_arg args).
  Proof.
    unfold ti_args. apply flat_tpos_map2. intros a _. unfold tree_arg.
    destruct (match defs with Some l => assoc (a_name a) l | None => None end) as [def|]; rewrite !tpos_T; cbn [a_name a_pos a_value flat_map node_pos]; unfold ti_value; rewrite tpos_value; reflexivity.
  Qed.
  Lemma tpos_dir d : tpos (tree_dir (ti_dir qo S d)) = tpos (tree_dir d).
  Proof. unfold tree_dir, ti_dir. rewrite !tpos_T. cbn [d_name d_npos d_at d_args node_pos flat_map]. rewrite tpos_args. reflexivity. Qed.
  Lemma tpos_dirs dirs : flat_map tpos (map tree_dir (map (ti_dir qo S) dirs)) = flat_map tpos (map tree_dir dirs).
  Proof. apply flat_tpos_map2. intros d _. apply tpos_dir. Qed.

  Lemma tpos_sel_ss :
    (forall s top, tpos (tree_sel (pti_sel qo S F top s)) = tpos (tree_sel s)) /\
    (forall ss top, tpos (tree_ss (pti_ss qo S F top ss)) = tpos (tree_ss ss)).
  Proof.
    apply sel_ss_ind.
    - intros a al n np args dirs sub IH top. cbn [pti_sel tree_sel]. rewrite !tpos_T. cbn [node_pos sel_pos]. f_equal.
      rewrite !flat_tpos_app. unfold field_args. rewrite tpos_args, tpos_dirs. do 4 f_equal.
      destruct sub as [ss|]; [| reflexivity]. cbn [opt_tree flat_map]. rewrite (IH ss eq_refl). reflexivity.
    - intros n np dirs e top. cbn [pti_sel tree_sel]. rewrite !tpos_T. cbn [node_pos sel_pos flat_map]. rewrite tpos_dirs. reflexivity.
    - intros cond dirs sub e IH top. cbn [pti_sel tree_sel]. rewrite !tpos_T. cbn [node_pos sel_pos]. f_equal.
      rewrite !flat_tpos_app. rewrite tpos_dirs. cbn [flat_map]. rewrite IH. reflexivity.
    - intros a sels p IH top. cbn [pti_ss tree_ss]. rewrite !tpos_T. cbn [node_pos ss_pos]. f_equal. apply flat_tpos_map2. intros s Hs. rewrite Forall_forall in IH. apply (IH s Hs).
  Qed.

  Lemma tpos_vardef v : tpos (tree_vardef (ti_vardef qo S F v)) = tpos (tree_vardef v).
  Proof.
    unfold tree_vardef, ti_vardef. rewrite !tpos_T. cbn [vd_name vd_dollar vd_npos vd_type vd_default node_pos]. f_equal. rewrite !flat_tpos_app. f_equal.
    destruct (vd_default v) as [x|]; [| reflexivity]. cbn [opt_tree flat_map]. unfold ti_value. rewrite tpos_value. reflexivity.
  Qed.

  Lemma tpos_def d : tpos (tree_def (pti_def qo S F d)) = tpos (tree_def d).
  Proof.
    destruct d as [ot n vars dirs sub | kw n np cond dirs sub]; unfold pti_def, tree_def; rewrite !tpos_T.
    - assert (node_pos (NDef (DOp ot n (map (ti_vardef qo S F) vars) (map (ti_dir qo S) dirs) (pti_ss qo S F (op_scope S ot) sub))) = node_pos (NDef (DOp ot n vars dirs sub))) as ->
          by (cbn [node_pos def_pos]; destruct ot as [[k p]|]; [reflexivity | destruct sub; reflexivity]).
      f_equal. rewrite !flat_tpos_app. rewrite tpos_dirs. cbn [flat_map]. rewrite (proj2 tpos_sel_ss). do 2 f_equal. f_equal. apply flat_tpos_map2. intros v _. apply tpos_vardef.
    - cbn [node_pos def_pos]. f_equal. cbn [flat_map]. rewrite !flat_tpos_app. rewrite tpos_dirs. cbn [flat_map]. rewrite (proj2 tpos_sel_ss). reflexivity.
  Qed.

  Theorem node_positions_pti D : all_node_positions (pti_doc qo S F D) = all_node_positions D.
  Proof.
    unfold all_node_positions. f_equal.
    - change (tpos (tree_doc (pti_doc qo S F D)) = tpos (tree_doc D)). unfold tree_doc, pti_doc. rewrite !tpos_T. cbn [node_pos]. f_equal.
      apply flat_tpos_map2. intros d _. apply tpos_def.
    - unfold pti_doc. induction D as [|d r IH]; [reflexivity |]. cbn [map flat_map]. rewrite IH. destruct d; reflexivity.
  Qed.
End Pos.
