(** * Vld/MemoEquiv.v — the validator as it is (with the checked-pairs memo) accepts exactly what the
    memo-free pipeline accepts, for documents whose field occurrences have pairwise distinct
    positions (parsed documents: C06_parse_pos_injective); hence its verdict does not depend on the
    order in which Go ranges over its maps either. *)
From Coq Require Import List NArith Arith Bool Lia.
From ApiFu Require Import Base.Sexp Vld.Ast Vld.Inspect Vld.InspectProofs Vld.TypeInfoModel Vld.TypeInfoPure
     Vld.ValidatorModel Vld.ValidSpec Vld.Hyps Vld.ProofsCommon Vld.ProofsOrder Vld.ProofsTotal Vld.ProofsMemo Vld.ProofsDepth
     Vld.ProofsDepthRule Vld.ProofsMemoConverse Vld.ValidatorProofs Vld.MemoTransfer.
Import ListNotations.

(** the positions of the field occurrences of a document are pairwise distinct *)
Definition field_positions_distinct (A : document) : Prop := NoDup (map (fun x : fp => sel_pos (fst3 x)) (occs A)).

Lemma NoDup_map_inj {X Y} (f : X -> Y) l : NoDup (map f l) -> forall x y, In x l -> In y l -> f x = f y -> x = y.
Proof.
  induction l as [|a l IH]; intros Hnd x y Hx Hy E; [destruct Hx |]. simpl in Hnd. inversion Hnd as [|b r Hni Hnd']; subst.
  destruct Hx as [-> | Hx]; destruct Hy as [-> | Hy]; [reflexivity | | | apply (IH Hnd' x y Hx Hy E)].
  - exfalso. apply Hni. rewrite E. apply in_map. exact Hy.
  - exfalso. apply Hni. rewrite <- E. apply in_map. exact Hx.
Qed.

Theorem validate_memo_iff pi S F D :
  order_ok pi -> field_positions_distinct (pti_doc (q_unwrap_obj repaired) S F D) ->
  (validate_model_memo repaired pi S F D = Done [] <-> validate_model repaired pi S F D = Done []).
Proof.
  intros Hpi Hpos. split; [| apply validate_memo_accepts].
  intros H. pose proof (memo_accepted_silent pi S F D H) as Hsil.
  set (A := pti_doc (q_unwrap_obj repaired) S F D) in *.
  apply validate_memo_nil in H. fold A in H. apply all_rules_m_nil in H as [Ho [Hf [Ha [[Hd Hs] [Hv [Hdir Hvar]]]]]].
  apply validate_model_nil. fold A. apply all_rules_nil. repeat split; try assumption.
  apply (memo_converse_rule pi Hpi repaired S A (NoDup_map_inj _ _ Hpos) F); [| exact Hf].
  intros ss f Hss Hin. apply (depth_suffices A (silent_names_unique pi S F D Hpi Hsil) (silent_acyclic pi S F A Hpi Hs) ss f Hss Hin).
Qed.

(** determinism of the validator as it is *)
Theorem validate_memo_accept_order pi1 pi2 S F D :
  order_ok pi1 -> order_ok pi2 -> field_positions_distinct (pti_doc (q_unwrap_obj repaired) S F D) ->
  (validate_model_memo repaired pi1 S F D = Done [] <-> validate_model_memo repaired pi2 S F D = Done []).
Proof.
  intros H1 H2 Hpos. rewrite (validate_memo_iff pi1 S F D H1 Hpos), (validate_memo_iff pi2 S F D H2 Hpos).
  apply validate_accept_order; assumption.
Qed.

Theorem validate_memo_verdict_order pi1 pi2 S F D :
  order_ok pi1 -> order_ok pi2 -> field_positions_distinct (pti_doc (q_unwrap_obj repaired) S F D) ->
  (validate_model_memo repaired pi1 S F D = Done [] /\ validate_model_memo repaired pi2 S F D = Done []) \/
  (exists e1 l1 e2 l2, validate_model_memo repaired pi1 S F D = Done (e1 :: l1) /\ validate_model_memo repaired pi2 S F D = Done (e2 :: l2)).
Proof.
  intros H1 H2 Hpos. destruct (validate_memo_no_panic pi1 S F D H1) as [errs1 E1]. destruct (validate_memo_no_panic pi2 S F D H2) as [errs2 E2].
  pose proof (validate_memo_accept_order pi1 pi2 S F D H1 H2 Hpos) as Hiff. rewrite E1, E2 in *.
  destruct errs1 as [|e1 l1]; destruct errs2 as [|e2 l2].
  - left. auto.
  - destruct Hiff as [Hiff _]. specialize (Hiff eq_refl). discriminate.
  - destruct Hiff as [_ Hiff]. specialize (Hiff eq_refl). discriminate.
  - right. exists e1, l1, e2, l2. auto.
Qed.

(** ** NewTypeInfo does not touch positions: the hypothesis can be stated on the document as parsed *)
Definition set_positions (ss : selset) : list pos := map sel_pos (filter is_fieldb (ss_sels ss)).
Definition field_positions (A : document) : list pos := flat_map set_positions (all_subs A).

Lemma map_flat_map' {X Y Z} (f : Y -> Z) (g : X -> list Y) l : map f (flat_map g l) = flat_map (fun x => map f (g x)) l.
Proof. induction l as [|x l IH]; [reflexivity |]. simpl. rewrite map_app, IH. reflexivity. Qed.
Lemma occs_positions A : map (fun x : fp => sel_pos (fst3 x)) (occs A) = field_positions A.
Proof.
  unfold occs, field_positions. etransitivity; [apply map_flat_map' |]. apply flat_map_ext. intros [a sels p].
  unfold set_positions. cbn [ss_sels]. etransitivity; [apply map_map |]. reflexivity.
Qed.

Section Positions.
  Variable qo : bool.
  Variable S : schema.
  Variable F : features.

  Lemma pti_sel_pos top s : sel_pos (pti_sel qo S F top s) = sel_pos s /\ is_fieldb (pti_sel qo S F top s) = is_fieldb s.
  Proof. destruct s as [a [[al ap]|] n np args dirs sub | |]; split; reflexivity. Qed.

  Lemma set_positions_pti top a sels p :
    set_positions (SelSet top (map (pti_sel qo S F top) sels) p) = set_positions (SelSet a sels p).
  Proof.
    unfold set_positions. simpl. induction sels as [|s l IH]; [reflexivity |]. simpl.
    destruct (pti_sel_pos top s) as [H1 H2]. rewrite H2. destruct (is_fieldb s); simpl; [rewrite H1, IH; reflexivity | exact IH].
  Qed.

  Lemma subs_positions_pti :
    (forall s top, flat_map set_positions (subs_sel (pti_sel qo S F top s)) = flat_map set_positions (subs_sel s)) /\
    (forall ss top, flat_map set_positions (subs_ss (pti_ss qo S F top ss)) = flat_map set_positions (subs_ss ss)).
  Proof.
    apply AstInd.sel_ss_ind.
    - intros a al n np args dirs sub IH top. rewrite (Enumerate.pti_sel_field_eq qo S F top a al n np args dirs sub). destruct sub as [ss|]; [apply (IH ss eq_refl) | reflexivity].
    - reflexivity.
    - intros cond dirs sub e IH top. rewrite (Enumerate.pti_sel_inline_eq qo S F top cond dirs sub e). apply IH.
    - intros a sels p IH top. rewrite pti_ss_eq, !subs_ss_eq. cbn [flat_map]. rewrite (set_positions_pti top a sels p). f_equal.
      induction IH as [|s l Hs _ IHl]; [reflexivity |]. cbn [map flat_map]. rewrite !flat_map_app, Hs, IHl. reflexivity.
  Qed.

  Lemma field_positions_pti D : field_positions (pti_doc qo S F D) = field_positions D.
  Proof.
    unfold field_positions, all_subs, pti_doc. induction D as [|d l IH]; [reflexivity |]. cbn [map flat_map]. rewrite !flat_map_app, IH. f_equal.
    rewrite Enumerate.pti_def_sub. apply (proj2 subs_positions_pti).
  Qed.
End Positions.

(** the positions of the field selections written in [D] are pairwise distinct; for a document
    obtained from the parser this follows from C06_parse_pos_injective, since the position of a field
    selection is the position of one of its nodes *)
Definition doc_field_positions_distinct (D : document) : Prop := NoDup (field_positions D).

Lemma field_positions_distinct_pti qo S F D :
  field_positions_distinct (pti_doc qo S F D) <-> doc_field_positions_distinct D.
Proof. unfold field_positions_distinct, doc_field_positions_distinct. rewrite occs_positions, field_positions_pti. tauto. Qed.

Theorem validate_memo_iff_parsed pi S F D :
  order_ok pi -> doc_field_positions_distinct D ->
  (validate_model_memo repaired pi S F D = Done [] <-> validate_model repaired pi S F D = Done []).
Proof. intros Hpi H. apply validate_memo_iff; [exact Hpi | apply field_positions_distinct_pti; exact H]. Qed.
Theorem validate_memo_accept_order_parsed pi1 pi2 S F D :
  order_ok pi1 -> order_ok pi2 -> doc_field_positions_distinct D ->
  (validate_model_memo repaired pi1 S F D = Done [] <-> validate_model_memo repaired pi2 S F D = Done []).
Proof. intros H1 H2 H. apply validate_memo_accept_order; [exact H1 | exact H2 | apply field_positions_distinct_pti; exact H]. Qed.
