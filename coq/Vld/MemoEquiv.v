(** * Vld/MemoEquiv.v — the validator as it is (with the checked-pairs memo) accepts exactly what the
    memo-free pipeline accepts, for documents whose field occurrences have pairwise distinct
    positions (parsed documents: C06_parse_pos_injective); hence its verdict does not depend on the
    order in which Go ranges over its maps either. *)
From Coq Require Import List NArith Arith Bool Lia.
From ApiFu Require Import Base.Sexp Vld.Ast Vld.Inspect Vld.InspectProofs Vld.TypeInfoModel Vld.TypeInfoPure
     Vld.ValidatorModel Vld.ValidSpec Vld.Hyps Vld.ProofsCommon Vld.ProofsOrder Vld.ProofsTotal Vld.ProofsMemo Vld.ProofsDepth
     Vld.ProofsDepthRule Vld.ProofsMemoConverse Vld.ValidatorProofs Vld.MemoTransfer.
Import ListNotations.

(** the positions of the field occurrences of a document are pairwise distinct *)
Definition field_positions_distinct (A : document) : Prop := NoDup (map (fun x : fp => sel_pos (fst3 x)) (occs A)).

Lemma NoDup_map_inj {X Y} (f : X -> Y) l : NoDup (map f l) -> forall x y, In x l -> In y l -> f x = f y -> x = y.
Proof.
  induction l as [|a l IH]; intros Hnd x y Hx Hy E; [destruct Hx |]. simpl in Hnd. inversion Hnd as [|b r Hni Hnd']; subst.
  destruct Hx as [-> | Hx]; destruct Hy as [-> | Hy]; [reflexivity | | | apply (IH Hnd' x y Hx Hy E)].
  - exfalso. apply Hni. rewrite E. apply in_map. exact Hy.
  - exfalso. apply Hni. rewrite <- E. apply in_map. exact Hx.
Qed.

Theorem validate_memo_iff pi S F D :
  order_ok pi -> field_positions_distinct (pti_doc (q_unwrap_obj repaired) S F D) ->
  (validate_model_memo repaired pi S F D = Done [] <-> validate_model repaired pi S F D = Done []).
Proof.
  intros Hpi Hpos. split; [| apply validate_memo_accepts].
  intros H. pose proof (memo_accepted_silent pi S F D H) as Hsil.
  set (A := pti_doc (q_unwrap_obj repaired) S F D) in *.
  apply validate_memo_nil in H. fold A in H. apply all_rules_m_nil in H as [Ho [Hf [Ha [[Hd Hs] [Hv [Hdir Hvar]]]]]].
  apply validate_model_nil. fold A. apply all_rules_nil. repeat split; try assumption.
  apply (memo_converse_rule pi Hpi repaired S A (NoDup_map_inj _ _ Hpos) F); [| exact Hf].
  intros ss f Hss Hin. apply (depth_suffices A (silent_names_unique pi S F D Hpi Hsil) (silent_acyclic pi S F A Hpi Hs) ss f Hss Hin).
Qed.

(** determinism of the validator as it is *)
Theorem validate_memo_accept_order pi1 pi2 S F D :
  order_ok pi1 -> order_ok pi2 -> field_positions_distinct (pti_doc (q_unwrap_obj repaired) S F D) ->
  (validate_model_memo repaired pi1 S F D = Done [] <-> validate_model_memo repaired pi2 S F D = Done []).
Proof.
  intros H1 H2 Hpos. rewrite (validate_memo_iff pi1 S F D H1 Hpos), (validate_memo_iff pi2 S F D H2 Hpos).
  apply validate_accept_order; assumption.
Qed.

Theorem validate_memo_verdict_order pi1 pi2 S F D :
  order_ok pi1 -> order_ok pi2 -> field_positions_distinct (pti_doc (q_unwrap_obj repaired) S F D) ->
  (validate_model_memo repaired pi1 S F D = Done [] /\ validate_model_memo repaired pi2 S F D = Done []) \/
  (exists e1 l1 e2 l2, validate_model_memo repaired pi1 S F D = Done (e1 :: l1) /\ validate_model_memo repaired pi2 S F D = Done (e2 :: l2)).
Proof.
  intros H1 H2 Hpos. destruct (validate_memo_no_panic pi1 S F D H1) as [errs1 E1]. destruct (validate_memo_no_panic pi2 S F D H2) as [errs2 E2].
  pose proof (validate_memo_accept_order pi1 pi2 S F D H1 H2 Hpos) as Hiff. rewrite E1, E2 in *.
  destruct errs1 as [|e1 l1]; destruct errs2 as [|e2 l2].
  - left. auto.
  - destruct Hiff as [Hiff _]. specialize (Hiff eq_refl). discriminate.
  - destruct Hiff as [_ Hiff]. specialize (Hiff eq_refl). discriminate.
  - right. exists e1, l1, e2, l2. auto.
Qed.
