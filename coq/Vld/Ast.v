(** * Vld/Ast.v — data shared by the C04 model, spec and check: the executable-document AST
    (graphql/ast/ast.go, with the position fields the validator reads and the slots that
    [validator.TypeInfo] fills), the schema as the validator sees it, validation errors.

    Names are their bytes.  A position is (line, column).  Identity of Go pointers is modelled as
    follows: named schema types by their name (schema.New rejects two types of one name);
    [*ast.SelectionSet] (the key of the visited set in addFieldSelections) by its [Opening]
    position (distinct selection sets of a parsed document open at distinct positions); every other
    pointer-keyed map of TypeInfo is modelled by a slot in the node itself (each node is visited
    exactly once by NewTypeInfo's traversal). *)
From Coq Require Import List NArith ZArith Bool String Ascii.
From ApiFu Require Import Base.Sexp.
Import ListNotations.

Definition name := bytes.
Definition name_eqb : name -> name -> bool := bytes_eqb.
Definition pos := (N * N)%type.
Definition pos_eqb (a b : pos) : bool := N.eqb (fst a) (fst b) && N.eqb (snd a) (snd b).

(** bytes of an ASCII literal (used only for the handful of names the validator itself knows) *)
Definition bs (s : string) : name := map (fun c => N_of_ascii c) (list_ascii_of_string s).

Fixpoint assoc {A} (k : name) (l : list (name * A)) : option A :=
  match l with
  | [] => None
  | (k', v) :: r => if name_eqb k k' then Some v else assoc k r
  end.
Definition mem (k : name) (l : list name) : bool := existsb (name_eqb k) l.
Definition pmem (p : pos) (l : list pos) : bool := existsb (pos_eqb p) l.

(** ** Schema *)
Inductive sty := StNamed (n : name) | StList (t : sty) | StNonNull (t : sty).

(** InputValueDefinition.DefaultValue: nil / schema.Null / anything else *)
Inductive dflt := DNone | DNull | DValue.
Record input_def := { in_type : sty; in_default : dflt }.
Record field_def := { f_type : sty; f_args : list (name * input_def); f_req : list name }.

(** kinds of value literal (what a scalar's LiteralCoercion looks at) *)
Inductive vkind := KVar | KInt | KFloat | KString | KBool | KNull | KEnum | KList | KObject.
Definition vkind_eqb (a b : vkind) : bool :=
  match a, b with
  | KVar, KVar | KInt, KInt | KFloat, KFloat | KString, KString | KBool, KBool | KNull, KNull
  | KEnum, KEnum | KList, KList | KObject, KObject => true
  | _, _ => false
  end.

(** a scalar's LiteralCoercion: the five built-ins, or a harness scalar accepting exactly the
    listed literal kinds ([SCustom None]: LiteralCoercion == nil, nothing is ever refused) *)
(** a refinement of what a scalar's LiteralCoercion accepts beyond the kind of the literal: apifu's
    LongInt (integers in a range) and DateTime (strings a parser accepts) *)
Inductive lit_pred := PIntRange (lo hi : Z) | PStringIn (ok : bytes -> bool).
Inductive scalar := SInt | SFloat | SString | SBoolean | SID | SCustom (accepts : option (list vkind))
                  | SRefined (accepts : option (list vkind)) (refine : lit_pred).

Inductive type_body :=
| TScalar (k : scalar)
| TEnum (vals : list name)
| TInput (fields : list (name * input_def))
| TObject (fields : list (name * field_def)) (ifaces : list name)
| TInterface (fields : list (name * field_def))
| TUnion (members : list name).
Record type_def := { t_req : list name; t_body : type_body }.

Inductive dirloc := LQuery | LMutation | LSubscription | LField | LFragmentDefinition
                  | LFragmentSpread | LInlineFragment | LOther.
Definition dirloc_eqb (a b : dirloc) : bool :=
  match a, b with
  | LQuery, LQuery | LMutation, LMutation | LSubscription, LSubscription | LField, LField
  | LFragmentDefinition, LFragmentDefinition | LFragmentSpread, LFragmentSpread
  | LInlineFragment, LInlineFragment | LOther, LOther => true
  | _, _ => false
  end.
Record dir_def := { dd_args : list (name * input_def); dd_locs : list dirloc }.

(** [s_types] holds schema.NamedTypes() and introspection.NamedTypes (disjoint: "__" prefix);
    [s_meta] is introspection.MetaFields; [s_impls] is Schema.InterfaceImplementations. *)
Record schema := {
  s_types : list (name * type_def);
  s_query : name; s_mutation : option name; s_subscription : option name;
  s_directives : list (name * dir_def);
  s_meta : list (name * field_def);
  s_impls : list (name * list name) }.

Definition features := list name.

(** ** Document *)
(** TypeInfo.ExpectedTypes[v] (None = no entry), TypeInfo.DefaultValues[v] != nil, and whether v is
    in TypeInfo.ScalarLiteralValues *)
Record vann := { va_expected : option sty; va_default : bool; va_scalar : bool }.
Definition no_vann : vann := {| va_expected := None; va_default := false; va_scalar := false |}.

Inductive value :=
| VVar (a : vann) (n : name) (dollar npos : pos)
| VInt (a : vann) (lit : bytes) (p : pos)
| VFloat (a : vann) (lit : bytes) (p : pos)
| VString (a : vann) (s : bytes) (p : pos)
| VBool (a : vann) (b : bool) (p : pos)
| VNull (a : vann) (p : pos)
| VEnum (a : vann) (n : name) (p : pos)
| VList (a : vann) (vs : list value) (p : pos)
| VObject (a : vann) (fs : list (name * pos * value)) (p : pos).

Definition v_ann (v : value) : vann :=
  match v with
  | VVar a _ _ _ | VInt a _ _ | VFloat a _ _ | VString a _ _ | VBool a _ _ | VNull a _
  | VEnum a _ _ | VList a _ _ | VObject a _ _ => a
  end.
Definition v_pos (v : value) : pos :=
  match v with
  | VVar _ _ p _ | VInt _ _ p | VFloat _ _ p | VString _ _ p | VBool _ _ p | VNull _ p
  | VEnum _ _ p | VList _ _ p | VObject _ _ p => p
  end.
Definition v_kind (v : value) : vkind :=
  match v with
  | VVar _ _ _ _ => KVar | VInt _ _ _ => KInt | VFloat _ _ _ => KFloat | VString _ _ _ => KString
  | VBool _ _ _ => KBool | VNull _ _ => KNull | VEnum _ _ _ => KEnum | VList _ _ _ => KList
  | VObject _ _ _ => KObject
  end.
Definition is_null (v : value) : bool := match v with VNull _ _ => true | _ => false end.
Definition is_var (v : value) : bool := match v with VVar _ _ _ _ => true | _ => false end.

Inductive ty := TNamed (n : name) (p : pos) | TList (t : ty) (opening : pos) | TNonNull (t : ty).
Fixpoint ty_pos (t : ty) : pos :=
  match t with TNamed _ p => p | TList _ p => p | TNonNull t' => ty_pos t' end.

Record argument := { a_name : name; a_pos : pos; a_value : value }.
Record directive := { d_name : name; d_npos : pos; d_at : pos; d_args : list argument }.

(** [SField]'s first slot is TypeInfo.FieldDefinitions[f]; [SelSet]'s is
    TypeInfo.SelectionSetTypes[s] (the type's name) *)
Inductive selection :=
| SField (a : option field_def) (alias : option (name * pos)) (n : name) (npos : pos)
         (args : list argument) (dirs : list directive) (sub : option selset)
| SSpread (n : name) (npos : pos) (dirs : list directive) (ell : pos)
| SInline (cond : option (name * pos)) (dirs : list directive) (sub : selset) (ell : pos)
with selset := SelSet (a : option name) (sels : list selection) (opening : pos).

Definition ss_ann (s : selset) := match s with SelSet a _ _ => a end.
Definition ss_sels (s : selset) := match s with SelSet _ l _ => l end.
Definition ss_pos (s : selset) := match s with SelSet _ _ p => p end.
Definition sel_pos (s : selection) : pos :=
  match s with
  | SField _ (Some (_, p)) _ _ _ _ _ => p
  | SField _ None _ p _ _ _ => p
  | SSpread _ _ _ e => e
  | SInline _ _ _ e => e
  end.
Definition sel_dirs (s : selection) : list directive :=
  match s with SField _ _ _ _ _ d _ => d | SSpread _ _ d _ => d | SInline _ d _ _ => d end.

(** [vd_ann] is TypeInfo.VariableDefinitionTypes[d] *)
Record vardef := { vd_ann : option sty; vd_name : name; vd_dollar : pos; vd_npos : pos;
                   vd_type : ty; vd_default : option value }.

Inductive definition :=
| DOp (optype : option (name * pos)) (n : option (name * pos)) (vars : list vardef)
      (dirs : list directive) (sub : selset)
| DFrag (kw : pos) (n : name) (npos : pos) (cond : name * pos) (dirs : list directive) (sub : selset).
Definition document := list definition.

Definition def_pos (d : definition) : pos :=
  match d with
  | DOp (Some (_, p)) _ _ _ _ => p
  | DOp None _ _ _ s => ss_pos s
  | DFrag kw _ _ _ _ _ => kw
  end.

(** fragmentDefinitions[def.Name.Name] = def  for every fragment in document order: the LAST
    definition of a name wins *)
Fixpoint frag_last (D : document) (n : name) : option definition :=
  match D with
  | [] => None
  | d :: r =>
      match frag_last r n with
      | Some x => Some x
      | None => match d with
                | DFrag _ n' _ _ _ _ => if name_eqb n n' then Some d else None
                | DOp _ _ _ _ _ => None
                end
      end
  end.
(** the FIRST definition of a name (validateFragmentDeclarations keeps the first) *)
Fixpoint frag_first (D : document) (n : name) : option definition :=
  match D with
  | [] => None
  | d :: r =>
      match d with
      | DFrag _ n' _ _ _ _ => if name_eqb n n' then Some d else frag_first r n
      | DOp _ _ _ _ _ => frag_first r n
      end
  end.
Definition frag_names (D : document) : list name :=
  flat_map (fun d => match d with DFrag _ n _ _ _ _ => [n] | DOp _ _ _ _ _ => [] end) D.
Definition def_sub (d : definition) : selset :=
  match d with DOp _ _ _ _ s => s | DFrag _ _ _ _ _ s => s end.
Definition def_dirs (d : definition) : list directive :=
  match d with DOp _ _ _ d _ => d | DFrag _ _ _ _ d _ => d end.

Fixpoint dedup (l : list name) : list name :=
  match l with
  | [] => []
  | x :: r => if mem x r then dedup r else x :: dedup r
  end.

(** ** Schema lookups *)
Definition subset (a b : list name) : bool := forallb (fun x => mem x b) a.

(** pointer dereference of a named type (no feature check) *)
Definition raw_type (S : schema) (n : name) : option type_def := assoc n (s_types S).
Definition raw_body (S : schema) (n : name) : option type_body :=
  match raw_type S n with Some d => Some (t_body d) | None => None end.
(** validator.namedType: the type if its required features are enabled (the introspection types,
    which sit in the same table, require none) *)
Definition named_type (S : schema) (F : features) (n : name) : option type_body :=
  match raw_type S n with
  | Some d => if subset (t_req d) F then Some (t_body d) else None
  | None => None
  end.
(** ObjectType.GetField / InterfaceType.GetField *)
Definition get_field (F : features) (fields : list (name * field_def)) (n : name) : option field_def :=
  match assoc n fields with
  | Some f => if subset (f_req f) F then Some f else None
  | None => None
  end.

Fixpoint unwrapped (t : sty) : name :=
  match t with StNamed n => n | StList t' => unwrapped t' | StNonNull t' => unwrapped t' end.
Fixpoint nullable (t : sty) : sty := match t with StNonNull t' => nullable t' | _ => t end.
Definition is_nonnull (t : sty) : bool := match t with StNonNull _ => true | _ => false end.
Definition is_list (t : sty) : bool := match t with StList _ => true | _ => false end.
Fixpoint sty_eqb (a b : sty) : bool :=
  match a, b with
  | StNamed x, StNamed y => name_eqb x y
  | StList x, StList y => sty_eqb x y
  | StNonNull x, StNonNull y => sty_eqb x y
  | _, _ => false
  end.

Definition is_composite_body (b : type_body) : bool :=
  match b with TObject _ _ | TInterface _ | TUnion _ => true | _ => false end.
Definition is_input_body (b : type_body) : bool :=
  match b with TScalar _ | TEnum _ | TInput _ => true | _ => false end.

(** ** Validation errors *)
Inductive ekind :=
| EDefinition
| EOpDupName | EOpUnsupported | EOpSubscriptionRoots | EOpAnonymous
| ENoFieldInfo | EFieldMissing | ENeedsSub | ENoSub
| ENoSelSetInfo | EMergeNames | EMergeArgs | EShapeNonNull | EShapeList | EShapeLeaf | ECollectCycle
| EUndefFragment2 | EDepth
| EArgLocation | EUndefDirective2 | EArgUndefined | EArgDuplicate | EArgRequired | EArgNull2
| EFragDup | EFragUndefType | EFragNotComposite | EFragUnused | EFragCycle | ESpreadUndefined
| ESpreadNoParent | ESpreadParentLeaf | ESpreadImpossible
| ENoValueInfo | ECoerceNull | ECoerceScalar | ECoerceList | ECoerceObject | ECoerceEnum | ECoerceNonInput
| EObjDupField | EObjUnknownField | EObjRequired
| EDirLocationNode | EDirUndefined | EDirLocation | EDirDuplicate
| EVarDup | EVarUnknownType | EVarNotInput | EVarUndefined | EVarUnused
| EVarNoType | EVarNoLocation | EVarNullable | EVarIncompatible.

Record verror := { e_locs : list pos; e_sec : bool; e_kind : ekind }.
Definition err (k : ekind) (p : pos) : verror := {| e_locs := [p]; e_sec := false; e_kind := k |}.
Definition err2 (k : ekind) (p q : pos) : verror := {| e_locs := [p; q]; e_sec := false; e_kind := k |}.
Definition sec (k : ekind) (p : pos) : verror := {| e_locs := [p]; e_sec := true; e_kind := k |}.

Inductive site := PScopeStack | PPossibleTypes | PNilArgument | PStackOverflow | PCoercionType.
Inductive outcome := Done (errs : list verror) | Panic (s : site) | OutOfFuel.
