(** * Vld/ProofsSpreads.v — the visitor of validateFragmentSpreads: its errors, visit by visit, and
    5.5.2.1 (spread targets are defined) for documents on which it is silent. *)
From Coq Require Import List NArith Arith Bool Lia.
From ApiFu Require Import Base.Sexp Vld.Ast Vld.AstInd Vld.Inspect Vld.InspectProofs Vld.TypeInfoModel Vld.TypeInfoPure
     Vld.Enumerate Vld.SpecEnum Vld.ValidatorModel Vld.ValidSpec Vld.Hyps Vld.ProofsCommon Vld.ProofsFragDecl
     Vld.ProofsOrder Vld.ProofsTotal Vld.ProofsFields Vld.ValidatorProofs.
Import ListNotations.

Section SpreadsVisitor.
  Variable pi : order.
  Variable S : schema.
  Variable F : features.
  Variable D : document.
  Notation q := repaired.

  (** what validateSpread appends *)
  Definition vs_errs (tc : name * pos) (parent : scope) : list verror := r_errs (validate_spread q pi S F rst0 tc parent).

  Lemma validate_spread_errs st tc parent :
    r_errs (validate_spread q pi S F st tc parent) = r_errs st ++ vs_errs tc parent.
  Proof.
    unfold vs_errs, validate_spread. destruct parent as [pn|]; [| reflexivity].
    destruct (q_leaf_parent q && negb (is_composite_name S pn)); [reflexivity |].
    destruct (named_type S F (fst tc)) as [b|]; [| rewrite app_nil_r; reflexivity].
    destruct (is_composite_body b); [| rewrite app_nil_r; reflexivity].
    destruct (possible_types q S F (fst tc)); [| rewrite app_nil_r; reflexivity].
    destruct (possible_types q S F pn); [| rewrite app_nil_r; reflexivity].
    destruct (existsb _ _); [rewrite app_nil_r; reflexivity | reflexivity].
  Qed.

  Definition sp_ev1 (top : scope) (x : selection) : list verror :=
    match x with
    | SSpread fname np _ _ =>
        match frag_last D fname with
        | None => [err ESpreadUndefined np]
        | Some (DFrag _ _ _ cond _ _) => vs_errs cond top
        | Some (DOp _ _ _ _ _) => []
        end
    | SInline (Some tc) _ _ _ => vs_errs tc top
    | _ => []
    end.
  Definition sp_ev (stack : list scope) (n : node) : list verror :=
    match n with
    | NSel x =>
        match stack with
        | top :: _ => sp_ev1 top x
        | [] => match x with
                | SSpread fname np _ _ => match frag_last D fname with None => [err ESpreadUndefined np] | Some _ => [] end
                | _ => []
                end
        end
    | _ => []
    end.

  Lemma spreads_enter_errs st n : r_errs (fst (spreads_enter q pi S F D st n)) = r_errs st ++ sp_ev (r_stack st) n.
  Proof.
    unfold spreads_enter, sp_ev, sp_ev1. destruct n; try (simpl; rewrite app_nil_r; reflexivity).
    destruct s as [| fname np dirs e | [tc|] dirs sub e]; try (destruct (r_stack st); simpl; rewrite app_nil_r; reflexivity).
    - destruct (frag_last D fname) as [[| kw n' np' cond dirs' sub']|].
      + destruct (r_stack st); simpl; rewrite app_nil_r; reflexivity.
      + destruct (r_stack st) as [|top rest]; cbn [fst push r_errs]; [simpl; rewrite app_nil_r; reflexivity |].
        rewrite validate_spread_errs. reflexivity.
      + destruct (r_stack st); reflexivity.
    - destruct (r_stack st) as [|top rest]; cbn [fst push r_errs]; [simpl; rewrite app_nil_r; reflexivity |].
      apply validate_spread_errs.
  Qed.
  Lemma spreads_enter_stack st n : r_stack (fst (spreads_enter q pi S F D st n)) = fe_sc n :: r_stack st.
  Proof.
    unfold spreads_enter, fe_sc. destruct n; try reflexivity.
    destruct s as [| fname np dirs e | [tc|] dirs sub e]; try reflexivity.
    - destruct (frag_last D fname) as [[| kw n' np' cond dirs' sub']|]; try reflexivity.
      destruct (r_stack st) as [|top rest] eqn:Es; cbn [fst push r_stack]; [simpl; rewrite Es; reflexivity |].
      rewrite (proj1 (validate_spread_facts pi q eq_refl S F st cond top)). f_equal. exact Es.
    - destruct (r_stack st) as [|top rest] eqn:Es; cbn [fst push r_stack]; [simpl; rewrite Es; reflexivity |].
      rewrite (proj1 (validate_spread_facts pi q eq_refl S F st tc top)). f_equal. exact Es.
  Qed.
End SpreadsVisitor.

Lemma frag_last_none D n : frag_last D n = None <-> ~ In n (frag_names D).
Proof.
  induction D as [|d l IH]; [simpl; tauto |].
  change (frag_names (d :: l)) with (match d with DFrag _ n' _ _ _ _ => [n'] | DOp _ _ _ _ _ => [] end ++ frag_names l).
  rewrite in_app_iff. cbn [frag_last].
  destruct (frag_last l n) as [x|] eqn:E.
  - split; [discriminate |]. intros H. exfalso. apply H. right.
    destruct (mem n (frag_names l)) eqn:Em; [apply mem_in; exact Em |].
    apply mem_false in Em. apply IH in Em. discriminate.
  - assert (~ In n (frag_names l)) as Hl by (apply IH; reflexivity).
    destruct d as [| kw n' np cond dirs sub].
    + split; [intros _ [[] | H]; exact (Hl H) | reflexivity].
    + destruct (name_eqb n n') eqn:En.
      * apply name_eqb_eq in En. subst. split; [discriminate | intros H; exfalso; apply H; left; left; reflexivity].
      * apply name_eqb_neq in En. split; [intros _ [[H | []] | H]; [congruence | exact (Hl H)] | reflexivity].
Qed.
Lemma frag_first_none D n : frag_first D n = None <-> ~ In n (frag_names D).
Proof.
  induction D as [|d l IH]; simpl; [tauto |].
  destruct d as [| kw n' np cond dirs sub]; simpl; [exact IH |].
  destruct (name_eqb n n') eqn:En.
  - apply name_eqb_eq in En. subst. split; [discriminate | intros H; exfalso; apply H; left; reflexivity].
  - apply name_eqb_neq in En. rewrite IH. split; [intros H [H' | H']; [congruence | exact (H H')] | intros H H'; apply H; right; exact H'].
Qed.

(** the errors of validateFragmentSpreads' visitor on an annotated document, and 5.5.2.1 *)
Theorem spreads_pass_errors pi S F D st :
  r_stack st = [] ->
  r_errs (inspect (spreads_enter repaired pi S F (pti_doc (q_unwrap_obj repaired) S F D)) pop (tree_doc (pti_doc (q_unwrap_obj repaired) S F D)) st) =
  r_errs st ++
  flat_map (fun d => flat_map (fun o => sp_ev1 pi S F (pti_doc (q_unwrap_obj repaired) S F D) (fst o) (pti_sel (q_unwrap_obj repaired) S F (fst o) (snd o)))
                              (ssels_ss S F (model_def_scope S F d) (def_sub d))) D.
Proof.
  intros Hst. set (A := pti_doc (q_unwrap_obj repaired) S F D).
  destruct (inspect_events (spreads_enter repaired pi S F A) (sp_ev pi S F A) fe_sc
                           (spreads_enter_true pi repaired S F A) (spreads_enter_stack pi S F A) (spreads_enter_errs pi S F A)
                           (tree_doc A) st) as [E _].
  rewrite E, Hst. f_equal.
  apply (events_doc (sp_ev pi S F A) fe_sc (sp_ev1 pi S F A)).
  - intros top rest x. reflexivity.
  - intros stack n Hn. destruct n; try reflexivity. destruct Hn.
  - intros n. reflexivity.
Qed.

Theorem spreads_silent_defined pi (Hpi : order_ok pi) S F D :
  rule_fragment_spreads repaired pi S F (pti_doc (q_unwrap_obj repaired) S F D) = Done [] -> valid_5_5_2_1 D = true.
Proof.
  set (A := pti_doc (q_unwrap_obj repaired) S F D). rewrite rule_fragment_spreads_eq, finish_clean. intros [He _].
  rewrite (spreads_pass_errors pi S F D) in He by apply cycle_fold_stack.
  apply app_eq_nil in He as [_ He].
  unfold valid_5_5_2_1. apply forallb_forall. intros n Hn. unfold spread_names in Hn.
  apply in_flat_map in Hn as [s0 [Hs Hn]]. destruct s0 as [| fname np dirs e |]; [destruct Hn | | destruct Hn]. destruct Hn as [<- | []].
  apply (in_all_sels S F D) in Hs as [d [sc [Hd Hin]]].
  rewrite flat_map_nil_iff in He. specialize (He d Hd). rewrite flat_map_nil_iff in He. specialize (He _ Hin).
  cbn [fst snd] in He. change (pti_sel (q_unwrap_obj repaired) S F sc (SSpread fname np dirs e)) with (SSpread fname np (map (ti_dir (q_unwrap_obj repaired) S) dirs) e) in He.
  cbn [sp_ev1] in He. unfold fragment.
  destruct (frag_first D fname) eqn:Ef; [reflexivity |].
  apply frag_first_none in Ef. rewrite <- (frag_names_pti S F (q_unwrap_obj repaired) D) in Ef. apply frag_last_none in Ef.
  unfold A in *. rewrite Ef in He. discriminate.
Qed.

(** 5.5.2.1 holds of every accepted document *)
Theorem accepted_spread_targets_defined pi S F D :
  order_ok pi -> validate_model repaired pi S F D = Done [] -> valid_5_5_2_1 D = true.
Proof.
  intros Hpi H. apply validate_model_nil, all_rules_nil in H as [_ [_ [_ [[_ Hs] _]]]].
  apply (spreads_silent_defined pi Hpi S F D). exact Hs.
Qed.
