(** * Vld/ProofsLocatedAll.v — validate_error_located: every error the validator returns carries at
    least one location, and every location of it is the position of a node of the document (as
    written: NewTypeInfo moves nothing). *)
From Coq Require Import List NArith Arith Bool Lia.
From ApiFu Require Import Base.Sexp Vld.Ast Vld.Inspect Vld.TypeInfoModel Vld.TypeInfoPure Vld.ValidatorModel Vld.ValidatorCheck
     Vld.ProofsCommon Vld.ProofsSecondary Vld.ProofsLocated Vld.ProofsLocatedPos.
Import ListNotations.

Lemma filter_primary_in errs e : In e (filter_primary errs) -> In e errs.
Proof.
  unfold filter_primary. destruct (filter (fun e0 => negb (e_sec e0)) errs) as [|x r] eqn:E; [intros H; exact H |].
  intros H. rewrite <- E in H. apply filter_In in H. tauto.
Qed.

Section All.
  Variable pi : order.
  Hypothesis Hpi : order_ok pi.
  Variable S : schema.
  Variable F : features.
  Variable D : document.
  Notation A := (pti_doc (q_unwrap_obj repaired) S F D).

  Lemma rules_with_located rf errs :
    (forall e2, rf = Done e2 -> AllLoc A e2) -> rules_with repaired pi S F A rf = Done errs -> AllLoc A errs.
  Proof.
    intros Hrf H. destruct (rules_with_split _ _ _ _ _ _ _ H) as [e1 [e2 [e3 [e5 [e6 [e7 [e8 [R1 [R2 [R3 [R5 [R6 [R7 [R8 ->]]]]]]]]]]]]]].
    repeat apply allloc_app.
    - apply (operations_located A repaired e1 R1).
    - apply (Hrf e2 R2).
    - apply (arguments_located A pi S repaired e3 R3).
    - apply (declarations_located A pi S F Hpi).
    - apply (spreads_located A pi S F repaired e5 R5).
    - apply (values_located A pi S e6 R6).
    - apply (directives_located A S repaired e7 R7).
    - apply (variables_located A pi S e8 R8).
  Qed.

  Definition error_located (e : verror) : Prop := e_locs e <> [] /\ forall p, In p (e_locs e) -> In p (all_node_positions D).

  Lemma located_D e : located A e -> error_located e.
  Proof. intros [H1 H2]. split; [exact H1 |]. intros p Hp. specialize (H2 p Hp). unfold on_node in H2. rewrite node_positions_pti in H2. exact H2. Qed.

  (** the validator as it is (with the checked-pairs memo) *)
  Theorem validate_error_located errs e :
    validate_model_memo repaired pi S F D = Done errs -> In e errs -> error_located e.
  Proof.
    unfold validate_model_memo. rewrite type_info_pure. intros H He.
    destruct (all_rules_m repaired pi S F A) as [errs0 | s |] eqn:Ea; try discriminate H. injection H as <-.
    apply filter_primary_in in He. apply located_D. rewrite all_rules_m_with in Ea.
    apply (rules_with_located _ errs0 (fun e2 R2 => fields_m_located A pi S F Hpi e2 R2) Ea e He).
  Qed.

  (** the pipeline without the memo *)
  Theorem validate_error_located_plain errs e :
    validate_model repaired pi S F D = Done errs -> In e errs -> error_located e.
  Proof.
    unfold validate_model. rewrite type_info_pure. intros H He.
    destruct (all_rules repaired pi S F A) as [errs0 | s |] eqn:Ea; try discriminate H. injection H as <-.
    apply filter_primary_in in He. apply located_D. rewrite all_rules_with in Ea.
    apply (rules_with_located _ errs0 (fun e2 R2 => fields_located A pi S F Hpi e2 R2) Ea e He).
  Qed.
End All.
