(** * Vld/ProofsSpecReach.v — the Spec's fuel-bounded reachability ([ValidSpec.reach], used by
    5.5.2.2 and 5.8) against the inductive relation, and 5.5.2.2 itself: a document on which the
    spread rule is silent has no fragment that reaches itself in the Spec's sense. *)
From Coq Require Import List NArith Arith Bool Lia.
From ApiFu Require Import Base.Sexp Vld.Ast Vld.AstInd Vld.Inspect Vld.InspectProofs Vld.TypeInfoModel Vld.TypeInfoPure
     Vld.Enumerate Vld.SpecEnum Vld.ValidatorModel Vld.ValidSpec Vld.ProofsCommon Vld.ProofsCycles Vld.ProofsFragDecl
     Vld.ProofsSpreads Vld.ProofsDepth Vld.ProofsDepthRule.
Import ListNotations.

Lemma dedup_in x l : In x (dedup l) <-> In x l.
Proof.
  induction l as [|y l IH]; [tauto |]. simpl. destruct (mem y l) eqn:E.
  - rewrite IH. apply mem_in in E. split; [tauto | intros [<- | H]; assumption].
  - simpl. rewrite IH. tauto.
Qed.
Lemma dedup_len l : length (dedup l) <= length l.
Proof. induction l as [|y l IH]; [reflexivity |]. simpl. destruct (mem y l); simpl; lia. Qed.

(** ** breadth-first closure with a fuel, in general *)
Section BFS.
  Variable succ : name -> list name.
  Variable U : list name.
  Hypothesis succ_in_U : forall x y, In y (succ x) -> In y U.

  Fixpoint bfs (fuel : nat) (frontier seen : list name) : list name :=
    match fuel with
    | O => seen
    | Datatypes.S fuel' =>
        match filter (fun x => negb (mem x seen)) (dedup (flat_map succ frontier)) with
        | [] => seen
        | new => bfs fuel' new (new ++ seen)
        end
    end.

  Definition step (x y : name) : Prop := In y (succ x).
  Inductive plus (x : name) : name -> Prop :=
  | plus_one y : step x y -> plus x y
  | plus_more y z : plus x y -> step y z -> plus x z.

  Lemma plus_left x y z : step x y -> plus y z -> plus x z.
  Proof. intros Hxy Hyz. induction Hyz as [z Hz | u z _ IH Huz]; [apply (plus_more x y z (plus_one x y Hxy) Hz) | apply (plus_more x u z IH Huz)]. Qed.

  Lemma new_spec frontier seen x :
    In x (filter (fun x => negb (mem x seen)) (dedup (flat_map succ frontier))) <->
    ~ In x seen /\ exists f, In f frontier /\ step f x.
  Proof.
    rewrite filter_In, dedup_in, in_flat_map, negb_true_iff, mem_false. unfold step. tauto.
  Qed.

  Lemma bfs_sound fuel : forall frontier seen x,
    In x (bfs fuel frontier seen) -> In x seen \/ exists f, In f frontier /\ plus f x.
  Proof.
    induction fuel as [|fuel IH]; intros frontier seen x H; [left; exact H |]. cbn [bfs] in H.
    destruct (filter (fun x => negb (mem x seen)) (dedup (flat_map succ frontier))) as [|n0 new] eqn:E; [left; exact H |].
    destruct (IH _ _ _ H) as [Hin | [f [Hf Hp]]].
    - apply in_app_or in Hin as [Hin | Hin]; [| left; exact Hin].
      rewrite <- E in Hin. apply new_spec in Hin as [_ [f [Hf Hs]]]. right. exists f. split; [exact Hf | apply plus_one; exact Hs].
    - rewrite <- E in Hf. apply new_spec in Hf as [_ [g [Hg Hs]]]. right. exists g. split; [exact Hg | apply (plus_left g f x Hs Hp)].
  Qed.

  Definition unseen (seen : list name) : nat := length (filter (fun x => negb (mem x seen)) (dedup U)).

  Lemma filter_lt {A} (p p' : A -> bool) l e :
    (forall x, p' x = true -> p x = true) -> In e l -> p e = true -> p' e = false ->
    length (filter p' l) < length (filter p l).
  Proof.
    intros Himp. induction l as [|x l IH]; intros Hin Hp Hp'; [destruct Hin |].
    assert (length (filter p' l) <= length (filter p l)) as Hle.
    { clear - Himp. induction l as [|y l IH]; [reflexivity |]. simpl. destruct (p' y) eqn:E; [rewrite (Himp y E); simpl; lia |].
      destruct (p y); simpl; lia. }
    simpl. destruct Hin as [-> | Hin].
    - rewrite Hp, Hp'. simpl. lia.
    - specialize (IH Hin Hp Hp'). destruct (p' x) eqn:E; [rewrite (Himp x E); simpl; lia | destruct (p x); simpl; lia].
  Qed.

  Definition closed (R : list name) : Prop := forall x y, In x R -> step x y -> In y R.

  Lemma bfs_complete fuel : forall frontier seen,
    unseen seen < fuel ->
    (forall x, In x seen -> In x frontier \/ forall y, step x y -> In y seen) ->
    incl seen (bfs fuel frontier seen) /\
    (forall f y, In f frontier -> step f y -> In y (bfs fuel frontier seen)) /\
    closed (bfs fuel frontier seen).
  Proof.
    induction fuel as [|fuel IH]; intros frontier seen Hm Hinv; [lia |]. cbn [bfs].
    destruct (filter (fun x => negb (mem x seen)) (dedup (flat_map succ frontier))) as [|n0 new] eqn:E.
    - assert (forall f y, In f frontier -> step f y -> In y seen) as Hall.
      { intros f y Hf Hs. destruct (mem y seen) eqn:Em; [apply mem_in; exact Em |]. apply mem_false in Em.
        assert (In y []) as []. rewrite <- E. apply new_spec. split; [exact Em | exists f; auto]. }
      split; [apply incl_refl |]. split; [exact Hall |].
      intros x y Hx Hs. destruct (Hinv x Hx) as [Hf | Hc]; [apply (Hall x y Hf Hs) | apply (Hc y Hs)].
    - assert (forall f y, In f frontier -> step f y -> In y ((n0 :: new) ++ seen)) as Hall.
      { intros f y Hf Hs. apply in_or_app. destruct (mem y seen) eqn:Em; [right; apply mem_in; exact Em | left].
        apply mem_false in Em. rewrite <- E. apply new_spec. split; [exact Em | exists f; auto]. }
      destruct (IH (n0 :: new) ((n0 :: new) ++ seen)) as [H1 [H2 H3]].
      + assert (In n0 (n0 :: new)) as Hn0 by (left; reflexivity). rewrite <- E in Hn0. apply new_spec in Hn0 as [Hns [f [Hf Hs]]].
        assert (unseen ((n0 :: new) ++ seen) < unseen seen); [| lia]. unfold unseen.
        apply (filter_lt _ _ _ n0).
        * intros x Hx. rewrite negb_true_iff in *. apply mem_false in Hx. apply mem_false. intros Hin. apply Hx. apply in_or_app. right. exact Hin.
        * apply dedup_in. apply (succ_in_U f n0 Hs).
        * apply negb_true_iff, mem_false. exact Hns.
        * apply negb_false_iff, mem_in. left. reflexivity.
      + intros x Hx. apply in_app_or in Hx as [Hx | Hx]; [left; exact Hx |].
        right. intros y Hs. destruct (Hinv x Hx) as [Hf | Hc]; [apply (Hall x y Hf Hs) | apply in_or_app; right; apply (Hc y Hs)].
      + split; [intros x Hx; apply H1; apply in_or_app; right; exact Hx |]. split; [| exact H3].
        intros f y Hf Hs. apply H1. apply (Hall f y Hf Hs).
  Qed.

  Lemma unseen_le seen : unseen seen <= length U.
  Proof.
    unfold unseen. etransitivity; [apply filter_len | apply dedup_len].
  Qed.

  (** the two ways the Spec starts the search *)
  Theorem bfs_from_one n x : In x (bfs (Datatypes.S (length U)) [n] []) <-> plus n x.
  Proof.
    split.
    - intros H. destruct (bfs_sound _ _ _ _ H) as [[] | [f [[<- | []] Hp]]]. exact Hp.
    - destruct (bfs_complete (Datatypes.S (length U)) [n] []) as [_ [H2 H3]].
      + pose proof (unseen_le []). lia.
      + intros ? [].
      + intros Hp. induction Hp as [y Hy | y z _ IH Hyz]; [apply (H2 n y (or_introl eq_refl) Hy) | apply (H3 y z IH Hyz)].
  Qed.
  Theorem bfs_from_set l x : In x (bfs (Datatypes.S (length U)) l l) <-> In x l \/ exists f, In f l /\ plus f x.
  Proof.
    split; [apply bfs_sound |].
    destruct (bfs_complete (Datatypes.S (length U)) l l) as [H1 [H2 H3]].
    - pose proof (unseen_le l). lia.
    - intros y Hy. left. exact Hy.
    - intros [H | [f [Hf Hp]]]; [apply H1; exact H |].
      induction Hp as [y Hy | y z _ IH Hyz]; [apply (H2 f y Hf Hy) | apply (H3 y z IH Hyz)].
  Qed.
End BFS.

(** ** the Spec's search is that closure *)
Lemma spec_reach_bfs D fuel : forall frontier seen, ValidSpec.reach D fuel frontier seen = bfs (spreads_of D) fuel frontier seen.
Proof.
  induction fuel as [|fuel IH]; intros frontier seen; [reflexivity |]. cbn [ValidSpec.reach bfs].
  destruct (filter (fun x => negb (mem x seen)) (dedup (flat_map (spreads_of D) frontier))); [reflexivity | apply IH].
Qed.

(** spreads written in a selection set: the Spec's enumeration and [sp_ss] *)
Definition spread_of_sel (s : selection) : list name := match s with SSpread m _ _ _ => [m] | _ => [] end.
Lemma spreads_sp :
  (forall s, flat_map spread_of_sel (sels_sel s) = sp_sel s) /\
  (forall ss, flat_map spread_of_sel (sels_ss ss) = sp_ss ss).
Proof.
  apply sel_ss_ind.
  - intros a al n np args dirs sub IH. destruct sub as [ss|]; [exact (IH ss eq_refl) | reflexivity].
  - reflexivity.
  - intros cond dirs sub e IH. exact IH.
  - intros a sels p IH. rewrite sp_ss_eq. change (sels_ss (SelSet a sels p)) with (flat_map sels_sel sels).
    induction IH as [|s l Hs _ IHl]; [reflexivity |]. cbn [flat_map]. rewrite flat_map_app, Hs, IHl. reflexivity.
Qed.

Lemma spreads_of_in_names D x y : In y (spreads_of D x) -> In y (spread_names D).
Proof.
  unfold spreads_of, fragment, spread_names, all_sels. destruct (frag_first D x) as [d|] eqn:E; [| intros []].
  intros H. apply in_flat_map in H as [s [Hs Hy]]. apply in_flat_map. exists s. split; [| exact Hy].
  apply in_flat_map. exists d. split; [| exact Hs].
  clear - E. induction D as [|d0 l IH]; [discriminate |]. simpl in E.
  destruct d0 as [| kw n np c dirs sub]; [right; apply IH; exact E |].
  destruct (name_eqb x n); [inversion E; left; reflexivity | right; apply IH; exact E].
Qed.

Theorem spec_reachable_from D n x : In x (reachable_from D n) <-> plus (spreads_of D) n x.
Proof. unfold reachable_from. rewrite spec_reach_bfs. apply (bfs_from_one (spreads_of D) (spread_names D) (spreads_of_in_names D)). Qed.

Theorem spec_op_fragments D d x :
  In x (op_fragments D d) <-> In x (spreads_of_def d) \/ exists f, In f (spreads_of_def d) /\ plus (spreads_of D) f x.
Proof.
  unfold op_fragments. rewrite spec_reach_bfs.
  rewrite (bfs_from_set (spreads_of D) (spread_names D) (spreads_of_in_names D)).
  split.
  - intros [H | [f [Hf Hp]]]; [left; exact (proj1 (dedup_in _ _) H) | right; exists f; split; [exact (proj1 (dedup_in _ _) Hf) | exact Hp]].
  - intros [H | [f [Hf Hp]]]; [left; exact (proj2 (dedup_in _ _) H) | right; exists f; split; [exact (proj2 (dedup_in _ _) Hf) | exact Hp]].
Qed.

(** ** from the Spec's edges on [D] to the model's on the annotated document *)
Section Annotated.
  Variable qo : bool.
  Variable S : schema.
  Variable F : features.

  Lemma sp_pti :
    (forall s top, sp_sel (pti_sel qo S F top s) = sp_sel s) /\
    (forall ss top, sp_ss (pti_ss qo S F top ss) = sp_ss ss).
  Proof.
    apply sel_ss_ind.
    - intros a al n np args dirs sub IH top. rewrite (pti_sel_field_eq qo S F top a al n np args dirs sub).
      destruct sub as [ss|]; [apply (IH ss eq_refl) | reflexivity].
    - reflexivity.
    - intros cond dirs sub e IH top. rewrite (pti_sel_inline_eq qo S F top cond dirs sub e). apply IH.
    - intros a sels p IH top. rewrite pti_ss_eq, !sp_ss_eq.
      induction IH as [|s l Hs _ IHl]; [reflexivity |]. cbn [map flat_map]. rewrite Hs, IHl. reflexivity.
  Qed.

  Lemma frag_last_pti D n : frag_last (pti_doc qo S F D) n = option_map (pti_def qo S F) (frag_last D n).
  Proof.
    unfold pti_doc. induction D as [|d l IH]; [reflexivity |]. cbn [map frag_last]. rewrite IH.
    destruct (frag_last l n); [reflexivity |]. destruct d as [| kw n' np c dirs sub]; [reflexivity |].
    cbn [pti_def option_map]. destruct c as [c cp]. cbn. destruct (name_eqb n n'); reflexivity.
  Qed.

  Lemma frag_first_last D : NoDup (frag_names D) -> forall n d, frag_first D n = Some d -> frag_last D n = Some d.
  Proof.
    intros Hnd n d H.
    assert (In d D /\ exists kw np c dirs sub, d = DFrag kw n np c dirs sub) as [Hin [kw [np [c [dirs [sub ->]]]]]].
    { clear Hnd. induction D as [|d0 l IH]; [discriminate |]. simpl in H.
      destruct d0 as [| kw n' np c dirs sub]; [destruct (IH H) as [H1 H2]; split; [right; exact H1 | exact H2] |].
      destruct (name_eqb n n') eqn:En.
      - apply name_eqb_eq in En. subst n'. inversion H; subst. split; [left; reflexivity | exists kw, np, c, dirs, sub; reflexivity].
      - destruct (IH H) as [H1 H2]; split; [right; exact H1 | exact H2]. }
    apply (frag_last_unique D kw n np c dirs sub Hnd Hin).
  Qed.

  Lemma spec_edge_model D x y :
    NoDup (frag_names D) -> In y (spreads_of D x) -> edge (pti_doc qo S F D) x y.
  Proof.
    intros Hnd H. unfold spreads_of, fragment in H. destruct (frag_first D x) as [d|] eqn:E; [| destruct H].
    apply (frag_first_last D Hnd) in E.
    apply (sp_edge (pti_doc qo S F D) x (pti_def qo S F d) y).
    - rewrite frag_last_pti, E. reflexivity.
    - rewrite pti_def_sub, (proj2 sp_pti). rewrite <- (proj2 spreads_sp). exact H.
  Qed.

  Lemma spec_plus_model D x y :
    NoDup (frag_names D) -> plus (spreads_of D) x y ->
    exists u, ProofsCycles.reach (pti_doc qo S F D) x u /\ edge (pti_doc qo S F D) u y.
  Proof.
    intros Hnd H. induction H as [y Hy | u y _ [v [Hxv Hvu]] Huy].
    - exists x. split; [constructor | apply (spec_edge_model D x y Hnd Hy)].
    - exists u. split; [apply (reach_step _ x v u Hxv Hvu) | apply (spec_edge_model D u y Hnd Huy)].
  Qed.
End Annotated.

(** ** 5.5.2.2 *)
Theorem spreads_silent_5_5_2_2 pi S F D :
  order_ok pi -> valid_5_5_1_1 D = true ->
  rule_fragment_spreads repaired pi S F (pti_doc (q_unwrap_obj repaired) S F D) = Done [] ->
  valid_5_5_2_2 D = true.
Proof.
  intros Hpi Hnd H. unfold valid_5_5_2_2. apply forallb_forall. intros n Hn. apply negb_true_iff, mem_false.
  intros Hin. apply spec_reachable_from in Hin.
  apply nodupb_NoDup in Hnd.
  destruct (spec_plus_model (q_unwrap_obj repaired) S F D n n Hnd Hin) as [u [Hr He]].
  apply (silent_acyclic pi S F _ Hpi H n); [rewrite frag_names_pti; exact Hn | exists u; auto].
Qed.

(** ** the same, in the shape C01 uses ([acyclic_frags]): no defined fragment occurs in a chain of
    spreads that starts in its own body.  [sp_ss ss]: the names of all fragment spreads occurring in
    [ss] at any depth; fragments are looked up as the Spec does ([fragment], the first definition of
    the name).  Stated on the document as written (no annotation), so that it can be transported
    along a structural translation of documents. *)
Inductive spread_chain (D : document) : selset -> list name -> Prop :=
| spread_chain_nil ss : spread_chain D ss []
| spread_chain_cons ss n d l :
    In n (sp_ss ss) -> fragment D n = Some d -> spread_chain D (def_sub d) l -> spread_chain D ss (n :: l).

Definition acyclic_spreads (D : document) : Prop :=
  forall n d l, fragment D n = Some d -> spread_chain D (def_sub d) l -> ~ In n l.

Lemma spread_chain_plus D : forall ss l, spread_chain D ss l ->
  forall n d, fragment D n = Some d -> ss = def_sub d -> forall x, In x l -> plus (spreads_of D) n x.
Proof.
  intros ss l H. induction H as [ss | ss m dm l Hm Hdm _ IH]; intros n d Hd -> x Hx; [destruct Hx |].
  assert (step (spreads_of D) n m) as Hs.
  { unfold step, spreads_of. rewrite Hd. fold spread_of_sel. rewrite (proj2 spreads_sp). exact Hm. }
  destruct Hx as [<- | Hx]; [apply plus_one; exact Hs |]. apply (plus_left _ n m x Hs). apply (IH m dm Hdm eq_refl x Hx).
Qed.

Theorem no_cycle_acyclic_spreads D : valid_5_5_2_2 D = true -> acyclic_spreads D.
Proof.
  intros H n d l Hd Hc Hin. pose proof (spread_chain_plus D _ l Hc n d Hd eq_refl n Hin) as Hp.
  apply spec_reachable_from in Hp. unfold valid_5_5_2_2 in H. rewrite forallb_forall in H.
  assert (In n (frag_names D)) as Hn.
  { unfold fragment in Hd. destruct (in_dec (fun a b => match list_eq_dec N.eq_dec a b with left e => left e | right e => right e end) n (frag_names D)) as [Hi | Hi]; [exact Hi |].
    apply frag_first_none in Hi. congruence. }
  specialize (H n Hn). apply negb_true_iff, mem_false in H. contradiction.
Qed.

Theorem spreads_silent_acyclic_spreads pi S F D :
  order_ok pi -> valid_5_5_1_1 D = true ->
  rule_fragment_spreads repaired pi S F (pti_doc (q_unwrap_obj repaired) S F D) = Done [] -> acyclic_spreads D.
Proof. intros Hpi Hnd H. apply no_cycle_acyclic_spreads. apply (spreads_silent_5_5_2_2 pi S F D Hpi Hnd H). Qed.
