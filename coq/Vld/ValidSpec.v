(** * Vld/ValidSpec.v — the GraphQL validation rules (specification of June 2018, chapter 5) as
    executable predicates, written from the specification text and independently of the model.

    Each rule [valid_5_x_y : schema -> features -> document -> bool] decides one section; the rule's
    proposition is "[valid_5_x_y S F D = true]"; [Valid S F D] is their conjunction.  The schema a
    request sees is [S] restricted to the types and fields whose required features are in [F].

    How context is attached to parts of a document (the specification's "parent type", "expected
    type", "argument definition"): by the scoping functions below, which walk selection sets from
    the root type of the operation / the type condition of the fragment.  A part whose context is
    undefined because of an error the specification attributes to another rule (a field that does
    not exist, an undefined directive, an unknown type condition) imposes no obligation in the
    rules that need that context.

    Deviations from the letter, all stated here:
    - 5.2.3.1 counts the response names of the root selection set with fragments expanded but
      without evaluating @skip/@include and type conditions (variable values are unknown; a type
      condition that does not apply at the root is an impossible spread, 5.5.2.3).
    - an operation must have a root type in the schema (implicit in the specification): [valid_root].
    - Int literals given for ID are limited to 64 bits, Float literals to finite doubles
      (implementation-defined ranges).
    - input coercion of list literals follows the specification's table: an item of a list literal
      is not itself wrapped into a list. *)
From Coq Require Import List NArith ZArith Bool.
From ApiFu Require Import Base.Sexp Vld.Ast Vld.Literals.
Import ListNotations.

Section Spec.
  Variable S : schema.
  Variable F : features.
  Variable D : document.

  Definition sn (l : list N) : name := l.
  Definition s_typename : name := [95;95;116;121;112;101;110;97;109;101]%N.       (* __typename *)
  Definition s_query_kw : name := [113;117;101;114;121]%N.
  Definition s_mutation_kw : name := [109;117;116;97;116;105;111;110]%N.
  Definition s_subscription_kw : name := [115;117;98;115;99;114;105;112;116;105;111;110]%N.

  (** ** the visible schema *)
  (** a type named in the document: visible only with its required features *)
  Definition type_of (n : name) : option type_body := named_type S F n.
  (** the parent type of a selection set is not named by the document: it is the root type, the
      type a field definition returns, or a type condition that was found to be visible *)
  Definition parent_body (n : name) : option type_body := raw_body S n.
  Definition composite (n : name) : bool :=
    match parent_body n with Some b => is_composite_body b | None => false end.
  Definition typename_def : field_def :=
    {| f_type := StNonNull (StNamed [83;116;114;105;110;103]%N); f_args := []; f_req := [] |}.  (* String! *)

  (** the field [f] declared by type [parent] and visible with the enabled features (on the query
      root type also the introspection fields __schema and __type) *)
  Definition declared_field_of (parent : name) (f : name) : option field_def :=
    match parent_body parent with
    | Some (TObject fields _) =>
        match get_field F fields f with
        | Some d => Some d
        | None => if name_eqb parent (s_query S) then assoc f (s_meta S) else None
        end
    | Some (TInterface fields) => get_field F fields f
    | _ => None
    end.

  (** the definition of field [f] selected on a value of type [parent] (GetFieldDefinition):
      __typename exists on every composite type *)
  Definition field_def_of (parent : name) (f : name) : option field_def :=
    if name_eqb f s_typename then (if composite parent then Some typename_def else None)
    else declared_field_of parent f.

  Definition result_type (d : field_def) : name := unwrapped (f_type d).

  Definition root_type (ot : option (name * pos)) : option name :=
    match ot with
    | None => Some (s_query S)
    | Some (k, _) =>
        if name_eqb k s_query_kw then Some (s_query S)
        else if name_eqb k s_mutation_kw then s_mutation S
        else if name_eqb k s_subscription_kw then s_subscription S
        else None
    end.

  Definition known (n : name) : option name := match type_of n with Some _ => Some n | None => None end.

  (** the fragment a name denotes (5.5.1.1 makes it unique) *)
  Definition fragment (n : name) : option definition := frag_first D n.

  (** ** occurrences with their context *)
  (** a field with the parent type of the selection set it occurs in *)
  Record field_occ := { fo_parent : option name; fo_field : selection }.
  (** a fragment spread / typed inline fragment with the parent type of its selection set *)
  Inductive spread_occ := SpreadOcc (parent : option name) (target : name) (p : pos)
                        | InlineOcc (parent : option name) (cond : name) (p : pos).
  (** a selection set with its parent type *)
  Record set_occ := { so_parent : option name; so_set : selset }.

  Definition sub_scope (parent : option name) (s : selection) : option name :=
    match s with
    | SField _ _ f _ _ _ _ =>
        match parent with
        | Some p => match declared_field_of p f with Some d => Some (result_type d) | None => None end
        | None => None
        end
    | SInline (Some (c, _)) _ _ _ => known c
    | SInline None _ _ _ => parent
    | SSpread _ _ _ _ => None
    end.

  Fixpoint fields_sel (parent : option name) (s : selection) : list field_occ :=
    match s with
    | SField _ _ _ _ _ _ sub =>
        {| fo_parent := parent; fo_field := s |} ::
        match sub with Some ss => fields_ss (sub_scope parent s) ss | None => [] end
    | SSpread _ _ _ _ => []
    | SInline _ _ ss _ => fields_ss (sub_scope parent s) ss
    end
  with fields_ss (parent : option name) (ss : selset) : list field_occ :=
    match ss with SelSet _ sels _ => flat_map (fields_sel parent) sels end.

  Fixpoint spreads_sel (parent : option name) (s : selection) : list spread_occ :=
    match s with
    | SField _ _ _ _ _ _ sub =>
        match sub with Some ss => spreads_ss (sub_scope parent s) ss | None => [] end
    | SSpread n p _ _ => [SpreadOcc parent n p]
    | SInline cond _ ss _ =>
        match cond with Some (c, p) => [InlineOcc parent c p] | None => [] end
        ++ spreads_ss (sub_scope parent s) ss
    end
  with spreads_ss (parent : option name) (ss : selset) : list spread_occ :=
    match ss with SelSet _ sels _ => flat_map (spreads_sel parent) sels end.

  Fixpoint sets_sel (parent : option name) (s : selection) : list set_occ :=
    match s with
    | SField _ _ _ _ _ _ sub =>
        match sub with Some ss => sets_ss (sub_scope parent s) ss | None => [] end
    | SSpread _ _ _ _ => []
    | SInline _ _ ss _ => sets_ss (sub_scope parent s) ss
    end
  with sets_ss (parent : option name) (ss : selset) : list set_occ :=
    match ss with SelSet _ sels _ => {| so_parent := parent; so_set := ss |} :: flat_map (sets_sel parent) sels end.

  Definition def_scope (d : definition) : option name :=
    match d with
    | DOp ot _ _ _ _ => root_type ot
    | DFrag _ _ _ (c, _) _ _ => known c
    end.

  Definition all_fields : list field_occ := flat_map (fun d => fields_ss (def_scope d) (def_sub d)) D.
  Definition all_spreads : list spread_occ := flat_map (fun d => spreads_ss (def_scope d) (def_sub d)) D.
  Definition all_sets : list set_occ := flat_map (fun d => sets_ss (def_scope d) (def_sub d)) D.

  Definition fo_def (o : field_occ) : option field_def :=
    match fo_parent o, fo_field o with
    | Some p, SField _ _ f _ _ _ _ => field_def_of p f
    | _, _ => None
    end.

  Fixpoint nodupb (l : list name) : bool :=
    match l with [] => true | x :: r => negb (mem x r) && nodupb r end.

  (** ** 5.1 Documents *)
  Definition valid_5_1_1 : bool := true.   (* every definition of this AST is executable *)

  (** ** 5.2 Operations *)
  Definition op_names : list name :=
    flat_map (fun d => match d with DOp _ (Some (n, _)) _ _ _ => [n] | _ => [] end) D.
  Definition ops : list definition := filter (fun d => match d with DOp _ _ _ _ _ => true | _ => false end) D.
  Definition valid_5_2_1_1 : bool := nodupb op_names.
  Definition valid_5_2_2_1 : bool :=
    if existsb (fun d => match d with DOp _ None _ _ _ => true | _ => false end) D
    then Nat.eqb (length ops) 1 else true.
  Definition valid_root : bool :=
    forallb (fun d => match d with
                      | DOp ot _ _ _ _ => match root_type ot with Some _ => true | None => false end
                      | _ => true
                      end) D.

  (** CollectFields, statically: the fields of a selection set (each with the parent type of the
      selection set it is written in), fragments expanded, each fragment at most once
      ([visited]: names of the fragments already expanded).  [expand] says how a spread is expanded;
      [collect_fuel] ties the knot with one unit of fuel per nesting level of spreads. *)
  Definition resp_name (s : selection) : name :=
    match s with
    | SField _ (Some (a, _)) _ _ _ _ _ => a
    | SField _ None n _ _ _ _ => n
    | _ => []
    end.
  Definition cfield := (selection * option name)%type.

  Section Collect.
    Variable expand : list name -> name -> list cfield * list name.
    Fixpoint collect_sel (parent : option name) (visited : list name) (s : selection)
      : list cfield * list name :=
      match s with
      | SField _ _ _ _ _ _ _ => ([(s, parent)], visited)
      | SInline _ _ ss _ => collect_ss (sub_scope parent s) visited ss
      | SSpread n _ _ _ => if mem n visited then ([], visited) else expand (n :: visited) n
      end
    with collect_ss (parent : option name) (visited : list name) (ss : selset)
      : list cfield * list name :=
      match ss with
      | SelSet _ sels _ =>
          (fix go (l : list selection) (visited : list name) : list cfield * list name :=
             match l with
             | [] => ([], visited)
             | x :: r => let '(a, v1) := collect_sel parent visited x in
                         let '(b, v2) := go r v1 in (a ++ b, v2)
             end) sels visited
      end.
  End Collect.

  Fixpoint expand_fuel (fuel : nat) (visited : list name) (n : name) : list cfield * list name :=
    match fuel with
    | O => ([], visited)
    | Datatypes.S fuel' =>
        match fragment n with
        | Some d => collect_ss (expand_fuel fuel') (def_scope d) visited (def_sub d)
        | None => ([], visited)
        end
    end.
  Definition n_frags : nat := length (frag_names D).
  (** the fields of [ss] (a selection set with parent type [parent]) *)
  Definition collected (parent : option name) (ss : selset) : list cfield :=
    fst (collect_ss (expand_fuel (Datatypes.S n_frags)) parent [] ss).

  Definition valid_5_2_3_1 : bool :=
    forallb (fun d => match d with
                      | DOp (Some (k, _)) _ _ _ ss =>
                          if name_eqb k s_subscription_kw then
                            Nat.eqb (length (dedup (map (fun c => resp_name (fst c)) (collected (root_type (Some (k, (0, 0)%N))) ss)))) 1
                          else true
                      | _ => true
                      end) D.

  (** ** 5.3 Fields *)
  (** 5.3.1 Field selections on objects, interfaces and unions: the field must be defined on the
      parent type *)
  Definition valid_5_3_1 : bool :=
    forallb (fun o => match fo_parent o with
                      | Some p => if composite p then match fo_def o with Some _ => true | None => false end
                                  else true
                      | None => true
                      end) all_fields.

  (** 5.3.3 Leaf field selections *)
  Definition valid_5_3_3 : bool :=
    forallb (fun o => match fo_def o, fo_field o with
                      | Some d, SField _ _ _ _ _ _ sub =>
                          if composite (result_type d)
                          then match sub with Some (SelSet _ (_ :: _) _) => true | _ => false end
                          else match sub with None => true | Some _ => false end
                      | _, _ => true
                      end) all_fields.

  (** 5.3.2 Field selection merging *)
  Definition cf_def (c : cfield) : option field_def :=
    match snd c, fst c with
    | Some p, SField _ _ f _ _ _ _ => field_def_of p f
    | _, _ => None
    end.
  Definition cf_name (c : cfield) : name := match fst c with SField _ _ f _ _ _ _ => f | _ => [] end.
  Definition cf_args (c : cfield) : list argument := match fst c with SField _ _ _ _ a _ _ => a | _ => [] end.
  Definition cf_sub (c : cfield) : list cfield :=
    match fst c, cf_def c with
    | SField _ _ _ _ _ _ (Some ss), Some d => collected (Some (result_type d)) ss
    | _, _ => []
    end.

  (** all pairs of distinct positions of a list *)
  Fixpoint all_pairs {A} (f : A -> A -> bool) (l : list A) : bool :=
    match l with
    | [] => true
    | x :: r => forallb (f x) r && all_pairs f r
    end.

  (** identical values (same kinds, same contents, positions ignored) *)
  Fixpoint same_value (a b : value) {struct a} : bool :=
    match a, b with
    | VVar _ x _ _, VVar _ y _ _ => name_eqb x y
    | VInt _ x _, VInt _ y _ => bytes_eqb x y
    | VFloat _ x _, VFloat _ y _ => bytes_eqb x y
    | VString _ x _, VString _ y _ => bytes_eqb x y
    | VBool _ x _, VBool _ y _ => Bool.eqb x y
    | VNull _ _, VNull _ _ => true
    | VEnum _ x _, VEnum _ y _ => name_eqb x y
    | VList _ xs _, VList _ ys _ =>
        (fix go (xs ys : list value) : bool :=
           match xs, ys with
           | [], [] => true
           | x :: xs', y :: ys' => same_value x y && go xs' ys'
           | _, _ => false
           end) xs ys
    | VObject _ xs _, VObject _ ys _ =>
        (fix go (xs ys : list (name * pos * value)) : bool :=
           match xs, ys with
           | [], [] => true
           | (n, _, x) :: xs', (m, _, y) :: ys' => name_eqb n m && same_value x y && go xs' ys'
           | _, _ => false
           end) xs ys
    | _, _ => false
    end.

  (** identical sets of arguments *)
  Definition same_args (a b : list argument) : bool :=
    Nat.eqb (length a) (length b) &&
    forallb (fun x => existsb (fun y => name_eqb (a_name x) (a_name y) && same_value (a_value x) (a_value y)) b) a &&
    forallb (fun y => existsb (fun x => name_eqb (a_name x) (a_name y) && same_value (a_value x) (a_value y)) a) b.

  Definition leaf_sty (t : sty) : bool :=
    match t with
    | StNamed n => match parent_body n with Some (TScalar _) | Some (TEnum _) => true | _ => false end
    | _ => false
    end.

  (** the type part of SameResponseShape: strip NonNull / List in step; [Some (a, b)]: the
      remaining named types *)
  Fixpoint strip_shape (a b : sty) {struct a} : option (sty * sty) :=
    match a, b with
    | StNonNull a', StNonNull b' => strip_shape a' b'
    | StNonNull _, _ | _, StNonNull _ => None
    | StList a', StList b' => strip_shape a' b'
    | StList _, _ | _, StList _ => None
    | _, _ => Some (a, b)
    end.

  Definition same_resp (x y : cfield) : bool := name_eqb (resp_name (fst x)) (resp_name (fst y)).

  (** SameResponseShape(fieldA, fieldB), [fuel] levels of nesting *)
  Fixpoint same_response_shape (fuel : nat) (x y : cfield) : bool :=
    match fuel with
    | O => false
    | Datatypes.S fuel' =>
        match cf_def x, cf_def y with
        | Some dx, Some dy =>
            match strip_shape (f_type dx) (f_type dy) with
            | None => false
            | Some (a, b) =>
                if leaf_sty a || leaf_sty b then sty_eqb a b
                else
                  all_pairs (fun p q => if same_resp p q then same_response_shape fuel' p q else true)
                            (cf_sub x ++ cf_sub y)
            end
        | _, _ => true     (* an undefined field is 5.3.1's error *)
        end
    end.

  Definition is_object (n : name) : bool :=
    match parent_body n with Some (TObject _ _) => true | _ => false end.

  (** FieldsInSetCanMerge(set) *)
  Fixpoint fields_can_merge (fuel : nat) (set : list cfield) : bool :=
    match fuel with
    | O => false
    | Datatypes.S fuel' =>
        all_pairs (fun x y =>
                     if same_resp x y then
                       same_response_shape fuel x y &&
                       match snd x, snd y with
                       | Some px, Some py =>
                           if name_eqb px py || negb (is_object px) || negb (is_object py) then
                             name_eqb (cf_name x) (cf_name y) && same_args (cf_args x) (cf_args y) &&
                             fields_can_merge fuel' (cf_sub x ++ cf_sub y)
                           else true
                       | _, _ => true
                       end
                     else true) set
    end.

  Fixpoint n_fields_sel (s : selection) : nat :=
    match s with
    | SField _ _ _ _ _ _ (Some ss) => Datatypes.S (n_fields_ss ss)
    | SField _ _ _ _ _ _ None => 1
    | SSpread _ _ _ _ => 0
    | SInline _ _ ss _ => n_fields_ss ss
    end
  with n_fields_ss (ss : selset) : nat :=
    match ss with SelSet _ sels _ => list_sum (map n_fields_sel sels) end.
  (** no chain of nested fields is longer than the number of fields of the document, unless
      fragments form a cycle (5.5.2.2) *)
  Definition nesting_bound : nat := Datatypes.S (Datatypes.S (list_sum (map (fun d => n_fields_ss (def_sub d)) D))).


  (** ** every selection / directive list / argument list of the document *)
  Fixpoint sels_sel (s : selection) : list selection :=
    s :: match s with
         | SField _ _ _ _ _ _ (Some ss) => sels_ss ss
         | SField _ _ _ _ _ _ None => []
         | SSpread _ _ _ _ => []
         | SInline _ _ ss _ => sels_ss ss
         end
  with sels_ss (ss : selset) : list selection :=
    match ss with SelSet _ sels _ => flat_map sels_sel sels end.
  Definition all_sels : list selection := flat_map (fun d => sels_ss (def_sub d)) D.

  Definition sel_location (s : selection) : dirloc :=
    match s with
    | SField _ _ _ _ _ _ _ => LField
    | SSpread _ _ _ _ => LFragmentSpread
    | SInline _ _ _ _ => LInlineFragment
    end.
  Definition def_location_spec (d : definition) : option dirloc :=
    match d with
    | DFrag _ _ _ _ _ _ => Some LFragmentDefinition
    | DOp None _ _ _ _ => Some LQuery
    | DOp (Some (k, _)) _ _ _ _ =>
        if name_eqb k s_query_kw then Some LQuery
        else if name_eqb k s_mutation_kw then Some LMutation
        else if name_eqb k s_subscription_kw then Some LSubscription
        else None
    end.
  (** the directives written at one location, with that location *)
  Definition all_directive_lists : list (option dirloc * list directive) :=
    map (fun d => (def_location_spec d, def_dirs d)) D
    ++ map (fun s => (Some (sel_location s), sel_dirs s)) all_sels.
  Definition all_directives : list (option dirloc * directive) :=
    flat_map (fun ld => map (fun d => (fst ld, d)) (snd ld)) all_directive_lists.
  Definition directive_def (d : directive) : option dir_def := assoc (d_name d) (s_directives S).

  (** the argument lists of the document, each with the argument definitions of the field or
      directive it is given to ([None]: that field / directive is not defined) *)
  Definition all_argument_lists : list (list argument * option (list (name * input_def))) :=
    map (fun o => (match fo_field o with SField _ _ _ _ a _ _ => a | _ => [] end,
                   match fo_def o with Some d => Some (f_args d) | None => None end)) all_fields
    ++ map (fun ld => (d_args (snd ld), match directive_def (snd ld) with Some dd => Some (dd_args dd) | None => None end))
           all_directives.


  (** ** 5.4 Arguments *)
  Definition valid_5_4_1 : bool :=
    forallb (fun ad => match snd ad with
                       | Some defs => forallb (fun a => match assoc (a_name a) defs with Some _ => true | None => false end) (fst ad)
                       | None => true
                       end) all_argument_lists.
  Definition valid_5_4_2 : bool :=
    forallb (fun ad => nodupb (map a_name (fst ad))) all_argument_lists.
  Definition required (d : input_def) : bool :=
    is_nonnull (in_type d) && match in_default d with DNone => true | _ => false end.
  Definition valid_5_4_2_1 : bool :=
    forallb (fun ad => match snd ad with
                       | Some defs => forallb (fun nd => if required (snd nd) then mem (fst nd) (map a_name (fst ad)) else true) defs
                       | None => true
                       end) all_argument_lists.

  (** ** 5.5 Fragments *)
  Definition frag_defs : list definition := filter (fun d => match d with DFrag _ _ _ _ _ _ => true | _ => false end) D.
  Definition valid_5_5_1_1 : bool := nodupb (frag_names D).
  Definition type_conditions : list name :=
    flat_map (fun d => match d with DFrag _ _ _ (c, _) _ _ => [c] | _ => [] end) D
    ++ flat_map (fun s => match s with SInline (Some (c, _)) _ _ _ => [c] | _ => [] end) all_sels.
  Definition valid_5_5_1_2 : bool :=
    forallb (fun c => match type_of c with Some _ => true | None => false end) type_conditions.
  Definition valid_5_5_1_3 : bool :=
    forallb (fun c => match type_of c with Some b => is_composite_body b | None => true end) type_conditions.
  Definition spread_names : list name :=
    flat_map (fun s => match s with SSpread n _ _ _ => [n] | _ => [] end) all_sels.
  Definition valid_5_5_1_4 : bool := forallb (fun n => mem n spread_names) (frag_names D).
  Definition valid_5_5_2_1 : bool :=
    forallb (fun n => match fragment n with Some _ => true | None => false end) spread_names.

  (** 5.5.2.2: the names a fragment spreads, directly; reachability by iterating that relation *)
  Definition spreads_of (n : name) : list name :=
    match fragment n with
    | Some d => flat_map (fun s => match s with SSpread m _ _ _ => [m] | _ => [] end) (sels_ss (def_sub d))
    | None => []
    end.
  (** names reachable from [frontier] in at most [fuel] rounds, given those already [seen] *)
  Fixpoint reach (fuel : nat) (frontier seen : list name) : list name :=
    match fuel with
    | O => seen
    | Datatypes.S fuel' =>
        match filter (fun x => negb (mem x seen)) (dedup (flat_map spreads_of frontier)) with
        | [] => seen
        | new => reach fuel' new (new ++ seen)
        end
    end.
  Definition reachable_from (n : name) : list name := reach (Datatypes.S (length spread_names)) [n] [].
  Definition valid_5_5_2_2 : bool := forallb (fun n => negb (mem n (reachable_from n))) (frag_names D).

  (** ** 5.3.2 (stated for documents whose fragments do not form cycles: otherwise the sets of
      fields it speaks about are not finite) *)
  Definition valid_5_3_2 : bool :=
    if valid_5_5_2_2 then
      forallb (fun o => fields_can_merge nesting_bound (collected (so_parent o) (so_set o))) all_sets
    else true.

  (** 5.5.2.3: GetPossibleTypes over the visible schema *)
  Definition possible (n : name) : list name :=
    match parent_body n with
    | Some (TObject _ _) => [n]
    | Some (TInterface _) =>
        flat_map (fun nt => match t_body (snd nt) with
                            | TObject _ ifaces => if mem n ifaces && subset (t_req (snd nt)) F then [fst nt] else []
                            | _ => []
                            end) (s_types S)
    | Some (TUnion members) => members
    | _ => []
    end.
  (** a fragment on [cond] can apply within a selection set on [parent] *)
  Definition applicable (parent cond : name) : bool :=
    match type_of cond with
    | Some b => if is_composite_body b && composite parent
                then existsb (fun x => mem x (possible cond)) (possible parent) else true
    | None => true
    end.
  Definition valid_5_5_2_3 : bool :=
    forallb (fun o => match o with
                      | SpreadOcc (Some parent) target _ =>
                          match fragment target with
                          | Some (DFrag _ _ _ (c, _) _ _) => applicable parent c
                          | _ => true
                          end
                      | InlineOcc (Some parent) c _ => applicable parent c
                      | _ => true
                      end) all_spreads.

  (** ** 5.6 Values *)
  Definition spec_scalar_accepts (k : scalar) (v : value) : bool :=
    match k, v with
    | SInt, VInt _ l _ => int32_lit_ok l
    | SFloat, VInt _ l _ | SFloat, VFloat _ l _ => float_lit_ok l
    | SString, VString _ _ _ => true
    | SBoolean, VBool _ _ _ => true
    | SID, VString _ _ _ => true
    | SID, VInt _ l _ => int64_lit_ok l
    | SCustom None, _ => true
    | SCustom (Some ks), _ => existsb (vkind_eqb (v_kind v)) ks
    | SRefined acc p, _ =>
        match acc with None => true | Some ks => existsb (vkind_eqb (v_kind v)) ks end &&
        match p, v with
        | PIntRange lo hi, VInt _ l _ => match int_lit l with Some z => Z.leb lo z && Z.leb z hi | None => false end
        | PStringIn ok, VString _ s _ => ok s
        | _, _ => true
        end
    | _, _ => false
    end.

  Inductive vfact := FMismatch | FUnknownField | FDupField | FMissingField.
  Definition vfact_eqb (a b : vfact) : bool :=
    match a, b with
    | FMismatch, FMismatch | FUnknownField, FUnknownField | FDupField, FDupField | FMissingField, FMissingField => true
    | _, _ => false
    end.

  (** what is wrong with literal [v] as a value of type [t] ([allow]: a non-list may stand for a
      list of one).  Variables are 5.8.5's business. *)
  Fixpoint value_facts (v : value) : sty -> bool -> list vfact :=
    fix on_type (t : sty) (allow : bool) {struct t} : list vfact :=
      match v with
      | VVar _ _ _ _ => []
      | VNull _ _ => if is_nonnull t then [FMismatch] else []
      | _ =>
          match t with
          | StNonNull t' => on_type t' allow
          | StList t' =>
              match v with
              | VList _ vs _ => flat_map (fun x => value_facts x t' false) vs
              | _ => if allow then on_type t' true else [FMismatch]
              end
          | StNamed n =>
              match parent_body n with
              | Some (TScalar k) => if spec_scalar_accepts k v then [] else [FMismatch]
              | Some (TEnum vals) =>
                  match v with VEnum _ x _ => if mem x vals then [] else [FMismatch] | _ => [FMismatch] end
              | Some (TInput defs) =>
                  match v with
                  | VObject _ fs _ =>
                      flat_map (fun f => match f with
                                         | (fname, _, x) =>
                                             match assoc fname defs with
                                             | Some d => value_facts x (in_type d) true
                                             | None => [FUnknownField]
                                             end
                                         end) fs
                      ++ (if nodupb (map (fun f => fst (fst f)) fs) then [] else [FDupField])
                      ++ (if forallb (fun nd => if required (snd nd) then mem (fst nd) (map (fun f => fst (fst f)) fs) else true) defs
                          then [] else [FMissingField])
                  | _ => [FMismatch]
                  end
              | _ => []          (* not an input type: 5.8.2 *)
              end
          end
      end.

  (** AST type -> schema type, when every name in it is a visible type *)
  Fixpoint declared_type (t : ty) : option sty :=
    match t with
    | TNamed n _ => match type_of n with Some _ => Some (StNamed n) | None => None end
    | TList t' _ => match declared_type t' with Some x => Some (StList x) | None => None end
    | TNonNull t' => match declared_type t' with Some x => Some (StNonNull x) | None => None end
    end.
  Definition input_type (t : sty) : bool :=
    match type_of (unwrapped t) with Some b => is_input_body b | None => false end.

  Definition all_vardefs : list vardef :=
    flat_map (fun d => match d with DOp _ _ vars _ _ => vars | _ => [] end) D.

  (** the literal values of the document that have an expected type *)
  Definition typed_values : list (value * sty) :=
    flat_map (fun ad => match snd ad with
                        | Some defs => flat_map (fun a => match assoc (a_name a) defs with
                                                          | Some d => [(a_value a, in_type d)]
                                                          | None => []
                                                          end) (fst ad)
                        | None => []
                        end) all_argument_lists
    ++ flat_map (fun v => match vd_default v, declared_type (vd_type v) with
                          | Some x, Some t => [(x, t)]
                          | _, _ => []
                          end) all_vardefs.
  Definition no_fact (k : vfact) : bool :=
    forallb (fun vt => negb (existsb (vfact_eqb k) (value_facts (fst vt) (snd vt) true))) typed_values.
  Definition valid_5_6_1 : bool := no_fact FMismatch.
  Definition valid_5_6_2 : bool := no_fact FUnknownField.
  Definition valid_5_6_3 : bool := no_fact FDupField.
  Definition valid_5_6_4 : bool := no_fact FMissingField.

  (** ** 5.7 Directives *)
  Definition valid_5_7_1 : bool :=
    forallb (fun ld => match directive_def (snd ld) with Some _ => true | None => false end) all_directives.
  Definition valid_5_7_2 : bool :=
    forallb (fun ld => match directive_def (snd ld) with
                       | Some dd => match fst ld with
                                    | Some l => existsb (dirloc_eqb l) (dd_locs dd)
                                    | None => false
                                    end
                       | None => true
                       end) all_directives.
  Definition valid_5_7_3 : bool :=
    forallb (fun ld => nodupb (map d_name (snd ld))) all_directive_lists.

  (** ** 5.8 Variables *)
  (** a use of a variable: its name, where, the type expected there (if known) and whether the
      argument / input field it is given to has a default value *)
  Record usage := { u_name : name; u_pos : pos; u_type : option sty; u_default : bool }.

  Definition has_default (d : input_def) : bool := match in_default d with DNone => false | _ => true end.

  Fixpoint usages_value (t : option sty) (dflt : bool) (v : value) : list usage :=
    match v with
    | VVar _ n p _ => [{| u_name := n; u_pos := p; u_type := t; u_default := dflt |}]
    | VList _ vs _ =>
        let item := match t with
                    | Some t' => match nullable t' with StList i => Some i | _ => None end
                    | None => None
                    end in
        flat_map (usages_value item false) vs
    | VObject _ fs _ =>
        let defs := match t with
                    | Some t' => match parent_body (unwrapped t') with Some (TInput ds) => Some ds | _ => None end
                    | None => None
                    end in
        flat_map (fun f => match f with
                           | (fname, _, x) =>
                               match match defs with Some ds => assoc fname ds | None => None end with
                               | Some d => usages_value (Some (in_type d)) (has_default d) x
                               | None => usages_value None false x
                               end
                           end) fs
    | _ => []
    end.

  Definition usages_args (defs : option (list (name * input_def))) (args : list argument) : list usage :=
    flat_map (fun a => match match defs with Some ds => assoc (a_name a) ds | None => None end with
                       | Some d => usages_value (Some (in_type d)) (has_default d) (a_value a)
                       | None => usages_value None false (a_value a)
                       end) args.
  Definition usages_dirs (ds : list directive) : list usage :=
    flat_map (fun d => usages_args (match directive_def d with Some dd => Some (dd_args dd) | None => None end) (d_args d)) ds.

  Fixpoint usages_sel (parent : option name) (s : selection) : list usage :=
    match s with
    | SField _ _ f _ args dirs sub =>
        usages_args (match parent with
                     | Some p => match field_def_of p f with Some d => Some (f_args d) | None => None end
                     | None => None
                     end) args
        ++ usages_dirs dirs
        ++ match sub with Some ss => usages_ss (sub_scope parent s) ss | None => [] end
    | SSpread _ _ dirs _ => usages_dirs dirs
    | SInline _ dirs ss _ => usages_dirs dirs ++ usages_ss (sub_scope parent s) ss
    end
  with usages_ss (parent : option name) (ss : selset) : list usage :=
    match ss with SelSet _ sels _ => flat_map (usages_sel parent) sels end.

  Definition usages_def (d : definition) : list usage :=
    usages_dirs (def_dirs d) ++ usages_ss (def_scope d) (def_sub d).

  (** the fragments an operation includes, transitively *)
  Definition spreads_of_def (d : definition) : list name :=
    flat_map (fun s => match s with SSpread m _ _ _ => [m] | _ => [] end) (sels_ss (def_sub d)).
  Definition op_fragments (d : definition) : list name :=
    let direct := dedup (spreads_of_def d) in
    reach (Datatypes.S (length spread_names)) direct direct.
  Definition op_usages (d : definition) : list usage :=
    usages_def d ++ flat_map (fun n => match fragment n with Some fd => usages_def fd | None => [] end) (op_fragments d).

  Definition valid_5_8_1 : bool :=
    forallb (fun d => match d with DOp _ _ vars _ _ => nodupb (map vd_name vars) | _ => true end) D.
  Definition valid_5_8_2 : bool :=
    forallb (fun v => match declared_type (vd_type v) with Some t => input_type t | None => false end) all_vardefs.
  Definition valid_5_8_3 : bool :=
    forallb (fun d => match d with
                      | DOp _ _ vars _ _ => forallb (fun u => mem (u_name u) (map vd_name vars)) (op_usages d)
                      | _ => true
                      end) D.
  Definition valid_5_8_4 : bool :=
    forallb (fun d => match d with
                      | DOp _ _ vars _ _ => forallb (fun v => mem (vd_name v) (map u_name (op_usages d))) vars
                      | _ => true
                      end) D.

  (** AreTypesCompatible(variableType, locationType) *)
  Fixpoint compatible (v l : sty) {struct v} : bool :=
    match l, v with
    | StNonNull l', StNonNull v' => compatible v' l'
    | StNonNull _, _ => false
    | _, StNonNull v' => compatible v' l
    | StList l', StList v' => compatible v' l'
    | StList _, _ => false
    | _, StList _ => false
    | StNamed a, StNamed b => name_eqb a b
    end.
  (** IsVariableUsageAllowed *)
  Definition usage_allowed (vd : vardef) (vt lt : sty) (loc_default : bool) : bool :=
    match lt with
    | StNonNull lt' =>
        if is_nonnull vt then compatible vt lt
        else
          let var_default := match vd_default vd with Some x => negb (is_null x) | None => false end in
          if var_default || loc_default then compatible vt lt' else false
    | _ => compatible vt lt
    end.
  Fixpoint find_var (n : name) (vars : list vardef) : option vardef :=
    match vars with
    | [] => None
    | v :: r => if name_eqb n (vd_name v) then Some v else find_var n r
    end.
  Definition valid_5_8_5 : bool :=
    forallb (fun d => match d with
                      | DOp _ _ vars _ _ =>
                          forallb (fun u => match find_var (u_name u) vars, u_type u with
                                            | Some vd, Some lt =>
                                                match declared_type (vd_type vd) with
                                                | Some vt => if input_type vt then usage_allowed vd vt lt (u_default u) else true
                                                | None => true
                                                end
                                            | _, _ => true
                                            end) (op_usages d)
                      | _ => true
                      end) D.

  (** ** all rules, in the order of the specification *)
  Definition valid_all : bool :=
    valid_5_1_1 &&
    valid_5_2_1_1 && valid_5_2_2_1 && valid_root && valid_5_2_3_1 &&
    valid_5_3_1 && valid_5_3_2 && valid_5_3_3 &&
    valid_5_4_1 && valid_5_4_2 && valid_5_4_2_1 &&
    valid_5_5_1_1 && valid_5_5_1_2 && valid_5_5_1_3 && valid_5_5_1_4 &&
    valid_5_5_2_1 && valid_5_5_2_2 && valid_5_5_2_3 &&
    valid_5_6_1 && valid_5_6_2 && valid_5_6_3 && valid_5_6_4 &&
    valid_5_7_1 && valid_5_7_2 && valid_5_7_3 &&
    valid_5_8_1 && valid_5_8_2 && valid_5_8_3 && valid_5_8_4 && valid_5_8_5.
End Spec.

Definition Valid (S : schema) (F : features) (D : document) : Prop := valid_all S F D = true.
