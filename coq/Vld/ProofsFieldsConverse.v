(** * Vld/ProofsFieldsConverse.v — the converse of 5.3.1 / 5.3.3: on a document whose operations
    have root types, whose type conditions are visible composite types, and of which 5.3.1 and 5.3.3
    hold in the Spec's formulation, the first visitor of validateFields reports nothing (and every
    selection set has a composite parent type). *)
From Coq Require Import List NArith Arith Bool Lia.
From ApiFu Require Import Base.Sexp Vld.Ast Vld.AstInd Vld.Inspect Vld.InspectProofs Vld.TypeInfoModel Vld.TypeInfoPure Vld.Enumerate
     Vld.SpecEnum Vld.ValidatorModel Vld.ValidSpec Vld.Hyps Vld.ProofsCommon Vld.ProofsFragDecl Vld.ProofsTotal Vld.ProofsFields
     Vld.ValidatorProofs.
Import ListNotations.

Section Converse.
  Variable S : schema.
  Variable F : features.
  Hypothesis no_typename_field : forall top, field_of_scope S F top n_typename = None.
  Hypothesis string_leaf : composite_name S n_String = false.
  Variable qo : bool.

  Definition cond533 (d : field_def) (sub : option selset) : bool :=
    if composite S (result_type d)
    then match sub with Some (SelSet _ (_ :: _) _) => true | _ => false end
    else match sub with None => true | Some _ => false end.

  Lemma field_defined_not_missing tn n def : field_of_scope S F (Some tn) n = Some def -> fe_missing S F (Some tn) n = false.
  Proof.
    unfold field_of_scope, fe_missing. destruct (raw_body S tn) as [[| | | fs ifs | fs |]|]; try discriminate.
    - destruct (get_field F fs n); [reflexivity |]. destruct (name_eqb tn (s_query S)); [| discriminate].
      intros H. rewrite H. reflexivity.
    - destruct (get_field F fs n); [reflexivity | discriminate].
  Qed.

  (** one field occurrence beneath a good scope: defined and with the right kind of selection set,
      it is passed in silence *)
  Lemma occ_silent sc a al n np args dirs sub d :
    good S sc -> fo_def S F {| fo_parent := sc; fo_field := SField a al n np args dirs sub |} = Some d -> cond533 d sub = true ->
    fe_ev1 S F sc (pti_sel qo S F sc (SField a al n np args dirs sub)) = [].
  Proof.
    intros [tn [-> Hc]] Hd H3. rewrite pti_sel_field_eq. cbn [fe_ev1].
    unfold fo_def in Hd. cbn [fo_parent fo_field] in Hd. unfold field_def_of in Hd.
    change s_typename with n_typename in Hd. change (composite S tn) with (composite_name S tn) in Hd. rewrite Hc in Hd.
    unfold cond533 in H3.
    destruct (name_eqb n n_typename) eqn:En.
    - apply name_eqb_eq in En. subst n. inversion Hd; subst d. rewrite no_typename_field. cbn [fe_e1 negb andb app].
      rewrite name_eqb_refl. cbn [negb andb app].
      unfold result_type, typename_def in H3. cbn [f_type unwrapped] in H3.
      change (composite S _) with (composite_name S n_String) in H3. rewrite string_leaf in H3.
      destruct sub; [discriminate | reflexivity].
    - rewrite declared_field_eq in Hd. rewrite Hd. cbn [fe_e1 negb andb app].
      rewrite (field_defined_not_missing tn n d Hd). cbn [negb andb app].
      unfold fe_e3, fe_should. unfold result_type in H3.
      change (composite S (unwrapped (f_type d))) with (is_composite_name S (unwrapped (f_type d))) in H3.
      destruct (is_composite_name S (unwrapped (f_type d))).
      + destruct sub as [[a0 [|s l] p0]|]; try discriminate H3. rewrite pti_ss_eq. reflexivity.
      + destruct sub; [discriminate H3 | reflexivity].
  Qed.

  (** what the Spec's sections say of the occurrences below a scope *)
  Definition occ_valid (o : scope * selection) : Prop :=
    match snd o with
    | SField a al n np args dirs sub =>
        good S (fst o) -> exists d, fo_def S F {| fo_parent := fst o; fo_field := snd o |} = Some d /\ cond533 d sub = true
    | SInline (Some (c, _)) _ _ _ => exists b, named_type S F c = Some b /\ is_composite_body b = true
    | _ => True
    end.

  Lemma valid_scopes_silent :
    (forall s top, good S top -> (forall o, In o (ssels_sel S F top s) -> occ_valid o) ->
                   forall o, In o (ssels_sel S F top s) -> good S (fst o) /\ fe_ev1 S F (fst o) (pti_sel qo S F (fst o) (snd o)) = []) /\
    (forall ss top, good S top -> (forall o, In o (ssels_ss S F top ss) -> occ_valid o) ->
                    forall o, In o (ssels_ss S F top ss) -> good S (fst o) /\ fe_ev1 S F (fst o) (pti_sel qo S F (fst o) (snd o)) = []).
  Proof.
    apply sel_ss_ind.
    - intros a al n np args dirs sub IH top Hg Hf o Ho.
      assert (ssels_sel S F top (SField a al n np args dirs sub) =
              (top, SField a al n np args dirs sub) :: match sub with Some ss => ssels_ss S F (field_scope S F top n) ss | None => [] end) as E
          by (destruct sub; reflexivity).
      rewrite E in *.
      assert (fe_ev1 S F top (pti_sel qo S F top (SField a al n np args dirs sub)) = []) as Hsil.
      { destruct (Hf (top, SField a al n np args dirs sub) (or_introl eq_refl) Hg) as [d [Hd H3]]. cbn [fst snd] in Hd.
        apply (occ_silent top a al n np args dirs sub d Hg Hd H3). }
      destruct Ho as [<- | Ho]; [split; [exact Hg | exact Hsil] |]. destruct sub as [ss|]; [| destruct Ho].
      apply (IH ss eq_refl (field_scope S F top n)); [| intros o' Ho'; apply Hf; right; exact Ho' | exact Ho].
      apply (field_opens_good S F no_typename_field qo top a al n np args dirs ss Hg Hsil).
    - intros n np dirs e top Hg Hf o [<- | []]. split; [exact Hg | reflexivity].
    - intros cond dirs sub e IH top Hg Hf o Ho.
      change (ssels_sel S F top (SInline cond dirs sub e)) with ((top, SInline cond dirs sub e) :: ssels_ss S F (inline_scope S F top cond) sub) in *.
      destruct Ho as [<- | Ho]; [split; [exact Hg | reflexivity] |].
      apply (IH (inline_scope S F top cond)); [| intros o' Ho'; apply Hf; right; exact Ho' | exact Ho].
      destruct cond as [[c cp]|]; [| exact Hg].
      destruct (Hf (top, SInline (Some (c, cp)) dirs sub e) (or_introl eq_refl)) as [b [Hb Hc]]. simpl.
      rewrite Hb. exists c. split; [reflexivity |]. unfold composite_name. rewrite (named_type_raw S F c b Hb). exact Hc.
    - intros a sels p IH top Hg Hf o Ho. rewrite ssels_ss_eq in *. apply in_flat_map in Ho as [s [Hs Ho]].
      rewrite Forall_forall in IH. apply (IH s Hs top Hg); [| exact Ho].
      intros o' Ho'. apply Hf. apply in_flat_map. exists s. split; assumption.
  Qed.
End Converse.

(** ** the first visitor of validateFields is silent on a document of which the sections hold *)
Theorem fields_valid_silent S F D :
  schema_ok S = true ->
  valid_root S D = true -> valid_5_5_1 S F D = true -> valid_5_3_1 S F D = true -> valid_5_3_3 S F D = true ->
  (forall d o, In d D -> In o (ssels_ss S F (model_def_scope S F d) (def_sub d)) -> good S (fst o)) /\
  r_errs (inspect (fields_enter S F) pop (tree_doc (pti_doc (q_unwrap_obj repaired) S F D)) rst0) = [].
Proof.
  intros Hs Hroot H551 H531 H533.
  unfold schema_ok in Hs. apply andb_true_iff in Hs as [Hs Hs3]. apply andb_true_iff in Hs as [Hs1 Hs2].
  pose proof (schema_no_typename_spec S F Hs1) as Hnt.
  assert (composite_name S n_String = false) as Hstr.
  { unfold schema_roots_ok in Hs3. rewrite !andb_true_iff in Hs3. destruct Hs3 as [_ H]. apply negb_true_iff in H. exact H. }
  assert (forall c, In c (type_conditions D) -> exists b, named_type S F c = Some b /\ is_composite_body b = true) as Hcond.
  { unfold valid_5_5_1 in H551. rewrite !andb_true_iff in H551. destruct H551 as [[[_ H2] H3] _].
    unfold valid_5_5_1_2, valid_5_5_1_3 in *. rewrite forallb_forall in H2, H3. intros c Hc.
    specialize (H2 c Hc). specialize (H3 c Hc). unfold type_of in *. destruct (named_type S F c) as [b|]; [exists b; auto | discriminate]. }
  assert (forall d, In d D -> good S (model_def_scope S F d)) as Hroots.
  { intros d Hd. destruct d as [ot n vars dirs sub | kw n np [c cp] dirs sub].
    - unfold valid_root in Hroot. rewrite forallb_forall in Hroot. specialize (Hroot _ Hd). simpl in Hroot.
      change (model_def_scope S F (DOp ot n vars dirs sub)) with (TypeInfoPure.op_scope S ot).
      pose proof (spec_def_scope_eq S F (DOp ot n vars dirs sub)) as E. simpl in E. rewrite <- E.
      destruct (root_type S ot) as [tn|] eqn:Er; [| discriminate]. exists tn. split; [reflexivity | apply (roots_composite S ot tn Hs3 Er)].
    - simpl. unfold TypeInfoPure.frag_scope. simpl.
      destruct (Hcond c) as [b [Hb Hc]].
      { rewrite type_conditions_split. apply in_or_app. left. unfold frag_conds. apply in_flat_map. exists (DFrag kw n np (c, cp) dirs sub). split; [exact Hd | left; reflexivity]. }
      rewrite Hb. exists c. split; [reflexivity |]. unfold composite_name. rewrite (named_type_raw S F c b Hb). exact Hc. }
  assert (forall d o, In d D -> In o (ssels_ss S F (model_def_scope S F d) (def_sub d)) -> occ_valid S F o) as Hval.
  { intros d [sc s0] Hd Ho. unfold occ_valid. cbn [fst snd].
    destruct s0 as [a al n np args dirs sub | | [[c cp]|] dirs sub e]; try exact I.
    - intros [tn [-> Hc]].
      assert (In {| fo_parent := Some tn; fo_field := SField a al n np args dirs sub |} (all_fields S F D)) as Hof.
      { apply all_fields_enum. exists d, (Some tn), (SField a al n np args dirs sub). repeat split; assumption. }
      unfold valid_5_3_1 in H531. rewrite forallb_forall in H531. specialize (H531 _ Hof). cbn [fo_parent] in H531.
      change (composite S tn) with (composite_name S tn) in H531. rewrite Hc in H531.
      destruct (fo_def S F {| fo_parent := Some tn; fo_field := SField a al n np args dirs sub |}) as [dd|] eqn:Ed; [| discriminate].
      exists dd. split; [reflexivity |]. unfold valid_5_3_3 in H533. rewrite forallb_forall in H533. specialize (H533 _ Hof).
      rewrite Ed in H533. cbn [fo_field] in H533. exact H533.
    - apply Hcond. rewrite type_conditions_split. apply in_or_app. right.
      apply in_flat_map. exists (SInline (Some (c, cp)) dirs sub e). split; [| left; reflexivity].
      apply (in_all_sels S F D). exists d, sc. auto. }
  assert (forall d o, In d D -> In o (ssels_ss S F (model_def_scope S F d) (def_sub d)) ->
                      good S (fst o) /\ fe_ev1 S F (fst o) (pti_sel (q_unwrap_obj repaired) S F (fst o) (snd o)) = []) as Hall.
  { intros d o Hd Ho. apply (proj2 (valid_scopes_silent S F Hnt Hstr (q_unwrap_obj repaired)) (def_sub d) (model_def_scope S F d) (Hroots d Hd)); [| exact Ho].
    intros o' Ho'. apply (Hval d o' Hd Ho'). }
  split; [intros d o Hd Ho; apply (Hall d o Hd Ho) |].
  rewrite fields_pass_errors. apply flat_map_nil_iff. intros d Hd. apply flat_map_nil_iff. intros o Ho. apply (Hall d o Hd Ho).
Qed.
