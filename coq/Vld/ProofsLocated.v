(** * Vld/ProofsLocated.v — validate_error_located, rule group by rule group: every error a rule group
    reports carries at least one location, and every location is the position of a node of the
    document the rule group ran on ([all_node_positions]: the nodes ast.Inspect visits and the type
    conditions of fragment definitions). *)
From Coq Require Import List NArith Arith Bool Lia.
From ApiFu Require Import Base.Sexp Vld.Ast Vld.AstInd Vld.Inspect Vld.InspectProofs Vld.TypeInfoModel Vld.ValidatorModel Vld.ValidatorCheck
     Vld.ProofsCommon Vld.ProofsCycles Vld.ProofsTotal Vld.ProofsValues Vld.ProofsDepth Vld.ProofsMergeSound Vld.ProofsMergeLocal Vld.ProofsLocatedBase.
Import ListNotations.

Lemma inspect_inv_leave {St} (P : St -> Prop) (enter : St -> node -> St * bool) (leave : St -> St) t :
  (forall n, In n (tree_nodes t) -> forall st, P st -> P (fst (enter st n))) -> (forall st, P st -> P (leave st)) ->
  forall st, P st -> P (inspect enter leave t st).
Proof.
  intros H Hl. revert H. induction t as [n cs IH] using tree_ind'. intros H st Hst. cbn [inspect].
  pose proof (H n (or_introl eq_refl) st Hst) as Hn. destruct (enter st n) as [s1 b]. simpl in Hn. destruct b; [| exact Hn]. apply Hl.
  assert (forall c, In c cs -> forall m, In m (tree_nodes c) -> forall st0, P st0 -> P (fst (enter st0 m))) as Hcs.
  { intros c Hc m Hm. apply H. right. apply in_flat_map. exists c. split; assumption. }
  clear H. revert s1 Hn. induction IH as [|c cs' Hc _ IHcs]; intros s1 Hs1; [exact Hs1 |]. simpl.
  apply IHcs.
  - intros c' Hc' m Hm. apply (Hcs c'); [right; exact Hc' | exact Hm].
  - apply Hc; [| exact Hs1]. intros m Hm. apply (Hcs c); [left; reflexivity | exact Hm].
Qed.

Section Located.
  Variable A : document.
  Notation nodes := (tree_nodes (tree_doc A)).

  Definition on_node (p : pos) : Prop := In p (all_node_positions A).
  Definition located (e : verror) : Prop := e_locs e <> [] /\ forall p, In p (e_locs e) -> on_node p.
  Definition AllLoc (l : list verror) : Prop := forall e, In e l -> located e.

  Lemma allloc_nil : AllLoc [].
  Proof. intros e []. Qed.
  Lemma allloc_app a b : AllLoc a -> AllLoc b -> AllLoc (a ++ b).
  Proof. intros Ha Hb e He. apply in_app_or in He as [He | He]; auto. Qed.
  Lemma allloc_cons e l : located e -> AllLoc l -> AllLoc (e :: l).
  Proof. intros He Hl x [<- | Hx]; auto. Qed.
  Lemma allloc_one e : located e -> AllLoc [e].
  Proof. intros He. apply allloc_cons; [exact He | apply allloc_nil]. Qed.
  Lemma allloc_flat_map {X} (f : X -> list verror) l : (forall x, In x l -> AllLoc (f x)) -> AllLoc (flat_map f l).
  Proof. intros H e He. apply in_flat_map in He as [x [Hx He]]. apply (H x Hx e He). Qed.
  Lemma loc_err k p : on_node p -> located (err k p).
  Proof. intros H. split; [discriminate | intros q [<- | []]; exact H]. Qed.
  Lemma loc_sec k p : on_node p -> located (sec k p).
  Proof. intros H. split; [discriminate | intros q [<- | []]; exact H]. Qed.
  Lemma loc_err2 k p q : on_node p -> on_node q -> located (err2 k p q).
  Proof. intros H1 H2. split; [discriminate | intros x [<- | [<- | []]]; assumption]. Qed.

  Lemma on_self n : In n nodes -> on_node (node_pos n).
  Proof. intros H. unfold on_node, all_node_positions. apply in_or_app. left. apply in_map. exact H. Qed.
  Lemma on_part n m : In n nodes -> In m (tree_nodes (tree_of n)) -> on_node (node_pos m).
  Proof. intros Hn Hm. apply on_self. apply (node_closure A n Hn m Hm). Qed.
  Lemma on_cond kw n np c dirs sub : In (DFrag kw n np c dirs sub) A -> on_node (snd c).
  Proof.
    intros H. unfold on_node, all_node_positions. apply in_or_app. right. apply in_flat_map. exists (DFrag kw n np c dirs sub). split; [exact H | left; reflexivity].
  Qed.
  Lemma def_node d : In d A -> In (NDef d) nodes.
  Proof. intros H. unfold tree_doc. cbn [tree_nodes]. right. apply in_flat_map. exists (tree_def d). split; [apply in_map; exact H | destruct d; left; reflexivity]. Qed.

  (** parts of a field selection *)
  Lemma field_name_part a al n np args dirs sub : In (NName n np) (tree_nodes (tree_of (NSel (SField a al n np args dirs sub)))).
  Proof. cbn [tree_of tree_sel tree_nodes]. right. rewrite !flat_map_app. apply in_or_app. right. apply in_or_app. left. left. reflexivity. Qed.
  Lemma field_arg_part a al n np args dirs sub x : In x args -> In (NArgument x) (tree_nodes (tree_of (NSel (SField a al n np args dirs sub)))).
  Proof.
    intros H. cbn [tree_of tree_sel tree_nodes]. right. rewrite !flat_map_app. apply in_or_app. right. apply in_or_app. right. apply in_or_app. left.
    apply in_flat_map. exists (tree_arg x). split; [apply in_map; exact H | left; reflexivity].
  Qed.
  Lemma arg_value_part x : In (NValue (a_value x)) (tree_nodes (tree_of (NArgument x))).
  Proof. cbn [tree_of tree_arg tree_nodes flat_map]. right. right. destruct (a_value x); left; reflexivity. Qed.
  Lemma dir_arg_part d x : In x (d_args d) -> In (NArgument x) (tree_nodes (tree_of (NDirective d))).
  Proof.
    intros H. cbn [tree_of tree_dir tree_nodes flat_map]. right. right. apply in_flat_map. exists (tree_arg x). split; [apply in_map; exact H | left; reflexivity].
  Qed.
  Lemma value_self_pos v : node_pos (NValue v) = v_pos v.
  Proof. reflexivity. Qed.

  (** ** validateFields, first visitor *)
  Section Rules.
    Variable pi : order.
    Variable S : schema.
    Variable F : features.

    Lemma fields_enter_located n st : In n nodes -> AllLoc (r_errs st) -> AllLoc (r_errs (fst (fields_enter S F st n))).
    Proof.
      intros Hn Hst. destruct n as [| | | | | | | ss | s | |  |]; try exact Hst.
      destruct s as [a al fname np args dirs sub | |]; try exact Hst.
      pose proof (on_self _ Hn) as Hself. pose proof (on_part _ _ Hn (field_name_part a al fname np args dirs sub)) as Hname. cbn [node_pos] in Hself, Hname.
      unfold fields_enter.
      set (st1 := match a with None => if negb (name_eqb fname n_typename) then add_errs st [sec ENoFieldInfo (sel_pos (SField a al fname np args dirs sub))] else st | Some _ => st end).
      assert (AllLoc (r_errs st1)) as H1.
      { unfold st1. destruct a; [exact Hst |]. destruct (negb (name_eqb fname n_typename)); [| exact Hst]. cbn [r_errs add_errs]. apply allloc_app; [exact Hst | apply allloc_one, loc_sec, Hself]. }
      assert (forall b : bool, AllLoc (r_errs (fst (add_errs st1 [err EFieldMissing np], b)))) as Hm.
      { intros b. cbn [fst r_errs add_errs]. apply allloc_app; [exact H1 | apply allloc_one, loc_err, Hname]. }
      match goal with |- AllLoc (r_errs (fst (let '(st2, exists_) := ?X in _))) => assert (AllLoc (r_errs (fst X))) as H2; [| destruct X as [st2 ex] ] end.
      { destruct (negb (name_eqb fname n_typename)); [| exact H1]. destruct (r_stack st1) as [|[tn|] r]; try exact H1.
        destruct (raw_body S tn) as [[| | | fs ifs | fs | ms]|]; try exact H1; try apply Hm.
        - match goal with |- context [if ?c then _ else _] => destruct c end; [apply Hm | exact H1].
        - destruct (get_field F fs fname); [exact H1 | apply Hm]. }
      cbn [fst] in H2. cbn [fst push r_errs].
      assert (forall k, AllLoc (r_errs (add_errs st2 [err k (sel_pos (SField a al fname np args dirs sub))]))) as Hk.
      { intros k. cbn [r_errs add_errs]. apply allloc_app; [exact H2 | apply allloc_one, loc_err, Hself]. }
      destruct ex; [| exact H2].
      match goal with |- context [if ?c then _ else _] => destruct c end.
      - destruct sub as [[a0 [|x r] p0]|]; try apply Hk; exact H2.
      - destruct sub; [apply Hk | exact H2].
    Qed.

    Theorem fields_pass_located : AllLoc (r_errs (inspect (fields_enter S F) pop (tree_doc A) rst0)).
    Proof.
      apply (inspect_inv_leave (fun st => AllLoc (r_errs st))); [intros n Hn st Hst; apply (fields_enter_located n st Hn Hst) | intros st Hst; exact Hst | apply allloc_nil].
    Qed.

    (** ** children of a node *)
    Definition root (t : tree) : node := match t with T n _ => n end.
    Lemma kid n cs c : In c cs -> In (root c) (tree_nodes (T n cs)).
    Proof. intros H. cbn [tree_nodes]. right. apply in_flat_map. exists c. split; [exact H | destruct c; left; reflexivity]. Qed.
    Ltac kids := solve [ assumption | left; reflexivity | apply in_map; assumption | apply in_or_app; left; kids | apply in_or_app; right; kids | right; kids ].

    Lemma sel_dir_part s d : In d (match s with SField _ _ _ _ _ ds _ => ds | SSpread _ _ ds _ => ds | SInline _ ds _ _ => ds end) ->
                             In (NDirective d) (tree_nodes (tree_of (NSel s))).
    Proof.
      intros H. change (NDirective d) with (root (tree_dir d)). destruct s as [a al n np args dirs sub | n np dirs e | c dirs sub e]; cbn [tree_of tree_sel]; apply kid; kids.
    Qed.
    Lemma def_dir_part x d : In d (def_dirs x) -> In (NDirective d) (tree_nodes (tree_of (NDef x))).
    Proof.
      intros H. change (NDirective d) with (root (tree_dir d)). destruct x as [ot n vars dirs sub | kw n np c dirs sub]; cbn [def_dirs] in H; cbn [tree_of tree_def]; apply kid; kids.
    Qed.
    Lemma inline_cond_part tc dirs sub e : In (NType (TNamed (fst tc) (snd tc))) (tree_nodes (tree_of (NSel (SInline (Some tc) dirs sub e)))).
    Proof. change (NType (TNamed (fst tc) (snd tc))) with (root (tree_named_type tc)). cbn [tree_of tree_sel opt_tree]. apply kid. kids. Qed.
    Lemma spread_name_part n np dirs e : In (NName n np) (tree_nodes (tree_of (NSel (SSpread n np dirs e)))).
    Proof. change (NName n np) with (root (name_tree (n, np))). cbn [tree_of tree_sel]. apply kid. kids. Qed.
    Lemma frag_name_part kw n np c dirs sub : In (NName n np) (tree_nodes (tree_of (NDef (DFrag kw n np c dirs sub)))).
    Proof. change (NName n np) with (root (name_tree (n, np))). cbn [tree_of tree_def]. apply kid. kids. Qed.

    (** ** validateDirectives *)
    Variable q : quirks.
    Lemma dirs_loop_located loc dirs : (forall d, In d dirs -> on_node (d_at d)) -> forall seen, AllLoc (dirs_loop S loc dirs seen).
    Proof.
      induction dirs as [|d r IH]; intros H seen; [apply allloc_nil |]. cbn [dirs_loop].
      assert (on_node (d_at d)) as Hd by (apply H; left; reflexivity). assert (forall x, In x r -> on_node (d_at x)) as Hr by (intros x Hx; apply H; right; exact Hx).
      assert (AllLoc (match assoc (d_name d) (s_directives S) with
                      | None => [err EDirUndefined (d_at d)]
                      | Some dd => if match loc with Some l => existsb (dirloc_eqb l) (dd_locs dd) | None => false end then [] else [err EDirLocation (d_at d)]
                      end)) as H1.
      { destruct (assoc (d_name d) (s_directives S)) as [dd|]; [| apply allloc_one, loc_err, Hd].
        match goal with |- context [if ?c then _ else _] => destruct c end; [apply allloc_nil | apply allloc_one, loc_err, Hd]. }
      destruct (mem (d_name d) seen); apply allloc_app; try exact H1; [apply allloc_cons; [apply loc_err, Hd | apply (IH Hr)] | apply (IH Hr)].
    Qed.

    Lemma directives_enter_located n st : In n nodes -> AllLoc st -> AllLoc (fst (directives_enter q S st n)).
    Proof.
      intros Hn Hst.
      assert (forall dirs loc, (forall d, In d dirs -> In (NDirective d) (tree_nodes (tree_of n))) ->
                               AllLoc (fst (match dirs with [] => (st, true) | _ => (st ++ dirs_loop S loc dirs [], q_descend q) end))) as Hgo.
      { intros dirs loc Hd. destruct dirs as [|d0 r]; [exact Hst |]. cbn [fst]. apply allloc_app; [exact Hst |]. apply dirs_loop_located.
        intros d Hin. apply (on_part n (NDirective d) Hn (Hd d Hin)). }
      unfold directives_enter. destruct n as [| d | | | | | d | | s | | |]; try exact Hst.
      - apply Hgo. intros x Hx. apply (def_dir_part d x Hx).
      - destruct (q_descend q); [exact Hst |]. cbn [fst]. apply allloc_app; [exact Hst | apply allloc_one, loc_err, (on_self _ Hn)].
      - destruct s as [a al fn np args dirs sub | fn np dirs e | c dirs sub e]; apply Hgo; intros x Hx;
          [apply (sel_dir_part (SField a al fn np args dirs sub) x Hx) | apply (sel_dir_part (SSpread fn np dirs e) x Hx) | apply (sel_dir_part (SInline c dirs sub e) x Hx)].
    Qed.

    Theorem directives_located errs : rule_directives q S A = Done errs -> AllLoc errs.
    Proof.
      assert (AllLoc (inspect (directives_enter q S) (fun s => s) (tree_doc A) [])) as Hall
          by (apply (inspect_inv_leave AllLoc); [intros n Hn st Hst; apply (directives_enter_located n st Hn Hst) | intros st Hst; exact Hst | apply allloc_nil]).
      unfold rule_directives. intros H. injection H as <-. exact Hall.
    Qed.

    (** ** validateArguments *)
    Hypothesis Hpi : order_ok pi.

    Lemma args_given_located defs args : (forall a, In a args -> on_node (a_pos a)) -> forall bn, AllLoc (fst (args_given defs args bn)).
    Proof.
      induction args as [|a r IH]; intros H bn; [apply allloc_nil |]. cbn [args_given].
      assert (on_node (a_pos a)) as Ha by (apply H; left; reflexivity). assert (forall x, In x r -> on_node (a_pos x)) as Hr by (intros x Hx; apply H; right; exact Hx).
      destruct (assoc (a_name a) defs).
      - destruct (assoc (a_name a) bn).
        + specialize (IH Hr bn). destruct (args_given defs r bn) as [e b]. cbn [fst] in *. apply allloc_cons; [apply loc_err, Ha | exact IH].
        + apply (IH Hr).
      - specialize (IH Hr bn). destruct (args_given defs r bn) as [e b]. cbn [fst] in *. apply allloc_cons; [apply loc_err, Ha | exact IH].
    Qed.
    Lemma args_given_byname defs args : forall bn k a, In (k, a) (snd (args_given defs args bn)) -> In (k, a) bn \/ In a args.
    Proof.
      induction args as [|x r IH]; intros bn k a H; [left; exact H |]. cbn [args_given] in H.
      destruct (assoc (a_name x) defs).
      - destruct (assoc (a_name x) bn).
        + specialize (IH bn k a). destruct (args_given defs r bn) as [e b]. cbn [snd] in *. destruct (IH H) as [H0 | H0]; [left; exact H0 | right; right; exact H0].
        + destruct (IH _ k a H) as [H0 | H0]; [| right; right; exact H0]. apply in_app_or in H0 as [H0 | [H0 | []]]; [left; exact H0 | right; left; inversion H0; reflexivity].
      - specialize (IH bn k a). destruct (args_given defs r bn) as [e b]. cbn [snd] in *. destruct (IH H) as [H0 | H0]; [left; exact H0 | right; right; exact H0].
    Qed.

    Lemma args_node_located st args defs npos :
      AllLoc st -> on_node npos -> (forall a, In a args -> In (NArgument a) nodes) -> AllLoc (fst (args_node q pi st args defs npos)).
    Proof.
      intros Hst Hnp Hargs. unfold args_node.
      assert (AllLoc (fst (let '(e1, by_name) := args_given defs args [] in (st ++ e1 ++ args_required pi defs by_name npos, q_descend q)))) as Hmain.
      { pose proof (args_given_located defs args (fun a Ha => on_self _ (Hargs a Ha)) []) as H1. pose proof (args_given_byname defs args []) as H2.
        destruct (args_given defs args []) as [e1 bn]. cbn [fst snd] in *. apply allloc_app; [exact Hst |]. apply allloc_app; [exact H1 |].
        unfold args_required. apply allloc_flat_map. intros nd _. destruct (required_arg (snd nd)); [| apply allloc_nil].
        destruct (assoc (fst nd) bn) as [a|] eqn:Ea; [| apply allloc_one, loc_err, Hnp].
        destruct (is_null (a_value a)); [| apply allloc_nil]. apply allloc_one, loc_sec.
        apply assoc_in in Ea. destruct (H2 _ _ Ea) as [[] | Hin]. apply (on_part (NArgument a) (NValue (a_value a)) (Hargs a Hin) (arg_value_part a)). }
      destruct args; [destruct defs; [exact Hst | exact Hmain] | exact Hmain].
    Qed.

    Lemma arguments_enter_located n st : In n nodes -> AllLoc st -> AllLoc (fst (arguments_enter q pi S st n)).
    Proof.
      intros Hn Hst. pose proof (on_self _ Hn) as Hself. unfold arguments_enter. destruct n as [| | | | | | d | | s | a | |]; try exact Hst.
      - destruct (assoc (d_name d) (s_directives S)) as [dd|].
        + apply args_node_located; [exact Hst | exact Hself |]. intros a Ha. apply (node_closure A _ Hn). apply (dir_arg_part d a Ha).
        + cbn [fst]. apply allloc_app; [exact Hst | apply allloc_one, loc_sec, Hself].
      - destruct s as [fa al fn np args dirs sub | |]; try exact Hst.
        assert (forall a, In a args -> In (NArgument a) nodes) as Hargs by (intros a Ha; apply (node_closure A _ Hn); apply (field_arg_part fa al fn np args dirs sub a Ha)).
        destruct fa as [def|]; [apply args_node_located; assumption |].
        destruct (negb (name_eqb fn n_typename)); [cbn [fst]; apply allloc_app; [exact Hst | apply allloc_one, loc_sec, Hself] | apply args_node_located; assumption].
      - destruct (q_descend q); [exact Hst |]. cbn [fst]. apply allloc_app; [exact Hst | apply allloc_one, loc_err, Hself].
    Qed.

    Theorem arguments_located errs : rule_arguments q pi S A = Done errs -> AllLoc errs.
    Proof.
      assert (AllLoc (inspect (arguments_enter q pi S) (fun s => s) (tree_doc A) [])) as Hall
          by (apply (inspect_inv_leave AllLoc); [intros n Hn st Hst; apply (arguments_enter_located n st Hn Hst) | intros st Hst; exact Hst | apply allloc_nil]).
      unfold rule_arguments. intros H. injection H as <-. exact Hall.
    Qed.

    (** ** validateFragmentSpreads *)
    Lemma validate_spread_located st tc parent : AllLoc (r_errs st) -> on_node (snd tc) -> AllLoc (r_errs (validate_spread q pi S F st tc parent)).
    Proof.
      intros Hst Htc. assert (forall e, located e -> AllLoc (r_errs (add_errs st [e]))) as Hadd by (intros e He; cbn [r_errs add_errs]; apply allloc_app; [exact Hst | apply allloc_one, He]).
      unfold validate_spread. destruct parent as [pn|]; [| apply Hadd, loc_sec, Htc].
      match goal with |- context [if ?c then _ else _] => destruct c end; [apply Hadd, loc_sec, Htc |].
      destruct (named_type S F (fst tc)) as [b|]; [| exact Hst]. destruct (is_composite_body b); [| exact Hst].
      destruct (possible_types q S F (fst tc)) as [x|]; [| exact Hst]. destruct (possible_types q S F pn) as [y|]; [| exact Hst].
      match goal with |- context [if ?c then _ else _] => destruct c end; [exact Hst | apply Hadd, loc_err, Htc].
    Qed.

    Lemma spreads_enter_located n st : In n nodes -> AllLoc (r_errs st) -> AllLoc (r_errs (fst (spreads_enter q pi S F A st n))).
    Proof.
      intros Hn Hst. unfold spreads_enter. destruct n as [| | | | | | | ss | s | | |]; try exact Hst.
      destruct s as [| fname np dirs e | [tc|] dirs sub e]; try exact Hst.
      - destruct (frag_last A fname) as [[| kw n0 np0 cond dirs0 sub0]|] eqn:El; try exact Hst.
        + destruct (r_stack st) as [|top r]; [exact Hst |]. cbn [fst push r_errs]. apply validate_spread_located; [exact Hst |].
          apply (on_cond kw n0 np0 cond dirs0 sub0). apply (frag_last_in A fname _ El).
        + cbn [fst push r_errs add_errs]. apply allloc_app; [exact Hst |]. apply allloc_one, loc_err. apply (on_part _ _ Hn (spread_name_part fname np dirs e)).
      - destruct (r_stack st) as [|top r]; [exact Hst |]. cbn [fst push r_errs]. apply validate_spread_located; [exact Hst |].
        apply (on_part _ _ Hn (inline_cond_part tc dirs sub e)).
    Qed.

    Theorem spreads_located errs : rule_fragment_spreads q pi S F A = Done errs -> AllLoc errs.
    Proof.
      unfold rule_fragment_spreads. intros H.
      match type of H with finish ?st = _ => assert (AllLoc (r_errs st)) as Hall; [| unfold finish in H; destruct (r_abort st) as [[x|]|]; try discriminate H; inversion H; subst errs; exact Hall] end.
      apply (inspect_inv_leave (fun st => AllLoc (r_errs st))); [intros n Hn st Hst; apply (spreads_enter_located n st Hn Hst) | intros st Hst; exact Hst |].
      generalize (pi name (dedup (frag_names A))). intros l. assert (AllLoc (r_errs rst0)) as H0 by apply allloc_nil. revert H0. generalize rst0.
      induction l as [|x r IH]; intros st Hst; [exact Hst |]. cbn [fold_left]. apply IH.
      destruct (cycle_search pi A (graph_fuel A) x [x] []) as [[|]|]; try exact Hst.
      destruct (frag_last A x) as [d|] eqn:El; [| exact Hst]. cbn [r_errs add_errs]. apply allloc_app; [exact Hst |]. apply allloc_one, loc_err.
      apply (on_self (NDef d)). apply def_node. apply (frag_last_in A x d El).
    Qed.

    (** ** validateFragmentDeclarations *)
    Lemma type_condition_located tc : on_node (snd tc) -> AllLoc (type_condition S F tc).
    Proof. intros H. unfold type_condition. destruct (named_type S F (fst tc)) as [b|]; [destruct (is_composite_body b); [apply allloc_nil |] |]; apply allloc_one, loc_err, H. Qed.

    Lemma frag_decls_located defs : (forall d, In d defs -> In d A) -> forall bn, (forall k d, In (k, d) bn -> In d A) ->
      AllLoc (fst (frag_decls S F defs bn)) /\ forall k d, In (k, d) (snd (frag_decls S F defs bn)) -> In d A.
    Proof.
      induction defs as [|x r IH]; intros Hd bn Hbn; [split; [apply allloc_nil | exact Hbn] |].
      assert (forall d, In d r -> In d A) as Hr by (intros d Hin; apply Hd; right; exact Hin).
      assert (In x A) as Hx by (apply Hd; left; reflexivity).
      destruct x as [ot n vars dirs sub | kw n np cond dirs sub]; cbn [frag_decls]; [apply (IH Hr bn Hbn) |].
      pose proof (type_condition_located cond (on_cond kw n np cond dirs sub Hx)) as Htc.
      destruct (assoc n bn).
      - destruct (IH Hr bn Hbn) as [I1 I2]. destruct (frag_decls S F r bn) as [e b]. cbn [fst snd] in *. split; [| exact I2].
        apply allloc_cons; [| apply allloc_app; assumption]. apply loc_err. apply (on_part _ _ (def_node _ Hx) (frag_name_part kw n np cond dirs sub)).
      - assert (forall k d, In (k, d) (bn ++ [(n, DFrag kw n np cond dirs sub)]) -> In d A) as Hbn'.
        { intros k d Hin. apply in_app_or in Hin as [Hin | [Hin | []]]; [apply (Hbn k d Hin) | inversion Hin; subst; exact Hx]. }
        destruct (IH Hr _ Hbn') as [I1 I2]. destruct (frag_decls S F r (bn ++ [(n, DFrag kw n np cond dirs sub)])) as [e b]. cbn [fst snd] in *.
        split; [apply allloc_app; assumption | exact I2].
    Qed.

    Theorem declarations_located : AllLoc (rule_fragment_declarations pi S F A).
    Proof.
      unfold rule_fragment_declarations. destruct (frag_decls_located A (fun d H => H) [] (fun k d H => match H with end)) as [H1 H2].
      destruct (frag_decls S F A []) as [e1 bn]. cbn [fst snd] in *.
      assert (AllLoc (fst (inspect (decl_enter S F) (fun s => s) (tree_doc A) (e1, [])))) as H3.
      { apply (inspect_inv_leave (fun st : list verror * list name => AllLoc (fst st))); [| intros st Hst; exact Hst | exact H1].
        intros n Hn st Hst. unfold decl_enter. destruct n as [| | | | | | | | s | | |]; try exact Hst. destruct s as [| | [tc|] dirs sub e]; try exact Hst.
        cbn [fst]. apply allloc_app; [exact Hst |]. apply type_condition_located. apply (on_part _ _ Hn (inline_cond_part tc dirs sub e)). }
      destruct (inspect (decl_enter S F) (fun s => s) (tree_doc A) (e1, [])) as [e2 used]. cbn [fst] in H3. apply allloc_app; [exact H3 |].
      apply allloc_flat_map. intros [k d] Hin. apply (proj1 (order_in pi Hpi _ _)) in Hin. cbn [fst snd]. destruct (mem k used); [apply allloc_nil |].
      apply allloc_one, loc_err. apply (on_self (NDef d)). apply def_node. apply (H2 k d Hin).
    Qed.

    (** ** validateOperations *)
    Lemma set_sel_node a sels p s : In (SelSet a sels p) (all_subs A) -> In s sels -> In (NSel s) nodes.
    Proof.
      intros Hss Hs. apply (node_closure A _ (selset_nodes_doc_conv A _ Hss)). assert (root (tree_sel s) = NSel s) as <- by (destruct s; reflexivity). cbn [tree_of tree_ss]. apply kid. kids.
    Qed.

    Lemma collect_err_located q0 fuel : forall m visited ss e, In ss (all_subs A) -> collect q0 A fuel m visited ss = CErr e -> located e.
    Proof.
      induction fuel as [|fuel IH]; intros m visited ss e Hss H; rewrite collect_unfold in H; [discriminate |].
      destruct ss as [a sels p]. destruct (pmem p visited).
      - destruct (q_revisit_ok q0); [discriminate |]. inversion H; subst e. apply loc_sec. apply (on_self _ (selset_nodes_doc_conv A _ Hss)).
      - assert (forall l m0 v, (forall s, In s l -> In s sels) -> collect_go A (collect q0 A fuel) a p l m0 v = CErr e -> located e) as Hgo.
        { induction l as [|s r IHl]; intros m0 v Hl Hc; cbn [collect_go] in Hc; [discriminate |].
          assert (forall s', In s' r -> In s' sels) as Hr by (intros s' Hs'; apply Hl; right; exact Hs').
          assert (In s sels) as Hs by (apply Hl; left; reflexivity).
          destruct s as [a0 al n np args dirs sub | n np dirs e0 | cond dirs sub e0].
          - apply (IHl _ _ Hr Hc).
          - destruct (frag_last A n) as [d|] eqn:Ed.
            + destruct (collect q0 A fuel m0 v (def_sub d)) as [m2 v2 | e1 |] eqn:Ec; [apply (IHl _ _ Hr Hc) | | discriminate Hc].
              inversion Hc; subst e1. apply (IH _ _ _ _ (frag_sub_in A n d Ed) Ec).
            + inversion Hc; subst e. apply loc_sec. apply (on_part _ _ (set_sel_node a sels p _ Hss Hs) (spread_name_part n np dirs e0)).
          - destruct (collect q0 A fuel m0 v sub) as [m2 v2 | e1 |] eqn:Ec; [apply (IHl _ _ Hr Hc) | | discriminate Hc].
            inversion Hc; subst e1. apply (IH _ _ _ _ (subs_closed A a sels p _ sub Hss Hs eq_refl) Ec). }
        apply (Hgo sels m (p :: visited) (fun s h => h) H).
    Qed.

    Lemma ops_step_located acc d : In d A -> AllLoc (r_errs (snd acc)) -> AllLoc (r_errs (snd (ops_step q A acc d))).
    Proof.
      intros Hd Hacc. destruct d as [ot n vars dirs sub | ]; [| exact Hacc]. destruct acc as [[anon seen] st]. cbn [snd] in Hacc. cbn [ops_step].
      pose proof (on_self _ (def_node _ Hd)) as Hself. cbn [node_pos] in Hself.
      assert (forall st0 e, AllLoc (r_errs st0) -> located e -> AllLoc (r_errs (add_errs st0 [e]))) as Hadd by (intros st0 e H0 He; cbn [r_errs add_errs]; apply allloc_app; [exact H0 | apply allloc_one, He]).
      assert (In sub (all_subs A)) as Hsub by (unfold all_subs; apply in_flat_map; exists (DOp ot n vars dirs sub); split; [exact Hd | apply subs_self]).
      assert (forall st1, AllLoc (r_errs st1) ->
                AllLoc (r_errs (let st2 := match ss_ann sub with None => add_errs st1 [err EOpUnsupported (def_pos (DOp ot n vars dirs sub))] | Some _ => st1 end in
                                if is_subscription ot then
                                  match add_selections q A [] (Some sub) with
                                  | CErr e => add_errs st2 [e]
                                  | CFuel => set_abort st2 AFuel
                                  | COk m _ => if Nat.eqb (length m) 1 then st2 else add_errs st2 [err EOpSubscriptionRoots (def_pos (DOp ot n vars dirs sub))]
                                  end
                                else st2))) as Hrest.
      { intros st1 H1. cbv zeta.
        set (st2 := match ss_ann sub with None => add_errs st1 [err EOpUnsupported (def_pos (DOp ot n vars dirs sub))] | Some _ => st1 end).
        assert (AllLoc (r_errs st2)) as H2 by (unfold st2; destruct (ss_ann sub); [exact H1 | apply (Hadd _ _ H1), loc_err, Hself]).
        destruct (is_subscription ot); [| exact H2].
        unfold add_selections. destruct (collect q A (collect_fuel A) [] [] sub) as [m v | e |] eqn:Ec; [| apply (Hadd _ _ H2), (collect_err_located q _ _ _ _ _ Hsub Ec) | exact H2].
        destruct (Nat.eqb (length m) 1); [exact H2 | apply (Hadd _ _ H2), loc_err, Hself]. }
      destruct n as [[nm p]|]; [destruct (mem nm seen) |]; cbn [snd]; apply Hrest; try exact Hacc.
      apply (Hadd _ _ Hacc). apply loc_err.
      apply (on_part _ (NName nm p) (def_node _ Hd)). change (NName nm p) with (root (name_tree (nm, p))). cbn [tree_of tree_def opt_tree]. apply kid. destruct ot; kids.
    Qed.

    Theorem operations_located errs : rule_operations q A = Done errs -> AllLoc errs.
    Proof.
      unfold rule_operations. intros H.
      assert (forall l acc, (forall d, In d l -> In d A) -> AllLoc (r_errs (snd acc)) -> AllLoc (r_errs (snd (fold_left (ops_step q A) l acc)))) as Hfold.
      { induction l as [|d r IH]; intros acc Hl Hacc; [exact Hacc |]. cbn [fold_left]. apply IH; [intros x Hx; apply Hl; right; exact Hx |].
        apply ops_step_located; [apply Hl; left; reflexivity | exact Hacc]. }
      pose proof (Hfold A (O, [], rst0) (fun d Hd => Hd) allloc_nil) as H0.
      destruct (fold_left (ops_step q A) A (O, [], rst0)) as [[anon seen] st]. cbn [snd] in H0.
      match type of H with finish ?st' = _ => assert (AllLoc (r_errs st')) as Hall; [| unfold finish in H; destruct (r_abort st') as [[x|]|]; try discriminate H; inversion H; subst errs; exact Hall] end.
      destruct (Nat.ltb 0 anon); [| exact H0]. destruct (filter is_op A) as [|d1 [|d2 r]] eqn:Ef; try exact H0.
      cbn [r_errs add_errs]. apply allloc_app; [exact H0 |]. apply allloc_one, loc_err. apply (on_self (NDef d2)). apply def_node.
      assert (In d2 (filter is_op A)) as Hin by (rewrite Ef; right; left; reflexivity). apply filter_In in Hin. tauto.
    Qed.

    (** ** validateValues *)
    Definition VIn (v : value) (p : pos) : Prop := In p (map node_pos (tree_nodes (tree_value v))).
    Definition vlocated (v : value) (e : verror) : Prop := e_locs e <> [] /\ forall p, In p (e_locs e) -> VIn v p.
    Definition VAll (v : value) (l : list verror) : Prop := forall e, In e l -> vlocated v e.

    Lemma vin_self v : VIn v (v_pos v).
    Proof. unfold VIn. destruct v; left; reflexivity. Qed.
    Lemma vin_item a vs p x q0 : In x vs -> VIn x q0 -> VIn (VList a vs p) q0.
    Proof.
      unfold VIn. intros Hx H. apply in_map_iff in H as [m [<- Hm]]. apply in_map. cbn [tree_value tree_nodes]. right. apply in_flat_map. exists (tree_value x).
      split; [apply in_map; exact Hx | exact Hm].
    Qed.
    Lemma vin_field a fs p n np x q0 : In (n, np, x) fs -> VIn x q0 -> VIn (VObject a fs p) q0.
    Proof.
      unfold VIn. intros Hx H. apply in_map_iff in H as [m [<- Hm]]. apply in_map. cbn [tree_value tree_nodes]. right. apply in_flat_map.
      exists (T (NObjField n np x) [name_tree (n, np); tree_value x]). split; [apply (in_map (fun f => match f with (n0, p0, x0) => T (NObjField n0 p0 x0) [name_tree (n0, p0); tree_value x0] end) fs (n, np, x) Hx) |].
      cbn [tree_nodes flat_map]. right. right. rewrite app_nil_r. exact Hm.
    Qed.
    Lemma vin_field_name a fs p n np x : In (n, np, x) fs -> VIn (VObject a fs p) np.
    Proof.
      unfold VIn. intros Hx. change np with (node_pos (NObjField n np x)). apply in_map. cbn [tree_value tree_nodes]. right. apply in_flat_map.
      exists (T (NObjField n np x) [name_tree (n, np); tree_value x]). split; [apply (in_map (fun f => match f with (n0, p0, x0) => T (NObjField n0 p0 x0) [name_tree (n0, p0); tree_value x0] end) fs (n, np, x) Hx) | left; reflexivity].
    Qed.
    Lemma vall_self v k : VAll v [err k (v_pos v)].
    Proof. intros e [<- | []]. split; [discriminate | intros p [<- | []]; apply vin_self]. Qed.
    Lemma vall_self_sec v k : VAll v [sec k (v_pos v)].
    Proof. intros e [<- | []]. split; [discriminate | intros p [<- | []]; apply vin_self]. Qed.
    Lemma vall_nil v : VAll v [].
    Proof. intros e []. Qed.
    Lemma vall_app v a b : VAll v a -> VAll v b -> VAll v (a ++ b).
    Proof. intros Ha Hb e He. apply in_app_or in He as [He | He]; auto. Qed.
    Lemma vall_lift v w l : (forall p, VIn v p -> VIn w p) -> VAll v l -> VAll w l.
    Proof. intros H Hl e He. destruct (Hl e He) as [H1 H2]. split; [exact H1 | intros p Hp; apply H, H2, Hp]. Qed.

    Notation coerce := (coercion repaired pi S).

    Lemma items_loop_vloc a vs0 p : forall vs t e,
      (forall x, In x vs -> In x vs0) -> (forall x, In x vs0 -> forall t0 allow e0, coerce x t0 allow = VR e0 -> VAll x e0) ->
      items_loop coerce t vs = VR e -> VAll (VList a vs0 p) e.
    Proof.
      induction vs as [|y r IH]; intros t e Hin Hsub H; cbn [items_loop] in H; [inversion H; apply vall_nil |].
      assert (In y vs0) as Hy by (apply Hin; left; reflexivity).
      destruct (coerce y t false) as [[|e1 l]|] eqn:Ey; try discriminate H.
      - apply (IH t e (fun x Hx => Hin x (or_intror Hx)) Hsub H).
      - inversion H; subst e. apply (vall_lift y); [intros q0; apply (vin_item a vs0 p y q0 Hy) | apply (Hsub y Hy _ _ _ Ey)].
    Qed.

    Lemma fields_loop_vloc a fs0 p defs : forall fs seen acc e,
      (forall f, In f fs -> In f fs0) -> (forall n np x, In (n, np, x) fs0 -> forall t0 allow e0, coerce x t0 allow = VR e0 -> VAll x e0) ->
      VAll (VObject a fs0 p) acc -> fields_loop pi coerce defs p fs seen acc = VR e -> VAll (VObject a fs0 p) e.
    Proof.
      induction fs as [|[[n np] x] r IH]; intros seen acc e Hin Hsub Hacc H; cbn [fields_loop] in H.
      - inversion H. apply vall_app; [exact Hacc |]. intros e0 He0. apply in_flat_map in He0 as [nd [_ He0]].
        destruct (required_arg (snd nd) && negb (mem (fst nd) seen)); [| destruct He0]. apply (vall_self (VObject a fs0 p) EObjRequired e0 He0).
      - assert (In (n, np, x) fs0) as Hx by (apply Hin; left; reflexivity).
        assert (forall k, VAll (VObject a fs0 p) [err k np]) as Hnp by (intros k e0 [<- | []]; split; [discriminate | intros q0 [<- | []]; apply (vin_field_name a fs0 p n np x Hx)]).
        assert (VAll (VObject a fs0 p) (if mem n seen then acc ++ [err EObjDupField np] else acc)) as Hacc1 by (destruct (mem n seen); [apply vall_app; [exact Hacc | apply Hnp] | exact Hacc]).
        destruct (assoc n defs) as [def|].
        + destruct (coerce x (in_type def) true) as [[|e1 l]|] eqn:Ex; try discriminate H.
          * apply (IH _ _ e (fun f Hf => Hin f (or_intror Hf)) Hsub Hacc1 H).
          * inversion H; subst e. apply (vall_lift x); [intros q0; apply (vin_field a fs0 p n np x q0 Hx) | apply (Hsub n np x Hx _ _ _ Ex)].
        + refine (IH _ _ e (fun f Hf => Hin f (or_intror Hf)) Hsub _ H). apply vall_app; [exact Hacc1 | apply Hnp].
    Qed.

    Lemma coercion_vloc_step v :
      (forall a vs p, v = VList a vs p -> forall x, In x vs -> forall t allow e, coerce x t allow = VR e -> VAll x e) ->
      (forall a fs p, v = VObject a fs p -> forall n np x, In (n, np, x) fs -> forall t allow e, coerce x t allow = VR e -> VAll x e) ->
      forall t allow e, coerce v t allow = VR e -> VAll v e.
    Proof.
      intros HL HO.
      assert (forall (l : list verror) e, VR l = VR e -> VAll v l -> VAll v e) as Hvr by (intros l e H0 Hl; injection H0 as <-; exact Hl).
      induction t as [tn | t' IH | t' IH]; intros allow e H; rewrite coercion_unfold in H.
      - destruct (is_var v); [apply (Hvr _ _ H), vall_nil |]. destruct (is_null v); [apply (Hvr _ _ H); cbn [is_nonnull]; apply vall_nil |].
        destruct (raw_body S tn) as [[k | vals | defs | fs0 ifs0 | fs0 | ms0]|]; try (apply (Hvr _ _ H), vall_self_sec).
        + apply (Hvr _ _ H). destruct (scalar_accepts k v); [apply vall_nil | apply vall_self].
        + apply (Hvr _ _ H). destruct v; try apply vall_self. destruct (mem n vals); [apply vall_nil | apply vall_self].
        + destruct v as [| | | | | | | | a fs p]; try (apply (Hvr _ _ H), vall_self).
          apply (fields_loop_vloc a fs p defs fs [] [] e (fun f Hf => Hf) (HO a fs p eq_refl) (vall_nil _) H).
      - destruct (is_var v); [apply (Hvr _ _ H), vall_nil |]. destruct (is_null v); [apply (Hvr _ _ H); cbn [is_nonnull]; apply vall_nil |].
        destruct v as [| | | | | | | a vs p |]; try (destruct allow; [apply (IH true e H) | apply (Hvr _ _ H), vall_self]).
        apply (items_loop_vloc a vs p vs t' e (fun x Hx => Hx) (HL a vs p eq_refl) H).
      - destruct (is_var v); [apply (Hvr _ _ H), vall_nil |]. destruct (is_null v); [apply (Hvr _ _ H); cbn [is_nonnull]; apply vall_self |].
        apply (IH allow e H).
    Qed.

    Theorem coercion_vloc v : forall t allow e, coerce v t allow = VR e -> VAll v e.
    Proof.
      induction v as [a n d np | a l p | a l p | a s p | a b p | a p | a n p | a vs p IH | a fs p IH] using value_ind';
        apply coercion_vloc_step; try (intros; discriminate).
      - intros a0 vs0 p0 E x Hx. inversion E; subst. rewrite Forall_forall in IH. apply (IH x Hx).
      - intros a0 fs0 p0 E n np x Hx. inversion E; subst. rewrite Forall_forall in IH. apply (IH _ Hx).
    Qed.

    Lemma values_enter_located n st : In n nodes -> AllLoc (r_errs st) -> AllLoc (r_errs (fst (values_enter repaired pi S st n))).
    Proof.
      intros Hn Hst. unfold values_enter. destruct n as [| | | | | | | | | | v |]; try exact Hst.
      destruct (is_var v); [exact Hst |]. destruct (va_expected (v_ann v)) as [t|].
      - destruct (coerce v t true) as [e|] eqn:Ec; [| exact Hst]. cbn [fst r_errs add_errs]. apply allloc_app; [exact Hst |].
        intros x Hx. destruct (coercion_vloc v t true e Ec x Hx) as [H1 H2]. split; [exact H1 |]. intros p Hp. specialize (H2 p Hp).
        unfold VIn in H2. apply in_map_iff in H2 as [m [<- Hm]]. apply (on_part _ m Hn Hm).
      - cbn [fst r_errs add_errs]. apply allloc_app; [exact Hst | apply allloc_one, loc_sec, (on_self _ Hn)].
    Qed.

    Theorem values_located errs : rule_values repaired pi S A = Done errs -> AllLoc errs.
    Proof.
      unfold rule_values. intros H.
      match type of H with finish ?st = _ => assert (AllLoc (r_errs st)) as Hall; [| unfold finish in H; destruct (r_abort st) as [[x|]|]; try discriminate H; inversion H; subst errs; exact Hall] end.
      apply (inspect_inv_leave (fun st => AllLoc (r_errs st))); [intros n Hn st Hst; apply (values_enter_located n st Hn Hst) | intros st Hst; exact Hst | apply allloc_nil].
    Qed.

    (** ** validateVariables *)
    Lemma vardef_part ot n vars dirs sub v : In v vars -> In (NVarDef v) (tree_nodes (tree_of (NDef (DOp ot n vars dirs sub)))).
    Proof. intros H. change (NVarDef v) with (root (tree_vardef v)). cbn [tree_of tree_def]. apply kid. kids. Qed.
    Lemma vardef_name_part v : In (NName (vd_name v) (vd_npos v)) (tree_nodes (tree_of (NVarDef v))).
    Proof. cbn [tree_of]. unfold tree_vardef. cbn [tree_nodes app flat_map tree_value name_tree fst snd]. right. right. left. reflexivity. Qed.
    Lemma vardef_type_part v : In (NType (vd_type v)) (tree_nodes (tree_of (NVarDef v))).
    Proof.
      cbn [tree_of]. unfold tree_vardef. cbn [tree_nodes app flat_map]. right. apply in_or_app. right. apply in_or_app. left. destruct (vd_type v); left; reflexivity.
    Qed.

    Lemma variable_usage_located def a dollar : on_node (vd_dollar def) -> on_node dollar -> AllLoc (variable_usage def a dollar).
    Proof.
      intros Hd Hp. unfold variable_usage. destruct (vd_ann def) as [vt|]; [| apply allloc_one, loc_sec, Hd].
      destruct (va_expected a) as [lt|]; [| destruct (va_scalar a); [apply allloc_nil | apply allloc_one, loc_sec, Hp]].
      assert (forall lt', AllLoc (if types_compatible vt lt' then [] else [err EVarIncompatible dollar])) as Hc
          by (intros lt'; destruct (types_compatible vt lt'); [apply allloc_nil | apply allloc_one, loc_err, Hp]).
      destruct lt as [tn | t' | t']; try apply Hc. destruct (negb (is_nonnull vt)); [| apply Hc].
      match goal with |- context [if ?c then _ else _] => destruct c end; [apply allloc_one, loc_err, Hp | apply Hc].
    Qed.

    Lemma vardefs_loop_located vars : (forall v, In v vars -> In (NVarDef v) nodes) -> forall seen, AllLoc (vardefs_loop S vars seen).
    Proof.
      induction vars as [|v r IH]; intros H seen; [apply allloc_nil |]. cbn [vardefs_loop].
      assert (In (NVarDef v) nodes) as Hv by (apply H; left; reflexivity).
      pose proof (on_part _ _ Hv (vardef_name_part v)) as Hn. pose proof (on_part _ _ Hv (vardef_type_part v)) as Ht. cbn [node_pos] in Hn, Ht.
      apply allloc_app; [destruct (mem (vd_name v) seen); [apply allloc_one, loc_err, Hn | apply allloc_nil] |].
      apply allloc_app; [| apply IH; intros x Hx; apply H; right; exact Hx].
      destruct (vd_ann v) as [t|]; [| apply allloc_one, loc_err, Ht].
      destruct (raw_body S (unwrapped t)) as [b|]; [destruct (is_input_body b); [apply allloc_nil |] |]; apply allloc_one, loc_err, Ht.
    Qed.

    Lemma vardef_first_in n l def : vardef_first n l = Some def -> In def l.
    Proof. induction l as [|v r IH]; cbn [vardef_first]; [discriminate |]. destruct (name_eqb n (vd_name v)); [intros H; inversion H; left; reflexivity | intros H; right; apply IH, H]. Qed.

    Lemma vars_enter_located vars n st :
      (forall v, In v vars -> on_node (vd_dollar v)) -> In n nodes -> AllLoc (v_errs st) -> AllLoc (v_errs (fst (vars_enter vars st n))).
    Proof.
      intros Hvars Hn Hst. unfold vars_enter. destruct n as [| | | | | | | | s | | v |]; try exact Hst.
      - destruct s as [| fname np dirs e |]; try exact Hst. cbn [fst]. destruct (mem fname (v_val st) || mem fname (v_unval st)); exact Hst.
      - destruct v as [a vname dollar np | | | | | | | |]; try exact Hst. cbn [fst v_errs]. apply allloc_app; [exact Hst |].
        pose proof (on_self _ Hn) as Hp. cbn [node_pos v_pos] in Hp.
        destruct (vardef_first vname vars) as [def|] eqn:Ef; [| apply allloc_one, loc_err, Hp].
        apply variable_usage_located; [apply Hvars, (vardef_first_in _ _ _ Ef) | exact Hp].
    Qed.

    Lemma vars_inspect_located vars d st :
      (forall v, In v vars -> on_node (vd_dollar v)) -> In d A -> AllLoc (v_errs st) -> AllLoc (v_errs (inspect (vars_enter vars) (fun s => s) (tree_def d) st)).
    Proof.
      intros Hvars Hd Hst. apply (inspect_inv_leave (fun st => AllLoc (v_errs st))); [| intros st0 H0; exact H0 | exact Hst].
      intros n Hn st0 H0. apply (vars_enter_located vars n st0 Hvars); [| exact H0]. apply (node_closure A _ (def_node _ Hd)). exact Hn.
    Qed.

    Lemma vars_worklist_located vars fuel : (forall v, In v vars -> on_node (vd_dollar v)) ->
      forall st st', AllLoc (v_errs st) -> vars_worklist pi A fuel vars st = Some st' -> AllLoc (v_errs st').
    Proof.
      intros Hvars. induction fuel as [|fuel IH]; intros st st' Hst H; cbn [vars_worklist] in H; [discriminate |].
      destruct (pi name (v_unval st)) as [|n r]; [inversion H; subst; exact Hst |].
      revert H. apply IH.
      destruct (frag_last A n) as [d|] eqn:El; [| exact Hst]. apply (vars_inspect_located vars d _ Hvars (frag_last_in A n d El)). exact Hst.
    Qed.

    Lemma vars_op_located st d : In d A -> AllLoc (r_errs st) -> AllLoc (r_errs (vars_op pi S A st d)).
    Proof.
      intros Hd Hst. destruct d as [ot n vars dirs sub | kw fn fnp fc fdirs fsub]; [| exact Hst]. cbn [vars_op].
      assert (forall v, In v vars -> In (NVarDef v) nodes) as Hv by (intros v Hin; apply (node_closure A _ (def_node _ Hd)); apply (vardef_part ot n vars dirs sub v Hin)).
      assert (forall v, In v vars -> on_node (vd_dollar v)) as Hvars by (intros v Hin; apply (on_self _ (Hv v Hin))).
      assert (AllLoc (r_errs (add_errs st (vardefs_loop S vars [])))) as H1 by (cbn [r_errs add_errs]; apply allloc_app; [exact Hst | apply (vardefs_loop_located vars Hv)]).
      destruct (vars_worklist pi A (graph_fuel A) vars _) as [v1|] eqn:Ew; [| exact H1].
      cbn [r_errs add_errs] in *. apply allloc_app; [exact H1 |]. apply allloc_app.
      - apply (vars_worklist_located vars _ Hvars _ v1) in Ew; [exact Ew |]. apply (vars_inspect_located vars _ _ Hvars Hd). apply allloc_nil.
      - apply allloc_flat_map. intros v Hin. destruct (mem (vd_name v) (v_enc v1)); [apply allloc_nil | apply allloc_one, loc_err, (Hvars v Hin)].
    Qed.

    Theorem variables_located errs : rule_variables pi S A = Done errs -> AllLoc errs.
    Proof.
      unfold rule_variables. intros H.
      match type of H with finish ?st = _ => assert (AllLoc (r_errs st)) as Hall; [| unfold finish in H; destruct (r_abort st) as [[x|]|]; try discriminate H; inversion H; subst errs; exact Hall] end.
      assert (forall l st, (forall d, In d l -> In d A) -> AllLoc (r_errs st) -> AllLoc (r_errs (fold_left (vars_op pi S A) l st))) as Hfold.
      { induction l as [|d r IH]; intros st Hl Hst; [exact Hst |]. cbn [fold_left]. apply IH; [intros x Hx; apply Hl; right; exact Hx |].
        apply vars_op_located; [apply Hl; left; reflexivity | exact Hst]. }
      apply (Hfold A rst0 (fun d Hd => Hd) allloc_nil).
    Qed.

    (** ** validateFields, the overlapping-fields pass (with the checked-pairs memo) *)
    Definition mloc (r : mres) : Prop := match r with MErr e => located e | _ => True end.
    Definition EntN (x : fp) : Prop :=
      In (NSel (fst3 x)) nodes /\ is_fieldb (fst3 x) = true /\ field_ok A (fst3 x) /\ exists w, In w (all_subs A) /\ snd x = ss_pos w.
    Definition fmN (m : fmap) : Prop := forall k l x, In (k, l) m -> In x l -> EntN x.

    Lemma collect_entN fuel : forall m visited ss m' v', In ss (all_subs A) -> fmN m -> collect repaired A fuel m visited ss = COk m' v' -> fmN m'.
    Proof.
      induction fuel as [|fuel IH]; intros m visited ss m' v' Hss Hm H; rewrite collect_unfold in H; [discriminate |].
      destruct ss as [a sels p]. destruct (pmem p visited); [cbn [q_revisit_ok repaired] in H; inversion H; subst; exact Hm |].
      assert (forall l m0 v0 m1 v1, (forall s, In s l -> In s sels) -> fmN m0 -> collect_go A (collect repaired A fuel) a p l m0 v0 = COk m1 v1 -> fmN m1) as Hgo.
      { induction l as [|s r IHl]; intros m0 v0 m1 v1 Hl Hm0 Hc; cbn [collect_go] in Hc; [inversion Hc; subst; exact Hm0 |].
        assert (forall s', In s' r -> In s' sels) as Hr by (intros s' Hs'; apply Hl; right; exact Hs').
        assert (In s sels) as Hs by (apply Hl; left; reflexivity).
        destruct s as [a0 al n np args dirs sub | n np dirs e0 | cond dirs sub e0].
        - apply (IHl _ _ _ _ Hr) in Hc; [exact Hc |]. intros k l x Hk Hx.
          destruct (fmap_add_in _ _ _ _ _ _ Hk Hx) as [-> | [l0 [Hk0 Hx0]]]; [| apply (Hm0 k l0 x Hk0 Hx0)].
          split; [apply (set_sel_node a sels p _ Hss Hs) |]. split; [reflexivity |]. split; [| exists (SelSet a sels p); auto].
          intros ss0 E0. apply (subs_closed A a sels p _ ss0 Hss Hs). exact E0.
        - destruct (frag_last A n) as [d|] eqn:Ed; [| discriminate Hc].
          destruct (collect repaired A fuel m0 v0 (def_sub d)) as [m2 v2 | e1 |] eqn:Ec; try discriminate Hc.
          apply (IHl _ _ _ _ Hr (IH _ _ _ _ _ (frag_sub_in A n d Ed) Hm0 Ec) Hc).
        - destruct (collect repaired A fuel m0 v0 sub) as [m2 v2 | e1 |] eqn:Ec; try discriminate Hc.
          apply (IHl _ _ _ _ Hr (IH _ _ _ _ _ (subs_closed A a sels p _ sub Hss Hs eq_refl) Hm0 Ec) Hc). }
      apply (Hgo sels m (p :: visited) m' v' (fun s h => h) Hm H).
    Qed.

    (** addFieldSelections on the selection set of a filed field: an error is located, a map keeps the invariant *)
    Lemma add_selections_N m sb : (forall ss, sb = Some ss -> In ss (all_subs A)) -> fmN m ->
      match add_selections repaired A m sb with COk m' _ => fmN m' | CErr e => located e | CFuel => True end.
    Proof.
      intros Hsb Hm. unfold add_selections. destruct sb as [ss|]; [| exact Hm].
      destruct (collect repaired A (collect_fuel A) m [] ss) as [m' v' | e |] eqn:E; [apply (collect_entN _ _ _ _ _ _ (Hsb ss eq_refl) Hm E) | | exact I].
      apply (collect_err_located repaired _ _ _ _ _ (Hsb ss eq_refl) E).
    Qed.

    Lemma first_err_m_loc {X} (f : X -> memo -> mres * memo) l :
      (forall x mm, In x l -> mloc (fst (f x mm))) -> forall mm, mloc (fst (first_err_m f l mm)).
    Proof.
      induction l as [|x l IH]; intros H mm; [exact I |]. cbn [first_err_m].
      pose proof (H x mm (or_introl eq_refl)) as Hx. destruct (f x mm) as [[| e | s0 |] mm']; cbn [fst] in *; try exact Hx; try exact I.
      apply IH. intros y mm0 Hy. apply H. right. exact Hy.
    Qed.
    Lemma pairs_first_m_loc {X} (f : X -> X -> memo -> mres * memo) l :
      (forall x y mm, In x l -> In y l -> mloc (fst (f x y mm))) -> forall mm, mloc (fst (pairs_first_m f l mm)).
    Proof.
      induction l as [|x l IH]; intros H mm; [exact I |]. cbn [pairs_first_m].
      assert (mloc (fst (first_err_m (f x) l mm))) as Hx by (apply first_err_m_loc; intros y mm0 Hy; apply H; [left; reflexivity | right; exact Hy]).
      destruct (first_err_m (f x) l mm) as [[| e | s0 |] mm']; cbn [fst] in *; try exact Hx; try exact I.
      apply IH. intros y z mm0 Hy Hz. apply H; right; assumption.
    Qed.

    Lemma entN_self x : EntN x -> on_node (sel_pos (fst3 x)).
    Proof. intros [H _]. apply (on_self _ H). Qed.
    Lemma entN_npos x : EntN x -> on_node (sel_npos (fst3 x)).
    Proof.
      intros [H [Hf _]]. destruct (fst3 x) as [a al n np args dirs sub | |]; try discriminate Hf. cbn [sel_npos].
      apply (on_part _ _ H (field_name_part a al n np args dirs sub)).
    Qed.
    Lemma entN_arg x a : EntN x -> In a (sel_args (fst3 x)) -> on_node (a_pos a).
    Proof.
      intros [H [Hf _]] Ha. destruct (fst3 x) as [fa al n np args dirs sub | |]; try discriminate Hf. cbn [sel_args] in Ha.
      apply (on_part _ (NArgument a) H (field_arg_part fa al n np args dirs sub a Ha)).
    Qed.

    Lemma args_check_loc x y : EntN x -> EntN y -> mloc (args_check repaired (fst3 x) (fst3 y)).
    Proof.
      intros Hx Hy. unfold args_check. destruct (negb _); [apply loc_err2; [apply (entN_self x Hx) | apply (entN_self y Hy)] |].
      assert (forall l, (forall b, In b l -> In b (sel_args (fst3 y))) ->
                        mloc (first_err (fun argB => match arg_last (a_name argB) (sel_args (fst3 x)) with
                                                       | None => if q_nil_arg repaired then MErr (err2 EMergeArgs (sel_pos (fst3 x)) (sel_pos (fst3 y))) else MPanic PNilArgument
                                                       | Some argA => if values_identical (a_value argA) (a_value argB) then MOk else MErr (err2 EMergeArgs (a_pos argA) (a_pos argB))
                                                       end) l)) as H.
      { induction l as [|b l IH]; intros Hl; [exact I |]. cbn [first_err].
        assert (forall b', In b' l -> In b' (sel_args (fst3 y))) as Hl' by (intros b' Hb'; apply Hl; right; exact Hb').
        destruct (arg_last (a_name b) (sel_args (fst3 x))) as [argA|] eqn:Ea.
        - destruct (values_identical _ _); [apply (IH Hl') |]. apply loc_err2; [apply (entN_arg x argA Hx), (proj1 (arg_last_some _ _ _ Ea)) | apply (entN_arg y b Hy), Hl; left; reflexivity].
        - cbn [q_nil_arg repaired]. apply loc_err2; [apply (entN_self x Hx) | apply (entN_self y Hy)]. }
      apply H. intros b Hb. exact Hb.
    Qed.

    Lemma shape_type_loc x e : EntN x -> shape_type (fst3 x) = inr e -> located e.
    Proof.
      intros Hx. unfold shape_type. destruct (name_eqb _ _); [discriminate |]. destruct (sel_fann (fst3 x)); [discriminate |].
      intros H. inversion H. apply loc_sec, (entN_self x Hx).
    Qed.

    Lemma same_shape_m_loc d : forall x y mm, EntN x -> EntN y -> mloc (fst (same_shape_m repaired pi S A d (fst3 x) (fst3 y) mm)).
    Proof.
      induction d as [|d IH]; intros x y mm Hx Hy; cbn [same_shape_m]; [cbn [q_depth repaired fst]; apply loc_sec, (entN_self x Hx) |].
      destruct (already (snd mm) (fst3 x) (fst3 y)) as [seen ss']. destruct seen; [exact I |].
      destruct (shape_type (fst3 x)) as [tA | e] eqn:Sx; [| apply (shape_type_loc x e Hx Sx)].
      destruct (shape_type (fst3 y)) as [tB | e] eqn:Sy; [| apply (shape_type_loc y e Hy Sy)].
      assert (forall k, located (err2 k (sel_pos (fst3 x)) (sel_pos (fst3 y)))) as H2 by (intros k; apply loc_err2; [apply (entN_self x Hx) | apply (entN_self y Hy)]).
      destruct (shape_loop tA tB) as [[a b] | k]; [| apply H2].
      destruct (is_leaf_sty S a || is_leaf_sty S b); [destruct (sty_eqb a b); [exact I | apply H2] |].
      pose proof (add_selections_N [] (sel_sub (fst3 x)) (proj1 (proj2 (proj2 Hx))) (fun k l z (H : In (k, l) []) => match H with end)) as H1.
      destruct (add_selections repaired A [] (sel_sub (fst3 x))) as [m1 v1 | e |]; [| exact H1 | exact I].
      pose proof (add_selections_N m1 (sel_sub (fst3 y)) (proj1 (proj2 (proj2 Hy))) H1) as H3.
      destruct (add_selections repaired A m1 (sel_sub (fst3 y))) as [m2 v2 | e |]; [| exact H3 | exact I].
      apply first_err_m_loc. intros [k l] mm0 Hg. apply (proj1 (order_in pi Hpi _ _)) in Hg. cbn [snd].
      apply pairs_first_m_loc. intros u v mm1 Hu Hv. apply IH; [apply (H3 k l u Hg Hu) | apply (H3 k l v Hg Hv)].
    Qed.

    Lemma can_merge_m_loc d : forall m mm, fmN m -> mloc (fst (can_merge_m repaired pi S A d m mm)).
    Proof.
      induction d as [|d IH]; intros m mm Hm; cbn [can_merge_m];
        (apply first_err_m_loc; intros [k l] mm0 Hg; apply (proj1 (order_in pi Hpi _ _)) in Hg; cbn [snd];
         apply pairs_first_m_loc; intros x y mm1 Hx0 Hy0;
         pose proof (Hm k l x Hg Hx0) as Hx; pose proof (Hm k l y Hg Hy0) as Hy;
         unfold pair_check_m; destruct (already (fst mm1) (fst3 x) (fst3 y)) as [seen cm']; (destruct seen; [exact I |]);
         match goal with |- context [same_shape_m repaired pi S A ?dd (fst3 x) (fst3 y) ?m0] =>
           pose proof (same_shape_m_loc dd x y m0 Hx Hy) as Hs; destruct (same_shape_m repaired pi S A dd (fst3 x) (fst3 y) m0) as [[| e | s0 |] mm2] end;
         cbn [fst] in *; try exact Hs; try exact I;
         (destruct (snd (fst x)); [| cbn [fst]; apply loc_sec; destruct Hx as [_ [_ [_ [w [Hw ->]]]]]; apply (on_self _ (selset_nodes_doc_conv A _ Hw))]);
         (destruct (snd (fst y)); [| cbn [fst]; apply loc_sec; destruct Hy as [_ [_ [_ [w [Hw ->]]]]]; apply (on_self _ (selset_nodes_doc_conv A _ Hw))]);
         (destruct (name_eqb _ _ || _ || _); [| exact I]);
         (destruct (negb _); [cbn [fst]; apply loc_err2; [apply (entN_npos x Hx) | apply (entN_npos y Hy)] |]);
         pose proof (args_check_loc x y Hx Hy) as Ha;
         destruct (args_check repaired (fst3 x) (fst3 y)); cbn [fst]; try exact Ha; try exact I;
         pose proof (add_selections_N [] (sel_sub (fst3 x)) (proj1 (proj2 (proj2 Hx))) (fun k0 l0 z (H : In (k0, l0) []) => match H with end)) as H1;
         (destruct (add_selections repaired A [] (sel_sub (fst3 x))) as [m1 v1 | e |]; [| exact H1 | exact I]);
         pose proof (add_selections_N m1 (sel_sub (fst3 y)) (proj1 (proj2 (proj2 Hy))) H1) as H3;
         (destruct (add_selections repaired A m1 (sel_sub (fst3 y))) as [m2 v2 | e |]; [| exact H3 | exact I])).
      - exact I.
      - apply IH. exact H3.
    Qed.

    Theorem fields_m_located errs : rule_fields_m repaired pi S F A = Done errs -> AllLoc errs.
    Proof.
      unfold rule_fields_m. intros H.
      match type of H with finish ?st = _ => assert (AllLoc (r_errs st)) as Hall; [| unfold finish in H; destruct (r_abort st) as [[x|]|]; try discriminate H; inversion H; subst errs; exact Hall] end.
      apply (inspect_inv_leave (fun st : rst * memo => AllLoc (r_errs (fst st)))); [| intros st Hst; exact Hst | cbn [fst]; apply fields_pass_located].
      intros n Hn st Hst. unfold merge_enter_m. destruct n as [| | | | | | | ss | | | |]; try exact Hst.
      pose proof (selset_nodes_doc A _ Hn) as Hss.
      pose proof (add_selections_N [] (Some ss) (fun ss0 E0 => ltac:(inversion E0; subst; exact Hss)) (fun k l z (H0 : In (k, l) []) => match H0 with end)) as H1.
      destruct (add_selections repaired A [] (Some ss)) as [m v | e |]; [| cbn [fst r_errs add_errs]; apply allloc_app; [exact Hst | apply allloc_one, H1] | exact Hst].
      pose proof (can_merge_m_loc (max_depth A) m (snd st) H1) as Hc.
      destruct (can_merge_m repaired pi S A (max_depth A) m (snd st)) as [[| e | s0 |] mm']; cbn [fst] in *; try exact Hst.
      cbn [r_errs add_errs]. apply allloc_app; [exact Hst | apply allloc_one, Hc].
    Qed.

    (** the same pass without the memo *)
    Lemma first_err_loc {X} (f : X -> mres) l : (forall x, In x l -> mloc (f x)) -> mloc (first_err f l).
    Proof.
      induction l as [|x l IH]; intros H; [exact I |]. cbn [first_err]. pose proof (H x (or_introl eq_refl)) as Hx.
      destruct (f x); try exact Hx; try exact I. apply IH. intros y Hy. apply H. right. exact Hy.
    Qed.
    Lemma pairs_first_loc {X} (f : X -> X -> mres) l : (forall x y, In x l -> In y l -> mloc (f x y)) -> mloc (pairs_first f l).
    Proof.
      induction l as [|x l IH]; intros H; [exact I |]. cbn [pairs_first].
      assert (mloc (first_err (f x) l)) as Hx by (apply first_err_loc; intros y Hy; apply H; [left; reflexivity | right; exact Hy]).
      destruct (first_err (f x) l); try exact Hx; try exact I. apply IH. intros y z Hy Hz. apply H; right; assumption.
    Qed.

    Lemma same_shape_loc d : forall x y, EntN x -> EntN y -> mloc (same_shape repaired pi S A d (fst3 x) (fst3 y)).
    Proof.
      induction d as [|d IH]; intros x y Hx Hy; cbn [same_shape]; [cbn [q_depth repaired]; apply loc_sec, (entN_self x Hx) |].
      destruct (shape_type (fst3 x)) as [tA | e] eqn:Sx; [| apply (shape_type_loc x e Hx Sx)].
      destruct (shape_type (fst3 y)) as [tB | e] eqn:Sy; [| apply (shape_type_loc y e Hy Sy)].
      assert (forall k, located (err2 k (sel_pos (fst3 x)) (sel_pos (fst3 y)))) as H2 by (intros k; apply loc_err2; [apply (entN_self x Hx) | apply (entN_self y Hy)]).
      destruct (shape_loop tA tB) as [[a b] | k]; [| apply H2].
      destruct (is_leaf_sty S a || is_leaf_sty S b); [destruct (sty_eqb a b); [exact I | apply H2] |].
      pose proof (add_selections_N [] (sel_sub (fst3 x)) (proj1 (proj2 (proj2 Hx))) (fun k l z (H : In (k, l) []) => match H with end)) as H1.
      destruct (add_selections repaired A [] (sel_sub (fst3 x))) as [m1 v1 | e |]; [| exact H1 | exact I].
      pose proof (add_selections_N m1 (sel_sub (fst3 y)) (proj1 (proj2 (proj2 Hy))) H1) as H3.
      destruct (add_selections repaired A m1 (sel_sub (fst3 y))) as [m2 v2 | e |]; [| exact H3 | exact I].
      apply first_err_loc. intros [k l] Hg. apply (proj1 (order_in pi Hpi _ _)) in Hg. cbn [snd].
      apply pairs_first_loc. intros u v Hu Hv. apply IH; [apply (H3 k l u Hg Hu) | apply (H3 k l v Hg Hv)].
    Qed.

    Lemma can_merge_loc d : forall m, fmN m -> mloc (can_merge repaired pi S A d m).
    Proof.
      induction d as [|d IH]; intros m Hm; cbn [can_merge];
        (apply first_err_loc; intros [k l] Hg; apply (proj1 (order_in pi Hpi _ _)) in Hg; cbn [snd];
         apply pairs_first_loc; intros x y Hx0 Hy0;
         pose proof (Hm k l x Hg Hx0) as Hx; pose proof (Hm k l y Hg Hy0) as Hy;
         unfold pair_check;
         match goal with |- context [same_shape repaired pi S A ?dd (fst3 x) (fst3 y)] =>
           pose proof (same_shape_loc dd x y Hx Hy) as Hs; destruct (same_shape repaired pi S A dd (fst3 x) (fst3 y)) end;
         try exact Hs; try exact I;
         (destruct (snd (fst x)); [| apply loc_sec; destruct Hx as [_ [_ [_ [w [Hw ->]]]]]; apply (on_self _ (selset_nodes_doc_conv A _ Hw))]);
         (destruct (snd (fst y)); [| apply loc_sec; destruct Hy as [_ [_ [_ [w [Hw ->]]]]]; apply (on_self _ (selset_nodes_doc_conv A _ Hw))]);
         (destruct (name_eqb _ _ || _ || _); [| exact I]);
         (destruct (negb _); [apply loc_err2; [apply (entN_npos x Hx) | apply (entN_npos y Hy)] |]);
         pose proof (args_check_loc x y Hx Hy) as Ha;
         destruct (args_check repaired (fst3 x) (fst3 y)); try exact Ha; try exact I;
         pose proof (add_selections_N [] (sel_sub (fst3 x)) (proj1 (proj2 (proj2 Hx))) (fun k0 l0 z (H : In (k0, l0) []) => match H with end)) as H1;
         (destruct (add_selections repaired A [] (sel_sub (fst3 x))) as [m1 v1 | e |]; [| exact H1 | exact I]);
         pose proof (add_selections_N m1 (sel_sub (fst3 y)) (proj1 (proj2 (proj2 Hy))) H1) as H3;
         (destruct (add_selections repaired A m1 (sel_sub (fst3 y))) as [m2 v2 | e |]; [| exact H3 | exact I])).
      - exact I.
      - apply IH. exact H3.
    Qed.

    Theorem fields_located errs : rule_fields repaired pi S F A = Done errs -> AllLoc errs.
    Proof.
      unfold rule_fields. intros H.
      match type of H with finish ?st = _ => assert (AllLoc (r_errs st)) as Hall; [| unfold finish in H; destruct (r_abort st) as [[x|]|]; try discriminate H; inversion H; subst errs; exact Hall] end.
      apply (inspect_inv_leave (fun st : rst => AllLoc (r_errs st))); [| intros st Hst; exact Hst | apply fields_pass_located].
      intros n Hn st Hst. unfold merge_enter. destruct n as [| | | | | | | ss | | | |]; try exact Hst.
      pose proof (selset_nodes_doc A _ Hn) as Hss.
      pose proof (add_selections_N [] (Some ss) (fun ss0 E0 => ltac:(inversion E0; subst; exact Hss)) (fun k l z (H0 : In (k, l) []) => match H0 with end)) as H1.
      destruct (add_selections repaired A [] (Some ss)) as [m v | e |]; [| cbn [fst r_errs add_errs]; apply allloc_app; [exact Hst | apply allloc_one, H1] | exact Hst].
      pose proof (can_merge_loc (max_depth A) m H1) as Hc.
      destruct (can_merge repaired pi S A (max_depth A) m) as [| e | s0 |]; cbn [fst] in *; try exact Hst.
      cbn [r_errs add_errs]. apply allloc_app; [exact Hst | apply allloc_one, Hc].
    Qed.
  End Rules.
End Located.
