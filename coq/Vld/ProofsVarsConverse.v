(** * Vld/ProofsVarsConverse.v — the converse of ProofsVarsSpec: on a document of which 5.8.1 – 5.8.5
    hold in the Spec's formulation (and whose fragment names are unique) validateVariables reports no
    primary error.  The model's "this location has a default" is never more generous than the Spec's;
    [schema_defaults_ok] makes them agree where it matters (non-null locations). *)
From Coq Require Import List NArith Arith Bool Lia.
From ApiFu Require Import Base.Sexp Vld.Ast Vld.AstInd Vld.Inspect Vld.InspectProofs Vld.TypeInfoModel Vld.TypeInfoPure
     Vld.Enumerate Vld.SpecEnum Vld.ValidatorModel Vld.ValidSpec Vld.Hyps Vld.ProofsCommon Vld.ProofsCycles Vld.ProofsVarsOrder
     Vld.ProofsDirectives Vld.ProofsFragDecl Vld.ProofsOrder Vld.ProofsSpreads Vld.ProofsDepth Vld.ProofsTypeInfoValues Vld.ProofsValues
     Vld.ProofsSpecReach Vld.ProofsVarsSpec Vld.ProofsSecondary Vld.ProofsSecondaryRules.
Import ListNotations.

Definition flag_ok (d : input_def) : Prop :=
  is_nonnull (in_type d) = true -> has_default d = true -> dflt_is_value (in_default d) = true.
Lemma default_ok_flag d : default_ok d = true -> flag_ok d.
Proof.
  unfold default_ok, flag_ok, has_default. intros H Hn Hd. rewrite Hn in H. cbn [negb orb] in H.
  destruct (in_default d); [discriminate Hd | discriminate H | reflexivity].
Qed.

Section Usage.
  Variable S : schema.
  Variable F : features.
  Notation qo := (q_unwrap_obj repaired).
  Hypothesis input_flags : forall tn defs n d, raw_body S tn = Some (TInput defs) -> assoc n defs = Some d -> flag_ok d.
  Variable vars0 : list vardef.
  Notation vars := (map (ti_vardef qo S F) vars0).
  Notation ok := (u_ok S F vars0).

  (** the location's flag as the model has it ([dm]) against the Spec's ([ds]), where it matters *)
  Definition flags_agree (e : option sty) (dm ds : bool) : Prop :=
    forall inner, e = Some (StNonNull inner) -> ds = true -> dm = true.

  Lemma variable_usage_conv vd vt lt dm ds sc p :
    flags_agree (Some lt) dm ds -> declared_type S F (vd_type vd) = Some vt -> usage_allowed vd vt lt ds = true ->
    variable_usage (ti_vardef qo S F vd) {| va_expected := Some lt; va_default := dm; va_scalar := sc |} p = [].
  Proof.
    intros Hf Hvt Ha. unfold variable_usage. cbn [vd_ann ti_vardef va_expected va_default va_scalar vd_default].
    rewrite schema_type_declared, Hvt. unfold usage_allowed in Ha.
    assert (forall l, compatible vt l = true -> (if types_compatible vt l then [] else [err EVarIncompatible p]) = []) as Hc
        by (intros l Hl; rewrite types_compatible_spec, Hl; reflexivity).
    destruct lt as [b | l | l]; try (apply Hc; exact Ha).
    destruct (is_nonnull vt); cbn [negb]; [apply Hc; exact Ha |].
    assert (match match vd_default vd with Some x => Some (ti_value qo S (Some vt) false x) | None => None end with
            | Some x => negb (is_null x) | None => false end
            = match vd_default vd with Some x => negb (is_null x) | None => false end) as Ed.
    { destruct (vd_default vd); [unfold ti_value; rewrite ti_value_is_null |]; reflexivity. }
    rewrite Ed. destruct (match vd_default vd with Some x => negb (is_null x) | None => false end); cbn [negb andb orb] in *.
    - apply Hc. exact Ha.
    - destruct ds; [| discriminate Ha]. rewrite (Hf l eq_refl eq_refl). cbn [negb]. apply Hc. exact Ha.
  Qed.

  Lemma value_usages_conv v : forall sc e dm ds,
    flags_agree e dm ds -> (forall u, In u (usages_value S e ds v) -> ok u) ->
    primary (usage_errs qo S vars sc e dm v) = [].
  Proof.
    induction v as [a n dl np | | | | | | | a vs p IH | a fs p IH] using value_ind'; intros sc e dm ds Hf H; try reflexivity.
    - cbn [usage_errs]. rewrite vardef_first_pti.
      destruct (H _ (or_introl eq_refl)) as [vd [Hfv [vt [Hvt Hall]]]]. cbn [u_name u_type u_default] in *. rewrite Hfv. cbn [option_map].
      destruct e as [lt|].
      + rewrite (variable_usage_conv vd vt lt dm ds sc dl Hf Hvt (Hall lt eq_refl)). reflexivity.
      + unfold variable_usage. cbn [vd_ann ti_vardef va_expected va_scalar]. rewrite schema_type_declared, Hvt. destruct sc; reflexivity.
    - cbn [usage_errs]. rewrite primary_flat_map. apply flat_map_nil_iff. intros x Hx. rewrite Forall_forall in IH.
      apply (IH x Hx _ _ false false); [intros inner _ Hd; discriminate Hd |].
      intros u Hu. apply H. cbn [usages_value]. apply in_flat_map. exists x. split; [exact Hx | exact Hu].
    - cbn [usage_errs]. rewrite primary_flat_map. apply flat_map_nil_iff. intros [[fn fp] x] Hx. rewrite Forall_forall in IH. specialize (IH _ Hx). cbn [snd] in IH.
      assert (forall u, In u (match match match e with Some t' => match parent_body S (unwrapped t') with Some (TInput ds0) => Some ds0 | _ => None end | None => None end with
                                    | Some ds0 => assoc fn ds0 | None => None end with
                              | Some d => usages_value S (Some (in_type d)) (has_default d) x
                              | None => usages_value S None false x
                              end) -> ok u) as Hu.
      { intros u Hu. apply H. cbn [usages_value]. apply in_flat_map. exists (fn, fp, x). split; [exact Hx | exact Hu]. }
      rewrite (object_fields_spec S) in *.
      destruct e as [t'|]; [| apply (IH _ _ false false); [intros inner _ Hd; discriminate Hd | exact Hu]].
      unfold parent_body in *. destruct (raw_body S (unwrapped t')) as [[| | defs | | |]|] eqn:Eb;
        try (apply (IH _ _ false false); [intros inner _ Hd; discriminate Hd | exact Hu]).
      destruct (assoc fn defs) as [d|] eqn:Ed; [| apply (IH _ _ false false); [intros inner _ Hd; discriminate Hd | exact Hu]].
      apply (IH _ _ _ (has_default d)); [| exact Hu].
      intros inner Hi Hd. inversion Hi as [Hi']. apply (input_flags _ _ _ _ Eb Ed); [rewrite Hi'; reflexivity | exact Hd].
  Qed.
End Usage.

Section Trees.
  Variable S : schema.
  Variable F : features.
  Hypothesis no_typename_field : forall top, field_of_scope S F top n_typename = None.
  Notation qo := (q_unwrap_obj repaired).
  Hypothesis input_flags : forall tn defs n d, raw_body S tn = Some (TInput defs) -> assoc n defs = Some d -> flag_ok d.
  Hypothesis directive_flags : forall n dd a d, assoc n (s_directives S) = Some dd -> assoc a (dd_args dd) = Some d -> flag_ok d.
  Variable vars0 : list vardef.
  Notation vars := (map (ti_vardef qo S F) vars0).
  Notation E := (var_fe vars).
  Notation ok := (u_ok S F vars0).
  Notation P l := (primary l = []).

  Lemma args_usages_conv defs defs' dnil args :
    (forall n, lookup defs n = lookup defs' n) ->
    (forall n d, lookup defs n = Some d -> is_nonnull (in_type d) = true -> has_default d = true -> dnil (in_default d) = true) ->
    (forall u, In u (usages_args S defs' args) -> ok u) ->
    P (flat_map (col_arg E) (ti_args qo S defs dnil args)).
  Proof.
    intros Hl Hd H. rewrite ti_args_spec, fm_map, primary_flat_map. apply flat_map_nil_iff. intros a Ha.
    assert (forall u, In u (match lookup defs' (a_name a) with
                            | Some d => usages_value S (Some (in_type d)) (has_default d) (a_value a)
                            | None => usages_value S None false (a_value a)
                            end) -> ok u) as Hu.
    { intros u Hu. apply H. unfold usages_args. apply in_flat_map. exists a. split; [exact Ha | exact Hu]. }
    unfold col_arg. cbn [a_value]. fold (lookup defs (a_name a)). rewrite <- Hl in Hu.
    destruct (lookup defs (a_name a)) as [def|] eqn:El; unfold ti_value, col; rewrite vars_value_errs.
    - apply (value_usages_conv S F input_flags vars0 _ _ _ _ (has_default def)); [| exact Hu].
      intros inner Hi Hdf. inversion Hi as [Hi']. apply (Hd _ _ El); [rewrite Hi'; reflexivity | exact Hdf].
    - apply (value_usages_conv S F input_flags vars0 _ _ _ _ false); [intros inner _ Hdf; discriminate Hdf | exact Hu].
  Qed.

  Lemma dirs_usages_conv dirs :
    (forall u, In u (usages_dirs S dirs) -> ok u) -> P (flat_map (col_dir E) (map (ti_dir qo S) dirs)).
  Proof.
    intros H. rewrite fm_map, primary_flat_map. apply flat_map_nil_iff. intros d Hd.
    unfold col_dir, ti_dir. cbn [d_args d_name].
    apply (args_usages_conv _ _ dflt_is_value (d_args d) (fun n => eq_refl)).
    - intros n def Hl Hn Hdf. unfold lookup in Hl. destruct (assoc (d_name d) (s_directives S)) as [dd|] eqn:Edd; [| discriminate].
      apply (directive_flags _ _ _ _ Edd Hl Hn Hdf).
    - intros u Hu. apply H. unfold usages_dirs. apply in_flat_map. exists d. split; [exact Hd | exact Hu].
  Qed.

  Lemma sels_usages_conv :
    (forall s top, (forall u, In u (usages_sel S F top s) -> ok u) -> P (col E (tree_sel (pti_sel qo S F top s)))) /\
    (forall ss top, (forall u, In u (usages_ss S F top ss) -> ok u) -> P (col E (tree_ss (pti_ss qo S F top ss)))).
  Proof.
    apply sel_ss_ind.
    - intros a al n np args dirs sub IH top H. rewrite (pti_sel_field_eq qo S F top a al n np args dirs sub).
      rewrite (col_field E (var_fe_quiet vars)). rewrite !primary_app_nil. cbn [usages_sel] in H. split; [| split].
      + unfold field_args. apply (args_usages_conv _ _ dflt_not_nil args (field_lookup S F no_typename_field top n)).
        * intros n0 d _ _ Hdf. unfold has_default in Hdf. destruct (in_default d); [discriminate Hdf | reflexivity | reflexivity].
        * intros u Hu. apply H. apply in_or_app. left. exact Hu.
      + apply dirs_usages_conv. intros u Hu. apply H. apply in_or_app. right. apply in_or_app. left. exact Hu.
      + destruct sub as [ss|]; [| reflexivity]. apply (IH ss eq_refl). intros u Hu. apply H. apply in_or_app. right. apply in_or_app. right.
        rewrite sub_scope_field. exact Hu.
    - intros n np dirs e top H. cbn [pti_sel]. rewrite (col_spread E (var_fe_quiet vars)). cbn [var_fe app].
      apply dirs_usages_conv. intros u Hu. apply H. cbn [usages_sel]. exact Hu.
    - intros cond dirs sub e IH top H. rewrite (pti_sel_inline_eq qo S F top cond dirs sub e).
      rewrite (col_inline E (var_fe_quiet vars)). rewrite primary_app_nil. cbn [usages_sel] in H. split.
      + apply dirs_usages_conv. intros u Hu. apply H. apply in_or_app. left. exact Hu.
      + apply IH. intros u Hu. apply H. apply in_or_app. right. rewrite sub_scope_inline. exact Hu.
    - intros a sels p IH top H. rewrite pti_ss_eq, (col_ss E (var_fe_quiet vars)), fm_map, primary_flat_map. apply flat_map_nil_iff. intros s Hs.
      rewrite Forall_forall in IH. apply (IH s Hs top). intros u Hu. apply H. cbn [usages_ss]. apply in_flat_map. exists s. split; [exact Hs | exact Hu].
  Qed.

  Lemma def_usages_conv d :
    (forall u, In u (usages_def S F d) -> ok u) -> P (col E (tree_def (pti_def qo S F d))).
  Proof.
    intros H. rewrite (col_def E (var_fe_quiet vars)), def_dirs_pti, pti_def_sub, primary_app_nil. split.
    - apply dirs_usages_conv. intros u Hu. apply H. unfold usages_def. apply in_or_app. left. exact Hu.
    - apply (proj2 sels_usages_conv). intros u Hu. apply H. unfold usages_def. apply in_or_app. right. rewrite spec_def_scope_eq. exact Hu.
  Qed.
End Trees.

(** ** the names of the Spec's usages are among the variables the visitor meets *)
Section NamesConv.
  Variable S : schema.
  Variable F : features.
  Notation qo := (q_unwrap_obj repaired).
  Notation cn := (col var_fn).

  Lemma value_names_conv v : forall sc e d e' ds nm,
    In nm (map u_name (usages_value S e' ds v)) -> In nm (cn (tree_value (ti_value_in qo S sc e d v))).
  Proof.
    induction v as [a x dl np | | | | | | | a vs p IH | a fs p IH] using value_ind'; intros sc e d e' ds nm H;
      try (cbn in H; destruct H; fail).
    - rewrite ti_value_var. cbn [tree_value]. rewrite col_T. cbn [var_fn var_g flat_map]. rewrite (col_name _ fn_quiet). exact H.
    - rewrite ti_value_list. cbn [tree_value]. rewrite col_T. cbn [var_fn var_g app]. rewrite map_map, fm_map.
      cbn [usages_value] in H. rewrite map_fm in H. apply in_flat_map in H as [x [Hx H]]. rewrite Forall_forall in IH.
      apply in_flat_map. exists x. split; [exact Hx |]. apply (IH x Hx _ _ _ _ _ nm H).
    - rewrite ti_value_object. cbn [tree_value]. rewrite col_T. cbn [var_fn var_g app]. rewrite map_map, fm_map.
      cbn [usages_value] in H. rewrite map_fm in H. apply in_flat_map in H as [[[fn fp] x] [Hx H]]. rewrite Forall_forall in IH. specialize (IH _ Hx). cbn [snd] in IH.
      apply in_flat_map. exists (fn, fp, x). split; [exact Hx |].
      assert (forall sc1 e1 d1, In nm (cn (tree_value (ti_value_in qo S sc1 e1 d1 x))) ->
                                In nm (cn (T (NObjField fn fp (ti_value_in qo S sc1 e1 d1 x)) [name_tree (fn, fp); tree_value (ti_value_in qo S sc1 e1 d1 x)]))) as Hobj.
      { intros sc1 e1 d1 H0. rewrite col_T. cbn [var_fn var_g flat_map app]. rewrite (col_name _ fn_quiet), app_nil_r. exact H0. }
      unfold object_field.
      destruct (match object_fields qo S e with Some l => assoc fn l | None => None end); apply Hobj;
        (destruct (match match e' with Some t' => match parent_body S (unwrapped t') with Some (TInput ds0) => Some ds0 | _ => None end | None => None end with
                   | Some ds0 => assoc fn ds0 | None => None end); apply (IH _ _ _ _ _ nm H)).
  Qed.

  Lemma args_names_conv defs dnil defs' args n :
    In n (map u_name (usages_args S defs' args)) -> In n (flat_map (col_arg var_fn) (ti_args qo S defs dnil args)).
  Proof.
    intros H. rewrite ti_args_spec, fm_map. unfold usages_args in H. rewrite map_fm in H. apply in_flat_map in H as [a [Ha H]].
    apply in_flat_map. exists a. split; [exact Ha |]. unfold col_arg. cbn [a_value].
    destruct (match defs with Some l => assoc (a_name a) l | None => None end); unfold ti_value;
      (destruct (match defs' with Some ds => assoc (a_name a) ds | None => None end); apply (value_names_conv _ _ _ _ _ _ n H)).
  Qed.

  Lemma dirs_names_conv dirs n :
    In n (map u_name (usages_dirs S dirs)) -> In n (flat_map (col_dir var_fn) (map (ti_dir qo S) dirs)).
  Proof.
    intros H. rewrite fm_map. unfold usages_dirs in H. rewrite map_fm in H. apply in_flat_map in H as [d [Hd H]].
    apply in_flat_map. exists d. split; [exact Hd |]. unfold col_dir, ti_dir. cbn [d_args]. apply (args_names_conv _ _ _ _ n H).
  Qed.

  Lemma sels_names_conv :
    (forall s top n, In n (map u_name (usages_sel S F top s)) -> In n (cn (tree_sel (pti_sel qo S F top s)))) /\
    (forall ss top n, In n (map u_name (usages_ss S F top ss)) -> In n (cn (tree_ss (pti_ss qo S F top ss)))).
  Proof.
    apply sel_ss_ind.
    - intros a al f np args dirs sub IH top n H. rewrite (pti_sel_field_eq qo S F top a al f np args dirs sub).
      rewrite (col_field _ fn_quiet). cbn [usages_sel] in H. rewrite !map_app in H.
      apply in_app_or in H as [H | H]; [| apply in_app_or in H as [H | H]]; apply in_or_app.
      + left. unfold field_args. apply (args_names_conv _ _ _ _ n H).
      + right. apply in_or_app. left. apply (dirs_names_conv dirs n H).
      + right. apply in_or_app. right. destruct sub as [ss|]; [| destruct H]. rewrite sub_scope_field in H. apply (IH ss eq_refl _ n H).
    - intros f np dirs e top n H. cbn [pti_sel]. rewrite (col_spread _ fn_quiet). cbn [var_fn app]. cbn [usages_sel] in H. apply (dirs_names_conv dirs n H).
    - intros cond dirs sub e IH top n H. rewrite (pti_sel_inline_eq qo S F top cond dirs sub e).
      rewrite (col_inline _ fn_quiet). cbn [usages_sel] in H. rewrite map_app in H. apply in_or_app.
      apply in_app_or in H as [H | H]; [left; apply (dirs_names_conv dirs n H) | right]. rewrite sub_scope_inline in H. apply (IH _ n H).
    - intros a sels p IH top n H. rewrite pti_ss_eq, (col_ss _ fn_quiet), fm_map. cbn [usages_ss] in H. rewrite map_fm in H. apply in_flat_map in H as [s [Hs H]].
      apply in_flat_map. exists s. split; [exact Hs |]. rewrite Forall_forall in IH. apply (IH s Hs top n H).
  Qed.

  Lemma def_names_conv d n :
    In n (map u_name (usages_def S F d)) -> In n (flat_map var_fn (vnodes var_g (tree_def (pti_def qo S F d)))).
  Proof.
    intros H. change (In n (cn (tree_def (pti_def qo S F d)))).
    rewrite (col_def _ fn_quiet), def_dirs_pti, pti_def_sub. unfold usages_def in H. rewrite map_app in H. apply in_or_app.
    apply in_app_or in H as [H | H]; [left; apply (dirs_names_conv _ n H) | right]. rewrite spec_def_scope_eq in H. apply (proj2 sels_names_conv _ _ n H).
  Qed.
End NamesConv.

Lemma primary_nil_iff l : primary l = [] <-> forall e, In e l -> e_sec e = true.
Proof.
  unfold primary. split.
  - intros H e He. destruct (e_sec e) eqn:Es; [reflexivity |]. assert (In e (filter (fun e => negb (e_sec e)) l)) as Hin by (apply filter_In; rewrite Es; auto).
    rewrite H in Hin. destruct Hin.
  - intros H. induction l as [|x l IH]; [reflexivity |]. simpl. rewrite (H x (or_introl eq_refl)). simpl. apply IH. intros e He. apply H. right. exact He.
Qed.

(** the work list: where its errors come from, with the fragments it has visited *)
Lemma worklist_val_mono pi D vars fuel : forall st st', vars_worklist pi D fuel vars st = Some st' -> incl (v_val st) (v_val st').
Proof.
  induction fuel as [|fuel IH]; intros st st' H; rewrite worklist_unfold in H; [discriminate |].
  destruct (pi name (v_unval st)) as [|n r]; [inversion H; subst; apply incl_refl |].
  intros x Hx. apply (IH _ _ H). unfold pick. rewrite vfold_val. cbn [v_val]. right. exact Hx.
Qed.
Lemma worklist_errs_val pi D vars fuel : forall st st',
  vars_worklist pi D fuel vars st = Some st' ->
  forall e, In e (v_errs st') -> In e (v_errs st) \/ exists x, In x (v_val st') /\ In e (flat_map (var_fe vars) (body D x)).
Proof.
  induction fuel as [|fuel IH]; intros st st' H e He; rewrite worklist_unfold in H; [discriminate |].
  destruct (pi name (v_unval st)) as [|n r]; [inversion H; subst; left; exact He |].
  destruct (IH _ _ H e He) as [Hin | Hx]; [| right; exact Hx].
  unfold pick in Hin. rewrite vfold_errs in Hin. cbn [v_errs] in Hin. apply in_app_or in Hin as [Hin | Hin]; [left; exact Hin |].
  right. exists n. split; [| exact Hin]. apply (worklist_val_mono _ _ _ _ _ _ H). unfold pick. rewrite vfold_val. left. reflexivity.
Qed.

Lemma find_var_some n vars : In n (map vd_name vars) -> exists vd, find_var n vars = Some vd.
Proof.
  induction vars as [|v r IH]; [intros [] |]. cbn [map find_var]. intros [<- | H].
  - rewrite name_eqb_refl. eexists; reflexivity.
  - destruct (name_eqb n (vd_name v)); [eexists; reflexivity | apply IH; exact H].
Qed.

Lemma vardefs_loop_conv S vars :
  NoDup (map vd_name vars) ->
  (forall v, In v vars -> exists t b, vd_ann v = Some t /\ raw_body S (unwrapped t) = Some b /\ is_input_body b = true) ->
  forall seen, (forall v, In v vars -> ~ In (vd_name v) seen) -> vardefs_loop S vars seen = [].
Proof.
  induction vars as [|v r IH]; intros Hnd Ht seen Hs; [reflexivity |]. cbn [vardefs_loop]. cbn [map] in Hnd. inversion Hnd as [| ? ? Hni Hnd']; subst.
  assert (mem (vd_name v) seen = false) as -> by (apply mem_false; apply Hs; left; reflexivity).
  destruct (Ht v (or_introl eq_refl)) as [t [b [E1 [E2 E3]]]]. rewrite E1, E2, E3. cbn [app].
  apply IH; [exact Hnd' | intros w Hw; apply Ht; right; exact Hw |].
  intros w Hw [Heq | Hin]; [apply Hni; rewrite Heq; apply in_map; exact Hw | apply (Hs w (or_intror Hw) Hin)].
Qed.

Section Final.
  Variable pi : order.
  Hypothesis Hpi : order_ok pi.
  Variable S : schema.
  Variable F : features.
  Variable D : document.
  Notation qo := (q_unwrap_obj repaired).
  Notation A := (pti_doc qo S F D).
  Hypothesis no_typename_field : forall top, field_of_scope S F top n_typename = None.
  Hypothesis input_flags : forall tn defs n d, raw_body S tn = Some (TInput defs) -> assoc n defs = Some d -> flag_ok d.
  Hypothesis directive_flags : forall n dd a d, assoc n (s_directives S) = Some dd -> assoc a (dd_args dd) = Some d -> flag_ok d.
  Hypothesis names_unique : NoDup (frag_names D).
  Hypothesis H581 : valid_5_8_1 D = true.
  Hypothesis H582 : valid_5_8_2 S F D = true.
  Hypothesis H583 : valid_5_8_3 S F D = true.
  Hypothesis H584 : valid_5_8_4 S F D = true.
  Hypothesis H585 : valid_5_8_5 S F D = true.

  Lemma op_usages_valid ot n vars0 dirs sub :
    In (DOp ot n vars0 dirs sub) D -> forall u, In u (op_usages S F D (DOp ot n vars0 dirs sub)) -> u_ok S F vars0 u.
  Proof.
    intros Hd u Hu.
    unfold valid_5_8_3 in H583. rewrite forallb_forall in H583. specialize (H583 _ Hd). cbn beta iota in H583. rewrite forallb_forall in H583.
    specialize (H583 u Hu). apply mem_in in H583. destruct (find_var_some _ _ H583) as [vd Hf]. exists vd. split; [exact Hf |].
    destruct (find_var_in _ _ _ Hf) as [Hin _].
    assert (In vd (all_vardefs D)) as Hall by (unfold all_vardefs; apply in_flat_map; exists (DOp ot n vars0 dirs sub); auto).
    unfold valid_5_8_2 in H582. rewrite forallb_forall in H582. specialize (H582 vd Hall).
    destruct (declared_type S F (vd_type vd)) as [vt|] eqn:Evt; [| discriminate]. exists vt. split; [reflexivity |].
    intros lt Elt. unfold valid_5_8_5 in H585. rewrite forallb_forall in H585. specialize (H585 _ Hd). cbn beta iota in H585. rewrite forallb_forall in H585.
    specialize (H585 u Hu). rewrite Hf, Elt, Evt, H582 in H585. exact H585.
  Qed.

  Lemma op_vardefs_fine ot n vars0 dirs sub :
    In (DOp ot n vars0 dirs sub) D -> vardefs_loop S (map (ti_vardef qo S F) vars0) [] = [].
  Proof.
    intros Hd. apply vardefs_loop_conv.
    - rewrite map_map. change (map (fun x => vd_name (ti_vardef qo S F x)) vars0) with (map vd_name vars0).
      unfold valid_5_8_1 in H581. rewrite forallb_forall in H581. specialize (H581 _ Hd). apply nodupb_NoDup. exact H581.
    - intros v Hv. apply in_map_iff in Hv as [v0 [<- Hv0]]. cbn [vd_ann ti_vardef].
      assert (In v0 (all_vardefs D)) as Hall by (unfold all_vardefs; apply in_flat_map; exists (DOp ot n vars0 dirs sub); auto).
      unfold valid_5_8_2 in H582. rewrite forallb_forall in H582. specialize (H582 v0 Hall). rewrite schema_type_declared.
      destruct (declared_type S F (vd_type v0)) as [t|]; [| discriminate]. unfold input_type, type_of in H582.
      destruct (named_type S F (unwrapped t)) as [b|] eqn:Eb; [| discriminate]. exists t, b. split; [reflexivity |].
      split; [apply (ProofsFields.named_type_raw S F _ _ Eb) | exact H582].
    - intros v _ [].
  Qed.

  Theorem variables_valid_no_primary errs : rule_variables pi S A = Done errs -> primary errs = [].
  Proof.
    unfold rule_variables. intros H. apply finish_done_inv in H. subst errs.
    assert (forall l st, incl l A -> primary (r_errs st) = [] -> primary (r_errs (fold_left (vars_op pi S A) l st)) = []) as Hfold.
    { induction l as [|d' l IH]; intros st Hl Hst; [exact Hst |]. cbn [fold_left]. apply IH; [intros x Hx; apply Hl; right; exact Hx |].
      pose proof (Hl d' (or_introl eq_refl)) as Hd'. pose proof Hd' as Hd''. unfold pti_doc in Hd'. apply in_map_iff in Hd' as [d [Ed Hd]]. subst d'.
      destruct d as [ot n vars0 dirs sub | kw n np cond dirs sub]; [| exact Hst].
      cbn [pti_def] in *. unfold vars_op. rewrite vars_inspect. change {| v_errs := []; v_enc := []; v_unval := []; v_val := [] |} with vst0.
      set (vars := map (ti_vardef qo S F) vars0) in *. set (d' := DOp ot n vars (map (ti_dir qo S) dirs) (pti_ss qo S F (op_scope S ot) sub)) in *.
      assert (d' = pti_def qo S F (DOp ot n vars0 dirs sub)) as Ed' by reflexivity.
      fold (body0 d').
      destruct (worklist_spec A vars d' Hd'' pi Hpi (graph_fuel A) _ (inv_init A vars d')) as [st' [E [I Hu]]].
      { assert (v_val (fold_left (vstep vars) (body0 d') vst0) = []) as -> by (rewrite vfold_val; reflexivity). unfold graph_fuel. simpl. lia. }
      rewrite E. unfold vars. rewrite (op_vardefs_fine ot n vars0 dirs sub Hd). fold vars. cbn [r_errs add_errs]. rewrite app_nil_r.
      apply primary_app_nil. split; [exact Hst |]. apply primary_app_nil. split.
      - (* usage errors *)
        apply primary_nil_iff. intros e He.
        destruct (worklist_errs_val pi A vars _ _ _ E e He) as [Hin | [x [Hx Hin]]].
        + rewrite vfold_errs in Hin. cbn [v_errs vst0 app] in Hin. unfold body0 in Hin. rewrite Ed' in Hin.
          assert (primary (col (var_fe vars) (tree_def (pti_def qo S F (DOp ot n vars0 dirs sub)))) = []) as Hp.
          { apply (def_usages_conv S F no_typename_field input_flags directive_flags vars0). intros u Hu'.
            apply (op_usages_valid ot n vars0 dirs sub Hd). unfold op_usages. apply in_or_app. left. exact Hu'. }
          apply (proj1 (primary_nil_iff _) Hp e Hin).
        + pose proof (inv_reached A vars d' st' I x (or_introl Hx)) as Hr. rewrite Ed' in Hr.
          destruct (body_spec S F D names_unique x) as [[fd [Ef Eb]] | Eb]; [| rewrite Eb in Hin; destruct Hin].
          rewrite Eb in Hin.
          assert (In x (op_fragments D (DOp ot n vars0 dirs sub))) as Hof.
          { apply spec_op_fragments. rewrite spreads_of_def_sp. apply (reached_spec S F D names_unique _ x Hr). }
          assert (primary (col (var_fe vars) (tree_def (pti_def qo S F fd))) = []) as Hp.
          { apply (def_usages_conv S F no_typename_field input_flags directive_flags vars0). intros u Hu'.
            apply (op_usages_valid ot n vars0 dirs sub Hd). unfold op_usages. apply in_or_app. right.
            apply in_flat_map. exists x. split; [exact Hof | rewrite Ef; exact Hu']. }
          apply (proj1 (primary_nil_iff _) Hp e Hin).
      - (* every variable is used *)
        assert (flat_map (fun v => if mem (vd_name v) (v_enc st') then [] else [err EVarUnused (vd_dollar v)]) vars = []) as ->; [| reflexivity].
        apply flat_map_nil_iff. intros v Hv. apply in_map_iff in Hv as [v0 [<- Hv0]]. change (vd_name (ti_vardef qo S F v0)) with (vd_name v0).
        assert (In (vd_name v0) (v_enc st')) as Hin; [| apply mem_in in Hin; rewrite Hin; reflexivity].
        unfold valid_5_8_4 in H584. rewrite forallb_forall in H584. specialize (H584 _ Hd). cbn beta iota in H584. rewrite forallb_forall in H584.
        specialize (H584 v0 Hv0). apply mem_in in H584. unfold op_usages in H584. rewrite map_app in H584.
        apply (inv_enc A vars d' st' I). apply in_app_or in H584 as [H4 | H4].
        + left. unfold body0. rewrite Ed'. apply (def_names_conv S F _ _ H4).
        + right. rewrite map_fm in H4. apply in_flat_map in H4 as [x [Hx H4]]. destruct (fragment D x) as [fd|] eqn:Ef; [| destruct H4].
          exists x. split.
          * apply (inv_final A vars d' st' I Hu). rewrite Ed'. apply (spec_fragments_reached S F D names_unique _ x Hx).
          * rewrite (spec_fragment_body S F D names_unique x fd Ef). apply (def_names_conv S F _ _ H4). }
    apply (Hfold A rst0 (incl_refl A)). reflexivity.
  Qed.
End Final.
