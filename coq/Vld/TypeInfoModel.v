(** * Vld/TypeInfoModel.v — graphql/validator/type_info.go: NewTypeInfo.

    The Go function walks the document with [ast.Inspect], keeping a stack of selection-set scopes
    (one entry pushed per node entered, popped on leave) and filling five pointer-keyed maps.  Here
    the maps are the slots of the nodes themselves, the traversal is the structural recursion that
    follows Inspect's child order, and the stack is passed down explicitly: entering a node conses
    its scope, returning from the recursion is the pop.  [selectionSetScopes[len-1]] on an empty
    stack is the explicit result [None] (= panic site [PScopeStack]).

    quirk [q_unwrap_obj] = true: the repaired code (an object literal looks through list wrappers
    for its input object type); false: the code before the repair (NullableType only). *)
From Coq Require Import List NArith Bool String.
From ApiFu Require Import Base.Sexp Vld.Ast.
Import ListNotations.

Definition n_query := bs "query"%string.
Definition n_mutation := bs "mutation"%string.
Definition n_subscription := bs "subscription"%string.
Definition n_typename := bs "__typename"%string.
Definition n_String := bs "String"%string.

Definition scope := option name.

Section TypeInfo.
  Variable q_unwrap_obj : bool.
  Variable S : schema.
  Variable F : features.

  Definition dflt_not_nil (d : dflt) : bool := match d with DNone => false | _ => true end.
  Definition dflt_is_value (d : dflt) : bool := match d with DValue => true | _ => false end.

  Definition set_ann (a : vann) (v : value) : value :=
    match v with
    | VVar _ n d p => VVar a n d p
    | VInt _ l p => VInt a l p
    | VFloat _ l p => VFloat a l p
    | VString _ s p => VString a s p
    | VBool _ b p => VBool a b p
    | VNull _ p => VNull a p
    | VEnum _ n p => VEnum a n p
    | VList _ vs p => VList a vs p
    | VObject _ fs p => VObject a fs p
    end.

  (** the input object type an ObjectValue with expected type [e] takes its fields from *)
  Definition object_fields (e : option sty) : option (list (name * input_def)) :=
    match e with
    | None => None
    | Some t =>
        let tn := if q_unwrap_obj then Some (unwrapped t)
                  else match nullable t with StNamed n => Some n | _ => None end in
        match tn with
        | Some n => match raw_body S n with Some (TInput fs) => Some fs | _ => None end
        | None => None
        end
    end.

  (** isScalarLiteral: the literal is nested in a literal given for a scalar ([sc]) or is itself
      given for one *)
  Definition scalar_expected (e : option sty) : bool :=
    match e with
    | Some t => match raw_body S (unwrapped t) with Some (TScalar _) => true | _ => false end
    | None => false
    end.

  (** a value whose ExpectedTypes / DefaultValues / ScalarLiteralValues entries are ([e], [d],
      [sc]) — set by its parent — together with everything beneath it *)
  Fixpoint ti_value_in (sc : bool) (e : option sty) (d : bool) (v : value) : value :=
    let a := {| va_expected := e; va_default := d; va_scalar := sc |} in
    match v with
    | VList _ vs p =>
        let item := match e with
                    | Some t => match nullable t with StList t' => Some t' | _ => None end
                    | None => None
                    end in
        let sc' := match item with Some _ => false | None => sc || scalar_expected e end in
        VList a (map (ti_value_in sc' item false) vs) p
    | VObject _ fs p =>
        let defs := object_fields e in
        let sc' := match defs with Some _ => false | None => sc || scalar_expected e end in
        VObject a
          (map (fun f => match f with
                         | (n, np, x) =>
                             match match defs with Some l => assoc n l | None => None end with
                             | Some def => (n, np, ti_value_in false (Some (in_type def)) (dflt_is_value (in_default def)) x)
                             | None => (n, np, ti_value_in sc' None false x)
                             end
                         end) fs) p
    | _ => set_ann a v
    end.
  (** a value that is not nested in a literal *)
  Definition ti_value (e : option sty) (d : bool) (v : value) : value := ti_value_in false e d v.

  (** arguments of a directive or field whose definition has [defs] ([None]: no definition found);
      [dnil] says when DefaultValues gets a non-nil entry *)
  Definition ti_args (defs : option (list (name * input_def))) (dnil : dflt -> bool)
             (args : list argument) : list argument :=
    map (fun a =>
           match match defs with Some l => assoc (a_name a) l | None => None end with
           | Some def => {| a_name := a_name a; a_pos := a_pos a;
                            a_value := ti_value (Some (in_type def)) (dnil (in_default def)) (a_value a) |}
           | None => {| a_name := a_name a; a_pos := a_pos a; a_value := ti_value None false (a_value a) |}
           end) args.

  Definition ti_dir (d : directive) : directive :=
    {| d_name := d_name d; d_npos := d_npos d; d_at := d_at d;
       d_args := ti_args (match assoc (d_name d) (s_directives S) with
                          | Some dd => Some (dd_args dd) | None => None end)
                         dflt_is_value (d_args d) |}.

  (** the field definition a Field node named [n] gets beneath scope [top] *)
  Definition field_of_scope (top : scope) (n : name) : option field_def :=
    match top with
    | None => None
    | Some tn =>
        match raw_body S tn with
        | Some (TInterface fields) => get_field F fields n
        | Some (TObject fields _) =>
            match get_field F fields n with
            | Some f => Some f
            | None => if name_eqb tn (s_query S) then assoc n (s_meta S) else None
            end
        | _ => None
        end
    end.

  Definition seq_opt {A} (l : list (option A)) : option (list A) :=
    fold_right (fun x acc => match x, acc with Some a, Some r => Some (a :: r) | _, _ => None end) (Some []) l.

  (** [stack]: selectionSetScopes when the node is entered *)
  Fixpoint ti_sel (stack : list scope) (s : selection) : option selection :=
    match s with
    | SField _ alias n np args dirs sub =>
        match stack with
        | [] => None
        | top :: _ =>
            let fd := field_of_scope top n in
            let sc : scope := match fd with Some f => Some (unwrapped (f_type f)) | None => None end in
            let args' := ti_args (match fd with Some f => Some (f_args f) | None => None end) dflt_not_nil args in
            match sub with
            | None => Some (SField fd alias n np args' (map ti_dir dirs) None)
            | Some ss => match ti_ss (sc :: stack) ss with
                         | Some ss' => Some (SField fd alias n np args' (map ti_dir dirs) (Some ss'))
                         | None => None
                         end
            end
        end
    | SSpread n np dirs e => Some (SSpread n np (map ti_dir dirs) e)
    | SInline cond dirs sub e =>
        let osc : option scope :=
          match cond with
          | None => match stack with [] => None | top :: _ => Some top end
          | Some (tn, _) => Some (match named_type S F tn with Some _ => Some tn | None => None end)
          end in
        match osc with
        | None => None
        | Some sc =>
            match ti_ss (sc :: stack) sub with
            | Some ss' => Some (SInline cond (map ti_dir dirs) ss' e)
            | None => None
            end
        end
    end
  with ti_ss (stack : list scope) (s : selset) : option selset :=
    match s with
    | SelSet _ sels p =>
        match stack with
        | [] => None
        | top :: _ =>
            (* if t != nil { SelectionSetTypes[node] = t; scope = t } *)
            match seq_opt (map (ti_sel (top :: stack)) sels) with
            | Some sels' => Some (SelSet top sels' p)
            | None => None
            end
        end
    end.

  (** schemaType *)
  Fixpoint schema_type (t : ty) : option sty :=
    match t with
    | TNamed n _ => match named_type S F n with Some _ => Some (StNamed n) | None => None end
    | TList t' _ => match schema_type t' with Some x => Some (StList x) | None => None end
    | TNonNull t' => match schema_type t' with Some x => Some (StNonNull x) | None => None end
    end.

  Definition ti_vardef (v : vardef) : vardef :=
    let t := schema_type (vd_type v) in
    {| vd_ann := t; vd_name := vd_name v; vd_dollar := vd_dollar v; vd_npos := vd_npos v;
       vd_type := vd_type v;
       vd_default := match vd_default v with
                     | Some x => Some (ti_value t false x)
                     | None => None
                     end |}.

  Definition ti_def (stack : list scope) (d : definition) : option definition :=
    match d with
    | DOp ot n vars dirs sub =>
        let sc : scope :=
          match ot with
          | None => Some (s_query S)
          | Some (v, _) =>
              if name_eqb v n_query then Some (s_query S)
              else if name_eqb v n_mutation then s_mutation S
              else if name_eqb v n_subscription then s_subscription S
              else None
          end in
        match ti_ss (sc :: stack) sub with
        | Some sub' => Some (DOp ot n (map ti_vardef vars) (map ti_dir dirs) sub')
        | None => None
        end
    | DFrag kw n np cond dirs sub =>
        let sc : scope := match named_type S F (fst cond) with Some _ => Some (fst cond) | None => None end in
        match ti_ss (sc :: stack) sub with
        | Some sub' => Some (DFrag kw n np cond (map ti_dir dirs) sub')
        | None => None
        end
    end.

  (** the Document node itself pushes the first (nil) scope *)
  Definition type_info (D : document) : option document :=
    seq_opt (map (ti_def [None]) D).
End TypeInfo.
