(** * Vld/ProofsSpreadsSpec.v — 5.5.2.3 (a fragment spread must be possible) in the Spec's
    formulation, for a document on which validateFragmentSpreads is silent.  The validator looks the
    implementations of an interface up in Schema.InterfaceImplementations, the Spec among the
    object types that declare it: [schema_impls_ok] says the two agree. *)
From Coq Require Import List NArith Arith Bool Lia.
From ApiFu Require Import Base.Sexp Vld.Ast Vld.AstInd Vld.Inspect Vld.InspectProofs Vld.TypeInfoModel Vld.TypeInfoPure Vld.Enumerate
     Vld.SpecEnum Vld.ValidatorModel Vld.ValidSpec Vld.Hyps Vld.ProofsCommon Vld.ProofsCycles Vld.ProofsDirectives Vld.ProofsFragDecl Vld.ProofsOrder
     Vld.ProofsFields Vld.ProofsSpreads Vld.ProofsSpecReach Vld.ProofsVarsSpec Vld.ProofsSecondary Vld.ProofsSecondaryRules.
Import ListNotations.

Section Possible.
  Variable S : schema.
  Variable F : features.
  Hypothesis Himpl : schema_impls_ok S = true.

  Lemma types_nodup : NoDup (map fst (s_types S)).
  Proof. pose proof Himpl as Hi. unfold schema_impls_ok in Hi. apply andb_true_iff in Hi as [H _]. apply nodupb_NoDup. exact H. Qed.

  Lemma possible_agree n l : possible_types repaired S F n = Some l -> forall x, In x l <-> In x (possible S F n).
  Proof.
    unfold possible_types, possible, parent_body, raw_body, raw_type.
    destruct (assoc n (s_types S)) as [td|] eqn:Et; [| discriminate]. pose proof (assoc_in _ _ _ Et) as Hin.
    destruct (t_body td) as [| | | fs ifs | fs | ms] eqn:Eb; try discriminate.
    - intros H x. inversion H; subst. tauto.
    - intros H x. inversion H; subst l. clear H.
      pose proof Himpl as Hi. unfold schema_impls_ok in Hi. apply andb_true_iff in Hi as [_ Hall]. rewrite forallb_forall in Hall.
      specialize (Hall (n, td) Hin). cbn [fst snd] in Hall. rewrite Eb in Hall. apply andb_true_iff in Hall as [H1 H2].
      rewrite forallb_forall in H1, H2. fold (impls_of S n). rewrite filter_In, in_flat_map. split.
      + intros [Hx Hv]. specialize (H1 x Hx). unfold raw_body, raw_type in H1. destruct (assoc x (s_types S)) as [dx|] eqn:Ex; [| discriminate].
        exists (x, dx). split; [apply assoc_in; exact Ex |]. cbn [fst snd]. destruct (t_body dx) as [| | | fsx ifsx | |]; try discriminate.
        rewrite H1. unfold impl_visible in Hv. cbn [q_impl_features repaired] in Hv. unfold raw_type in Hv. rewrite Ex in Hv. rewrite Hv. left. reflexivity.
      + intros [[x' dx] [Hx' Hx]]. cbn [fst snd] in Hx. destruct (t_body dx) as [| | | fsx ifsx | |] eqn:Ebx; try destruct Hx.
        destruct (mem n ifsx) eqn:Em; [| destruct Hx]. destruct (subset (t_req dx) F) eqn:Es; [| destruct Hx]. destruct Hx as [<- | []].
        specialize (H2 (x', dx) Hx'). cbn [fst snd] in H2. rewrite Ebx, Em in H2. split; [apply mem_in; exact H2 |].
        unfold impl_visible. cbn [q_impl_features repaired]. unfold raw_type.
        pose proof (nodup_assoc (s_types S) (x', dx) types_nodup Hx') as Ea. cbn [fst snd] in Ea. rewrite Ea. exact Es.
    - intros H x. inversion H; subst. tauto.
  Qed.

  (** what the visitor says of one type condition under one parent type *)
  Lemma vs_errs_applicable pi (Hpi : order_ok pi) c cp pn :
    vs_errs pi S F (c, cp) (Some pn) = [] -> applicable S F pn c = true.
  Proof.
    unfold vs_errs, validate_spread, applicable, type_of, composite, parent_body. cbn [q_leaf_parent repaired andb fst snd].
    unfold is_composite_name. destruct (raw_body S pn) as [bp|] eqn:Ep; [| discriminate].
    destruct (is_composite_body bp) eqn:Ecp; [| discriminate]. cbn [negb].
    destruct (named_type S F c) as [b|] eqn:Ec; [| reflexivity].
    destruct (is_composite_body b) eqn:Ecb; [| reflexivity]. cbn [andb].
    pose proof (ProofsFields.named_type_raw S F c b Ec) as Erc.
    destruct (possible_types repaired S F c) as [a|] eqn:Pa.
    2:{ unfold possible_types in Pa. rewrite Erc in Pa. destruct b; discriminate. }
    destruct (possible_types repaired S F pn) as [b'|] eqn:Pb.
    2:{ unfold possible_types in Pb. rewrite Ep in Pb. destruct bp; discriminate. }
    destruct (existsb (fun k => mem k b') (pi name a)) eqn:Ee; [| discriminate]. intros _.
    apply existsb_exists in Ee as [k [Hk Hm]]. apply (proj1 (order_in pi Hpi _ _)) in Hk. apply mem_in in Hm.
    apply existsb_exists. exists k. split; [apply (possible_agree pn b' Pb); exact Hm | apply mem_in; apply (possible_agree c a Pa); exact Hk].
  Qed.
End Possible.

(** the Spec's spread occurrences, selection by selection *)
Definition sp_occ (o : scope * selection) : list spread_occ :=
  match snd o with
  | SSpread n p _ _ => [SpreadOcc (fst o) n p]
  | SInline (Some (c, p)) _ _ _ => [InlineOcc (fst o) c p]
  | _ => []
  end.

Lemma spreads_enum S F :
  (forall s parent, spreads_sel S F parent s = flat_map sp_occ (ssels_sel S F parent s)) /\
  (forall ss parent, spreads_ss S F parent ss = flat_map sp_occ (ssels_ss S F parent ss)).
Proof.
  apply sel_ss_ind.
  - intros a al n np args dirs sub IH parent. destruct sub as [ss|]; cbn [spreads_sel ssels_sel flat_map sp_occ snd app]; [| reflexivity].
    rewrite sub_scope_field. apply (IH ss eq_refl).
  - intros n np dirs e parent. reflexivity.
  - intros cond dirs sub e IH parent. cbn [spreads_sel ssels_sel flat_map]. rewrite sub_scope_inline, IH.
    destruct cond as [[c p]|]; reflexivity.
  - intros a sels p IH parent. cbn [spreads_ss]. rewrite ssels_ss_eq, fm_fm.
    induction IH as [|s l Hs _ IHl]; [reflexivity |]. cbn [flat_map]. rewrite Hs, IHl. reflexivity.
Qed.

(** ** 5.5.2.3 *)
Theorem spreads_silent_5_5_2_3 pi S F D :
  order_ok pi -> schema_impls_ok S = true -> valid_5_5_1_1 D = true ->
  rule_fragment_spreads repaired pi S F (pti_doc (q_unwrap_obj repaired) S F D) = Done [] ->
  valid_5_5_2_3 S F D = true.
Proof.
  intros Hpi Himpl Hnd H. apply nodupb_NoDup in Hnd.
  rewrite rule_fragment_spreads_eq, finish_clean in H. destruct H as [He _].
  rewrite (spreads_pass_errors pi S F D) in He by apply cycle_fold_stack.
  apply app_eq_nil in He as [_ He].
  unfold valid_5_5_2_3. apply forallb_forall. intros o Ho. unfold all_spreads in Ho.
  apply in_flat_map in Ho as [d [Hd Ho]]. rewrite spec_def_scope_eq, (proj2 (spreads_enum S F)) in Ho.
  apply in_flat_map in Ho as [[sc s0] [Hin Ho]].
  rewrite flat_map_nil_iff in He. specialize (He d Hd). rewrite flat_map_nil_iff in He. specialize (He _ Hin). cbn [fst snd] in He.
  unfold sp_occ in Ho. cbn [fst snd] in Ho.
  destruct s0 as [a0 al0 n0' np0' args0 dirs0' sub0' | fname np dirs e | [[c cp]|] dirs sub e]; [destruct Ho | destruct Ho as [<- | []] | destruct Ho as [<- | []] | destruct Ho].
  - (* a spread *)
    destruct sc as [parent|]; [| reflexivity].
    destruct (fragment D fname) as [[| kw n0 np0 [c cp] dirs0 sub0]|] eqn:Ef; try reflexivity.
    unfold fragment in Ef. apply (frag_first_last D Hnd) in Ef.
    change (pti_sel (q_unwrap_obj repaired) S F (Some parent) (SSpread fname np dirs e))
      with (SSpread fname np (map (ti_dir (q_unwrap_obj repaired) S) dirs) e) in He.
    cbn [sp_ev1] in He. rewrite frag_last_pti, Ef in He. cbn [option_map pti_def] in He.
    apply (vs_errs_applicable S F Himpl pi Hpi c cp parent He).
  - (* an inline fragment with a type condition *)
    destruct sc as [parent|]; [| reflexivity].
    rewrite pti_sel_inline_eq in He. cbn [sp_ev1] in He.
    apply (vs_errs_applicable S F Himpl pi Hpi c cp parent He).
Qed.

(** ** the converse: 5.5.2.1 – 5.5.2.3 in the Spec's formulation leave validateFragmentSpreads without
    a primary error *)
Section Converse.
  Variable pi : order.
  Hypothesis Hpi : order_ok pi.
  Variable S : schema.
  Variable F : features.
  Variable D : document.
  Notation qo := (q_unwrap_obj repaired).
  Notation A := (pti_doc qo S F D).
  Hypothesis Himpl : schema_impls_ok S = true.
  Hypothesis names_unique : NoDup (frag_names D).

  Lemma model_edge_spec x y : edge A x y -> In y (spreads_of D x).
  Proof.
    unfold edge, direct_deps. rewrite frag_last_pti. destruct (frag_last D x) as [d|] eqn:El; [| intros []].
    cbn [option_map]. unfold deps_of_def. intros H.
    apply (inspect_set spread_name_of deps_enter deps_enter_desc deps_enter_in) in H as [[] | [m [Hm Hy]]].
    destruct m as [?|?|? ?|? ?|?|?|?|?|s|?|?|? ? ?]; try (destruct Hy; fail). destruct s as [| f np dirs e |]; try (destruct Hy; fail). destruct Hy as [<- | []].
    apply def_nodes in Hm as [Hm | Hm].
    - apply def_own_nodes_minor in Hm as [Hm | Hm]; discriminate.
    - rewrite pti_def_sub in Hm. apply (proj2 (sel_nodes qo S F)) in Hm as [sc [s0 [Hin Heq]]].
      destruct s0 as [| f0 np0 dirs0 e0 |]; try discriminate Heq. cbn [pti_sel] in Heq. inversion Heq; subst f0 np0 e0.
      unfold spreads_of. rewrite (frag_last_first D names_unique x d El).
      apply in_flat_map. exists (SSpread f np dirs0 e). split; [| left; reflexivity].
      rewrite <- (proj2 (ssels_sels S F) (def_sub d) (model_def_scope S F d)). apply (in_map snd) in Hin. exact Hin.
  Qed.

  Lemma model_cycle_spec n : (exists x, ProofsCycles.reach A n x /\ edge A x n) -> In n (reachable_from D n).
  Proof.
    intros [x [Hr He]]. apply spec_reachable_from.
    assert (forall z, ProofsCycles.reach A n z -> n = z \/ plus (spreads_of D) n z) as Hrp.
    { intros z Hz. induction Hz as [| u v _ IH Huv]; [left; reflexivity | right].
      apply model_edge_spec in Huv. destruct IH as [-> | IH]; [apply plus_one; exact Huv | apply (plus_more _ n u v IH Huv)]. }
    apply model_edge_spec in He. destruct (Hrp x Hr) as [-> | Hp]; [apply plus_one; exact He | apply (plus_more _ n x n Hp He)].
  Qed.

  Lemma applicable_vs_primary c cp pn : applicable S F pn c = true -> primary (vs_errs pi S F (c, cp) (Some pn)) = [].
  Proof.
    unfold vs_errs, validate_spread, applicable, type_of, composite, parent_body. cbn [q_leaf_parent repaired andb fst snd].
    unfold is_composite_name. destruct (raw_body S pn) as [bp|] eqn:Ep; [| reflexivity].
    destruct (is_composite_body bp) eqn:Ecp; [| reflexivity]. cbn [negb].
    destruct (named_type S F c) as [b|] eqn:Ec; [| reflexivity].
    destruct (is_composite_body b) eqn:Ecb; [| reflexivity]. cbn [andb].
    destruct (possible_types repaired S F c) as [a|] eqn:Pa; [| reflexivity].
    destruct (possible_types repaired S F pn) as [b'|] eqn:Pb; [| reflexivity].
    intros H. apply existsb_exists in H as [x [Hx Hm]]. apply mem_in in Hm.
    assert (existsb (fun k => mem k b') (pi name a) = true) as ->; [| reflexivity].
    apply existsb_exists. exists x. split.
    - apply (proj2 (order_in pi Hpi _ _)). apply (possible_agree S F Himpl c a Pa). exact Hm.
    - apply mem_in. apply (possible_agree S F Himpl pn b' Pb). exact Hx.
  Qed.

  Theorem spreads_valid_no_primary errs :
    valid_5_5_2_1 D = true -> valid_5_5_2_2 D = true -> valid_5_5_2_3 S F D = true ->
    rule_fragment_spreads repaired pi S F A = Done errs -> primary errs = [].
  Proof.
    intros H1 H2 H3 H. rewrite rule_fragment_spreads_eq in H. apply finish_done_inv in H. subst errs.
    rewrite (spreads_pass_errors pi S F D) by apply cycle_fold_stack. apply primary_app_nil. split.
    - (* the cycle search finds nothing *)
      assert (forall l st, incl l (frag_names D) -> r_errs (fold_left (cycle_step A pi) l st) = r_errs st) as Hfold.
      { induction l as [|n l IH]; intros st Hl; [reflexivity |]. cbn [fold_left]. rewrite IH by (intros x Hx; apply Hl; right; exact Hx).
        unfold cycle_step. destruct (cycle_search pi A (graph_fuel A) n [n] []) as [[|]|] eqn:Ec; try reflexivity.
        exfalso. apply (cycle_search_iff A pi Hpi n) in Ec. apply model_cycle_spec in Ec.
        unfold valid_5_5_2_2 in H2. rewrite forallb_forall in H2. specialize (H2 n (Hl n (or_introl eq_refl))).
        apply negb_true_iff, mem_false in H2. contradiction. }
      rewrite Hfold; [reflexivity |]. intros x Hx. apply (proj1 (order_in pi Hpi _ _)) in Hx. apply (proj1 (dedup_in _ _)) in Hx. rewrite frag_names_pti in Hx. exact Hx.
    - (* the visitor *)
      rewrite primary_flat_map. apply flat_map_nil_iff. intros d Hd. rewrite primary_flat_map. apply flat_map_nil_iff. intros [sc s0] Hin. cbn [fst snd].
      assert (forall o, In o (sp_occ (sc, s0)) -> In o (all_spreads S F D)) as Hocc.
      { intros o Ho. unfold all_spreads. apply in_flat_map. exists d. split; [exact Hd |].
        rewrite spec_def_scope_eq, (proj2 (spreads_enum S F)). apply in_flat_map. exists (sc, s0). auto. }
      unfold valid_5_5_2_3 in H3. rewrite forallb_forall in H3.
      destruct s0 as [a0 al0 n0 np0 args0 dirs0 sub0 | fname np dirs e | [[c cp]|] dirs sub e]; try reflexivity.
      + change (pti_sel qo S F sc (SSpread fname np dirs e)) with (SSpread fname np (map (ti_dir qo S) dirs) e). cbn [sp_ev1].
        assert (In fname (spread_names D)) as Hn.
        { unfold spread_names, all_sels. apply in_flat_map. exists (SSpread fname np dirs e). split; [| left; reflexivity].
          apply in_flat_map. exists d. split; [exact Hd |]. rewrite <- (proj2 (ssels_sels S F) (def_sub d) (model_def_scope S F d)).
          apply (in_map snd) in Hin. exact Hin. }
        unfold valid_5_5_2_1 in H1. rewrite forallb_forall in H1. specialize (H1 fname Hn).
        destruct (fragment D fname) as [fd|] eqn:Ef; [| discriminate]. unfold fragment in Ef. pose proof (frag_first_last D names_unique fname fd Ef) as El.
        rewrite frag_last_pti, El. cbn [option_map]. destruct fd as [| kw n1 np1 [c cp] dirs1 sub1]; [reflexivity |]. cbn [pti_def].
        destruct sc as [parent|]; [| reflexivity].
        specialize (H3 (SpreadOcc (Some parent) fname np) (Hocc _ (or_introl eq_refl))). cbn beta iota in H3. unfold fragment in H3. rewrite Ef in H3.
        apply applicable_vs_primary. exact H3.
      + rewrite pti_sel_inline_eq. cbn [sp_ev1]. destruct sc as [parent|]; [| reflexivity].
        specialize (H3 (InlineOcc (Some parent) c cp) (Hocc _ (or_introl eq_refl))). cbn beta iota in H3.
        apply applicable_vs_primary. exact H3.
  Qed.
End Converse.
