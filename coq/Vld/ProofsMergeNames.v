(** * Vld/ProofsMergeNames.v — consequences of [MergeOK] for ANY two fields under one response key
    (not only for a field and one filed after it): the facts are symmetric. *)
From Coq Require Import List NArith Arith Bool Lia.
From ApiFu Require Import Base.Sexp Vld.Ast Vld.TypeInfoModel Vld.ValidatorModel Vld.ProofsCommon Vld.ProofsVarsSpec Vld.ProofsMergeSound.
Import ListNotations.

Lemma may_overlap_sym S pa pb : may_overlap S pa pb = may_overlap S pb pa.
Proof. unfold may_overlap. rewrite (name_eqb_sym pa pb). destruct (name_eqb pb pa), (is_object_name S pa), (is_object_name S pb); reflexivity. Qed.

Theorem merge_ok_parents_names S A m :
  MergeOK S A m -> forall k l, In (k, l) m -> forall x y, In x l -> In y l -> x <> y ->
  exists pa pb, snd (fst x) = Some pa /\ snd (fst y) = Some pb /\
                (may_overlap S pa pb = true -> sel_name (fst3 x) = sel_name (fst3 y)).
Proof.
  intros H k l Hkl x y Hx Hy Hne. pose proof (merge_ok_unfold S A m H k l Hkl) as Hp.
  destruct (ForallOrdPairs_In Hp x y Hx Hy) as [Heq | [Hxy | Hyx]]; [contradiction | |].
  - destruct Hxy as [_ [pa [pb [Ha [Hb Ho]]]]]. exists pa, pb. split; [exact Ha |]. split; [exact Hb |].
    intros Hov. destruct (Ho Hov) as [Hn _]. apply name_eqb_eq. exact Hn.
  - destruct Hyx as [_ [pb [pa [Hb [Ha Ho]]]]]. exists pa, pb. split; [exact Ha |]. split; [exact Hb |].
    intros Hov. rewrite may_overlap_sym in Hov. destruct (Ho Hov) as [Hn _]. apply name_eqb_eq in Hn. symmetry. exact Hn.
Qed.
