(** * Vld/ProofsTypeInfoValues.v — what NewTypeInfo records for argument values, and what the
    variables rule therefore says about the variable usages nested in them (requested by C05 for
    its bridge Val/BridgeC04Doc.v: the shape is that of C05's [usage_ok]).

    - the expected type of an argument value is the declared argument type, with the location's
      default flag ([ti_args_spec]);
    - of an item of a list literal the item type ([list_item]), without default;
    - of a field of an object literal the declared field type with the field's default flag
      ([object_fields], which looks through list wrappers);
    - a value nested in a list / object literal given for a scalar has no expected type and is
      marked ([va_scalar]);
    - [usage_errs]: the errors validateVariables' visitor emits inside one annotated value, as a
      recursive function over the UNannotated value: exactly [usage_ok]'s traversal. *)
From Coq Require Import List NArith Bool.
From ApiFu Require Import Base.Sexp Vld.Ast Vld.AstInd Vld.Inspect Vld.InspectProofs Vld.TypeInfoModel Vld.TypeInfoPure
     Vld.ValidatorModel Vld.ProofsCommon Vld.ProofsVarsOrder.
Import ListNotations.

Section Values.
  Variable qo : bool.
  Variable S : schema.

  Definition list_item (e : option sty) : option sty :=
    match e with
    | Some t => match nullable t with StList t' => Some t' | _ => None end
    | None => None
    end.
  (** the mark handed to what a literal contains when nothing is expected of it *)
  Definition nested_mark (sc : bool) (e : option sty) (typed : bool) : bool :=
    if typed then false else sc || scalar_expected S e.

  Lemma ti_value_var sc e d a n dl np :
    ti_value_in qo S sc e d (VVar a n dl np) = VVar {| va_expected := e; va_default := d; va_scalar := sc |} n dl np.
  Proof. reflexivity. Qed.
  Lemma ti_value_list sc e d a vs p :
    ti_value_in qo S sc e d (VList a vs p) =
    VList {| va_expected := e; va_default := d; va_scalar := sc |}
          (map (ti_value_in qo S (nested_mark sc e (match list_item e with Some _ => true | None => false end)) (list_item e) false) vs) p.
  Proof. unfold nested_mark, list_item. cbn [ti_value_in]. destruct e as [t|]; [destruct (nullable t) |]; reflexivity. Qed.
  Definition object_field (sc : bool) (e : option sty) (f : name * pos * value) : name * pos * value :=
    match f with
    | (n, np, x) =>
        match match object_fields qo S e with Some l => assoc n l | None => None end with
        | Some def => (n, np, ti_value_in qo S false (Some (in_type def)) (dflt_is_value (in_default def)) x)
        | None => (n, np, ti_value_in qo S (nested_mark sc e (match object_fields qo S e with Some _ => true | None => false end)) None false x)
        end
    end.
  Lemma ti_value_object sc e d a fs p :
    ti_value_in qo S sc e d (VObject a fs p) =
    VObject {| va_expected := e; va_default := d; va_scalar := sc |} (map (object_field sc e) fs) p.
  Proof.
    cbn [ti_value_in]. f_equal. apply map_ext. intros [[n np] x]. unfold object_field, nested_mark.
    destruct (object_fields qo S e); reflexivity.
  Qed.

  (** the arguments of a field / directive with argument definitions [defs] *)
  Lemma ti_args_spec defs dnil args :
    ti_args qo S defs dnil args =
    map (fun a => {| a_name := a_name a; a_pos := a_pos a;
                     a_value := match match defs with Some l => assoc (a_name a) l | None => None end with
                                | Some def => ti_value qo S (Some (in_type def)) (dnil (in_default def)) (a_value a)
                                | None => ti_value qo S None false (a_value a)
                                end |}) args.
  Proof. unfold ti_args. apply map_ext. intros a. destruct (match defs with Some l => assoc (a_name a) l | None => None end); reflexivity. Qed.

  (** ** the variable usages inside one value *)
  Variable vars : list vardef.

  Fixpoint usage_errs (sc : bool) (e : option sty) (d : bool) (v : value) : list verror :=
    match v with
    | VVar _ n dollar _ =>
        match vardef_first n vars with
        | None => [err EVarUndefined dollar]
        | Some def => variable_usage def {| va_expected := e; va_default := d; va_scalar := sc |} dollar
        end
    | VList _ vs _ =>
        flat_map (usage_errs (nested_mark sc e (match list_item e with Some _ => true | None => false end)) (list_item e) false) vs
    | VObject _ fs _ =>
        flat_map (fun f => match f with
                           | (n, _, x) =>
                               match match object_fields qo S e with Some l => assoc n l | None => None end with
                               | Some def => usage_errs false (Some (in_type def)) (dflt_is_value (in_default def)) x
                               | None => usage_errs (nested_mark sc e (match object_fields qo S e with Some _ => true | None => false end)) None false x
                               end
                           end) fs
    | _ => []
    end.

  Notation vis t := (flat_map (var_fe vars) (vnodes var_g t)).

  (** what validateVariables' visitor says while it walks one annotated value *)
  Theorem vars_value_errs v : forall sc e dd, vis (tree_value (ti_value_in qo S sc e dd v)) = usage_errs sc e dd v.
  Proof.
    induction v using value_ind'; intros sc e dd; try reflexivity.
    - (* variable *) rewrite ti_value_var. cbn [tree_value vnodes var_g flat_map var_fe usage_errs name_tree]. simpl. rewrite !app_nil_r. reflexivity.
    - (* list *)
      rewrite ti_value_list. cbn [tree_value vnodes var_g flat_map var_fe usage_errs app]. rewrite map_map.
      induction H as [|x l Hx _ IHl]; [reflexivity |]. cbn [map flat_map]. rewrite flat_map_app, Hx, IHl. reflexivity.
    - (* object *)
      rewrite ti_value_object. cbn [tree_value vnodes var_g flat_map var_fe usage_errs app]. rewrite map_map.
      induction H as [|[[n np] x] l Hx _ IHl]; [reflexivity |]. cbn [map flat_map]. rewrite flat_map_app, IHl. f_equal.
      unfold object_field. simpl in Hx.
      destruct (match object_fields qo S e with Some l0 => assoc n l0 | None => None end);
        cbn [vnodes var_g flat_map var_fe name_tree app]; simpl; rewrite ?app_nil_r; apply Hx.
  Qed.

  (** the top level: an argument value with its definition *)
  Corollary vars_argument_errs defs dnil a :
    vis (tree_arg {| a_name := a_name a; a_pos := a_pos a;
                     a_value := match match defs with Some l => assoc (a_name a) l | None => None end with
                                | Some def => ti_value qo S (Some (in_type def)) (dnil (in_default def)) (a_value a)
                                | None => ti_value qo S None false (a_value a)
                                end |}) =
    match match defs with Some l => assoc (a_name a) l | None => None end with
    | Some def => usage_errs false (Some (in_type def)) (dnil (in_default def)) (a_value a)
    | None => usage_errs false None false (a_value a)
    end.
  Proof.
    unfold tree_arg. cbn [a_name a_pos a_value vnodes var_g flat_map var_fe name_tree app]. simpl. rewrite app_nil_r.
    destruct (match defs with Some l => assoc (a_name a) l | None => None end); apply vars_value_errs.
  Qed.
End Values.
