(** * Vld/ProofsValid.v — soundness of the validator: a document it accepts is valid in the sense of
    the Spec, every section of chapter 5 included (5.3.2 through ProofsMergeSpec.v). *)
From Coq Require Import List NArith Arith Bool Lia.
From ApiFu Require Import Base.Sexp Vld.Ast Vld.Inspect Vld.InspectProofs Vld.TypeInfoModel Vld.TypeInfoPure Vld.Enumerate Vld.SpecEnum
     Vld.ValidatorModel Vld.ValidSpec Vld.Hyps Vld.ProofsCommon Vld.ProofsCycles Vld.ProofsDirectives Vld.ProofsArguments Vld.ProofsFragDecl
     Vld.ProofsTotal Vld.ProofsFields Vld.ProofsSpreads Vld.ProofsDepth Vld.ProofsDepthRule Vld.ValidatorProofs Vld.MemoEquiv Vld.MemoTransfer
     Vld.ProofsSecondaryRules Vld.ProofsSecondaryAll Vld.ProofsSubscription Vld.ProofsMergeSound Vld.ProofsMergeLocal Vld.ProofsMergeSpec Vld.ProofsComplete.
Import ListNotations.

Lemma wf_styb_spec t : wf_styb t = wf_sty t.
Proof. induction t as [n | t IH | t IH]; cbn; [reflexivity | exact IH |]. destruct t; try reflexivity; exact IH. Qed.

Lemma fields_types_wf_get (F : features) fs n d : fields_types_wf fs = true -> get_field F fs n = Some d -> wf_sty (f_type d) = true.
Proof.
  unfold fields_types_wf, get_field. rewrite forallb_forall. intros H Hg. destruct (assoc n fs) as [f|] eqn:Ef; [| discriminate].
  destruct (subset (f_req f) F); [| discriminate]. inversion Hg; subst. rewrite <- wf_styb_spec. apply (H (n, d)). apply assoc_in. exact Ef.
Qed.

Lemma field_of_scope_types_wf S F :
  schema_types_wf S = true -> forall top n fd, field_of_scope S F top n = Some fd -> wf_sty (f_type fd) = true.
Proof.
  unfold schema_types_wf. rewrite andb_true_iff, forallb_forall. intros [Ht Hm] top n d H.
  unfold field_of_scope in H. destruct top as [tn|]; [| discriminate].
  unfold raw_body, raw_type in H. destruct (assoc tn (s_types S)) as [td|] eqn:Et; [| discriminate].
  apply assoc_in in Et. specialize (Ht _ Et). cbn [snd] in Ht.
  destruct (t_body td) as [| | | fs ifs | fs |]; try discriminate.
  - destruct (get_field F fs n) as [f|] eqn:Eg.
    + inversion H; subst. apply (fields_types_wf_get F fs n d Ht Eg).
    + destruct (name_eqb tn (s_query S)); [| discriminate]. apply assoc_in in H.
      unfold fields_types_wf in Hm. rewrite forallb_forall in Hm. rewrite <- wf_styb_spec. apply (Hm (n, d) H).
  - apply (fields_types_wf_get F fs n d Ht H).
Qed.

Theorem memo_accepted_5_3_2 pi S F D :
  order_ok pi ->
  schema_ok S = true -> schema_args_ok S = true -> schema_types_wf S = true ->
  doc_set_positions_distinct D -> doc_field_positions_distinct D ->
  validate_model_memo repaired pi S F D = Done [] -> valid_5_3_2 S F D = true.
Proof.
  intros Hpi Hs Hargs Hwf Hpos Hfpos H.
  destruct (memo_accepted_valid_sections pi S F D Hpi Hs Hargs H) as [_ [_ [_ [_ [A5 [A6 [A7 _]]]]]]].
  destruct (memo_accepted_valid pi S F D Hpi Hs H) as [_ [_ [_ [_ [_ [Hfd _]]]]]].
  pose proof (memo_accepted_silent pi S F D H) as Hsil.
  pose proof Hs as Hs'. unfold schema_ok in Hs'. apply andb_true_iff in Hs' as [Hs' Hs3]. apply andb_true_iff in Hs' as [Hs1 _].
  pose proof (schema_no_typename_spec S F Hs1) as Hnt.
  assert (composite_name S n_String = false) as Hstr.
  { unfold schema_roots_ok in Hs3. rewrite !andb_true_iff in Hs3. destruct Hs3 as [_ Hx]. apply negb_true_iff in Hx. exact Hx. }
  assert (NoDup (frag_names D)) as Hnd.
  { unfold valid_5_5_1 in A7. rewrite !andb_true_iff in A7. destruct A7 as [[[H1 _] _] _]. apply nodupb_NoDup. exact H1. }
  unfold valid_5_3_2. destruct (valid_5_5_2_2 D); [| reflexivity]. apply forallb_forall. intros o Ho.
  set (A := pti_doc (q_unwrap_obj repaired) S F D).
  apply (merge_spec_sets S F D Hnd (sets_distinct_pti _ S F D Hpos) (memo_accepted_merge_sound pi S F D Hpi Hfpos H) (field_of_scope_types_wf S F Hwf)); [| | | | exact Ho].
  - (* argument names are unique *)
    intros a sels p fa al n np args dirs sub Hss Hin.
    destruct (all_subs_pti_occ _ S F D a sels p _ Hss Hin) as [d [s0 [Hd [Hocc Heq]]]].
    destruct s0 as [fa0 al0 n0 np0 args0 dirs0 sub0 | |]; try discriminate Heq. rewrite pti_sel_field_eq in Heq. inversion Heq; subst. clear Heq.
    unfold field_args. rewrite ti_args_names. apply nodupb_NoDup.
    unfold ProofsArguments.valid_5_4 in A6. rewrite !andb_true_iff in A6. destruct A6 as [[_ H542] _]. unfold valid_5_4_2 in H542. rewrite forallb_forall in H542.
    apply (H542 (args0, match fo_def S F {| fo_parent := a; fo_field := SField fa0 al0 n0 np0 args0 dirs0 sub0 |} with Some dd => Some (f_args dd) | None => None end)).
    unfold all_argument_lists. apply in_or_app. left.
    apply (in_map (fun o => (match fo_field o with SField _ _ _ _ a1 _ _ => a1 | _ => [] end, match fo_def S F o with Some d1 => Some (f_args d1) | None => None end))
                  _ {| fo_parent := a; fo_field := SField fa0 al0 n0 np0 args0 dirs0 sub0 |}).
    apply all_fields_enum. exists d, a, (SField fa0 al0 n0 np0 args0 dirs0 sub0). repeat split; assumption.
  - (* __typename has no selection set *)
    intros a sels p fa al n np args dirs sub Hss Hin Hn.
    destruct (all_subs_pti_occ _ S F D a sels p _ Hss Hin) as [d [s0 [Hd [Hocc Heq]]]].
    destruct s0 as [fa0 al0 n0 np0 args0 dirs0 sub0 | |]; try discriminate Heq. rewrite pti_sel_field_eq in Heq. inversion Heq; subst. clear Heq.
    assert (In {| fo_parent := a; fo_field := SField fa0 al0 n0 np0 args0 dirs0 sub0 |} (all_fields S F D)) as Hof
        by (apply all_fields_enum; exists d, a, (SField fa0 al0 n0 np0 args0 dirs0 sub0); repeat split; assumption).
    pose proof (fields_defined_spec S F D Hfd _ Hof) as Hdef. unfold valid_5_3_3 in A5. rewrite forallb_forall in A5. specialize (A5 _ Hof).
    unfold fo_def in *. cbn [fo_parent fo_field] in *. destruct a as [pn|]; [| congruence]. unfold field_def_of in *. change s_typename with n_typename in *. rewrite Hn in *.
    destruct (composite S pn); [| congruence]. unfold result_type, typename_def in A5. cbn [f_type unwrapped] in A5.
    change (composite S _) with (composite_name S n_String) in A5. rewrite Hstr in A5. destruct sub0; [discriminate A5 | reflexivity].
  - unfold A. rewrite frag_names_pti. exact Hnd.
  - destruct Hsil as [_ [_ [_ [_ [Hsp _]]]]]. apply (silent_acyclic pi S F A Hpi Hsp).
Qed.

(** ** accepted => Valid *)
Theorem memo_accepted_Valid pi S F D :
  order_ok pi ->
  schema_ok S = true -> schema_args_ok S = true -> schema_impls_ok S = true -> schema_defaults_ok S = true -> schema_types_wf S = true ->
  doc_set_positions_distinct D -> doc_field_positions_distinct D ->
  validate_model_memo repaired pi S F D = Done [] -> Valid S F D.
Proof.
  intros Hpi Hs Hargs Himpl Hdef Hwf Hpos Hfpos H.
  destruct (memo_accepted_valid_sections pi S F D Hpi Hs Hargs H) as [A1 [A2 [A3 [A4 [A5 [A6 [A7 [A8 [A9 [A10 [A11 [A12 [A13 [A14 [A15 A16]]]]]]]]]]]]]]].
  pose proof (memo_accepted_spreads_possible pi S F D Hpi Himpl H) as A17.
  pose proof (memo_accepted_5_2_3_1 pi S F D Hpi Hs Hargs Himpl Hdef Hpos H) as A18.
  pose proof (memo_accepted_5_3_2 pi S F D Hpi Hs Hargs Hwf Hpos Hfpos H) as A19.
  unfold ProofsArguments.valid_5_4 in A6. rewrite !andb_true_iff in A6. destruct A6 as [[B1 B2] B3].
  unfold valid_5_5_1 in A7. rewrite !andb_true_iff in A7. destruct A7 as [[[C1 C2] C3] C4].
  unfold ProofsValues.valid_5_6 in A10. rewrite !andb_true_iff in A10. destruct A10 as [[[D1 D2] D3] D4].
  unfold valid_5_7 in A11. rewrite !andb_true_iff in A11. destruct A11 as [[E1 E2] E3].
  unfold Valid, valid_all, valid_5_1_1.
  rewrite A1, A2, A3, A18, A4, A19, A5, B1, B2, B3, C1, C2, C3, C4, A8, A9, A17, D1, D2, D3, D4, E1, E2, E3, A12, A13, A14, A15, A16. reflexivity.
Qed.
