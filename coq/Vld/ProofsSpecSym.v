(** * Vld/ProofsSpecSym.v — the Spec's local comparisons of 5.3.2 are reflexive, symmetric, and do
    not see the annotations NewTypeInfo writes into values. *)
From Coq Require Import List NArith Arith Bool Lia.
From ApiFu Require Import Base.Sexp Vld.Ast Vld.AstInd Vld.TypeInfoModel Vld.ValidatorModel Vld.ValidSpec Vld.ProofsCommon Vld.ProofsVarsSpec
     Vld.ProofsTypeInfoValues Vld.ProofsMergeLocal.
Import ListNotations.

Lemma bytes_eqb_sym a b : bytes_eqb a b = bytes_eqb b a.
Proof. exact (name_eqb_sym a b). Qed.
Lemma bool_eqb_sym a b : Bool.eqb a b = Bool.eqb b a.
Proof. destruct a, b; reflexivity. Qed.

Lemma same_value_sym v : forall w, same_value v w = same_value w v.
Proof.
  induction v as [an n dl np | | | | | | | an vs p IH | an fs p IH] using value_ind'; intros w; destruct w as [? ? ? ?|? ? ?|? ? ?|? ? ?|? ? ?|? ?|? ? ?|? ws ?|? ws ?]; try reflexivity; cbn [same_value];
    try apply name_eqb_sym; try apply bytes_eqb_sym; try apply bool_eqb_sym.
  - revert ws. induction IH as [|x xs Hx _ IHxs]; intros ws; destruct ws as [|y ys]; try reflexivity. rewrite Hx, IHxs. reflexivity.
  - revert ws. induction IH as [|[[n np] x] xs Hx _ IHxs]; intros ws; destruct ws as [|[[m mp] y] ys]; try reflexivity.
    cbn [snd] in Hx. rewrite Hx, IHxs, (name_eqb_sym n m). reflexivity.
Qed.

Lemma same_value_refl v : same_value v v = true.
Proof.
  induction v as [an n dl np | | | | | | | an vs p IH | an fs p IH] using value_ind'; cbn [same_value];
    try apply name_eqb_refl; try reflexivity.
  - destruct b; reflexivity.
  - induction IH as [|x xs Hx _ IHxs]; [reflexivity |]. rewrite Hx, IHxs. reflexivity.
  - induction IH as [|[[n np] x] xs Hx _ IHxs]; [reflexivity |]. cbn [snd] in Hx. rewrite Hx, IHxs, name_eqb_refl. reflexivity.
Qed.

(** annotations are invisible *)
Lemma object_field_triple qo S sc e n np x :
  object_field qo S sc e (n, np, x) =
  match match object_fields qo S e with Some l => assoc n l | None => None end with
  | Some def => (n, np, ti_value_in qo S false (Some (in_type def)) (dflt_is_value (in_default def)) x)
  | None => (n, np, ti_value_in qo S (nested_mark S sc e (match object_fields qo S e with Some _ => true | None => false end)) None false x)
  end.
Proof. reflexivity. Qed.

Lemma same_value_annot qo S v : forall w sc e d sc' e' d',
  same_value (ti_value_in qo S sc e d v) (ti_value_in qo S sc' e' d' w) = same_value v w.
Proof.
  induction v as [an n dl np | | | | | | | an vs p IH | an fs p IH] using value_ind'; intros w sc e d sc' e' d'; destruct w as [? ? ? ?|? ? ?|? ? ?|? ? ?|? ? ?|? ?|? ? ?|? ws ?|? ws ?]; try reflexivity.
  - rewrite !ti_value_list. cbn [same_value]. revert ws. induction IH as [|x xs Hx _ IHxs]; intros ws; destruct ws as [|y ys]; try reflexivity.
    cbn [map]. rewrite Hx, IHxs. reflexivity.
  - rewrite !ti_value_object. cbn [same_value]. revert ws. induction IH as [|[[n np] x] xs Hx _ IHxs]; intros ws.
    + destruct ws as [|c ys]; reflexivity.
    + cbn [map snd] in *. rewrite object_field_triple.
      destruct (match object_fields qo S e with Some l0 => assoc n l0 | None => None end);
        (destruct ws as [|[[m mp] y] ys]; [reflexivity |]; cbn [map]; rewrite object_field_triple;
         destruct (match object_fields qo S e' with Some l0 => assoc m l0 | None => None end); rewrite Hx, IHxs; reflexivity).
Qed.

Lemma forallb_ext' {X} (f g : X -> bool) l : (forall x, f x = g x) -> forallb f l = forallb g l.
Proof. intros H. induction l as [|x r IH]; [reflexivity |]. cbn. rewrite H, IH. reflexivity. Qed.
Lemma existsb_ext' {X} (f g : X -> bool) l : (forall x, f x = g x) -> existsb f l = existsb g l.
Proof. intros H. induction l as [|x r IH]; [reflexivity |]. cbn. rewrite H, IH. reflexivity. Qed.
Lemma forallb_map' {X Y} (h : X -> Y) (f : Y -> bool) l : forallb f (map h l) = forallb (fun x => f (h x)) l.
Proof. induction l as [|x r IH]; [reflexivity |]. cbn. rewrite IH. reflexivity. Qed.
Lemma existsb_map' {X Y} (h : X -> Y) (f : Y -> bool) l : existsb f (map h l) = existsb (fun x => f (h x)) l.
Proof. induction l as [|x r IH]; [reflexivity |]. cbn. rewrite IH. reflexivity. Qed.

(** ** argument lists *)
Definition arg_match (x y : argument) : bool := name_eqb (a_name x) (a_name y) && same_value (a_value x) (a_value y).
Lemma same_args_unfold a b :
  same_args a b = Nat.eqb (length a) (length b) && forallb (fun x => existsb (fun y => arg_match x y) b) a && forallb (fun y => existsb (fun x => arg_match x y) a) b.
Proof. reflexivity. Qed.
Lemma arg_match_sym x y : arg_match x y = arg_match y x.
Proof. unfold arg_match. rewrite name_eqb_sym, same_value_sym. reflexivity. Qed.

Lemma same_args_sym a b : same_args a b = same_args b a.
Proof.
  rewrite !same_args_unfold, (Nat.eqb_sym (length a) (length b)).
  assert (forall l1 l2, forallb (fun x => existsb (fun y => arg_match x y) l2) l1 = forallb (fun y => existsb (fun x => arg_match x y) l2) l1) as H.
  { intros l1 l2. apply forallb_ext'. intros x. induction l2 as [|y r IH]; [reflexivity |]. cbn [existsb]. rewrite IH, arg_match_sym. reflexivity. }
  rewrite (H a b), <- (H b a). destruct (Nat.eqb (length b) (length a)), (forallb (fun y => existsb (fun x => arg_match x y) b) a), (forallb (fun x => existsb (fun y => arg_match x y) a) b); reflexivity.
Qed.

Lemma same_args_refl a : same_args a a = true.
Proof.
  rewrite same_args_unfold, Nat.eqb_refl. cbn [andb]. apply andb_true_iff. split; apply forallb_forall; intros x Hx; apply existsb_exists; exists x;
    (split; [exact Hx | unfold arg_match; rewrite name_eqb_refl, same_value_refl; reflexivity]).
Qed.

(** the arguments NewTypeInfo annotates *)
Lemma same_args_annot qo S defs dn defs' dn' a b :
  same_args (ti_args qo S defs dn a) (ti_args qo S defs' dn' b) = same_args a b.
Proof.
  rewrite !same_args_unfold. unfold ti_args. rewrite !map_length.
  assert (forall x y, arg_match
            (match match defs with Some l => assoc (a_name x) l | None => None end with
             | Some def => {| a_name := a_name x; a_pos := a_pos x; a_value := ti_value qo S (Some (in_type def)) (dn (in_default def)) (a_value x) |}
             | None => {| a_name := a_name x; a_pos := a_pos x; a_value := ti_value qo S None false (a_value x) |}
             end)
            (match match defs' with Some l => assoc (a_name y) l | None => None end with
             | Some def => {| a_name := a_name y; a_pos := a_pos y; a_value := ti_value qo S (Some (in_type def)) (dn' (in_default def)) (a_value y) |}
             | None => {| a_name := a_name y; a_pos := a_pos y; a_value := ti_value qo S None false (a_value y) |}
             end) = arg_match x y) as Hm.
  { intros x y. unfold arg_match, ti_value.
    destruct (match defs with Some l => assoc (a_name x) l | None => None end); destruct (match defs' with Some l => assoc (a_name y) l | None => None end);
      cbn [a_name a_value]; rewrite same_value_annot; reflexivity. }
  f_equal; [f_equal |].
  - rewrite forallb_map'. apply forallb_ext'. intros x. rewrite existsb_map'. apply existsb_ext'. intros y. apply Hm.
  - rewrite forallb_map'. apply forallb_ext'. intros y. rewrite existsb_map'. apply existsb_ext'. intros x. apply Hm.
Qed.

(** ** the unwrapping *)
Lemma strip_shape_sym a : forall b x y, strip_shape a b = Some (x, y) -> strip_shape b a = Some (y, x).
Proof.
  induction a as [n | a' IH | a' IH]; intros b x y H; destruct b as [m | b' | b']; cbn [strip_shape] in *; try discriminate H;
    try (inversion H; subst; reflexivity); apply IH; exact H.
Qed.
Lemma strip_shape_refl a : exists x, strip_shape a a = Some (x, x).
Proof. induction a as [n | a' IH | a' IH]; cbn [strip_shape]; [eexists; reflexivity | exact IH | exact IH]. Qed.
