(** * Vld/ProofsSecondaryRules.v — secondary_never_alone for validateArguments, validateValues and
    validateVariables: when no rule group reports a primary error, these three report nothing. *)
From Coq Require Import List NArith Arith Bool Lia.
From ApiFu Require Import Base.Sexp Vld.Ast Vld.AstInd Vld.Inspect Vld.InspectProofs Vld.TypeInfoModel Vld.TypeInfoPure
     Vld.Enumerate Vld.SpecEnum Vld.ValidatorModel Vld.ValidSpec Vld.Hyps Vld.ProofsCommon Vld.ProofsCycles Vld.ProofsVarsOrder
     Vld.ProofsDirectives Vld.ProofsArguments Vld.ProofsFragDecl Vld.ProofsValues Vld.ProofsOrder Vld.ProofsFields Vld.ProofsTypeInfoValues
     Vld.ProofsSpecReach Vld.ProofsVarsSpec Vld.ValidatorProofs Vld.ProofsSecondary Vld.ProofsSecondaryValues.
Import ListNotations.

(** ** the schema hypothesis about argument definitions *)
Lemma args_ok_spec S args :
  args_ok S args = true -> NoDup (map fst args) /\ forall nd, In nd args -> input_sty S (in_type (snd nd)).
Proof.
  unfold args_ok. rewrite andb_true_iff, forallb_forall. intros [H1 H2]. split; [apply nodupb_NoDup; exact H1 |].
  intros nd Hnd. apply input_styb_spec, H2, Hnd.
Qed.

Lemma fields_args_ok_get S F fs n d : fields_args_ok S fs = true -> get_field F fs n = Some d -> args_ok S (f_args d) = true.
Proof.
  unfold fields_args_ok, get_field. rewrite forallb_forall. intros H Hg. destruct (assoc n fs) as [f|] eqn:Ef; [| discriminate].
  destruct (subset (f_req f) F); [| discriminate]. inversion Hg; subst. apply (H (n, d)). apply assoc_in. exact Ef.
Qed.

Lemma field_of_scope_args_ok S F :
  schema_args_ok S = true -> forall top n d, field_of_scope S F top n = Some d -> args_ok S (f_args d) = true.
Proof.
  unfold schema_args_ok. rewrite !andb_true_iff, !forallb_forall. intros [[Ht Hm] _] top n d H.
  unfold field_of_scope in H. destruct top as [tn|]; [| discriminate].
  unfold raw_body, raw_type in H. destruct (assoc tn (s_types S)) as [td|] eqn:Et; [| discriminate].
  apply assoc_in in Et. specialize (Ht _ Et). cbn [snd] in Ht.
  destruct (t_body td) as [| | | fs ifs | fs |]; try discriminate.
  - destruct (get_field F fs n) as [f|] eqn:Eg.
    + inversion H; subst. apply (fields_args_ok_get S F fs n d Ht Eg).
    + destruct (name_eqb tn (s_query S)); [| discriminate]. apply assoc_in in H.
      unfold fields_args_ok in Hm. rewrite forallb_forall in Hm. apply (Hm (n, d) H).
  - apply (fields_args_ok_get S F fs n d Ht H).
Qed.

Lemma directive_args_ok S : schema_args_ok S = true -> forall n dd, assoc n (s_directives S) = Some dd -> args_ok S (dd_args dd) = true.
Proof.
  unfold schema_args_ok. rewrite !andb_true_iff, !forallb_forall. intros [_ Hd] n dd H. apply assoc_in in H. apply (Hd (n, dd) H).
Qed.

Lemma nodup_assoc {A} (l : list (name * A)) nd : NoDup (map fst l) -> In nd l -> assoc (fst nd) l = Some (snd nd).
Proof.
  induction l as [|[k v] l IH]; intros Hnd Hin; [destruct Hin |]. cbn [map fst] in Hnd. inversion Hnd as [| ? ? Hni Hnd']; subst.
  cbn [assoc]. destruct Hin as [<- | Hin]; cbn [fst snd]; [rewrite name_eqb_refl; reflexivity |].
  destruct (name_eqb (fst nd) k) eqn:E; [| apply IH; assumption].
  apply name_eqb_eq in E. subst k. exfalso. apply Hni. apply in_map. exact Hin.
Qed.

(** ** argumentsByName holds arguments that were given *)
Lemma args_given_by defs args : forall by_name errs by',
  args_given defs args by_name = (errs, by') ->
  forall n a, assoc n by' = Some a -> assoc n by_name = Some a \/ (In a args /\ a_name a = n).
Proof.
  induction args as [|a0 r IH]; intros by_name errs by' H n a Ha; cbn [args_given] in H.
  - inversion H; subst. left. exact Ha.
  - destruct (assoc (a_name a0) defs).
    + destruct (assoc (a_name a0) by_name) eqn:Eb.
      * destruct (args_given defs r by_name) as [e b] eqn:Er. inversion H; subst.
        destruct (IH _ _ _ Er n a Ha) as [H1 | [H1 H2]]; [left; exact H1 | right; split; [right; exact H1 | exact H2]].
      * destruct (IH _ _ _ H n a Ha) as [H1 | [H1 H2]]; [| right; split; [right; exact H1 | exact H2]].
        rewrite assoc_app in H1. destruct (assoc n by_name); [left; exact H1 |]. cbn [assoc] in H1.
        destruct (name_eqb n (a_name a0)) eqn:En; [| discriminate]. inversion H1; subst. apply name_eqb_eq in En.
        right. split; [left; reflexivity | symmetry; exact En].
    + destruct (args_given defs r by_name) as [e b] eqn:Er. inversion H; subst.
      destruct (IH _ _ _ Er n a Ha) as [H1 | [H1 H2]]; [left; exact H1 | right; split; [right; exact H1 | exact H2]].
Qed.

(** one argument list: without a primary error, and when no argument whose definition is required
    was given the literal null, nothing is reported *)
Lemma args_errs_nil pi (Hpi : order_ok pi) args defs npos :
  primary (args_errs pi args defs npos) = [] ->
  (forall a nd, In a args -> In nd defs -> a_name a = fst nd -> required_arg (snd nd) = true -> is_null (a_value a) = false) ->
  args_errs pi args defs npos = [].
Proof.
  intros Hp Hnull. apply primary_nil_all; [| exact Hp]. intros e He. unfold args_errs in He.
  assert (In e (let '(e1, by_name) := args_given defs args [] in e1 ++ args_required pi defs by_name npos) -> e_sec e = false) as Hmain.
  { destruct (args_given defs args []) as [e1 by_name] eqn:Eg. intros Hin. apply in_app_or in Hin as [Hin | Hin].
    - destruct (args_given_spec defs args [] e1 by_name Eg) as [_ [Hsec _]]. apply Hsec. exact Hin.
    - unfold args_required in Hin. apply in_flat_map in Hin as [nd [Hnd Hin]]. apply (proj1 (order_in pi Hpi _ _)) in Hnd.
      destruct (required_arg (snd nd)) eqn:Hr; [| destruct Hin]. destruct (assoc (fst nd) by_name) as [a|] eqn:Ea.
      + destruct (args_given_by defs args [] e1 by_name Eg _ _ Ea) as [Hx | [Hx1 Hx2]]; [discriminate Hx |].
        rewrite (Hnull a nd Hx1 Hnd Hx2 Hr) in Hin. destruct Hin.
      + destruct Hin as [<- | []]. reflexivity. }
  destruct args as [|a r]; [destruct defs as [|d ds]; [destruct He | exact (Hmain He)] | exact (Hmain He)].
Qed.

Section Rules.
  Variable pi : order.
  Hypothesis Hpi : order_ok pi.
  Variable S : schema.
  Variable F : features.
  Variable D : document.
  Notation qo := (q_unwrap_obj repaired).
  Notation A := (pti_doc qo S F D).
  Hypothesis input_closed : forall tn defs, raw_body S tn = Some (TInput defs) -> forall nd, In nd defs -> input_sty S (in_type (snd nd)).
  Hypothesis no_typename_field : forall top, field_of_scope S F top n_typename = None.
  Hypothesis args_hyp : schema_args_ok S = true.
  Hypothesis fields_known : forall o, In o (all_fields S F D) -> fo_def S F o <> None.
  Hypothesis directives_known : valid_5_7_1 S D = true.
  Hypothesis args_known : valid_5_4_1 S F D = true.
  Hypothesis values_primary : primary (flat_map (fun v => val_f pi S (NValue v)) (flat_map def_vals A)) = [].

  (** ** every argument given in the document has a definition with an input type *)
  Lemma arg_lists_typed ad a0 :
    In ad (all_argument_lists S F D) -> In a0 (fst ad) ->
    exists defs def, snd ad = Some defs /\ assoc (a_name a0) defs = Some def /\ args_ok S defs = true.
  Proof.
    intros Had Ha0.
    assert (exists defs, snd ad = Some defs /\ args_ok S defs = true) as [defs [Es Hok]].
    { unfold all_argument_lists in Had. apply in_app_or in Had as [Had | Had]; apply in_map_iff in Had as [x [<- Hx]]; cbn [snd].
      - specialize (fields_known x Hx). destruct (fo_def S F x) as [d|] eqn:Ed; [| congruence]. exists (f_args d). split; [reflexivity |].
        unfold fo_def in Ed. destruct (fo_parent x) as [p|]; [| discriminate]. destruct (fo_field x) as [a al f np args dirs sub | |]; try discriminate.
        unfold field_def_of in Ed. destruct (name_eqb f s_typename).
        + destruct (composite S p); [inversion Ed; reflexivity | discriminate].
        + rewrite declared_field_eq in Ed. apply (field_of_scope_args_ok S F args_hyp _ _ _ Ed).
      - destruct x as [loc dir]. cbn [snd]. unfold valid_5_7_1 in directives_known. rewrite forallb_forall in directives_known.
        specialize (directives_known _ Hx). cbn [snd] in directives_known. unfold directive_def in *.
        destruct (assoc (d_name dir) (s_directives S)) as [dd|] eqn:Edd; [| discriminate]. exists (dd_args dd). split; [reflexivity |].
        apply (directive_args_ok S args_hyp _ _ Edd). }
    exists defs. unfold valid_5_4_1 in args_known. rewrite forallb_forall in args_known. specialize (args_known ad Had). rewrite Es in args_known.
    rewrite forallb_forall in args_known. specialize (args_known a0 Ha0).
    destruct (assoc (a_name a0) defs) as [def|]; [exists def; auto | discriminate].
  Qed.

  (** ** the top-level argument values of the annotated document *)
  Definition arg_value_of (v' : value) : Prop :=
    exists ad a0 dn, In ad (all_argument_lists S F D) /\ In a0 (fst ad) /\
                     v' = ti_value qo S (arg_type (snd ad) a0) dn (a_value a0).

  Lemma dir_vals_args dirs v' :
    (forall dir, In dir dirs -> exists loc, In (loc, dir) (all_directives D)) ->
    In v' (dir_vals (map (ti_dir qo S) dirs)) -> arg_value_of v'.
  Proof.
    intros Hdirs H. unfold dir_vals in H. apply in_flat_map in H as [dir' [Hd' H]].
    apply in_map_iff in Hd' as [dir [<- Hdir]]. simpl d_args in H. rewrite arg_vals_ti in H.
    apply in_map_iff in H as [a0 [<- Ha0]]. destruct (Hdirs dir Hdir) as [loc Hloc].
    eexists (d_args dir, _), a0, _. split; [| split; [exact Ha0 | reflexivity]].
    unfold all_argument_lists. apply in_or_app. right.
    apply (in_map (fun ld => (d_args (snd ld), match directive_def S (snd ld) with Some dd => Some (dd_args dd) | None => None end)) _ (loc, dir)).
    exact Hloc.
  Qed.

  Lemma own_vals_args d sc s0 v' :
    In d D -> In (sc, s0) (ssels_ss S F (model_def_scope S F d) (def_sub d)) ->
    In v' (own_vals (pti_sel qo S F sc s0)) -> arg_value_of v'.
  Proof.
    intros Hd Hin Hv. unfold own_vals in Hv. apply in_app_or in Hv as [Hv | Hv].
    - destruct s0 as [a al n np args dirs sub0 | |]; try (simpl in Hv; destruct Hv; fail).
      rewrite pti_sel_field_eq in Hv. unfold field_args in Hv. rewrite arg_vals_ti in Hv.
      apply in_map_iff in Hv as [a0 [<- Ha0]].
      eexists (args, _), a0, _. split; [| split; [exact Ha0 |]].
      + unfold all_argument_lists. apply in_or_app. left.
        apply (in_map (fun o => (match fo_field o with SField _ _ _ _ a _ _ => a | _ => [] end,
                                 match fo_def S F o with Some d => Some (f_args d) | None => None end))
                      _ {| fo_parent := sc; fo_field := SField a al n np args dirs sub0 |}).
        apply all_fields_enum. exists d, sc, (SField a al n np args dirs sub0). repeat split; assumption.
      + cbn [snd fo_field]. rewrite (arg_type_field S F no_typename_field). reflexivity.
    - rewrite sel_dirs_pti in Hv. eapply dir_vals_args; [| exact Hv].
      intros dir Hdir. eapply sel_dir_listed; eassumption.
  Qed.

  Lemma def_arg_values d v' :
    In d D -> In v' (dir_vals (def_dirs (pti_def qo S F d)) ++ vals_ss (def_sub (pti_def qo S F d))) -> arg_value_of v'.
  Proof.
    intros Hd H. apply in_app_or in H as [H | H].
    - rewrite def_dirs_pti in H. eapply dir_vals_args; [| exact H]. intros dir Hdir. apply (def_dir_listed D d); assumption.
    - rewrite pti_def_sub in H. apply (proj2 (vals_enum qo S F)) in H as [sc [s0 [Hin Hv]]]. apply (own_vals_args d sc s0 v' Hd Hin Hv).
  Qed.

  Lemma def_arg_values_visited d v' :
    In d D -> In v' (dir_vals (def_dirs (pti_def qo S F d)) ++ vals_ss (def_sub (pti_def qo S F d))) -> In v' (flat_map def_vals A).
  Proof.
    intros Hd H. apply in_flat_map. exists (pti_def qo S F d). split; [unfold pti_doc; apply in_map; exact Hd |].
    destruct d as [ot n vars dirs sub | kw n np cond dirs sub]; cbn [pti_def def_vals def_dirs def_sub] in *; [apply in_or_app; right |]; exact H.
  Qed.

  (** ** what the absence of a primary error of validateValues says about one of them *)
  Lemma arg_value_clean vars v' :
    arg_value_of v' -> In v' (flat_map def_vals A) ->
    exists t dn v0, v' = ti_value qo S (Some t) dn v0 /\ input_sty S t /\
                    val_f pi S (NValue v') = [] /\
                    noloc (usage_errs qo S vars false (Some t) dn v0) /\
                    (is_null v0 = true -> is_nonnull t = false).
  Proof.
    intros [ad [a0 [dn [Had [Ha0 ->]]]]] Hvis.
    destruct (arg_lists_typed ad a0 Had Ha0) as [defs [def [Es [Ed Hok]]]].
    assert (arg_type (snd ad) a0 = Some (in_type def)) as Et by (unfold arg_type; rewrite Es, Ed; reflexivity).
    rewrite Et in *. set (t := in_type def) in *. set (v0 := a_value a0) in *.
    assert (input_sty S t) as Hin by (apply (proj2 (args_ok_spec S defs Hok) (a_name a0, def)); apply assoc_in; exact Ed).
    exists t, dn, v0. split; [reflexivity |]. split; [exact Hin |].
    assert (primary (val_f pi S (NValue (ti_value qo S (Some t) dn v0))) = []) as Hp.
    { rewrite primary_flat_map, flat_map_nil_iff in values_primary. apply (values_primary _ Hvis). }
    unfold val_f in *. rewrite ti_value_is_var, ti_value_ann in *. cbn [va_expected] in *.
    destruct (is_var v0) eqn:Ev.
    - split; [reflexivity |]. split; [| destruct v0; discriminate].
      destruct v0; try discriminate Ev. apply usage_var_noloc. discriminate.
    - rewrite coercion_blind in *.
      destruct (coercion_agrees pi Hpi S input_closed v0 t true Hin) as [errs [E [Hs _]]]. rewrite E in *. cbn [vr_errs] in *.
      assert (errs = []) as -> by (apply primary_nil_all; [exact Hs | exact Hp]).
      split; [reflexivity |]. split; [apply (clean_coercion_noloc pi S vars v0 t true false dn E) |].
      intros Hn. rewrite coercion_unfold, Ev, Hn in E. destruct (is_nonnull t); [discriminate E | reflexivity].
  Qed.

  (** ** validateValues reports nothing *)
  Hypothesis defaults_typed : forall vd x, In vd (all_vardefs D) -> vd_default vd = Some x ->
                                           exists t, declared_type S F (vd_type vd) = Some t /\ input_sty S t.

  Theorem values_all_silent : flat_map (fun v => val_f pi S (NValue v)) (flat_map def_vals A) = [].
  Proof.
    apply primary_nil_all; [| exact values_primary]. intros e He. apply in_flat_map in He as [v' [Hv' He]].
    destruct (top_values_classified S F no_typename_field D v' Hv') as [Hvar | [Harg | [vd [x [Hvd [Hx ->]]]]]].
    - unfold val_f in He. rewrite Hvar in He. destruct He.
    - destruct (arg_value_clean [] v' Harg Hv') as [t [dn [v0 [_ [_ [Hnil _]]]]]]. rewrite Hnil in He. destruct He.
    - destruct (defaults_typed vd x Hvd Hx) as [t [Et Hin]]. rewrite Et in He.
      unfold val_f in He. rewrite ti_value_is_var, ti_value_ann in He. cbn [va_expected] in He.
      destruct (is_var x); [destruct He |]. rewrite coercion_blind in He.
      destruct (coercion_agrees pi Hpi S input_closed x t true Hin) as [errs [E [Hs _]]]. rewrite E in He. apply (Hs e He).
  Qed.

  (** ** validateArguments reports nothing *)
  Lemma rule_arguments_eq : rule_arguments repaired pi S A = Done (flat_map (arg_f pi S) (tree_nodes (tree_doc A))).
  Proof.
    unfold rule_arguments. rewrite (inspect_acc _ (arg_f pi S) (arg_g S) _ (arguments_enter_eq pi S)), app_nil_l.
    rewrite (vnodes_all (arg_g S) _ (arg_g_all pi S F D fields_known directives_known no_typename_field)). reflexivity.
  Qed.

  Lemma null_arg_not_required defs dn args0 a nd :
    args_ok S defs = true -> In a (ti_args qo S (Some defs) dn args0) ->
    arg_value_of (a_value a) -> In (a_value a) (flat_map def_vals A) ->
    In nd defs -> a_name a = fst nd -> required_arg (snd nd) = true -> is_null (a_value a) = false.
  Proof.
    intros Hok Ha Harg Hvis Hnd Hname Hreq. rewrite ti_args_spec in Ha. apply in_map_iff in Ha as [a0 [<- Ha0]]. cbn [a_name a_value] in *.
    destruct (args_ok_spec S defs Hok) as [Hndp _]. rewrite Hname, (nodup_assoc defs nd Hndp Hnd) in *.
    destruct (arg_value_clean [] _ Harg Hvis) as [t [dn' [v0 [Ev [_ [_ [_ Hnull]]]]]]].
    pose proof (f_equal v_ann Ev) as Eann. rewrite !ti_value_ann in Eann. injection Eann as Et _. 
    destruct (is_null (ti_value qo S (Some (in_type (snd nd))) (dn (in_default (snd nd))) (a_value a0))) eqn:En; [| reflexivity].
    rewrite Ev in En. unfold ti_value in En. rewrite ti_value_is_null in En. specialize (Hnull En).
    unfold required_arg in Hreq. rewrite Et, Hnull in Hreq. discriminate Hreq.
  Qed.

  Hypothesis arguments_primary : primary (flat_map (arg_f pi S) (tree_nodes (tree_doc A))) = [].

  Theorem arguments_all_silent : flat_map (arg_f pi S) (tree_nodes (tree_doc A)) = [].
  Proof.
    apply flat_map_nil_iff.
    assert (forall m, leafish m = true -> arg_f pi S m = []) as Hleaf by (intros m Hm; destruct m; try discriminate; reflexivity).
    rewrite primary_flat_map, flat_map_nil_iff in arguments_primary.
    rewrite (directive_visitor_nil qo S F (fun n => primary (arg_f pi S n)) D) in arguments_primary;
      [| intros m Hm; rewrite (Hleaf m Hm); reflexivity | reflexivity | reflexivity].
    destruct arguments_primary as [Pdefs Psels].
    apply (directive_visitor_nil qo S F (arg_f pi S) D Hleaf (fun _ => eq_refl) (fun _ => eq_refl)).
    (* a directive, wherever it stands *)
    assert (forall dir0, (exists loc, In (loc, dir0) (all_directives D)) ->
                         (forall a, In a (d_args (ti_dir qo S dir0)) -> arg_value_of (a_value a) /\ In (a_value a) (flat_map def_vals A)) ->
                         primary (arg_f pi S (NDirective (ti_dir qo S dir0))) = [] -> arg_f pi S (NDirective (ti_dir qo S dir0)) = []) as Hdir.
    { intros dir0 [loc Hloc] Htop Hp. destruct (directive_defined S D directives_known _ _ Hloc) as [dd Hdd].
      rewrite (arg_f_directive pi S dir0 dd Hdd) in *. apply (args_errs_nil pi Hpi); [exact Hp |].
      intros a nd Ha Hnd Hname Hreq. cbn [d_args ti_dir] in Ha, Htop. rewrite Hdd in Ha.
      destruct (Htop a) as [H1 H2]; [rewrite Hdd; exact Ha |].
      apply (null_arg_not_required (dd_args dd) dflt_is_value (d_args dir0) a nd (directive_args_ok S args_hyp _ _ Hdd) Ha H1 H2 Hnd Hname Hreq). }
    split.
    - intros d Hd. split; [reflexivity |]. intros dir Hdir'. pose proof Hdir' as Hdir''. rewrite def_dirs_pti in Hdir'. apply in_map_iff in Hdir' as [dir0 [<- Hdir0]].
      apply Hdir; [apply (def_dir_listed D d dir0 Hd Hdir0) | | apply (proj2 (Pdefs d Hd)); exact Hdir''].
      intros a Ha. assert (In (a_value a) (dir_vals (def_dirs (pti_def qo S F d)) ++ vals_ss (def_sub (pti_def qo S F d)))) as Hin.
      { apply in_or_app. left. unfold dir_vals. apply in_flat_map. exists (ti_dir qo S dir0). split; [exact Hdir'' | apply in_map; exact Ha]. }
      split; [apply (def_arg_values d _ Hd Hin) | apply (def_arg_values_visited d _ Hd Hin)].
    - intros d sc s0 Hd Hin.
      assert (forall v', In v' (own_vals (pti_sel qo S F sc s0)) -> arg_value_of v' /\ In v' (flat_map def_vals A)) as Hown.
      { intros v' Hv'. split; [apply (own_vals_args d sc s0 v' Hd Hin Hv') |].
        apply (def_arg_values_visited d v' Hd). apply in_or_app. right. rewrite pti_def_sub. apply (proj2 (vals_enum qo S F)). exists sc, s0. auto. }
      destruct (Psels d sc s0 Hd Hin) as [Ps Pd]. split.
      + destruct s0 as [a al n np args dirs sub | n np dirs e | cond dirs sub e]; try reflexivity.
        destruct (field_occ_defs pi S F D fields_known no_typename_field d sc a al n np args dirs sub Hd Hin) as [defs [Hdef Hf]].
        rewrite Hf in *. apply (args_errs_nil pi Hpi); [exact Ps |].
        intros a' nd Ha' Hnd Hname Hreq.
        assert (field_of_scope S F sc n = Some defs) as Efs.
        { unfold fo_def in Hdef. cbn [fo_parent fo_field] in Hdef. destruct sc as [p|]; [| discriminate]. unfold field_def_of in Hdef.
          destruct (name_eqb n s_typename); [| rewrite declared_field_eq in Hdef; exact Hdef].
          destruct (composite S p); [| discriminate]. inversion Hdef; subst defs. destruct Hnd. }
        unfold field_args in Ha'. rewrite Efs in Ha'.
        assert (In (a_value a') (own_vals (pti_sel qo S F sc (SField a al n np args dirs sub)))) as Hv'.
        { rewrite pti_sel_field_eq. unfold own_vals. apply in_or_app. left. unfold field_args. rewrite Efs. apply in_map. exact Ha'. }
        destruct (Hown _ Hv') as [H1 H2].
        apply (null_arg_not_required (f_args defs) dflt_not_nil args a' nd (field_of_scope_args_ok S F args_hyp _ _ _ Efs) Ha' H1 H2 Hnd Hname Hreq).
      + intros dir Hdir'. pose proof Hdir' as Hdir''. rewrite sel_dirs_pti in Hdir'. apply in_map_iff in Hdir' as [dir0 [<- Hdir0]].
        apply Hdir; [apply (sel_dir_listed S F D d sc s0 dir0 Hd Hin Hdir0) | | apply Pd; exact Hdir''].
        intros a Ha. apply Hown. unfold own_vals. apply in_or_app. right. unfold dir_vals. apply in_flat_map.
        exists (ti_dir qo S dir0). split; [exact Hdir'' | apply in_map; exact Ha].
  Qed.
End Rules.

(** ** validateVariables: where its errors come from *)
Lemma worklist_errs_in pi D vars fuel : forall st st',
  vars_worklist pi D fuel vars st = Some st' ->
  forall e, In e (v_errs st') -> In e (v_errs st) \/ exists x, In e (flat_map (var_fe vars) (body D x)).
Proof.
  induction fuel as [|fuel IH]; intros st st' H e He; rewrite worklist_unfold in H; [discriminate |].
  destruct (pi name (v_unval st)) as [|n r]; [inversion H; subst; left; exact He |].
  destruct (IH _ _ H e He) as [Hin | Hx]; [| right; exact Hx].
  unfold pick in Hin. rewrite vfold_errs in Hin. cbn [v_errs] in Hin. apply in_app_or in Hin as [Hin | Hin]; [left; exact Hin | right; exists n; exact Hin].
Qed.

Lemma vardefs_loop_primary S vars : forall seen, all_primary (vardefs_loop S vars seen).
Proof.
  induction vars as [|v r IH]; intros seen e He; [destruct He |]. cbn [vardefs_loop] in He.
  apply in_app_or in He as [He | He]; [| apply in_app_or in He as [He | He]; [| apply (IH _ e He)]].
  - destruct (mem (vd_name v) seen); [destruct He as [<- | []]; reflexivity | destruct He].
  - destruct (vd_ann v) as [t|]; [| destruct He as [<- | []]; reflexivity].
    destruct (raw_body S (unwrapped t)) as [b|]; [destruct (is_input_body b); [destruct He |] |]; destruct He as [<- | []]; reflexivity.
Qed.

Section VarsOp.
  Variable pi : order.
  Variable S : schema.
  Variable A : document.

  Definition from_usages (e : verror) : Prop :=
    exists ot n vars dirs sub, In (DOp ot n vars dirs sub) A /\ vardefs_loop S vars [] = [] /\
      (In e (flat_map (var_fe vars) (body0 (DOp ot n vars dirs sub))) \/ exists x, In e (flat_map (var_fe vars) (body A x))).

  Lemma vars_op_mono st d e : In e (r_errs st) -> In e (r_errs (vars_op pi S A st d)).
  Proof.
    intros H. destruct d as [ot n vars dirs sub |]; [| exact H]. cbn [vars_op].
    destruct (vars_worklist pi A (graph_fuel A) vars _) as [v1|]; cbn [r_errs add_errs set_abort]; rewrite ?in_app_iff; tauto.
  Qed.
  Lemma vars_fold_mono l : forall st e, In e (r_errs st) -> In e (r_errs (fold_left (vars_op pi S A) l st)).
  Proof. induction l as [|d l IH]; intros st e H; [exact H |]. cbn [fold_left]. apply IH, vars_op_mono, H. Qed.

  Lemma vars_op_defs st ot n vars dirs sub e :
    In e (vardefs_loop S vars []) -> In e (r_errs (vars_op pi S A st (DOp ot n vars dirs sub))).
  Proof.
    intros H. cbn [vars_op]. destruct (vars_worklist pi A (graph_fuel A) vars _) as [v1|]; cbn [r_errs add_errs set_abort]; rewrite ?in_app_iff; tauto.
  Qed.
  Lemma vars_fold_defs l : forall st ot n vars dirs sub e,
    In (DOp ot n vars dirs sub) l -> In e (vardefs_loop S vars []) -> In e (r_errs (fold_left (vars_op pi S A) l st)).
  Proof.
    induction l as [|d l IH]; intros st ot n vars dirs sub e Hin He; [destruct Hin |]. cbn [fold_left]. destruct Hin as [-> | Hin].
    - apply vars_fold_mono, vars_op_defs, He.
    - apply (IH _ ot n vars dirs sub e Hin He).
  Qed.

  (** an error of one operation: primary, or reported at a variable the work list met *)
  Lemma vars_op_errs st ot n vars dirs sub e :
    In e (r_errs (vars_op pi S A st (DOp ot n vars dirs sub))) ->
    In e (r_errs st) \/ e_sec e = false \/
    In e (flat_map (var_fe vars) (body0 (DOp ot n vars dirs sub))) \/ exists x, In e (flat_map (var_fe vars) (body A x)).
  Proof.
    cbn [vars_op]. rewrite vars_inspect. fold (body0 (DOp ot n vars dirs sub)).
    destruct (vars_worklist pi A (graph_fuel A) vars _) as [v1|] eqn:Ew; cbn [r_errs add_errs set_abort]; rewrite ?in_app_iff.
    - intros [[H | H] | [H | H]]; [left; exact H | right; left; apply (vardefs_loop_primary S vars [] e H) | |].
      + destruct (worklist_errs_in pi A vars _ _ _ Ew e H) as [H' | H']; [| right; right; right; exact H'].
        rewrite vfold_errs in H'. cbn [v_errs app] in H'. right. right. left. exact H'.
      + right. left. apply in_flat_map in H as [v [_ H]]. destruct (mem (vd_name v) (v_enc v1)); [destruct H | destruct H as [<- | []]; reflexivity].
    - intros [H | H]; [left; exact H | right; left; apply (vardefs_loop_primary S vars [] e H)].
  Qed.

  Lemma vars_fold_errs l : incl l A -> forall st e,
    (forall ot n vars dirs sub, In (DOp ot n vars dirs sub) l -> vardefs_loop S vars [] = []) ->
    In e (r_errs (fold_left (vars_op pi S A) l st)) -> In e (r_errs st) \/ e_sec e = false \/ from_usages e.
  Proof.
    induction l as [|d l IH]; intros Hl st e Hdefs H; [left; exact H |]. cbn [fold_left] in H.
    destruct (IH (fun x Hx => Hl x (or_intror Hx)) _ e (fun ot n vars dirs sub Hin => Hdefs ot n vars dirs sub (or_intror Hin)) H) as [H' | H']; [| right; exact H'].
    destruct d as [ot n vars dirs sub | kw n np cond dirs sub]; [| left; exact H'].
    destruct (vars_op_errs st ot n vars dirs sub e H') as [H1 | [H1 | H1]]; [left; exact H1 | right; left; exact H1 |].
    right. right. exists ot, n, vars, dirs, sub. split; [apply Hl; left; reflexivity |]. split; [apply (Hdefs ot n vars dirs sub (or_introl eq_refl)) | exact H1].
  Qed.
End VarsOp.

Lemma vardef_first_in n vars def : vardef_first n vars = Some def -> In def vars.
Proof.
  induction vars as [|v r IH]; [discriminate |]. cbn [vardef_first]. destruct (name_eqb n (vd_name v)); [intros H; inversion H; left; reflexivity | intros H; right; apply IH; exact H].
Qed.

(** a secondary error of validateVariables inside a value is "no location type" when every variable
    definition has a type *)
Lemma usage_errs_sec qo S vars :
  (forall def, In def vars -> vd_ann def <> None) ->
  forall v sc e dm x, In x (usage_errs qo S vars sc e dm v) -> e_sec x = true -> e_kind x = EVarNoLocation.
Proof.
  intros Hann. induction v as [a n dl np | | | | | | | a vs p IH | a fs p IH] using value_ind'; intros sc e dm x Hx Hs; try (destruct Hx; fail).
  - cbn [usage_errs] in Hx. destruct (vardef_first n vars) as [def|] eqn:Ed; [| destruct Hx as [<- | []]; discriminate Hs].
    specialize (Hann def (vardef_first_in n vars def Ed)). unfold variable_usage in Hx. destruct (vd_ann def) as [vt|]; [| congruence].
    cbn [va_expected va_scalar va_default] in Hx. destruct e as [lt|].
    + exfalso. assert (forall l, In x (if types_compatible vt l then [] else [err EVarIncompatible dl]) -> False) as Hc
          by (intros l Hl; destruct (types_compatible vt l); [destruct Hl | destruct Hl as [<- | []]; discriminate Hs]).
      destruct lt as [b | l | l]; try (apply (Hc _ Hx)).
      destruct (negb (is_nonnull vt)); [| apply (Hc _ Hx)].
      destruct (negb match vd_default def with Some x0 => negb (is_null x0) | None => false end && negb dm); [destruct Hx as [<- | []]; discriminate Hs | apply (Hc _ Hx)].
    + destruct sc; [destruct Hx | destruct Hx as [<- | []]; reflexivity].
  - cbn [usage_errs] in Hx. apply in_flat_map in Hx as [y [Hy Hx]]. rewrite Forall_forall in IH. apply (IH y Hy _ _ _ x Hx Hs).
  - cbn [usage_errs] in Hx. apply in_flat_map in Hx as [[[fn fp] y] [Hy Hx]]. rewrite Forall_forall in IH. specialize (IH _ Hy). cbn [snd] in IH.
    destruct (match object_fields qo S e with Some l => assoc fn l | None => None end); apply (IH _ _ _ x Hx Hs).
Qed.

(** the values below a definition, for a collector that is silent on selections *)
Section ColVals.
  Context {X : Type}.
  Variable h : node -> list X.
  Hypothesis quiet : forall n, loud n = false -> h n = [].
  Hypothesis h_sel : forall s, h (NSel s) = [].
  Notation cv := (fun v => col h (tree_value v)).

  Lemma col_args_vals args : flat_map (col_arg h) args = flat_map cv (arg_vals args).
  Proof. unfold arg_vals. rewrite fm_map. reflexivity. Qed.
  Lemma col_dirs_vals dirs : flat_map (col_dir h) dirs = flat_map cv (dir_vals dirs).
  Proof. unfold dir_vals. rewrite fm_fm. apply flat_map_ext. intros d. apply col_args_vals. Qed.

  Lemma col_sel_vals :
    (forall s, col h (tree_sel s) = flat_map cv (vals_sel s)) /\ (forall ss, col h (tree_ss ss) = flat_map cv (vals_ss ss)).
  Proof.
    apply sel_ss_ind.
    - intros a al n np args dirs sub IH. rewrite (col_field h quiet). cbn [vals_sel]. rewrite !flat_map_app, col_args_vals, col_dirs_vals.
      destruct sub as [ss|]; [rewrite (IH ss eq_refl) |]; reflexivity.
    - intros n np dirs e. rewrite (col_spread h quiet), h_sel. cbn [vals_sel app]. apply col_dirs_vals.
    - intros cond dirs sub e IH. rewrite (col_inline h quiet). cbn [vals_sel]. rewrite flat_map_app, col_dirs_vals, IH. reflexivity.
    - intros a sels p IH. rewrite (col_ss h quiet). cbn [vals_ss]. rewrite fm_fm. induction IH as [|s l Hs _ IHl]; [reflexivity |]. cbn [flat_map]. rewrite Hs, IHl. reflexivity.
  Qed.

  Lemma col_def_vals d : col h (tree_def d) = flat_map cv (dir_vals (def_dirs d) ++ vals_ss (def_sub d)).
  Proof. rewrite (col_def h quiet), flat_map_app, col_dirs_vals, (proj2 col_sel_vals). reflexivity. Qed.
End ColVals.

Lemma var_fe_sel vars s : var_fe vars (NSel s) = [].
Proof. reflexivity. Qed.
Lemma var_fe_quiet vars n : loud n = false -> var_fe vars n = [].
Proof. intros H. destruct n as [?|?|? ?|? ?|?|?|?|?|s|?|v|? ? ?]; try reflexivity. destruct v; try reflexivity; discriminate H. Qed.

(** ** validateVariables reports nothing *)
Section Variables.
  Variable pi : order.
  Hypothesis Hpi : order_ok pi.
  Variable S : schema.
  Variable F : features.
  Variable D : document.
  Notation qo := (q_unwrap_obj repaired).
  Notation A := (pti_doc qo S F D).
  Hypothesis input_closed : forall tn defs, raw_body S tn = Some (TInput defs) -> forall nd, In nd defs -> input_sty S (in_type (snd nd)).
  Hypothesis no_typename_field : forall top, field_of_scope S F top n_typename = None.
  Hypothesis args_hyp : schema_args_ok S = true.
  Hypothesis fields_known : forall o, In o (all_fields S F D) -> fo_def S F o <> None.
  Hypothesis directives_known : valid_5_7_1 S D = true.
  Hypothesis args_known : valid_5_4_1 S F D = true.
  Hypothesis values_primary : primary (flat_map (fun v => val_f pi S (NValue v)) (flat_map def_vals A)) = [].
  Variable e8 : list verror.
  Hypothesis vars_done : rule_variables pi S A = Done e8.
  Hypothesis vars_primary : primary e8 = [].

  Lemma vars_errs_eq : r_errs (fold_left (vars_op pi S A) A rst0) = e8.
  Proof. apply finish_done_inv. exact vars_done. Qed.

  Lemma vardefs_fine ot n vars dirs sub : In (DOp ot n vars dirs sub) A -> vardefs_loop S vars [] = [].
  Proof.
    intros Hin. destruct (vardefs_loop S vars []) as [|x l] eqn:E; [reflexivity | exfalso].
    assert (In x e8) as Hx by (rewrite <- vars_errs_eq; apply (vars_fold_defs pi S A A rst0 ot n vars dirs sub x Hin); rewrite E; left; reflexivity).
    assert (In x (primary e8)) as Hp.
    { apply filter_In. split; [exact Hx |]. rewrite (vardefs_loop_primary S vars [] x); [reflexivity | rewrite E; left; reflexivity]. }
    rewrite vars_primary in Hp. destruct Hp.
  Qed.

  Lemma defaults_typed vd x : In vd (all_vardefs D) -> vd_default vd = Some x -> exists t, declared_type S F (vd_type vd) = Some t /\ input_sty S t.
  Proof.
    intros Hvd _. unfold all_vardefs in Hvd. apply in_flat_map in Hvd as [d [Hd Hvd]]. destruct d as [ot n vars0 dirs sub |]; [| destruct Hvd].
    pose proof (vardefs_fine ot n _ _ _ (in_map (pti_def qo S F) D _ Hd)) as Hf. cbn [pti_def] in Hf.
    destruct (vardefs_loop_nil S _ _ Hf) as [_ [_ Ht]].
    destruct (Ht (ti_vardef qo S F vd) (in_map _ _ _ Hvd)) as [t [b [E1 [E2 E3]]]]. cbn [vd_ann ti_vardef] in E1.
    exists t. split; [rewrite <- schema_type_declared; exact E1 |]. unfold input_sty. rewrite E2. exact E3.
  Qed.

  Theorem variables_all_silent : e8 = [].
  Proof.
    apply primary_nil_all; [| exact vars_primary]. intros e He. destruct (e_sec e) eqn:Es; [exfalso | reflexivity].
    rewrite <- vars_errs_eq in He.
    destruct (vars_fold_errs pi S A A (incl_refl A) rst0 e vardefs_fine He) as [[] | [H | H]]; [congruence |].
    destruct H as [ot [n [vars [dirs [sub [Hop [Hdefs Hfrom]]]]]]].
    assert (exists d1, In d1 D /\ In e (col (var_fe vars) (tree_def (pti_def qo S F d1)))) as [d1 [Hd1 Hin]].
    { destruct Hfrom as [H | [x H]].
      - unfold pti_doc in Hop. apply in_map_iff in Hop as [d1 [E Hd1]]. exists d1. split; [exact Hd1 |]. rewrite E. exact H.
      - unfold body in H. destruct (frag_last A x) as [d'|] eqn:Ef; [| destruct H]. apply frag_last_in in Ef.
        unfold pti_doc in Ef. apply in_map_iff in Ef as [d1 [E Hd1]]. exists d1. split; [exact Hd1 |]. rewrite E. exact H. }
    rewrite (col_def_vals (var_fe vars) (var_fe_quiet vars) (var_fe_sel vars)) in Hin. apply in_flat_map in Hin as [v' [Hv' Hin]].
    pose proof (def_arg_values S F D no_typename_field d1 v' Hd1 Hv') as Harg.
    pose proof (def_arg_values_visited S F D d1 v' Hd1 Hv') as Hvis.
    destruct (arg_value_clean pi Hpi S F D input_closed args_hyp fields_known directives_known args_known values_primary vars v' Harg Hvis)
      as [t [dn [v0 [Ev [_ [_ [Hnl _]]]]]]].
    rewrite Ev in Hin. unfold ti_value, col in Hin. rewrite vars_value_errs in Hin.
    apply (Hnl e Hin). apply (usage_errs_sec qo S vars) with (v := v0) (sc := false) (e := Some t) (dm := dn); [| exact Hin | exact Es].
    intros def Hdef. destruct (vardefs_loop_nil S _ _ Hdefs) as [_ [_ Ht]]. destruct (Ht def Hdef) as [t' [b [E _]]]. congruence.
  Qed.
End Variables.

(** the first field visitor silent on good scopes: every field has a definition *)
Lemma silent_fields_known S F D :
  (forall top, field_of_scope S F top n_typename = None) -> composite_name S n_String = false ->
  (forall d o, In d D -> In o (ssels_ss S F (model_def_scope S F d) (def_sub d)) -> good S (fst o)) ->
  r_errs (inspect (fields_enter S F) pop (tree_doc (pti_doc (q_unwrap_obj repaired) S F D)) rst0) = [] ->
  forall o, In o (all_fields S F D) -> fo_def S F o <> None.
Proof.
  intros Hnt Hstr Hgood Hpass o Ho. rewrite fields_pass_errors in Hpass.
  apply all_fields_enum in Ho as [d [sc [s0 [Hd [Hin [Hfld ->]]]]]].
  destruct s0 as [a al n np args dirs sub | |]; try discriminate.
  rewrite flat_map_nil_iff in Hpass. specialize (Hpass d Hd). rewrite flat_map_nil_iff in Hpass. specialize (Hpass _ Hin). cbn [fst snd] in Hpass.
  destruct (occ_defined S F Hnt Hstr (q_unwrap_obj repaired) sc a al n np args dirs sub (Hgood d _ Hd Hin) Hpass) as [def [E _]]. congruence.
Qed.

Lemma Done_inj a b : Done a = Done b -> a = b.
Proof. intros H. injection H as H. exact H. Qed.

(** ** no primary error anywhere: validateArguments, validateValues and validateVariables are silent *)
Theorem no_primary_then_rules_silent_gen pi S F D rf errs :
  order_ok pi -> schema_ok S = true -> schema_args_ok S = true -> fields_prefix S F D rf ->
  rules_with repaired pi S F (pti_doc (q_unwrap_obj repaired) S F D) rf = Done errs -> primary errs = [] ->
  rule_arguments repaired pi S (pti_doc (q_unwrap_obj repaired) S F D) = Done [] /\
  rule_values repaired pi S (pti_doc (q_unwrap_obj repaired) S F D) = Done [] /\
  rule_variables pi S (pti_doc (q_unwrap_obj repaired) S F D) = Done [].
Proof.
  intros Hpi Hs Hargs Hrf Hall Hprim.
  destruct (no_primary_then_silent_gen pi S F D rf errs Hpi Hs Hrf Hall Hprim) as [Hroot [Hgood [Hpass [Hdecl [Hdir Hsp]]]]].
  destruct (rules_with_split _ _ _ _ _ _ _ Hall) as [e1 [e2 [e3 [e5 [e6 [e7 [e8 [R1 [R2 [R3 [R5 [R6 [R7 [R8 ->]]]]]]]]]]]]]].
  rewrite !primary_app_nil in Hprim. destruct Hprim as [P1 [P2 [P3 [[P4 P5] [P6 [P7 P8]]]]]].
  unfold schema_ok in Hs. apply andb_true_iff in Hs as [Hs Hs3]. apply andb_true_iff in Hs as [Hs1 Hs2].
  pose proof (schema_no_typename_spec S F Hs1) as Hnt. pose proof (schema_input_closed_spec S Hs2) as Hic.
  assert (composite_name S n_String = false) as Hstr.
  { unfold schema_roots_ok in Hs3. rewrite !andb_true_iff in Hs3. destruct Hs3 as [_ H]. apply negb_true_iff in H. exact H. }
  (* every field is defined *)
  pose proof (silent_fields_known S F D Hnt Hstr Hgood Hpass) as Hfk.
  (* every directive is defined *)
  assert (valid_5_7_1 S D = true) as Hdk.
  { apply (rule_directives_iff S F D) in Hdir. unfold valid_5_7 in Hdir. rewrite !andb_true_iff in Hdir. tauto. }
  (* every argument is defined *)
  assert (valid_5_4_1 S F D = true) as Hak.
  { destruct (rule_arguments_iff pi Hpi S F D Hfk Hdk Hnt) as [errs' [Ra Hiff]]. rewrite R3 in Ra. apply Done_inj in Ra. subst errs'.
    apply Hiff in P3. unfold ProofsArguments.valid_5_4 in P3. rewrite !andb_true_iff in P3. tauto. }
  (* values *)
  rewrite rule_values_eq in R6. apply Done_inj in R6. rename R6 into E6.
  assert (primary (flat_map (fun v => val_f pi S (NValue v)) (flat_map def_vals (pti_doc (q_unwrap_obj repaired) S F D))) = []) as Hvp by (rewrite E6; exact P6).
  (* arguments *)
  rewrite (rule_arguments_eq pi S F D Hnt Hfk Hdk) in R3. apply Done_inj in R3. rename R3 into E3.
  assert (primary (flat_map (arg_f pi S) (tree_nodes (tree_doc (pti_doc (q_unwrap_obj repaired) S F D)))) = []) as Hap by (rewrite E3; exact P3).
  split; [| split].
  - rewrite (rule_arguments_eq pi S F D Hnt Hfk Hdk). f_equal. apply (arguments_all_silent pi Hpi S F D Hic Hnt Hargs Hfk Hdk Hak Hvp Hap).
  - rewrite rule_values_eq. f_equal. apply (values_all_silent pi Hpi S F D Hic Hnt Hargs Hfk Hdk Hak Hvp).
    apply (defaults_typed pi S F D e8 R8 P8).
  - rewrite R8. f_equal. apply (variables_all_silent pi Hpi S F D Hic Hnt Hargs Hfk Hdk Hak Hvp e8 R8 P8).
Qed.

Theorem no_primary_then_rules_silent pi S F D errs :
  order_ok pi -> schema_ok S = true -> schema_args_ok S = true ->
  all_rules repaired pi S F (pti_doc (q_unwrap_obj repaired) S F D) = Done errs -> primary errs = [] ->
  rule_arguments repaired pi S (pti_doc (q_unwrap_obj repaired) S F D) = Done [] /\
  rule_values repaired pi S (pti_doc (q_unwrap_obj repaired) S F D) = Done [] /\
  rule_variables pi S (pti_doc (q_unwrap_obj repaired) S F D) = Done [].
Proof.
  intros Hpi Hs Hargs Hall Hprim. rewrite all_rules_with in Hall.
  apply (no_primary_then_rules_silent_gen pi S F D _ errs Hpi Hs Hargs (rule_fields_prefix pi S F D) Hall Hprim).
Qed.

(** ** every literal with an expected type is expected at an input type, once fields and directives
    are defined and variables are declared with input types *)
Lemma args_defs_ok S F D :
  schema_args_ok S = true ->
  (forall o, In o (all_fields S F D) -> fo_def S F o <> None) -> valid_5_7_1 S D = true ->
  forall ad defs, In ad (all_argument_lists S F D) -> snd ad = Some defs -> args_ok S defs = true.
Proof.
  intros Hargs Hfk Hdk ad defs Had Es. unfold all_argument_lists in Had.
  apply in_app_or in Had as [Had | Had]; apply in_map_iff in Had as [x [<- Hx]]; cbn [snd] in Es.
  - destruct (fo_def S F x) as [d|] eqn:Ed; [| discriminate]. inversion Es; subst defs.
    unfold fo_def in Ed. destruct (fo_parent x) as [p|]; [| discriminate]. destruct (fo_field x) as [a al f np args dirs sub | |]; try discriminate.
    unfold field_def_of in Ed. destruct (name_eqb f s_typename).
    + destruct (composite S p); [inversion Ed; reflexivity | discriminate].
    + rewrite declared_field_eq in Ed. apply (field_of_scope_args_ok S F Hargs _ _ _ Ed).
  - destruct x as [loc dir]. cbn [snd] in Es. unfold directive_def in Es.
    destruct (assoc (d_name dir) (s_directives S)) as [dd|] eqn:Edd; [| discriminate]. inversion Es; subst defs.
    apply (directive_args_ok S Hargs _ _ Edd).
Qed.

Theorem values_typed_input_holds S F D :
  schema_args_ok S = true ->
  (forall o, In o (all_fields S F D) -> fo_def S F o <> None) -> valid_5_7_1 S D = true -> valid_5_8_2 S F D = true ->
  values_typed_input S F D = true.
Proof.
  intros Hargs Hfk Hdk H582. unfold values_typed_input. apply forallb_forall. intros [v t] Hvt. cbn [snd].
  rewrite typed_values_split in Hvt. apply in_app_or in Hvt as [Hvt | Hvt].
  - apply in_arg_lists_values in Hvt as [ad [a0 [Had [Ha0 [Et _]]]]]. unfold arg_type in Et.
    destruct (snd ad) as [defs|] eqn:Es; [| discriminate]. destruct (assoc (a_name a0) defs) as [d|] eqn:Ed; [| discriminate]. inversion Et; subst t.
    pose proof (args_defs_ok S F D Hargs Hfk Hdk ad defs Had Es) as Hok.
    apply input_styb_spec. apply (proj2 (args_ok_spec S defs Hok) (a_name a0, d)). apply assoc_in. exact Ed.
  - unfold default_values in Hvt. apply in_flat_map in Hvt as [vd [Hvd Hvt]].
    destruct (vd_default vd) as [x|]; [| destruct Hvt]. destruct (declared_type S F (vd_type vd)) as [t'|] eqn:Et; [| destruct Hvt].
    destruct Hvt as [Hvt | []]. inversion Hvt; subst x t'.
    unfold valid_5_8_2 in H582. rewrite forallb_forall in H582. specialize (H582 vd Hvd). rewrite Et in H582.
    unfold input_type, type_of in H582. unfold input_styb. destruct (named_type S F (unwrapped t)) as [b|] eqn:Eb; [| discriminate].
    rewrite (ProofsFields.named_type_raw S F _ _ Eb). exact H582.
Qed.
