(** * Vld/ProofsSubscription.v — 5.2.3.1 (a subscription has one root field) in the Spec's
    formulation against the validator's check: both count the response names of the inductively
    collected fields — the validator with a visited set of selection-set positions on the annotated
    document (ProofsCollect.v), the Spec with a visited set of fragment names on the document as
    written (ProofsSpecCollect.v). *)
From Coq Require Import List NArith Arith Bool Lia.
From ApiFu Require Import Base.Sexp Vld.Ast Vld.AstInd Vld.Inspect Vld.InspectProofs Vld.TypeInfoModel Vld.TypeInfoPure Vld.Enumerate
     Vld.ValidatorModel Vld.ValidSpec Vld.Hyps Vld.ProofsCommon Vld.ProofsCycles Vld.ProofsFragDecl Vld.ProofsTotal Vld.ProofsSpreads Vld.ProofsDepth
     Vld.ProofsOperations Vld.MemoEquiv Vld.ProofsSpecReach Vld.ProofsVarsSpec Vld.ProofsCollect Vld.ProofsSpecCollect.
Import ListNotations.

(** ** one element up to repetition *)
Lemma NoDup_dedup l : NoDup (dedup l).
Proof.
  induction l as [|x l IH]; [constructor |]. cbn [dedup]. destruct (mem x l) eqn:E; [exact IH |].
  constructor; [| exact IH]. intros H. apply (proj1 (dedup_in _ _)) in H. apply mem_false in E. contradiction.
Qed.
Lemma dedup_single l :
  Nat.eqb (length (dedup l)) 1 = true <-> (exists x, In x l) /\ forall x y, In x l -> In y l -> x = y.
Proof.
  rewrite Nat.eqb_eq. pose proof (NoDup_dedup l) as Hnd. split.
  - intros H. destruct (dedup l) as [|k [|k1 r]] eqn:E; try discriminate H.
    assert (forall x, In x l -> x = k) as Hk by (intros x Hx; apply (proj2 (dedup_in _ _)) in Hx; rewrite E in Hx; destruct Hx as [<- | []]; reflexivity).
    split; [exists k; apply dedup_in; rewrite E; left; reflexivity |]. intros x y Hx Hy. rewrite (Hk x Hx), (Hk y Hy). reflexivity.
  - intros [[x Hx] Hall]. destruct (dedup l) as [|k [|k1 r]] eqn:E; [apply (proj2 (dedup_in _ _)) in Hx; rewrite E in Hx; destruct Hx | reflexivity | exfalso].
    assert (In k l) as Hk by (apply dedup_in; rewrite E; left; reflexivity).
    assert (In k1 l) as Hk1 by (apply dedup_in; rewrite E; right; left; reflexivity).
    pose proof (Hall k k1 Hk Hk1) as Heq. subst k1. inversion Hnd as [| ? ? Hni _]; subst. apply Hni. left. reflexivity.
Qed.

Section Bridge.
  Variable S : schema.
  Variable F : features.
  Variable D : document.
  Notation qo := (q_unwrap_obj repaired).
  Notation A := (pti_doc qo S F D).
  Hypothesis names_unique : NoDup (frag_names D).

  Lemma response_name_pti sc f : response_name (pti_sel qo S F sc f) = response_name f.
  Proof. destruct f as [a [[al ap]|] n np args dirs sub | |]; reflexivity. Qed.
  Lemma incs_field ss f : InCS D ss f -> is_fieldb f = true.
  Proof. intros H. induction H; assumption. Qed.
  Lemma resp_name_field f : is_fieldb f = true -> resp_name f = response_name f.
  Proof. destruct f as [a [[al ap]|] n np args dirs sub | |]; try discriminate; reflexivity. Qed.

  (** the collected fields of the annotated document are those of the document as written *)
  Lemma inc_pti_spec t f' : InC A t f' -> forall sc ss, t = pti_ss qo S F sc ss -> exists f, InCS D ss f /\ response_name f' = response_name f.
  Proof.
    intros H. induction H as [a sels p f' Hf Hfld | a sels p c dirs sub e f' Hs _ IH | a sels p n np dirs e d f' Hs Hd _ IH]; intros sc [a0 sels0 p0] Et;
      rewrite pti_ss_eq in Et; inversion Et; subst a sels p.
    - apply in_map_iff in Hf as [f0 [<- Hf0]]. exists f0. split; [| apply response_name_pti].
      apply InCS_field; [exact Hf0 |]. rewrite <- (proj2 (pti_sel_pos qo S F sc f0)). exact Hfld.
    - apply in_map_iff in Hs as [s0 [Es Hs0]]. destruct s0 as [| | c0 dirs0 sub0 e0]; try discriminate Es.
      rewrite pti_sel_inline_eq in Es. inversion Es; subst c dirs sub e.
      destruct (IH _ _ eq_refl) as [f [Hf Hn]]. exists f. split; [apply (InCS_inline D a0 sels0 p0 c0 dirs0 sub0 e0 f Hs0 Hf) | exact Hn].
    - apply in_map_iff in Hs as [s0 [Es Hs0]]. destruct s0 as [| n0 np0 dirs0 e0 |]; try discriminate Es. cbn [pti_sel] in Es. inversion Es; subst n0 np0 dirs e0.
      rewrite frag_last_pti in Hd. destruct (frag_last D n) as [d0|] eqn:El; [| discriminate Hd]. cbn [option_map] in Hd. inversion Hd; subst d.
      destruct (IH _ _ (pti_def_sub qo S F d0)) as [f [Hf Hn]]. exists f. split; [| exact Hn].
      apply (InCS_spread D a0 sels0 p0 n np dirs0 e d0 f Hs0 (frag_last_first D names_unique n d0 El) Hf).
  Qed.

  Lemma spec_inc_pti ss f : InCS D ss f -> forall sc, exists f', InC A (pti_ss qo S F sc ss) f' /\ response_name f' = response_name f.
  Proof.
    intros H. induction H as [a sels p f Hf Hfld | a sels p c dirs sub e f Hs _ IH | a sels p n np dirs e d f Hs Hd _ IH]; intros sc; rewrite pti_ss_eq.
    - exists (pti_sel qo S F sc f). split; [| apply response_name_pti].
      apply InC_field; [apply in_map; exact Hf | rewrite (proj2 (pti_sel_pos qo S F sc f)); exact Hfld].
    - destruct (IH (inline_scope S F sc c)) as [f' [Hf' Hn]]. exists f'. split; [| exact Hn].
      apply (InC_inline A sc _ p c (map (ti_dir qo S) dirs) (pti_ss qo S F (inline_scope S F sc c) sub) e f'); [| exact Hf'].
      rewrite <- (pti_sel_inline_eq qo S F sc c dirs sub e). apply in_map. exact Hs.
    - destruct (IH (model_def_scope S F d)) as [f' [Hf' Hn]]. exists f'. split; [| exact Hn].
      apply (InC_spread A sc _ p n np (map (ti_dir qo S) dirs) e (pti_def qo S F d) f').
      + change (SSpread n np (map (ti_dir qo S) dirs) e) with (pti_sel qo S F sc (SSpread n np dirs e)). apply in_map. exact Hs.
      + rewrite frag_last_pti. unfold fragment in Hd. rewrite (frag_first_last D names_unique n d Hd). reflexivity.
      + rewrite pti_def_sub. exact Hf'.
  Qed.

  (** the Spec's count, on the inductive collection *)
  Lemma spec_single parent ss :
    Nat.eqb (length (dedup (map (fun c => resp_name (fst c)) (collected S F D parent ss)))) 1 = true <->
    (exists f, InCS D ss f) /\ forall f g, InCS D ss f -> InCS D ss g -> response_name f = response_name g.
  Proof.
    rewrite dedup_single. split.
    - intros [[x Hx] Hall]. apply in_map_iff in Hx as [[f par] [_ Hf]].
      split; [exists f; apply (collected_sound S F D parent ss f); exists par; exact Hf |].
      intros f1 g1 Hf1 Hg1. destruct (collected_complete S F D parent ss f1 Hf1) as [p1 H1]. destruct (collected_complete S F D parent ss g1 Hg1) as [p2 H2].
      rewrite <- (resp_name_field f1 (incs_field ss f1 Hf1)), <- (resp_name_field g1 (incs_field ss g1 Hg1)).
      apply Hall; apply in_map_iff; [exists (f1, p1) | exists (g1, p2)]; auto.
    - intros [[f Hf] Hall]. destruct (collected_complete S F D parent ss f Hf) as [par Hin]. split.
      + exists (resp_name f). apply in_map_iff. exists (f, par). auto.
      + intros x y Hx Hy. apply in_map_iff in Hx as [[f1 p1] [<- H1]]. apply in_map_iff in Hy as [[g1 p2] [<- H2]]. cbn [fst].
        pose proof (collected_sound S F D parent ss f1 (ex_intro _ p1 H1)) as Hf1. pose proof (collected_sound S F D parent ss g1 (ex_intro _ p2 H2)) as Hg1.
        rewrite (resp_name_field f1 (incs_field ss f1 Hf1)), (resp_name_field g1 (incs_field ss g1 Hg1)). apply (Hall f1 g1 Hf1 Hg1).
  Qed.

  (** the same condition on the annotated document *)
  Lemma single_bridge sc ss :
    ((exists f, InCS D ss f) /\ forall f g, InCS D ss f -> InCS D ss g -> response_name f = response_name g) <->
    ((exists f', InC A (pti_ss qo S F sc ss) f') /\
     forall f' g', InC A (pti_ss qo S F sc ss) f' -> InC A (pti_ss qo S F sc ss) g' -> response_name f' = response_name g').
  Proof.
    split.
    - intros [[f Hf] Hall]. split; [destruct (spec_inc_pti ss f Hf sc) as [f' [Hf' _]]; exists f'; exact Hf' |].
      intros f' g' Hf' Hg'. destruct (inc_pti_spec _ f' Hf' sc ss eq_refl) as [f1 [H1 N1]]. destruct (inc_pti_spec _ g' Hg' sc ss eq_refl) as [g1 [H2 N2]].
      rewrite N1, N2. apply (Hall f1 g1 H1 H2).
    - intros [[f' Hf'] Hall]. split; [destruct (inc_pti_spec _ f' Hf' sc ss eq_refl) as [f [Hf _]]; exists f; exact Hf |].
      intros f g Hf Hg. destruct (spec_inc_pti ss f Hf sc) as [f1 [H1 N1]]. destruct (spec_inc_pti ss g Hg sc) as [g1 [H2 N2]].
      rewrite <- N1, <- N2. apply (Hall f1 g1 H1 H2).
  Qed.
End Bridge.

(** ** selection sets at distinct positions: on the document as written, hence on the annotated one *)
Definition doc_set_positions_distinct (D : document) : Prop := NoDup (map ss_pos (all_subs D)).

Lemma subs_pos_pti qo S F :
  (forall s top, map ss_pos (subs_sel (pti_sel qo S F top s)) = map ss_pos (subs_sel s)) /\
  (forall ss top, map ss_pos (subs_ss (pti_ss qo S F top ss)) = map ss_pos (subs_ss ss)).
Proof.
  apply sel_ss_ind.
  - intros a al n np args dirs sub IH top. rewrite (pti_sel_field_eq qo S F top a al n np args dirs sub). destruct sub as [ss|]; [apply (IH ss eq_refl) | reflexivity].
  - reflexivity.
  - intros cond dirs sub e IH top. rewrite (pti_sel_inline_eq qo S F top cond dirs sub e). apply IH.
  - intros a sels p IH top. rewrite pti_ss_eq, !subs_ss_eq. cbn [map ss_pos]. f_equal.
    rewrite !map_fm, fm_map. induction IH as [|s l Hs _ IHl]; [reflexivity |]. cbn [flat_map]. rewrite Hs, IHl. reflexivity.
Qed.

Lemma all_subs_pos_pti qo S F D : map ss_pos (all_subs (pti_doc qo S F D)) = map ss_pos (all_subs D).
Proof.
  unfold all_subs, pti_doc. rewrite !map_fm, fm_map. apply flat_map_ext. intros d. rewrite pti_def_sub. apply (proj2 (subs_pos_pti qo S F)).
Qed.

Lemma sets_distinct_pti qo S F D :
  doc_set_positions_distinct D ->
  forall s1 s2, In s1 (all_subs (pti_doc qo S F D)) -> In s2 (all_subs (pti_doc qo S F D)) -> ss_pos s1 = ss_pos s2 -> s1 = s2.
Proof. intros H. apply NoDup_map_inj. rewrite all_subs_pos_pti. exact H. Qed.

(** ** the subscription check of one operation *)
Theorem sub_ok_spec S F D k kp n vars dirs ss :
  NoDup (frag_names D) -> doc_set_positions_distinct D -> In (DOp (Some (k, kp)) n vars dirs ss) D ->
  name_eqb k s_subscription_kw = true ->
  forall m v, add_selections repaired (pti_doc (q_unwrap_obj repaired) S F D) [] (Some (def_sub (pti_def (q_unwrap_obj repaired) S F (DOp (Some (k, kp)) n vars dirs ss)))) = COk m v ->
  (Nat.eqb (length m) 1 = true <->
   Nat.eqb (length (dedup (map (fun c => resp_name (fst c)) (collected S F D (root_type S (Some (k, (0, 0)%N))) ss)))) 1 = true).
Proof.
  intros Hnd Hpos Hd Hk m v Hm. rewrite pti_def_sub in Hm.
  rewrite (spec_single S F D _ ss), (single_bridge S F D Hnd (model_def_scope S F (DOp (Some (k, kp)) n vars dirs ss)) ss).
  apply (single_key_iff _ (sets_distinct_pti _ S F D Hpos) _ m v); [| exact Hm].
  unfold all_subs. apply in_flat_map. exists (pti_def (q_unwrap_obj repaired) S F (DOp (Some (k, kp)) n vars dirs ss)).
  split; [unfold pti_doc; apply in_map; exact Hd | rewrite pti_def_sub; apply subs_self].
Qed.

(** addFieldSelections fails only on a spread without target *)
Lemma collect_no_err A :
  (forall a sels p n np dirs e, In (SelSet a sels p) (all_subs A) -> In (SSpread n np dirs e) sels -> frag_last A n <> None) ->
  forall fuel m visited ss e0, In ss (all_subs A) -> collect repaired A fuel m visited ss <> CErr e0.
Proof.
  intros Hspd. induction fuel as [|fuel IH]; intros m visited ss e0 Hss H; rewrite collect_unfold in H; [discriminate |].
  destruct ss as [a sels p]. destruct (pmem p visited); [cbn [q_revisit_ok repaired] in H; discriminate |].
  assert (forall l m0 v, (forall s, In s l -> In s sels) -> collect_go A (collect repaired A fuel) a p l m0 v <> CErr e0) as Hgo.
  { induction l as [|s r IHl]; intros m0 v Hl Hc; cbn [collect_go] in Hc; [discriminate |].
    assert (forall s', In s' r -> In s' sels) as Hr by (intros s' Hs'; apply Hl; right; exact Hs').
    assert (In s sels) as Hs by (apply Hl; left; reflexivity).
    destruct s as [a0 al n np args dirs sub | n np dirs e | cond dirs sub e].
    - apply (IHl _ _ Hr Hc).
    - destruct (frag_last A n) as [d|] eqn:Ed; [| apply (Hspd a sels p n np dirs e Hss Hs Ed)].
      destruct (collect repaired A fuel m0 v (def_sub d)) as [m2 v2 | e1 |] eqn:Ec; [apply (IHl _ _ Hr Hc) | | discriminate Hc].
      inversion Hc; subst e1. apply (IH _ _ _ _ (frag_sub_in A n d Ed) Ec).
    - destruct (collect repaired A fuel m0 v sub) as [m2 v2 | e1 |] eqn:Ec; [apply (IHl _ _ Hr Hc) | | discriminate Hc].
      inversion Hc; subst e1. apply (IH _ _ _ _ (subs_closed A a sels p _ sub Hss Hs eq_refl) Ec). }
  apply (Hgo sels m (p :: visited) (fun s h => h) H).
Qed.

Section Document.
  Variable S : schema.
  Variable F : features.
  Variable D : document.
  Notation qo := (q_unwrap_obj repaired).
  Notation A := (pti_doc qo S F D).
  Hypothesis names_unique : NoDup (frag_names D).
  Hypothesis sets_distinct : doc_set_positions_distinct D.

  (** the validator's subscription checks all pass => 5.2.3.1 *)
  Theorem sub_ok_valid_5_2_3_1 :
    (forall d, In d D -> sub_ok repaired A (pti_def qo S F d) = true) -> valid_5_2_3_1 S F D = true.
  Proof.
    intros H. unfold valid_5_2_3_1. apply forallb_forall. intros d Hd. specialize (H d Hd).
    destruct d as [[[k kp]|] n vars dirs ss |]; try reflexivity.
    destruct (name_eqb k s_subscription_kw) eqn:Ek; [| reflexivity].
    cbn [pti_def sub_ok is_subscription] in H. change n_subscription with s_subscription_kw in H. rewrite Ek in H.
    destruct (add_selections repaired A [] (Some (pti_ss qo S F (op_scope S (Some (k, kp))) ss))) as [m v | |] eqn:Em; try discriminate H.
    apply (proj1 (sub_ok_spec S F D k kp n vars dirs ss names_unique sets_distinct Hd Ek m v Em) H).
  Qed.

  (** and conversely, when every spread has a target *)
  Theorem valid_5_2_3_1_sub_ok :
    (forall a sels p n np dirs e, In (SelSet a sels p) (all_subs A) -> In (SSpread n np dirs e) sels -> frag_last A n <> None) ->
    valid_5_2_3_1 S F D = true -> forall d, In d D -> sub_ok repaired A (pti_def qo S F d) = true.
  Proof.
    intros Hspd H d Hd. unfold valid_5_2_3_1 in H. rewrite forallb_forall in H. specialize (H d Hd).
    destruct d as [[[k kp]|] n vars dirs ss |]; try reflexivity.
    cbn [pti_def sub_ok is_subscription]. change n_subscription with s_subscription_kw. destruct (name_eqb k s_subscription_kw) eqn:Ek; [| reflexivity].
    assert (In (pti_ss qo S F (op_scope S (Some (k, kp))) ss) (all_subs A)) as Hin.
    { unfold all_subs. apply in_flat_map. exists (pti_def qo S F (DOp (Some (k, kp)) n vars dirs ss)). split; [unfold pti_doc; apply in_map; exact Hd | apply subs_self]. }
    pose proof (add_selections_total repaired A [] (Some (pti_ss qo S F (op_scope S (Some (k, kp))) ss)) (fun s E => ltac:(inversion E; subst; exact Hin))) as Ht.
    destruct (add_selections repaired A [] (Some (pti_ss qo S F (op_scope S (Some (k, kp))) ss))) as [m v | e0 |] eqn:Em; [| | destruct Ht].
    - apply (proj2 (sub_ok_spec S F D k kp n vars dirs ss names_unique sets_distinct Hd Ek m v Em) H).
    - exfalso. unfold add_selections in Em. apply (collect_no_err A Hspd _ _ _ _ e0 Hin Em).
  Qed.
End Document.

(** the decidable form of the two positional hypotheses (evaluated on every generated document) *)
Lemma pnodupb_NoDup l : pnodupb l = true -> NoDup l.
Proof.
  induction l as [|x r IH]; intros H; [constructor |]. cbn [pnodupb] in H. apply andb_true_iff in H as [H1 H2].
  constructor; [| apply IH; exact H2]. intros Hin. apply pmem_in in Hin. rewrite Hin in H1. discriminate.
Qed.
Theorem doc_positions_ok_spec D : doc_positions_ok D = true -> doc_set_positions_distinct D /\ doc_field_positions_distinct D.
Proof.
  unfold doc_positions_ok. intros H. apply andb_true_iff in H as [H1 H2]. split.
  - apply pnodupb_NoDup. exact H1.
  - apply pnodupb_NoDup. exact H2.
Qed.
