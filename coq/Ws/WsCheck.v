(** * Ws/WsCheck.v — C08 correspondence: decode one observed conversation, rebuild the trace the
    real server produced, run the Spec oracle on it, run the model on the same labels and compare.
    Executable only (extracted / vm_compute). *)
From Coq Require Import List NArith ZArith Bool String.
From ApiFu Require Import Base.Sexp Ws.WsTypes Ws.WsSpec Ws.WsModel.
Import ListNotations.
Open Scope string_scope.
Open Scope list_scope.

(** ** decoding *)
Definition dec_mtype (s : sexp) : option mtype :=
  match as_sym s with
  | Some x =>
      if String.eqb x "init" then Some TInit else if String.eqb x "terminate" then Some TTerminate
      else if String.eqb x "start" then Some TStart else if String.eqb x "stop" then Some TStop
      else if String.eqb x "subscribe" then Some TSubscribe else if String.eqb x "complete" then Some TComplete
      else if String.eqb x "ping" then Some TPing else if String.eqb x "pong" then Some TPong
      else if String.eqb x "other" then Some TOther else None
  | None => None
  end.

Definition dec_doc (s : sexp) : option doc :=
  match as_sym s with
  | Some x =>
      if String.eqb x "query" then Some DQuery else if String.eqb x "mutation" then Some DMutation
      else if String.eqb x "sub" then Some DSub else if String.eqb x "subfail" then Some DSubFail
      else if String.eqb x "invalid" then Some DInvalid else None
  | None => None
  end.

Definition dec_payload (s : sexp) : option payload :=
  match untag s with
  | Some (t, []) =>
      if String.eqb t "none" then Some PayNone else if String.eqb t "junk" then Some PayJunk
      else if String.eqb t "reject" then Some PayReject else None
  | Some (t, [d]) => if String.eqb t "doc" then option_map PayDoc (dec_doc d) else None
  | _ => None
  end.

Definition dec_ending (s : sexp) : option ending :=
  match as_sym s with
  | Some x =>
      if String.eqb x "client-close" then Some EClientClose else if String.eqb x "drop" then Some EDrop
      else if String.eqb x "app-close" then Some EAppClose else if String.eqb x "peer" then Some EPeer else None
  | None => None
  end.

Definition dec_label (s : sexp) : option label :=
  match untag s with
  | Some (t, [ty; id; pay]) =>
      if String.eqb t "msg" then
        match dec_mtype ty, as_N id, dec_payload pay with
        | Some a, Some b, Some c => Some (LFrame (Msg a b c))
        | _, _, _ => None
        end
      else None
  | Some (t, []) =>
      if String.eqb t "malformed" then Some (LFrame Malformed)
      else if String.eqb t "tick" then Some LTick else None
  | Some (t, [x]) =>
      if String.eqb t "emit" then option_map LEmit (as_nat x)
      else if String.eqb t "srcend" then option_map LSrcEnd (as_nat x)
      else if String.eqb t "end" then option_map LEnd (dec_ending x)
      else None
  | _ => None
  end.

(** server frames as observed; [OClosed c]: the server's close frame, [OOther]: anything the
    abstraction does not know *)
Inductive oframe := OF (f : sframe) | OClosed (c : Z) | OOther.

Definition dec_dclass (s : sexp) : option dclass :=
  match untag s with
  | Some (t, []) => if String.eqb t "err" then Some CErr else None
  | Some (t, [n]) => if String.eqb t "res" then option_map CRes (as_nat n) else None
  | Some (t, [n; k]) =>
      if String.eqb t "ev" then match as_nat n, as_nat k with Some a, Some b => Some (CEv a b) | _, _ => None end
      else None
  | _ => None
  end.

Definition dec_oframe (s : sexp) : option oframe :=
  match untag s with
  | Some (t, []) =>
      if String.eqb t "ack" then Some (OF SAck) else if String.eqb t "ka" then Some (OF SKa)
      else if String.eqb t "connerror" then Some (OF SConnError) else if String.eqb t "pong" then Some (OF SPong)
      else None
  | Some (t, [id; c]) =>
      if String.eqb t "data" then
        match as_N id, dec_dclass c with Some i, Some d => Some (OF (SData i d)) | _, _ => None end
      else None
  | Some (t, [x]) =>
      if String.eqb t "complete" then option_map (fun i => OF (SComplete i)) (as_N x)
      else if String.eqb t "closed" then option_map OClosed (as_Z x)
      else if String.eqb t "other" then Some OOther
      else None
  | _ => None
  end.

(** log items *)
Inductive litem := ISent (k : nat) | IFrame (f : oframe).
Definition dec_litem (s : sexp) : option litem :=
  match untag s with
  | Some (t, [x]) =>
      if String.eqb t "sent" then option_map ISent (as_nat x)
      else if String.eqb t "f" then option_map IFrame (dec_oframe x)
      else None
  | _ => None
  end.

(** facts the harness recorded while a label was performed *)
Inductive fact := FInit (ok : bool) | FExec (n : nat) | FSub (n : nat) | FSubFail (n : nat) | FSrcEnded (n : nat).
Definition dec_fact (s : sexp) : option fact :=
  match untag s with
  | Some (t, [x]) =>
      if String.eqb t "init" then option_map FInit (as_bool x)
      else if String.eqb t "exec" then option_map FExec (as_nat x)
      else if String.eqb t "sub" then option_map FSub (as_nat x)
      else if String.eqb t "subfail" then option_map FSubFail (as_nat x)
      else if String.eqb t "srcended" then option_map FSrcEnded (as_nat x)
      else None
  | _ => None
  end.

(** [o_stops = None]: the label was one of several written back to back; the Stop() counters were
    not read between them (they are read after the last one) *)
Record obs := { o_facts : list fact; o_stops : option (list nat) }.
Definition dec_obs (s : sexp) : option obs :=
  match tagged "obs" s with
  | Some [e; c] =>
      match tagged "execs" e, tagged "stops" c, tagged "nostops" c with
      | Some es, Some cs, _ =>
          match map_opt dec_fact es, map_opt as_nat cs with
          | Some a, Some b => Some {| o_facts := a; o_stops := Some b |}
          | _, _ => None
          end
      | Some es, None, Some [] =>
          match map_opt dec_fact es with
          | Some a => Some {| o_facts := a; o_stops := None |}
          | None => None
          end
      | _, _, _ => None
      end
  | _ => None
  end.

(** ** the trace the real server produced, rebuilt from the observation *)

Definition ev_of_fact (f : fact) : ev :=
  match f with
  | FInit b => VInit b | FExec n => VExec n | FSub n => VSubscribe n | FSubFail n => VSubFail n
  | FSrcEnded n => VSrcEnd n
  end.

(** frames received while label k was being performed: between (sent k) and (sent k+1) *)
Fixpoint window (k : nat) (cur : option nat) (log : list litem) : list oframe :=
  match log with
  | [] => []
  | ISent j :: r => window k (Some j) r
  | IFrame f :: r =>
      match cur with
      | Some j => if Nat.eqb j k then f :: window k cur r else window k cur r
      | None => window k cur r
      end
  end.

Definition start_type (p : proto) : mtype := match p with PWs => TStart | PTws => TSubscribe end.
Definition mtype_eqb (a b : mtype) : bool :=
  match a, b with
  | TInit, TInit | TTerminate, TTerminate | TStart, TStart | TStop, TStop | TSubscribe, TSubscribe
  | TComplete, TComplete | TPing, TPing | TPong, TPong | TOther, TOther => true
  | _, _ => false
  end.

(** the operation id the client used in label n *)
Definition id_of_label (ls : list label) (n : nat) : N :=
  match nth_error ls n with Some (LFrame (Msg _ id _)) => id | _ => 0%N end.

(** attribution state: operations expecting an errors-only result, operations whose result has
    arrived and whose complete has not, subscriptions started and not completed (oldest first) *)
Record attr := { a_err : list (nat * N); a_cmp : list (nat * N); a_sub : list (nat * N) }.

Fixpoint take_first (id : N) (l : list (nat * N)) : option (nat * list (nat * N)) :=
  match l with
  | [] => None
  | (n, i) :: r =>
      if N.eqb i id then Some (n, r)
      else match take_first id r with Some (m, r') => Some (m, (n, i) :: r') | None => None end
  end.

(** who owns an observed frame: results by their echo; an errors-only result and a complete by
    order (an errors-only result answers the oldest operation with that id still waiting for one;
    a complete closes the oldest answered query / mutation with that id, else the oldest open
    subscription with that id) *)
Definition attribute (a : attr) (f : sframe) : attr * option nat :=
  match f with
  | SData id (CRes n) =>
      ({| a_err := filter (fun x => negb (Nat.eqb (fst x) n)) (a_err a); a_cmp := a_cmp a ++ [(n, id)]; a_sub := a_sub a |}, Some n)
  | SData id (CEv n _) => (a, Some n)
  | SData id CErr =>
      match take_first id (a_err a) with
      | Some (n, r) => ({| a_err := r; a_cmp := a_cmp a ++ [(n, id)]; a_sub := a_sub a |}, Some n)
      | None => (a, None)
      end
  | SComplete id =>
      match take_first id (a_cmp a) with
      | Some (n, r) => ({| a_err := a_err a; a_cmp := r; a_sub := a_sub a |}, Some n)
      | None =>
          match take_first id (a_sub a) with
          | Some (n, r) => ({| a_err := a_err a; a_cmp := a_cmp a; a_sub := r |}, Some n)
          | None => (a, None)
          end
      end
  | _ => (a, None)
  end.

Fixpoint attribute_all (a : attr) (fs : list oframe) : attr * list ev :=
  match fs with
  | [] => (a, [])
  | OF f :: r =>
      let (a1, o) := attribute a f in
      let (a2, es) := attribute_all a1 r in (a2, VSend f o :: es)
  | _ :: r => attribute_all a r
  end.

(** Stop() calls seen during a label: the difference of the cumulative counters, per source in
    creation order; [ops] = operation numbers of the sources in creation order *)
Fixpoint stop_events (ops : list nat) (before after : list nat) : list ev :=
  match ops, after with
  | n :: ops', c :: after' =>
      let b := match before with x :: _ => x | [] => 0 end in
      repeat (VStop n) (c - b) ++ stop_events ops' (match before with _ :: r => r | [] => [] end) after'
  | _, _ => []
  end.

Definition sub_ops (fs : list fact) : list nat :=
  flat_map (fun f => match f with FSub n => [n] | _ => [] end) fs.

Definition has_ack (fs : list oframe) : bool :=
  existsb (fun f => match f with OF SAck => true | _ => false end) fs.

(** One label.  Client view of "started": a start / subscribe frame with a decodable payload sent
    after an ack had been received. *)
Definition obs_events (soft late : bool) (p : proto) (ls : list label) (k : nat) (l : label) (acked : bool)
           (ops : list nat) (before : list nat) (o : obs) (w : list oframe) (a : attr) (reg_clean : bool)
  : attr * list ev :=
  let facts := map ev_of_fact (o_facts o) in
  let ops' := ops ++ sub_ops (o_facts o) in
  let stops := match o_stops o with Some c => stop_events ops' before c | None => [] end in
  match l with
  | LFrame f =>
      let started :=
        match f with
        | Msg t id pl =>
            if mtype_eqb t (start_type p) && acked then
              match decode_start pl with Some d => [VStart k id d] | None => [] end
            else []
        | Malformed => []
        end in
      let a1 :=
        match started with
        | [VStart _ id d] =>
            let a0 := match d with
                      | DInvalid => {| a_err := a_err a ++ [(k, id)]; a_cmp := a_cmp a; a_sub := a_sub a |}
                      | DSubFail => if existsb (fun x => match x with FSubFail _ => true | _ => false end) (o_facts o)
                                    then {| a_err := a_err a ++ [(k, id)]; a_cmp := a_cmp a; a_sub := a_sub a |} else a
                      | DQuery | DMutation =>
                          (* a query dispatched after closing has begun is executed with a cancelled context: errors only *)
                          if late then {| a_err := a_err a ++ [(k, id)]; a_cmp := a_cmp a; a_sub := a_sub a |} else a
                      | _ => a
                      end in
            {| a_err := a_err a0; a_cmp := a_cmp a0;
               a_sub := a_sub a0 ++ map (fun n => (n, id_of_label ls n)) (sub_ops (o_facts o)) |}
        | _ => {| a_err := a_err a; a_cmp := a_cmp a;
                  a_sub := a_sub a ++ map (fun n => (n, id_of_label ls n)) (sub_ops (o_facts o)) |}
        end in
      let (a2, sends) := attribute_all a1 w in
      (a2, VRecv f :: started ++ facts ++ stops ++ sends)
  | LEnd _ =>
      let (a2, sends) := attribute_all a w in
      (a2, sends ++ VGone :: facts ++ stops ++ (if reg_clean then [VDeregister] else []))
  | LTick =>
      (* the harness let one keep-alive period pass; what arrived meanwhile *)
      let (a2, sends) := attribute_all a w in
      (a2, VTick :: facts ++ stops ++ sends)
  | _ =>
      let (a2, sends) := attribute_all a w in
      (a2, facts ++ stops ++ sends)
  end.

(** Frames received from label m on, when the labels from m on were not performed one at a time
    (frames written back to back, a close injected during a handler call): they cannot be assigned
    to labels by the time they arrived.  Connection-level answers are placed at the label that caused
    them (the j-th ack and ka at the j-th accepted init, a connection error at a refused init, the j-th
    pong at the j-th ping); everything else is placed, in the order received, at the ending. *)
Fixpoint pull_first (P : oframe -> bool) (pool : list oframe) : list oframe * list oframe :=
  match pool with
  | [] => ([], [])
  | f :: r => if P f then ([f], r) else let (a, b) := pull_first P r in (a, f :: b)
  end.
Definition is_of (x : sframe) (f : oframe) : bool := match f with OF y => sframe_eqb x y | _ => false end.
Definition caused (p : proto) (l : label) (o : obs) (pool : list oframe) : list oframe * list oframe :=
  match l with
  | LFrame (Msg TInit _ _) =>
      if existsb (fun x => match x with FInit true => true | _ => false end) (o_facts o) then
        let (a, r) := pull_first (is_of SAck) pool in
        match p with
        | PWs => let (b, r') := pull_first (is_of SKa) r in (a ++ b, r')
        | PTws => (a, r)
        end
      else if existsb (fun x => match x with FInit false => true | _ => false end) (o_facts o) then
        match p with PWs => pull_first (is_of SConnError) pool | PTws => ([], pool) end
      else ([], pool)
  | LFrame (Msg TPing _ _) => match p with PTws => pull_first (is_of SPong) pool | PWs => ([], pool) end
  | LEnd _ => (pool, [])
  | _ => ([], pool)
  end.

Fixpoint frames_from (m : nat) (cur : option nat) (log : list litem) : list oframe :=
  match log with
  | [] => []
  | ISent j :: r => frames_from m (Some j) r
  | IFrame f :: r =>
      match cur with
      | Some j => if Nat.leb m j then f :: frames_from m cur r else frames_from m cur r
      | None => frames_from m cur r
      end
  end.

Definition has_init_ok (fs : list fact) : bool :=
  existsb (fun x => match x with FInit true => true | _ => false end) fs.

(** [m]: the labels from m on were performed while the connection was going down ([m >= length ls]: none) *)
Fixpoint obs_trace (bpos m : nat) (pool : list oframe) (p : proto) (ls : list label) (log : list litem) (reg_clean : bool)
         (k : nat) (rest : list label) (os : list obs) (acked : bool) (ops before : list nat) (a : attr)
  : list ev :=
  match rest, os with
  | l :: rest', o :: os' =>
      let soft := Nat.leb m k in
      let pool0 := if Nat.eqb k m then frames_from m None log else pool in
      let (w, pool') := if soft then caused p l o pool0 else (window k None log, pool0) in
      let (a', es0) := obs_events soft (Nat.ltb m k) p ls k l acked ops before o w a reg_clean in
      (* closing begins (the handler's context is cancelled) while label bpos is performed *)
      let es := if Nat.eqb k bpos && negb (match l with LEnd _ => true | _ => false end) then es0 ++ [VBeginClose 0] else es0 in
      es ++ obs_trace bpos m pool' p ls log reg_clean (S k) rest' os' (acked || has_ack w || has_init_ok (o_facts o)) (ops ++ sub_ops (o_facts o))
                      (match o_stops o with Some c => c | None => before end) a'
  | _, _ => []
  end.

(** ** comparison with the model *)
Definition is_fact_ev (e : ev) : bool :=
  match e with VInit _ | VExec _ | VSubscribe _ | VSubFail _ | VSrcEnd _ => true | _ => false end.
Definition ev_eqb (a b : ev) : bool :=
  match a, b with
  | VInit x, VInit y => Bool.eqb x y
  | VExec x, VExec y | VSubscribe x, VSubscribe y | VSubFail x, VSubFail y | VSrcEnd x, VSrcEnd y => Nat.eqb x y
  | _, _ => false
  end.

Definition id_of_frame (f : sframe) : option N :=
  match f with SData i _ | SComplete i => Some i | _ => None end.
Definition proj_id (id : N) (fs : list sframe) : list sframe :=
  filter (fun f => match id_of_frame f with Some i => N.eqb i id | None => false end) fs.
Definition proj_conn (fs : list sframe) : list sframe :=
  filter (fun f => match id_of_frame f with Some _ => false | None => true end) fs.
Definition ids_of (fs : list sframe) : list N :=
  flat_map (fun f => match id_of_frame f with Some i => [i] | None => [] end) fs.

(** per label: facts and cumulative Stop() counters *)
Fixpoint compare_steps (p : proto) (k : nat) (s : st) (ls : list label) (os : list obs) : option sexp :=
  match ls, os with
  | l :: ls', o :: os' =>
      let (s', out) := step false false false p s l in
      if negb (list_eqb ev_eqb (filter is_fact_ev out) (map ev_of_fact (o_facts o))) then
        Some (v_mismatch "resolver-calls" [of_nat k])
      else if negb (match o_stops o with Some c => list_eqb Nat.eqb (map s_stops (srcs s')) c | None => true end) then
        Some (v_mismatch "stop-counters" [of_nat k])
      else compare_steps p (S k) s' ls' os'
  | [], [] => None
  | _, _ => Some (v_bad "labels-vs-obs-length")
  end.

Definition observed_frames (log : list litem) : list sframe :=
  flat_map (fun i => match i with IFrame (OF f) => [f] | _ => [] end) log.
Definition observed_close (log : list litem) : list Z :=
  flat_map (fun i => match i with IFrame (OClosed c) => [c] | _ => [] end) log.
Definition has_other (log : list litem) : bool :=
  existsb (fun i => match i with IFrame OOther => true | _ => false end) log.

Definition split_last {A} (l : list A) : option (list A * A) :=
  match rev l with [] => None | x :: r => Some (rev r, x) end.

(** [n] = number of labels performed while the connection was being served normally; what the model
    sends for the later ones (performed while the connection was going down) may be cut short *)
Definition soft_eqb (ob md : sframe) : bool := sframe_eqb ob md.
Fixpoint soft_prefix (ob md : list sframe) : bool :=
  match ob, md with
  | [], _ => true
  | x :: a, y :: b => soft_eqb x y && soft_prefix a b
  | _ :: _, [] => false
  end.
(** … and the completes of stopped subscriptions, sent by their goroutines, are not ordered with respect to what
    the read loop sends under the same id (frames written back to back: nobody waited for them): results are
    compared in order, completes by number *)
Definition is_data (f : sframe) : bool := match f with SData _ _ => true | _ => false end.
Definition frames_match (strict soft ob : list sframe) : bool :=
  let rest := skipn (List.length strict) ob in
  list_eqb sframe_eqb (firstn (List.length strict) ob) strict &&
  soft_prefix (filter is_data rest) (filter is_data soft) &&
  soft_prefix (filter (fun f => negb (is_data f)) rest) (filter (fun f => negb (is_data f)) soft).
Definition compare_frames (p : proto) (ls : list label) (n : nat) (log : list litem) : option sexp :=
  let outs := snd (run false false false p ls) in
  let mf1 := frames (live_part (List.concat (firstn n outs))) in
  let mf2 := frames (live_part (List.concat (skipn n outs))) in
  let obf := observed_frames log in
  if negb (frames_match (proj_conn mf1) (proj_conn mf2) (proj_conn obf)) then Some (v_mismatch "connection-level-frames" [])
  else
    match find (fun id => negb (frames_match (proj_id id mf1) (proj_id id mf2) (proj_id id obf)))
               (ids_of mf1 ++ ids_of mf2 ++ ids_of obf) with
    | Some id => Some (v_mismatch "frames-of-operation-id" [of_N id])
    | None => None
    end.

Definition compare_close (p : proto) (ls : list label) (log : list litem) : option sexp :=
  match split_last ls with
  | Some (body, LEnd e) =>
      let c0 := closing (final false false false p body) in
      match e, c0, observed_close log with
      | EPeer, Some c, [c'] => if Z.eqb c c' then None else Some (v_mismatch "close-code" [SZ c; SZ c'])
      | EAppClose, None, [c'] => if Z.eqb c' 1000 then None else Some (v_mismatch "close-code" [SZ 1000; SZ c'])
      | EClientClose, None, [] | EDrop, None, [] => None
      | _, _, _ => Some (v_mismatch "who-closed" [])
      end
  | _ => Some (v_bad "no-ending")
  end.

(** ** evidence classes *)
Definition has_label (P : label -> bool) (ls : list label) : bool := existsb P ls.
Fixpoint ops_before_init (ls : list label) : bool :=
  match ls with
  | [] => false
  | LFrame (Msg TInit _ pl) :: r => if init_ok pl then false else ops_before_init r
  | LFrame (Msg (TStart | TSubscribe | TStop | TComplete) _ _) :: _ => true
  | _ :: r => ops_before_init r
  end.
Fixpoint tick_before_init (t : list ev) : bool :=
  match t with
  | [] => false
  | VTick :: _ => true
  | VInit true :: _ => false
  | _ :: r => tick_before_init r
  end.
Definition classes (p : proto) (ls : list label) (t : list ev) : list string :=
  let c (b : bool) (s : string) := if b then [s] else [] in
  [match p with PWs => "graphql-ws" | PTws => "graphql-transport-ws" end] ++
  match split_last ls with
  | Some (_, LEnd EClientClose) => ["end-client-close"] | Some (_, LEnd EDrop) => ["end-drop"]
  | Some (_, LEnd EAppClose) => ["end-app-close"] | Some (_, LEnd EPeer) => ["end-server-closed"]
  | _ => []
  end ++
  c (existsb (fun e => match e with VInit true => true | _ => false end) t) "init-accepted" ++
  c (existsb (fun e => match e with VInit false => true | _ => false end) t) "init-rejected" ++
  c (existsb (fun e => match e with VExec _ => true | _ => false end) t) "query-or-mutation" ++
  c (existsb (fun e => match e with VSubscribe _ => true | _ => false end) t) "subscription" ++
  c (existsb (fun e => match e with VSubFail _ => true | _ => false end) t) "subscribe-error" ++
  c (existsb (fun e => match e with VStart _ _ DInvalid => true | _ => false end) t) "invalid-document" ++
  c (existsb (fun e => match e with VSend (SData _ (CEv _ _)) _ => true | _ => false end) t) "event" ++
  c (existsb (fun e => match e with VSrcEnd _ => true | _ => false end) t) "source-ended" ++
  c (existsb (fun e => match e with VStop _ => true | _ => false end) (live_part t)) "stopped-by-client" ++
  c (existsb (fun e => match e with VStop _ => true | _ => false end) (after_gone t)) "stopped-by-close" ++
  c (existsb (fun e => match ignored_start t e with Some _ => true | None => false end) t) "duplicate-id-ignored" ++
  c (existsb (fun e => match e with VSend SPong _ => true | _ => false end) t) "ping-pong" ++
  c (has_label (fun l => match l with LTick => true | _ => false end) ls) "keep-alive-tick" ++
  c (tick_before_init t) "tick-before-init" ++
  c (ops_before_init ls) "operation-before-init" ++
  c (existsb (fun e => match e with VStart _ _ _ => true | _ => false end) t) "nontrivial".

(** ** the check *)
Definition dec_proto (s : sexp) : option proto :=
  if is_sym "ws" s then Some PWs else if is_sym "tws" s then Some PTws else None.

Definition final_nat (k : string) (l : list sexp) : option Z :=
  match field "final" l with
  | Some fl => match field1 k fl with Some x => as_Z x | None => None end
  | None => None
  end.

Definition check (c : sexp) : sexp :=
  match tagged "case" c with
  | Some l =>
      match field1 "proto" l, field1 "mode" l, field1 "labels" l, field1 "obs" l, field1 "log" l, field1 "stall" l,
            final_nat "registry" l, final_nat "goroutines" l with
      | Some ps, Some ms, Some (SL lss), Some (SL oss), Some (SL lgs), Some (SL stall), Some reg, Some gor =>
          match dec_proto ps, map_opt dec_label lss, map_opt dec_obs oss, map_opt dec_litem lgs with
          | Some p, Some ls, Some os, Some log =>
              let flood := is_sym "flood" ms in
              let n := match field1 "lenient" l with
                       | Some x => match as_nat x with Some v => Nat.min v (List.length ls) | None => List.length ls end
                       | None => List.length ls
                       end in
              let reg_clean := Z.leb reg 0 in
              let m := if Nat.ltb n (List.length ls) then Nat.pred n else List.length ls in
              (* the label during which closing began: the frame that makes the server close (the last one performed
                 normally), or the gated frame during whose handler call the application closed the connection *)
              let bpos := if Nat.ltb n (List.length ls) then (if is_sym "gate" ms || is_sym "gatectx" ms then n else Nat.pred n)
                          else List.length ls in
              let t := obs_trace bpos m [] p ls log reg_clean 0 ls os false [] [] {| a_err := []; a_cmp := []; a_sub := [] |} in
              if flood then
                (* a client that never reads: only the clean-up clauses are observable *)
                let stops := match split_last os with Some (_, {| o_stops := Some c |}) => c | _ => [] end in
                if negb (forallb (Nat.eqb 1) stops) then v_oracle_fail "stop-not-exactly-once" []
                else if negb reg_clean then v_oracle_fail "not-deregistered" []
                else if negb (Z.eqb gor 0) then v_oracle_fail "goroutines-left" [SZ gor]
                else if negb (list_eqb Nat.eqb (map s_stops (srcs (final false false false p ls))) stops) then v_mismatch "stop-counters" []
                else v_ok ["flood"; "nontrivial"]
              else
              if has_other log then v_oracle_fail "unknown-server-frame" []
              else if existsb (is_sym "close-not-completed") stall then
                (* the application's Close() did not return within the harness's bound although every handler call
                   in flight returns upon the cancellation of its context *)
                v_oracle_fail "close-not-completed" []
              else if existsb (is_sym "handler-context-not-cancelled") stall then v_oracle_fail "close-not-completed" [SSym "not-cancelled"]
              else
              let kpos := List.length (obs_trace bpos m [] p ls log reg_clean 0 (firstn m ls) (firstn m os) false [] [] {| a_err := []; a_cmp := []; a_sub := [] |}) in
              if negb (chk_ack_first p (observed_frames log)) then v_oracle_fail "ack-not-first" [] else
              match (if Nat.eqb n (List.length ls) then spec_verdict p t else spec_verdict_from kpos p t) with
              | Some key => v_oracle_fail key []
              | None =>
                  if negb (Z.eqb gor 0) then v_oracle_fail "goroutines-left" [SZ gor]
                  else
                  match compare_steps p 0 init_st ls os with
                  | Some v => v
                  | None =>
                      match compare_frames p ls n log with
                      | Some v => v
                      | None =>
                          match compare_close p ls log with
                          | Some v => v
                          | None =>
                              if negb (Bool.eqb (negb (registered (final false false false p ls))) reg_clean) then v_mismatch "registry" []
                              else match stall with
                                   | [] => v_ok (classes p ls t ++ (if Z.ltb reg 0 then ["registry-unobserved"] else []) ++
                                                 (if is_sym "pipe" ms then ["pipelined-while-closing"] else []) ++
                                                 (if is_sym "gate" ms then ["closed-during-handler"] else []) ++
                                                 (if is_sym "gatectx" ms then ["closed-during-handler"; "handler-waits-for-cancellation"] else []) ++
                                                 (if is_sym "full" ms then ["queue-full-while-closing"] else []) ++
                                                 (if is_sym "mute" ms then ["unresponsive-peer"] else []) ++
                                                 (if is_sym "slow" ms then ["slow-reader-back-pressure"] else []))
                                   | _ => v_mismatch "harness-wait-timed-out" stall
                                   end
                          end
                      end
                  end
              end
          | _, _, _, _ => v_bad "decode"
          end
      | _, _, _, _, _, _, _, _ => v_bad "fields"
      end
  | None => v_bad "shape"
  end.
