(** * Ws/WsActorsProofs.v — C08 stage 2: invariants, progress and termination of the actor model. *)
From Coq Require Import List Arith Bool Lia.
From ApiFu Require Import Ws.WsActors.
Import ListNotations.

(** ** lists *)
Lemma upd_Forall {A} (P : A -> Prop) f : forall i l, Forall P l -> (forall x, P x -> P (f x)) -> Forall P (upd i f l).
Proof.
  intros i l. revert i. induction l as [|x l IH]; intros i H Hf; simpl; [constructor|].
  inversion H as [|? ? Px Pl]; subst. destruct i; constructor; auto.
Qed.
Lemma upd_length {A} (f : A -> A) : forall i l, List.length (upd i f l) = List.length l.
Proof. intros i l. revert i. induction l as [|x l IH]; intros i; simpl; [reflexivity|]. destruct i; simpl; auto. Qed.

Definition gsum (f : gor -> nat) (l : list gor) : nat := fold_right (fun g a => f g + a) 0 l.
Lemma gsum_app f a b : gsum f (a ++ b) = gsum f a + gsum f b.
Proof. induction a as [|x a IH]; simpl; [reflexivity|]. rewrite IH. lia. Qed.
Lemma gsum_upd f h : forall i l g, nth_error l i = Some g -> gsum f (upd i h l) + f g = gsum f l + f (h g).
Proof.
  intros i l. revert i. induction l as [|x l IH]; intros i g H; destruct i; simpl in *; try discriminate.
  - injection H as ->. lia.
  - specialize (IH _ _ H). lia.
Qed.
Lemma upd_none {A} (h : A -> A) : forall i l, nth_error l i = None -> upd i h l = l.
Proof.
  intros i l. revert i. induction l as [|x l IH]; intros i H; destruct i; simpl in *; try discriminate; auto.
  f_equal. auto.
Qed.
Lemma gsum_map f h l : (forall g, f (h g) = f g) -> gsum f (map h l) = gsum f l.
Proof. intro H. induction l as [|x l IH]; simpl; [reflexivity|]. now rewrite H, IH. Qed.

(** ** the measure: every internal step decreases it *)
Definition mu_r (r : rstate) : nat := match r with RIdle => 1 | RBusy prog => 2 + 5 * List.length prog | RDone => 0 end.
Definition mu_g (g : gor) : nat := match g_phase g with GDone => 0 | GComplete => 3 | GRun => 4 | GData => 7 end.
Definition mu_w (w : wstate) : nat := match w with WLoop => 4 | WDrain => 3 | WWait => 2 | WFinish => 1 | WDone => 0 end.
Definition mu_a (a : astate) : nat := match a with AWait => 1 | _ => 0 end.
Definition mu (c : cfg) : nat := mu_r (rd c) + gsum mu_g (gs c) + 2 * queue c + mu_w (wr c) + mu_a (ac c).

Lemma mu_g_stop g : mu_g (stop_gor g) = mu_g g.
Proof. unfold stop_gor, mu_g. destruct (g_inmap g); reflexivity. Qed.

Lemma mu_begin_closing c : mu (begin_closing c) = mu c.
Proof. unfold begin_closing. destruct (closing c); reflexivity. Qed.
Lemma mu_finish_once c : mu (finish_once c) = mu c.
Proof.
  unfold finish_once. destruct (finished c); [reflexivity|]. unfold mu. simpl.
  rewrite gsum_map; [reflexivity|apply mu_g_stop].
Qed.
Lemma rd_begin_closing c : rd (begin_closing c) = rd c.
Proof. unfold begin_closing. destruct (closing c); reflexivity. Qed.

Ltac break H :=
  repeat match type of H with
         | context [match ?x with _ => _ end] => destruct x eqn:?; try discriminate
         end.

Arguments writer_out : simpl never.
Lemma mu_writer_out fixed c : mu (writer_out fixed c) = mu (writer_exit c).
Proof. unfold writer_out. destruct fixed; [apply mu_begin_closing|reflexivity]. Qed.

Section Measure.
  Variable cap : nat.
  Variable fixed : bool.

  Lemma on_gor_mu i c guard f k c' (d e : nat) :
    on_gor i c guard f k = Some c' ->
    (forall g, guard g = true -> mu_g (f g) + d = mu_g g) ->
    (forall x, queue x = queue c -> mu (k x) = mu x + e) ->
    mu c' + d = mu c + e.
  Proof.
    unfold on_gor. destruct (nth_error (gs c) i) as [g|] eqn:N; [|discriminate].
    destruct (guard g) eqn:G; [|discriminate]. intros H Hf Hk. injection H as <-.
    rewrite Hk by reflexivity. unfold mu. simpl. pose proof (gsum_upd mu_g f i (gs c) g N) as X. specialize (Hf g G). lia.
  Qed.

  Lemma phase_weight ph ph' g (d : nat) :
    gphase_is ph g = true ->
    mu_g (set_phase ph' g) + d = mu_g (set_phase ph g) -> mu_g (set_phase ph' g) + d = mu_g g.
  Proof.
    unfold gphase_is, mu_g, set_phase. simpl. destruct (g_phase g), ph; try discriminate; auto.
  Qed.

  Theorem internal_step_decreases c l c' :
    astep cap fixed c l = Some c' -> internal l = true -> mu c' < mu c.
  Proof.
    intros H I. destruct l; try discriminate; simpl in H.
    - (* IReadFail *) break H. injection H as <-. rewrite mu_begin_closing. unfold mu. simpl. rewrite Heqr. simpl. lia.
    - (* IRSendOk *) break H; injection H as <-; unfold mu; simpl; rewrite Heqr; simpl; lia.
    - (* IRSendFail *)
      break H; injection H as <-.
      + unfold mu. simpl. rewrite Heqr. simpl. lia.
      + pose proof (mu_begin_closing c) as X. unfold mu in *. simpl. rewrite rd_begin_closing in X. rewrite Heqr in *. simpl in *. lia.
    - (* IRBegin *) break H. injection H as <-.
      pose proof (mu_begin_closing c) as X. unfold mu in *. simpl. rewrite rd_begin_closing in X. rewrite Heqr in *. simpl in *. lia.
    - (* IRSpawn *) break H. injection H as <-. unfold mu. simpl. rewrite Heqr, gsum_app. simpl. lia.
    - (* IRStop *) break H. injection H as <-. unfold mu. simpl. rewrite Heqr. simpl.
      destruct (nth_error (gs c) i) as [g|] eqn:N.
      + pose proof (gsum_upd mu_g stop_gor i (gs c) g N) as X. rewrite mu_g_stop in X. lia.
      + rewrite upd_none by exact N. lia.
    - (* IRReturn *) break H. injection H as <-. unfold mu. simpl. rewrite Heqr. simpl. lia.
    - (* IRCancelled *) break H. injection H as <-. unfold mu. simpl. rewrite Heqr. simpl. lia.
    - (* IGCancel *)
      assert (mu c' + 1 = mu c + 0); [|lia]. eapply on_gor_mu; [exact H| |intros; lia].
      intros g G. apply andb_true_iff in G as [G _]. eapply phase_weight; eauto.
    - (* IGEnd *)
      assert (mu c' + 1 = mu c + 0); [|lia]. eapply on_gor_mu; [exact H| |intros; lia].
      intros g G. apply andb_true_iff in G as [G _]. eapply phase_weight; eauto.
    - (* IGDataOk *) destruct (can_enqueue cap c); [|discriminate].
      assert (mu c' + 3 = mu c + 2); [|lia]. eapply on_gor_mu; [exact H| |].
      + intros g G. eapply phase_weight; eauto.
      + intros x Q. unfold mu. simpl. lia.
    - (* IGDataFail *) destruct (can_give_up fixed c); [|discriminate].
      assert (mu c' + 3 = mu c + 0); [|lia]. eapply on_gor_mu; [exact H| |intros; lia].
      intros g G. eapply phase_weight; eauto.
    - (* IGCompleteOk *) destruct (can_enqueue cap c); [|discriminate].
      assert (mu c' + 3 = mu c + 2); [|lia]. eapply on_gor_mu; [exact H| |].
      + intros g G. eapply phase_weight; eauto.
      + intros x Q. unfold mu. simpl. lia.
    - (* IGCompleteFail *) destruct (can_give_up fixed c); [|discriminate].
      assert (mu c' + 3 = mu c + 0); [|lia]. eapply on_gor_mu; [exact H| |intros; lia].
      intros g G. eapply phase_weight; eauto.
    - (* IWTakeOk *) break H. injection H as <-. unfold mu. simpl. rewrite Heqn. lia.
    - (* IWTakeFail *) break H. injection H as <-. rewrite mu_writer_out. unfold mu. simpl. rewrite Heqw, Heqn. simpl. lia.
    - (* IWCloseMsg *) break H. injection H as <-. unfold mu. simpl. rewrite Heqw. simpl. lia.
    - (* IWCloseRecv *) break H. injection H as <-. rewrite mu_writer_out. unfold mu. simpl. rewrite Heqw. simpl. lia.
    - (* IWDrainOk *) break H. injection H as <-. unfold mu. simpl. rewrite Heqn. lia.
    - (* IWDrainFail *) break H. injection H as <-. unfold mu. simpl. rewrite Heqw, Heqn. simpl. lia.
    - (* IWDrainDone *) break H. injection H as <-. unfold mu. simpl. rewrite Heqw. simpl. lia.
    - (* IWWaitDone *) break H. injection H as <-. rewrite mu_writer_out. unfold mu. simpl. rewrite Heqw. simpl. lia.
    - (* IWFinish *) break H. injection H as <-.
      pose proof (mu_finish_once c) as X. unfold mu in *. simpl.
      assert (W : wr (finish_once c) = wr c) by (unfold finish_once; destruct (finished c); reflexivity).
      rewrite W in X. rewrite Heqw in *. simpl in *. lia.
    - (* IAFinish *) break H. injection H as <-.
      pose proof (mu_finish_once c) as X. unfold mu in *. simpl.
      assert (W : ac (finish_once c) = ac c) by (unfold finish_once; destruct (finished c); reflexivity).
      rewrite W in X. rewrite Heqa in *. simpl in *. lia.
  Qed.
End Measure.

(** ** invariants of every reachable configuration *)
Definition gor_ok (g : gor) : Prop :=
  if g_inmap g then g_stops g = 0 /\ g_cancelled g = false else g_cancelled g = true /\ g_stops g = 1.

Record AInv (c : cfg) : Prop := {
  j_conn : writer_done c = true -> conn_closed c = true;
  j_closemsg : closing c = true -> wr c = WLoop -> closemsg c = true;
  j_rdone : rd c = RDone -> closing c = true;
  j_wdone : wr c = WDone -> rd c = RDone /\ finished c = true;
  j_fin : finished c = true -> rd c = RDone /\ registered c = false /\ Forall (fun g => g_inmap g = false) (gs c);
  j_gor : Forall gor_ok (gs c)
}.

Lemma gor_ok_stop g : gor_ok g -> gor_ok (stop_gor g) /\ g_inmap (stop_gor g) = false.
Proof.
  unfold gor_ok, stop_gor. destruct (g_inmap g) eqn:E; simpl; [intros [-> _]; auto|rewrite E; auto].
Qed.
Lemma gor_ok_phase ph g : gor_ok g -> gor_ok (set_phase ph g).
Proof. unfold gor_ok, set_phase. simpl. auto. Qed.
Lemma gor_ok_srcclosed g : gor_ok g -> gor_ok (set_srcclosed g).
Proof. unfold gor_ok, set_srcclosed. simpl. auto. Qed.

Lemma inv_begin_closing_strong c :
  (writer_done c = true -> conn_closed c = true) ->
  (closing c = true -> wr c = WLoop -> closemsg c = true) ->
  (wr c = WDone -> rd c = RDone /\ finished c = true) ->
  (finished c = true -> rd c = RDone /\ registered c = false /\ Forall (fun g => g_inmap g = false) (gs c)) ->
  Forall gor_ok (gs c) ->
  AInv (begin_closing c).
Proof.
  intros J1 J2 J4 J5 J6. unfold begin_closing. destruct (closing c) eqn:Cl; constructor; simpl; auto.
Qed.
Lemma inv_begin_closing c : AInv c -> AInv (begin_closing c).
Proof. intros [J1 J2 J3 J4 J5 J6]. now apply inv_begin_closing_strong. Qed.
Lemma inv_writer_exit c : AInv c -> wr c <> WDone -> AInv (writer_exit c).
Proof.
  intros [J1 J2 J3 J4 J5 J6] N. constructor; simpl; auto; discriminate.
Qed.
Lemma inv_writer_out fixed c : AInv c -> wr c <> WDone -> AInv (writer_out fixed c).
Proof.
  intros J N. unfold writer_out. destruct fixed; [apply inv_begin_closing|]; now apply inv_writer_exit.
Qed.
Lemma inv_finish_once c : AInv c -> rd c = RDone -> AInv (finish_once c) /\ finished (finish_once c) = true.
Proof.
  intros [J1 J2 J3 J4 J5 J6] R. unfold finish_once. destruct (finished c) eqn:F; [split; [constructor; auto|exact F]|].
  split; [|reflexivity].
  assert (X : Forall (fun g => gor_ok g /\ g_inmap g = false) (map stop_gor (gs c))).
  { apply Forall_map. eapply Forall_impl; [|exact J6]. intros g G. now apply gor_ok_stop. }
  constructor; simpl; auto.
  - intros _. repeat split; auto. eapply Forall_impl; [|exact X]. intros g [_ G]. exact G.
  - eapply Forall_impl; [|exact X]. intros g [G _]. exact G.
Qed.

Section Invariants.
  Variable cap : nat.
  Variable fixed : bool.

  Lemma on_gor_shape i c guard f k c' :
    on_gor i c guard f k = Some c' -> exists g, nth_error (gs c) i = Some g /\ guard g = true /\ c' = k (with_gs (upd i f (gs c)) c).
  Proof.
    unfold on_gor. destruct (nth_error (gs c) i) as [g|]; [|discriminate]. destruct (guard g) eqn:G; [|discriminate].
    intro H. injection H as <-. eauto.
  Qed.

  Lemma inv_upd i f c q :
    (forall g, gor_ok g -> gor_ok (f g)) -> (forall g, g_inmap (f g) = g_inmap g) ->
    AInv c -> AInv (with_queue q (with_gs (upd i f (gs c)) c)).
  Proof.
    intros Hf Hm [J1 J2 J3 J4 J5 J6]. constructor; simpl; auto.
    - intro F. destruct (J5 F) as (A & B & C). repeat split; auto. apply upd_Forall; [exact C|]. intros g G. now rewrite Hm.
    - apply upd_Forall; auto.
  Qed.
  Lemma with_queue_same c : with_queue (queue c) c = c.
  Proof. destruct c; reflexivity. Qed.

  Lemma inv_with_queue q c : AInv c -> AInv (with_queue q c).
  Proof. intros [J1 J2 J3 J4 J5 J6]. constructor; simpl; auto. Qed.

  (** the read loop moves on inside handleMessage (or returns to ReadMessage) *)
  Lemma inv_with_rd r c : AInv c -> rd c <> RDone -> r <> RDone -> AInv (with_rd r c).
  Proof.
    intros [J1 J2 J3 J4 J5 J6] N N'. constructor; simpl; auto; try congruence.
    - intro W. destruct (J4 W) as [R _]. congruence.
    - intro F. destruct (J5 F) as [R _]. congruence.
  Qed.

  Theorem step_inv c l c' : astep cap fixed c l = Some c' -> AInv c -> AInv c'.
  Proof.
    intros H J. destruct l; simpl in H.
    - (* EFrame *) break H. injection H as <-. apply inv_with_rd; congruence.
    - (* EEmit *) destruct (on_gor_shape _ _ _ _ _ _ H) as (g & _ & _ & ->).
      rewrite <- (with_queue_same (with_gs _ c)). simpl. apply inv_upd; [intros; now apply gor_ok_phase|intros; reflexivity|exact J].
    - (* ESrcEnd *) destruct (on_gor_shape _ _ _ _ _ _ H) as (g & _ & _ & ->).
      rewrite <- (with_queue_same (with_gs _ c)). simpl. apply inv_upd; [intros; now apply gor_ok_srcclosed|intros; reflexivity|exact J].
    - (* EClientClose *) break H. injection H as <-. destruct J as [J1 J2 J3 J4 J5 J6]. constructor; simpl; auto.
    - (* EDrop *) break H. injection H as <-. destruct J as [J1 J2 J3 J4 J5 J6]. constructor; simpl; auto.
    - (* EAppClose *) break H. injection H as <-. apply inv_begin_closing in J. destruct J as [J1 J2 J3 J4 J5 J6].
      constructor; simpl; auto. intro F. destruct (J5 F) as (A & B & C). auto.
    - (* ETickFail *) break H. injection H as <-. apply inv_writer_out; [exact J|congruence].
    - (* IReadFail *) break H. injection H as <-. destruct J as [J1 J2 J3 J4 J5 J6].
      apply inv_begin_closing_strong; simpl; auto.
      + intro W. destruct (J4 W) as [R _]. congruence.
      + intro F. destruct (J5 F) as [R _]. congruence.
    - (* IRSendOk *) break H; injection H as <-; (apply inv_with_rd; [now apply inv_with_queue|simpl; congruence|congruence]).
    - (* IRSendFail *) break H; injection H as <-.
      + apply inv_with_rd; [exact J|congruence|congruence].
      + apply inv_with_rd; [now apply inv_begin_closing|rewrite rd_begin_closing; congruence|congruence].
    - (* IRBegin *) break H. injection H as <-.
      apply inv_with_rd; [now apply inv_begin_closing|rewrite rd_begin_closing; congruence|congruence].
    - (* IRSpawn *) break H. injection H as <-. apply inv_with_rd; [|simpl; congruence|congruence].
      destruct J as [J1 J2 J3 J4 J5 J6]. constructor; simpl; auto.
      + intro F. destruct (J5 F) as [R _]. congruence.
      + apply Forall_app. split; [exact J6|]. constructor; [|constructor]. unfold gor_ok. simpl. auto.
    - (* IRStop *) break H. injection H as <-. apply inv_with_rd; [|simpl; congruence|congruence].
      destruct J as [J1 J2 J3 J4 J5 J6]. constructor; simpl; auto.
      + intro F. destruct (J5 F) as [R _]. congruence.
      + apply upd_Forall; [exact J6|]. intros g G. now apply gor_ok_stop.
    - (* IRReturn *) break H. injection H as <-. apply inv_with_rd; congruence.
    - (* IRCancelled *) break H. injection H as <-. apply inv_with_rd; congruence.
    - (* IGCancel *) destruct (on_gor_shape _ _ _ _ _ _ H) as (g & _ & _ & ->).
      rewrite <- (with_queue_same (with_gs _ c)). simpl. apply inv_upd; [intros; now apply gor_ok_phase|intros; reflexivity|exact J].
    - (* IGEnd *) destruct (on_gor_shape _ _ _ _ _ _ H) as (g & _ & _ & ->).
      rewrite <- (with_queue_same (with_gs _ c)). simpl. apply inv_upd; [intros; now apply gor_ok_phase|intros; reflexivity|exact J].
    - (* IGDataOk *) destruct (can_enqueue cap c); [|discriminate].
      destruct (on_gor_shape _ _ _ _ _ _ H) as (g & _ & _ & ->). apply inv_upd; [intros; now apply gor_ok_phase|intros; reflexivity|exact J].
    - (* IGDataFail *) destruct (can_give_up fixed c); [|discriminate].
      destruct (on_gor_shape _ _ _ _ _ _ H) as (g & _ & _ & ->).
      rewrite <- (with_queue_same (with_gs _ c)). simpl. apply inv_upd; [intros; now apply gor_ok_phase|intros; reflexivity|exact J].
    - (* IGCompleteOk *) destruct (can_enqueue cap c); [|discriminate].
      destruct (on_gor_shape _ _ _ _ _ _ H) as (g & _ & _ & ->). apply inv_upd; [intros; now apply gor_ok_phase|intros; reflexivity|exact J].
    - (* IGCompleteFail *) destruct (can_give_up fixed c); [|discriminate].
      destruct (on_gor_shape _ _ _ _ _ _ H) as (g & _ & _ & ->).
      rewrite <- (with_queue_same (with_gs _ c)). simpl. apply inv_upd; [intros; now apply gor_ok_phase|intros; reflexivity|exact J].
    - (* IWTakeOk *) break H. injection H as <-. now apply inv_with_queue.
    - (* IWTakeFail *) break H. injection H as <-. apply inv_writer_out; [now apply inv_with_queue|simpl; congruence].
    - (* IWCloseMsg *) break H. injection H as <-. destruct J as [J1 J2 J3 J4 J5 J6]. constructor; simpl; auto; try discriminate.
    - (* IWCloseRecv *) break H. injection H as <-. apply inv_writer_out; [exact J|congruence].
    - (* IWDrainOk *) break H. injection H as <-. now apply inv_with_queue.
    - (* IWDrainFail *) break H. injection H as <-. apply inv_with_queue with (q := n) in J.
      destruct J as [J1 J2 J3 J4 J5 J6]. constructor; simpl in *; auto; try discriminate.
    - (* IWDrainDone *) break H. injection H as <-.
      destruct J as [J1 J2 J3 J4 J5 J6]. constructor; simpl in *; auto; try discriminate.
    - (* IWWaitDone *) break H. injection H as <-. apply inv_writer_out; [exact J|congruence].
    - (* IWFinish *) break H. injection H as <-.
      assert (R : rd c = RDone) by (unfold reader_done in Heqb; destruct (rd c); try discriminate; reflexivity).
      destruct (inv_finish_once c J R) as [[J1 J2 J3 J4 J5 J6] F]. constructor; simpl; auto; try discriminate.
      + intros _. apply J1. unfold writer_done.
        assert (W : wr (finish_once c) = wr c) by (unfold finish_once; destruct (finished c); reflexivity).
        rewrite W, Heqw. reflexivity.
      + intros _. split; [|exact F]. unfold finish_once. destruct (finished c); exact R.
    - (* IAFinish *) break H. injection H as <-. apply andb_true_iff in Heqb as [Hr Hw].
      assert (R : rd c = RDone) by (unfold reader_done in Hr; destruct (rd c); try discriminate; reflexivity).
      destruct (inv_finish_once c J R) as [[J1 J2 J3 J4 J5 J6] F]. constructor; simpl; auto.
  Qed.

  Lemma arun_inv ls : forall c0 c, AInv c0 -> arun cap fixed c0 ls = Some c -> AInv c.
  Proof.
    induction ls as [|l ls IH]; intros c0 c J H; simpl in H.
    - now injection H as <-.
    - destruct (astep cap fixed c0 l) as [c1|] eqn:S; [|discriminate]. eapply IH; [|exact H]. eapply step_inv; eauto.
  Qed.

  Lemma init_inv : AInv init_cfg.
  Proof. constructor; simpl; try discriminate; auto. Qed.

  Theorem reachable_inv c : reachable cap fixed c -> AInv c.
  Proof. intros (ls & H). eapply arun_inv; [apply init_inv|exact H]. Qed.

  Lemma arun_app ls1 : forall ls2 c, arun cap fixed c (ls1 ++ ls2) =
    match arun cap fixed c ls1 with Some c1 => arun cap fixed c1 ls2 | None => None end.
  Proof.
    induction ls1 as [|l ls1 IH]; intros ls2 c; simpl; [reflexivity|].
    destruct (astep cap fixed c l); [apply IH|reflexivity].
  Qed.
  Lemma reachable_arun c ls c' : reachable cap fixed c -> arun cap fixed c ls = Some c' -> reachable cap fixed c'.
  Proof. intros (l0 & H0) H. exists (l0 ++ ls). now rewrite arun_app, H0. Qed.
End Invariants.

(** ** progress: on the way out, somebody can always move until everybody has terminated *)
Definition cleaned (c : cfg) : Prop :=
  finished c = true /\ registered c = false /\ Forall (fun g => g_stops g = 1) (gs c).

Section Progress.
  Variable cap : nat.
  Hypothesis cap_pos : 1 <= cap.

  Lemma forallb_nth {A} (P : A -> bool) l : (forall i x, nth_error l i = Some x -> P x = true) -> forallb P l = true.
  Proof.
    induction l as [|x l IH]; intro H; simpl; [reflexivity|].
    rewrite (H 0 x eq_refl). apply IH. intros i y Hy. apply (H (S i) y Hy).
  Qed.

  Theorem progress c :
    AInv c -> settling c = true ->
    (forall l, internal l = true -> astep cap true c l = None) ->
    all_gone c = true /\ cleaned c.
  Proof.
    intros [J1 J2 J3 J4 J5 J6] St H.
    assert (E : ending c = true).
    { unfold settling in St. apply orb_true_iff in St as [St|St]; [unfold ending; now rewrite St|].
      now apply andb_true_iff in St as [St _]. }
    assert (Wmove : wr c = WDrain \/ wr c = WWait -> False).
    { intros [W|W].
      - destruct (queue c) eqn:Q.
        + specialize (H IWDrainDone eq_refl). simpl in H. rewrite W, Q in H. discriminate.
        + specialize (H IWDrainOk eq_refl). simpl in H. rewrite W, Q in H. discriminate.
      - specialize (H IWWaitDone eq_refl). simpl in H. rewrite W in H. discriminate. }
    assert (Wloop : wr c = WLoop -> closing c = true -> False).
    { intros W Cl. specialize (H IWCloseMsg eq_refl). simpl in H. rewrite W, (J2 Cl W) in H. discriminate. }
    destruct (rd c) as [|prog|] eqn:R.
    - (* idle in ReadMessage *) exfalso.
      pose proof (H IReadFail eq_refl) as X. simpl in X. rewrite R in X.
      destruct (pending_close c || dropped c || conn_closed c) eqn:F; [discriminate|].
      apply orb_false_iff in F as [F Fc]. apply orb_false_iff in F as [Fp Fd].
      assert (Cl : closing c = true).
      { unfold ending in E. rewrite Fp, Fd, Fc in E. now rewrite !orb_false_r in E. }
      destruct (wr c) eqn:W; try (apply Wmove; auto; fail); try (now apply Wloop).
      + assert (conn_closed c = true) by (apply J1; unfold writer_done; now rewrite W). congruence.
      + assert (conn_closed c = true) by (apply J1; unfold writer_done; now rewrite W). congruence.
    - (* inside handleMessage *) exfalso. destruct prog as [|op prog].
      + specialize (H IRReturn eq_refl). simpl in H. rewrite R in H. discriminate.
      + assert (Send : op = RSend \/ op = RSendOrClose -> False).
        { intro Op.
          assert (Full : can_enqueue cap c = false).
          { pose proof (H IRSendOk eq_refl) as X. simpl in X. rewrite R in X.
            destruct Op as [-> | ->]; destruct (can_enqueue cap c); auto; discriminate. }
          assert (NoW : writer_done c = false).
          { pose proof (H IRSendFail eq_refl) as X. simpl in X. rewrite R in X. unfold can_give_up in X. simpl in X.
            destruct Op as [-> | ->]; destruct (writer_done c); auto; discriminate. }
          unfold can_enqueue in Full. apply Nat.ltb_ge in Full.
          destruct (wr c) eqn:W; try (apply Wmove; auto; fail); try (unfold writer_done in NoW; rewrite W in NoW; discriminate).
          destruct (queue c) eqn:Q; [lia|].
          specialize (H IWTakeOk eq_refl). simpl in H. rewrite W, Q in H. discriminate. }
        destruct op; try (apply Send; auto; fail).
        * specialize (H IRBegin eq_refl). simpl in H. rewrite R in H. discriminate.
        * specialize (H IRSpawn eq_refl). simpl in H. rewrite R in H. discriminate.
        * specialize (H IRStop eq_refl). simpl in H. rewrite R in H. discriminate.
        * (* waiting for the cancellation: it has happened, or the configuration would not be settling *)
          specialize (H IRCancelled eq_refl). simpl in H. rewrite R in H.
          unfold settling, waits in St. rewrite R in St. simpl in St. rewrite andb_false_r, orb_false_r in St.
          rewrite St in H. discriminate.
    - (* read loop done *)
      pose proof (J3 eq_refl) as Cl.
      destruct (wr c) eqn:W; try (exfalso; apply Wmove; auto; fail); try (exfalso; now apply Wloop).
      + exfalso. specialize (H IWFinish eq_refl). simpl in H. unfold reader_done in H. rewrite W, R in H. discriminate.
      + destruct (J4 eq_refl) as [_ F]. destruct (J5 F) as (_ & Rg & NoMap).
        assert (A : ac c <> AWait).
        { intro A. specialize (H IAFinish eq_refl). simpl in H. unfold reader_done, writer_done in H. rewrite A, R, W in H. discriminate. }
        assert (G : forall i g, nth_error (gs c) i = Some g -> g_phase g = GDone).
        { intros i g N.
          assert (Ok : gor_ok g) by (eapply Forall_forall; [exact J6|eapply nth_error_In; eauto]).
          assert (M : g_inmap g = false) by (eapply (proj1 (Forall_forall _ _) NoMap); eapply nth_error_In; eauto).
          unfold gor_ok in Ok. rewrite M in Ok. destruct Ok as [Ca _].
          assert (GU : can_give_up true c = true) by (unfold can_give_up, writer_done; now rewrite W).
          destruct (g_phase g) eqn:P; [| | |reflexivity]; exfalso.
          - specialize (H (IGCancel i) eq_refl). simpl in H. unfold on_gor, gphase_is in H. rewrite N, P, Ca in H. discriminate.
          - destruct (can_enqueue cap c) eqn:CE.
            + specialize (H (IGDataOk i) eq_refl). cbn [astep] in H. rewrite CE in H. unfold on_gor, gphase_is in H. rewrite N, P in H. discriminate.
            + specialize (H (IGDataFail i) eq_refl). cbn [astep] in H. rewrite GU in H. unfold on_gor, gphase_is in H. rewrite N, P in H. discriminate.
          - destruct (can_enqueue cap c) eqn:CE.
            + specialize (H (IGCompleteOk i) eq_refl). cbn [astep] in H. rewrite CE in H. unfold on_gor, gphase_is in H. rewrite N, P in H. discriminate.
            + specialize (H (IGCompleteFail i) eq_refl). cbn [astep] in H. rewrite GU in H. unfold on_gor, gphase_is in H. rewrite N, P in H. discriminate. }
        split.
        * unfold all_gone, reader_done. rewrite R, W. simpl.
          apply andb_true_iff. split; [destruct (ac c); try reflexivity; congruence|].
          apply forallb_nth. intros i g N. unfold gphase_is. now rewrite (G i g N).
        * split; [exact F|]. split; [exact Rg|]. apply Forall_forall. intros g Hg.
          assert (Ok : gor_ok g) by (eapply Forall_forall; [exact J6|exact Hg]).
          assert (M : g_inmap g = false) by (eapply (proj1 (Forall_forall _ _) NoMap); exact Hg).
          unfold gor_ok in Ok. rewrite M in Ok. tauto.
  Qed.
End Progress.

(** ** the way out is one-way, and runs of internal steps are bounded by the measure *)
Section Quiescence.
  Variable cap : nat.
  Variable fixed : bool.

  Lemma begin_closing_flags c :
    closing (begin_closing c) = true /\ pending_close (begin_closing c) = pending_close c /\
    dropped (begin_closing c) = dropped c /\ conn_closed (begin_closing c) = conn_closed c.
  Proof. unfold begin_closing. destruct (closing c) eqn:E; simpl; auto. Qed.
  Lemma finish_once_flags c :
    closing (finish_once c) = closing c /\ pending_close (finish_once c) = pending_close c /\
    dropped (finish_once c) = dropped c /\ conn_closed (finish_once c) = conn_closed c.
  Proof. unfold finish_once. destruct (finished c); simpl; auto. Qed.

  Lemma writer_out_flags c :
    (closing c = true -> closing (writer_out fixed c) = true) /\ pending_close (writer_out fixed c) = pending_close c /\
    dropped (writer_out fixed c) = dropped c /\ conn_closed (writer_out fixed c) = true /\
    closing (writer_out fixed c) = (fixed || closing c).
  Proof.
    unfold writer_out. destruct fixed; [|simpl; auto].
    destruct (begin_closing_flags (writer_exit c)) as (A & B & C & D). rewrite A, B, C, D. simpl. auto.
  Qed.

  Lemma ending_step c l c' : astep cap fixed c l = Some c' -> ending c = true -> ending c' = true.
  Proof.
    intros H E.
    assert (M : (closing c = true -> closing c' = true) /\ (pending_close c = true -> pending_close c' = true) /\
                (dropped c = true -> dropped c' = true) /\ (conn_closed c = true -> conn_closed c' = true)).
    { destruct l; simpl in H;
        try (destruct (on_gor_shape _ _ _ _ _ _ H) as (g & _ & _ & ->); simpl; auto; fail);
        try (destruct (can_enqueue cap c); [|discriminate]; destruct (on_gor_shape _ _ _ _ _ _ H) as (g & _ & _ & ->); simpl; auto; fail);
        try (destruct (can_give_up fixed c); [|discriminate]; destruct (on_gor_shape _ _ _ _ _ _ H) as (g & _ & _ & ->); simpl; auto; fail);
        break H; injection H as <-; simpl; auto;
        try (destruct (begin_closing_flags c) as (A & B & C & D); rewrite ?A, ?B, ?C, ?D; auto; fail);
        try (destruct (finish_once_flags c) as (A & B & C & D); rewrite ?A, ?B, ?C, ?D; auto; fail).
      all: try (match goal with |- context [writer_out fixed ?x] =>
                  destruct (writer_out_flags x) as (A & B & C & D & _); rewrite ?B, ?C, ?D; simpl; auto end; fail).
      match goal with |- context [begin_closing ?x] => destruct (begin_closing_flags x) as (A & B & C & D); rewrite ?A, ?B, ?C, ?D; simpl; auto end. }
    destruct M as (M1 & M2 & M3 & M4). unfold ending in *.
    apply orb_true_iff in E as [E|E]; [|rewrite (M4 E); now rewrite !orb_true_r].
    apply orb_true_iff in E as [E|E]; [|rewrite (M3 E); now rewrite !orb_true_r].
    apply orb_true_iff in E as [E|E]; [rewrite (M1 E); reflexivity|rewrite (M2 E); now rewrite !orb_true_r].
  Qed.

  Lemma closing_step c l c' : astep cap fixed c l = Some c' -> closing c = true -> closing c' = true.
  Proof.
    intros H E.
    destruct l; simpl in H;
      try (destruct (on_gor_shape _ _ _ _ _ _ H) as (g & _ & _ & ->); simpl; auto; fail);
      try (destruct (can_enqueue cap c); [|discriminate]; destruct (on_gor_shape _ _ _ _ _ _ H) as (g & _ & _ & ->); simpl; auto; fail);
      try (destruct (can_give_up fixed c); [|discriminate]; destruct (on_gor_shape _ _ _ _ _ _ H) as (g & _ & _ & ->); simpl; auto; fail);
      break H; injection H as <-; simpl; auto;
      try (destruct (begin_closing_flags c) as (A & B & C & D); rewrite ?A, ?B, ?C, ?D; auto; fail);
      try (destruct (finish_once_flags c) as (A & B & C & D); rewrite ?A, ?B, ?C, ?D; auto; fail).
    all: try (match goal with |- context [writer_out fixed ?x] =>
                destruct (writer_out_flags x) as (A & B & C & D & _); apply A; simpl; auto end; fail).
    match goal with |- context [begin_closing ?x] => destruct (begin_closing_flags x) as (A & B & C & D); rewrite ?A; simpl; auto end.
  Qed.

  Lemma rd_finish_once c : rd (finish_once c) = rd c.
  Proof. unfold finish_once. destruct (finished c); reflexivity. Qed.
  Lemma rd_writer_out c : rd (writer_out fixed c) = rd c.
  Proof. unfold writer_out. destruct fixed; [rewrite rd_begin_closing|]; reflexivity. Qed.

  (** an internal step never puts the read loop (back) into a call that waits for a cancellation *)
  Lemma waits_step c l c' : astep cap fixed c l = Some c' -> internal l = true -> waits c' = true -> waits c = true.
  Proof.
    intros H I. unfold waits.
    destruct l; try discriminate I; simpl in H;
      try (destruct (on_gor_shape _ _ _ _ _ _ H) as (g & _ & _ & ->); simpl; auto; fail);
      try (destruct (can_enqueue cap c); [|discriminate]; destruct (on_gor_shape _ _ _ _ _ _ H) as (g & _ & _ & ->); simpl; auto; fail);
      try (destruct (can_give_up fixed c); [|discriminate]; destruct (on_gor_shape _ _ _ _ _ _ H) as (g & _ & _ & ->); simpl; auto; fail);
      break H; injection H as <-; simpl; rewrite ?rd_begin_closing, ?rd_finish_once, ?rd_writer_out; simpl;
      rewrite ?Heqr; simpl; auto; try discriminate; intro X; rewrite ?X, ?orb_true_r; auto.
  Qed.

  Lemma settling_step c l c' :
    astep cap fixed c l = Some c' -> internal l = true -> settling c = true -> settling c' = true.
  Proof.
    intros H I S. unfold settling in *. apply orb_true_iff in S as [S|S].
    - rewrite (closing_step _ _ _ H S). reflexivity.
    - apply andb_true_iff in S as [E W]. rewrite (ending_step _ _ _ H E). simpl.
      destruct (waits c') eqn:W'; [|now rewrite orb_true_r].
      rewrite (waits_step _ _ _ H I W') in W. discriminate.
  Qed.
  Lemma settling_run ls : forall c c', Forall (fun l => internal l = true) ls ->
    arun cap fixed c ls = Some c' -> settling c = true -> settling c' = true.
  Proof.
    induction ls as [|l ls IH]; intros c c' F H E; simpl in H; [now injection H as <-|].
    inversion F as [|? ? Il Fl]; subst.
    destruct (astep cap fixed c l) as [c1|] eqn:S; [|discriminate]. eapply IH; [exact Fl|exact H|]. eapply settling_step; eauto.
  Qed.

  Lemma ending_run ls : forall c c', arun cap fixed c ls = Some c' -> ending c = true -> ending c' = true.
  Proof.
    induction ls as [|l ls IH]; intros c c' H E; simpl in H; [now injection H as <-|].
    destruct (astep cap fixed c l) as [c1|] eqn:S; [|discriminate]. eapply IH; [exact H|]. eapply ending_step; eauto.
  Qed.

  Theorem internal_runs_bounded ls : forall c c',
    Forall (fun l => internal l = true) ls -> arun cap fixed c ls = Some c' -> List.length ls + mu c' <= mu c.
  Proof.
    induction ls as [|l ls IH]; intros c c' F H; simpl in H.
    - injection H as <-. simpl. lia.
    - inversion F as [|? ? Il Fl]; subst. destruct (astep cap fixed c l) as [c1|] eqn:S; [|discriminate].
      pose proof (internal_step_decreases _ _ _ _ _ S Il). specialize (IH _ _ Fl H). simpl. lia.
  Qed.
End Quiescence.

(** ** the theorem: with the current code, from every reachable configuration that is on its way
    out, every run of internal steps is finite (at most [mu c] steps) and a run that cannot be
    extended has reached the configuration in which every actor has terminated, HandleClose has
    run, the connection is deregistered and every stream was stopped exactly once *)
Theorem quiescent cap (cap_pos : 1 <= cap) c :
  reachable cap true c -> settling c = true ->
  forall ls c', Forall (fun l => internal l = true) ls -> arun cap true c ls = Some c' ->
    List.length ls <= mu c /\
    ((forall l, internal l = true -> astep cap true c' l = None) -> all_gone c' = true /\ cleaned c').
Proof.
  intros R E ls c' F H. split.
  - pose proof (internal_runs_bounded cap true ls c c' F H). lia.
  - intro Stuck. apply (progress cap cap_pos); [|eapply settling_run; eauto|exact Stuck].
    apply (reachable_inv cap true). eapply reachable_arun; eauto.
Qed.

(** no stream is ever stopped twice, in any reachable configuration, before or after the repair *)
Theorem actors_stop_at_most_once cap fixed c : reachable cap fixed c -> Forall (fun g => g_stops g <= 1) (gs c).
Proof.
  intro R. destruct (reachable_inv cap fixed c R) as [_ _ _ _ _ J6]. eapply Forall_impl; [|exact J6].
  intros g G. unfold gor_ok in G. destruct (g_inmap g); lia.
Qed.

(** ** before the repair (defect #31) the property is false *)

(** a client that stops reading: the write loop gives up on a failed write while the queue is full
    of the answers to the 102 operations of one burst; the read loop stays in sendMessage for ever,
    finishClosing waits for it for ever, HandleClose never runs *)
Definition stuck_reader_run : list alabel :=
  EFrame (repeat RSend 102) :: IRSendOk :: IWTakeFail :: repeat IRSendOk 100.

Theorem quiescent_refuted_before_fix_reader :
  exists c, arun 100 false init_cfg stuck_reader_run = Some c /\ ending c = true /\
            (forall l, internal l = true -> astep 100 false c l = None) /\
            all_gone c = false /\ finished c = false /\ registered c = true.
Proof.
  eexists. split; [vm_compute; reflexivity|]. split; [reflexivity|]. split; [|auto].
  intros l I. destruct l; try discriminate; try reflexivity; destruct i; reflexivity.
Qed.

(** more live subscriptions than the queue holds when the connection goes away: HandleClose stops
    them all, the first [cap] completes fit into the dead queue, the next goroutine blocks for ever *)
Definition stuck_goroutine_run : list alabel :=
  [EFrame [RSpawn; RSpawn]; IRSpawn; IRSpawn; IRReturn; EDrop; IReadFail; IWCloseMsg; IWDrainDone; IWWaitDone;
   IWFinish; IGCancel 0; IGCancel 1; IGCompleteOk 0].

Theorem quiescent_refuted_before_fix_goroutine :
  exists c, arun 1 false init_cfg stuck_goroutine_run = Some c /\ ending c = true /\
            (forall l, internal l = true -> astep 1 false c l = None) /\ all_gone c = false.
Proof.
  eexists. split; [vm_compute; reflexivity|]. split; [reflexivity|]. split; [|reflexivity].
  intros l I. destruct l; try discriminate; try reflexivity; destruct i as [|[|i]]; try reflexivity; destruct i; reflexivity.
Qed.

(** ** … and such a run exists: enabledness of internal steps is decidable ([stuck]), so any run can
    be extended until nobody can move, which happens within [mu c] steps *)
Section Exists.
  Variable cap : nat.
  Variable fixed : bool.

  Lemma internal_labels_internal n : forallb internal (internal_labels n) = true.
  Proof.
    unfold internal_labels. rewrite forallb_app. simpl. induction (seq 0 n) as [|i l IH]; simpl; auto.
  Qed.

  Lemma stuck_sound c : stuck cap fixed c = true -> forall l, internal l = true -> astep cap fixed c l = None.
  Proof.
    intros S l I. unfold stuck in S. rewrite forallb_forall in S.
    assert (Fix : In l (internal_labels (List.length (gs c))) -> astep cap fixed c l = None).
    { intro Hin. specialize (S l Hin). destruct (astep cap fixed c l); [discriminate|reflexivity]. }
    assert (Gor : forall i, (i < List.length (gs c) -> In l (internal_labels (List.length (gs c)))) ->
                  (nth_error (gs c) i = None -> astep cap fixed c l = None) -> astep cap fixed c l = None).
    { intros i A B. destruct (Nat.lt_ge_cases i (List.length (gs c))) as [Lt|Ge]; [apply Fix; auto|].
      apply B. now apply nth_error_None. }
    assert (InG : forall i (ls : list alabel), i < List.length (gs c) ->
                  In l [IGCancel i; IGEnd i; IGDataOk i; IGDataFail i; IGCompleteOk i; IGCompleteFail i] ->
                  In l (internal_labels (List.length (gs c)))).
    { intros i _ Lt Hin. unfold internal_labels. apply in_or_app. right. apply in_flat_map. exists i. split; [|exact Hin].
      apply in_seq. lia. }
    destruct l; try discriminate; try (apply Fix; unfold internal_labels; simpl; tauto).
    all: apply (Gor i); [intro Lt; apply (InG i []); [exact Lt|simpl; tauto]|].
    all: intro N; simpl; unfold on_gor; rewrite N; repeat match goal with |- context [if ?x then _ else _] => destruct x end; reflexivity.
  Qed.

  Lemma not_stuck c : stuck cap fixed c = false -> exists l c', internal l = true /\ astep cap fixed c l = Some c'.
  Proof.
    unfold stuck. intro S.
    assert (E : exists l, In l (internal_labels (List.length (gs c))) /\
                          match astep cap fixed c l with None => true | Some _ => false end = false).
    { revert S. generalize (internal_labels (List.length (gs c))) as ll. induction ll as [|x ll IH]; simpl; [discriminate|].
      intro S. apply andb_false_iff in S as [S|S]; [exists x; auto|]. destruct (IH S) as (l & A & B). exists l. auto. }
    destruct E as (l & Hin & E). destruct (astep cap fixed c l) as [c'|] eqn:A; [|discriminate].
    exists l, c'. split; [|exact A].
    pose proof (internal_labels_internal (List.length (gs c))) as F. rewrite forallb_forall in F. auto.
  Qed.
End Exists.

Theorem quiescent_run_exists cap (cap_pos : 1 <= cap) : forall n c,
  mu c <= n -> reachable cap true c -> settling c = true ->
  exists ls c', Forall (fun l => internal l = true) ls /\ arun cap true c ls = Some c' /\
                all_gone c' = true /\ cleaned c'.
Proof.
  induction n as [|n IH]; intros c M R E.
  - destruct (stuck cap true c) eqn:S.
    + exists [], c. split; [constructor|]. split; [reflexivity|].
      apply (progress cap cap_pos); [now apply (reachable_inv cap true)|exact E|now apply stuck_sound].
    + destruct (not_stuck _ _ _ S) as (l & c1 & I & A). pose proof (internal_step_decreases _ _ _ _ _ A I). lia.
  - destruct (stuck cap true c) eqn:S.
    + exists [], c. split; [constructor|]. split; [reflexivity|].
      apply (progress cap cap_pos); [now apply (reachable_inv cap true)|exact E|now apply stuck_sound].
    + destruct (not_stuck _ _ _ S) as (l & c1 & I & A). pose proof (internal_step_decreases _ _ _ _ _ A I) as D.
      destruct (IH c1) as (ls & c' & F & Ru & G & Cl); [lia| | |].
      * apply (reachable_arun cap true c [l] c1 R). simpl. now rewrite A.
      * eapply settling_step; eauto.
      * exists (l :: ls), c'. split; [constructor; auto|]. split; [simpl; now rewrite A|auto].
Qed.

(** ** handler calls that return only upon cancellation
    [beginClosing] cancels the handler's context ([IRCancelled] needs [closing]).  Once closing has begun —
    by the read loop, by the application's Close(), or by the write loop on its way out — every run of
    internal steps is bounded and ends with everybody terminated and everything cleaned up, although
    the read loop may be inside a callback that returns only when its context is cancelled. *)
Theorem close_completes_upon_cancellation cap (cap_pos : 1 <= cap) c :
  reachable cap true c -> closing c = true ->
  forall ls c', Forall (fun l => internal l = true) ls -> arun cap true c ls = Some c' ->
    List.length ls <= mu c /\
    ((forall l, internal l = true -> astep cap true c' l = None) -> all_gone c' = true /\ cleaned c').
Proof. intros R Cl. apply quiescent; auto. unfold settling. now rewrite Cl. Qed.

(** a failing write (the client has gone while the read loop waits in such a callback) makes the write loop
    exit, and that begins closing: the configuration is settling from then on *)
Theorem write_failure_begins_closing cap c l c' :
  astep cap true c l = Some c' -> (l = ETickFail \/ l = IWTakeFail) -> closing c' = true.
Proof.
  intros H [-> | ->]; simpl in H.
  - destruct (wr c); try discriminate. injection H as <-. unfold writer_out. apply begin_closing_flags.
  - destruct (wr c); try discriminate. destruct (queue c); try discriminate. injection H as <-. unfold writer_out. apply begin_closing_flags.
Qed.

(** before that repair: the client drops while the read loop is in a callback that waits for its
    cancellation, the write loop fails its next write and exits without anybody having begun closing:
    nobody can move, the read loop has not ended, HandleClose has not run *)
Definition stuck_waiting_run : list alabel := [EFrame [RWaitCancel; RSend; RSend]; EDrop; ETickFail; IWFinish].
Theorem quiescent_refuted_before_fix_cancel :
  exists c, arun 100 false init_cfg (firstn 3 stuck_waiting_run) = Some c /\ ending c = true /\
            (forall l, internal l = true -> astep 100 false c l = None) /\
            all_gone c = false /\ finished c = false /\ registered c = true.
Proof.
  eexists. split; [vm_compute; reflexivity|]. split; [reflexivity|]. split; [|auto].
  intros l I. destruct l; try discriminate; try reflexivity; destruct i; reflexivity.
Qed.
(** with the repair the same history goes on: the cancellation arrives, the callback returns *)
Example same_run_after_fix :
  exists c, arun 100 true init_cfg (firstn 3 stuck_waiting_run) = Some c /\ settling c = true /\
            exists c', astep 100 true c IRCancelled = Some c'.
Proof. eexists. split; [vm_compute; reflexivity|]. split; [reflexivity|]. eexists. vm_compute. reflexivity. Qed.

(** ** the socket is closed before finishClosing waits for the read loop
    [writer_exit]: the write loop's deferred calls run in the order conn.Close(), close(writeLoopDone), finishClosing().
    Closing the socket is what ends a read loop parked in ReadMessage when the peer neither answers the close frame nor
    drops the connection ([IReadFail] needs [pending_close], [dropped] or [conn_closed]); [finishClosing] waits for the
    read loop.  [progress] (hence [quiescent]) uses exactly this: in every reachable configuration in which the write
    loop has returned, the socket is closed. *)
Theorem socket_closed_before_finish cap fixed c : reachable cap fixed c -> writer_done c = true -> conn_closed c = true.
Proof. intros R W. exact (j_conn _ (reachable_inv cap fixed c R) W). Qed.

(** the swapped order (socket closed last, after finishClosing has returned): the same steps, except that the write
    loop's exit leaves the socket open and finishClosing's completion closes it *)
Definition set_conn_closed (b : bool) (c : cfg) : cfg :=
  {| rd := rd c; gs := gs c; wr := wr c; ac := ac c; queue := queue c; closemsg := closemsg c; closing := closing c;
     close_received := close_received c; pending_close := pending_close c; dropped := dropped c; conn_closed := b;
     finished := finished c; registered := registered c |}.
Definition astep_close_last (cap : nat) (c : cfg) (l : alabel) : option cfg :=
  match astep cap true c l with
  | Some c' =>
      Some (match l with
            | ETickFail | IWTakeFail | IWCloseRecv | IWWaitDone => set_conn_closed (conn_closed c) c'
            | IWFinish => set_conn_closed true c'
            | _ => c'
            end)
  | None => None
  end.
Fixpoint arun_close_last (cap : nat) (c : cfg) (ls : list alabel) : option cfg :=
  match ls with
  | [] => Some c
  | l :: r => match astep_close_last cap c l with Some c' => arun_close_last cap c' r | None => None end
  end.

(** … and then a peer that stays connected and silent after the server's close frame keeps the connection for ever:
    terminate is handled (closing begins), the write loop drains, writes the close frame, gives up waiting after 1 s and
    returns; the read loop is back in ReadMessage on a socket nobody closes; finishClosing waits for it: nobody can
    move, HandleClose has not run, the connection is still registered *)
Definition silent_peer_run : list alabel := [EFrame [RBegin]; IRBegin; IRReturn; IWCloseMsg; IWDrainDone; IWWaitDone].
Theorem quiescent_refuted_when_socket_closed_last :
  exists c, arun_close_last 100 init_cfg silent_peer_run = Some c /\ settling c = true /\
            (forall l, internal l = true -> astep_close_last 100 c l = None) /\
            all_gone c = false /\ finished c = false /\ registered c = true.
Proof.
  eexists. split; [vm_compute; reflexivity|]. split; [reflexivity|]. split; [|auto].
  intros l I. destruct l; try discriminate; try reflexivity; destruct i; reflexivity.
Qed.
(** with the real order the same history goes on to the end *)
Example silent_peer_run_real_order :
  exists c, arun 100 true init_cfg (silent_peer_run ++ [IReadFail; IWFinish]) = Some c /\ all_gone c = true /\ finished c = true /\
            registered c = false.
Proof. eexists. split; [vm_compute; reflexivity|]. auto. Qed.

(** ** sendMessage never gives up while the write loop lives
    A sender facing a full queue waits until the write loop makes room or has exited: the only failing sends of the
    model ([IRSendFail], [IGDataFail], [IGCompleteFail]) need [writer_done].  While the connection is served nothing
    that was handed to sendMessage is dropped (back-pressure, not loss). *)
Theorem send_fails_only_after_writer_exit cap c l c' :
  astep cap true c l = Some c' ->
  (l = IRSendFail \/ exists i, l = IGDataFail i \/ l = IGCompleteFail i) -> writer_done c = true.
Proof.
  intros H [->|(i & [->| ->])]; simpl in H; unfold can_give_up in H; simpl in H.
  - destruct (rd c) as [|[|[] prog]|]; try discriminate; destruct (writer_done c); auto; discriminate.
  - destruct (writer_done c); [reflexivity|discriminate].
  - destruct (writer_done c); [reflexivity|discriminate].
Qed.
