(** * Ws/WsTypes.v — vocabulary of C08: client frames, labels, server frames, trace events.

    Shared by the model (WsModel.v), the reference semantics (WsSpec.v) and the correspondence
    check (WsCheck.v).  No proofs, no behaviour. *)
From Coq Require Import List NArith ZArith Bool.
Import ListNotations.

(** The two sub-protocols served by [API.ServeGraphQLWS]. *)
Inductive proto := PWs (* graphql-ws *) | PTws (* graphql-transport-ws *).

(** The [type] word of a client message, as far as either [handleMessage] switch distinguishes it.
    Words only a server sends (data, next, error, ka, connection_ack, connection_error) and
    anything else are [TOther]. *)
Inductive mtype :=
| TInit        (* connection_init *)
| TTerminate   (* connection_terminate *)
| TStart       (* start *)
| TStop        (* stop *)
| TSubscribe   (* subscribe *)
| TComplete    (* complete *)
| TPing | TPong
| TOther.

(** What the document of a start / subscribe payload is, as far as [HandleStart] distinguishes it. *)
Inductive doc :=
| DQuery | DMutation
| DSub          (* subscription whose subscribe resolver returns a source stream *)
| DSubFail      (* subscription whose subscribe resolver returns an error *)
| DInvalid.     (* does not parse / validate, or selects no operation: answered with errors only *)

(** The [payload] member of a client message. *)
Inductive payload :=
| PayNone       (* absent *)
| PayJunk       (* JSON that does not decode into {query, variables, operationName} *)
| PayReject     (* an object the application's init callback refuses; as a start payload it decodes
                   to the empty query *)
| PayDoc (d : doc).

(** The application's init callback (Config.HandleGraphQLWSInit): the harness's refuses exactly the
    payloads carrying its reject mark. *)
Definition init_ok (p : payload) : bool := match p with PayReject => false | _ => true end.

(** jsoniter.Unmarshal(msg.Payload, &struct{Query, Variables, OperationName}) *)
Definition decode_start (p : payload) : option doc :=
  match p with
  | PayNone | PayJunk => None
  | PayReject => Some DInvalid       (* {"reject":true}: unknown member ignored, Query = "" *)
  | PayDoc d => Some d
  end.

(** One client frame: bytes that [json.Unmarshal] rejects, or a message. *)
Inductive cframe := Malformed | Msg (t : mtype) (id : N) (p : payload).

(** How a connection ends, seen from the read loop. *)
Inductive ending :=
| EClientClose  (* the client sent a close frame *)
| EDrop         (* the TCP connection went away *)
| EAppClose     (* the application called Close() (CloseHijackedConnections) *)
| EPeer.        (* the close handshake the server started was completed / its socket was closed *)

(** Labels: what the environment does to a connection.  Sources are named by the number of the
    operation (= index of the label) that created them. *)
Inductive label :=
| LFrame (f : cframe)      (* the read loop reads one client frame and dispatches it *)
| LEmit (n : nat)          (* the source of operation n delivers an event *)
| LSrcEnd (n : nat)        (* the source of operation n closes its event channel *)
| LEnd (e : ending)        (* the connection ends *)
| LTick.                   (* one keep-alive period of the write loop's ticker elapses (15 s) and the
                              write loop, still in its main loop, takes the tick *)

(** Server frames, reduced to what the property talks about.  Result frames carry (as a ghost in
    the model, as an echo of a resolver argument in the harness) the operation they answer. *)
Inductive dclass :=
| CRes (n : nat)           (* result of query / mutation number n *)
| CEv (n k : nat)          (* k-th event of subscription number n *)
| CErr.                    (* errors only *)
Inductive sframe :=
| SAck | SKa | SConnError | SPong
| SData (id : N) (c : dclass)      (* data (graphql-ws) / next (graphql-transport-ws) *)
| SComplete (id : N).

(** Trace events.  A run of a connection is a list of these, oldest first. *)
Inductive ev :=
| VRecv (f : cframe)                 (* the read loop read this client frame (and dispatches it next) *)
| VSend (f : sframe) (owner : option nat)
    (* sendMessage: the frame is put on the outgoing queue; [owner] is the operation it belongs to *)
| VInit (ok : bool)                  (* the application's init callback ran and accepted / refused *)
| VStart (n : nat) (id : N) (d : doc)  (* HandleStart was called for operation n *)
| VExec (n : nat)                    (* the query / mutation resolvers of operation n ran *)
| VSubscribe (n : nat)               (* the subscribe resolver of operation n returned a source *)
| VSubFail (n : nat)                 (* the subscribe resolver of operation n returned an error *)
| VSrcEnd (n : nat)                  (* the source of operation n closed its event channel *)
| VStop (n : nat)                    (* Stop() of the source of operation n was called *)
| VBeginClose (code : Z)             (* the body of beginClosingOnce ran *)
| VGone                              (* read loop and write loop have ended: nothing is read or
                                        written any more (finishClosing is past its two waits) *)
| VDeregister                        (* HandleClose removed the connection from the registry *)
| VTick.                             (* a keep-alive period elapsed; the keep-alive the write loop writes
                                        for it (ka / pong, directly to the socket) follows as a [VSend] *)

(** decidable equalities (boolean, executable) *)
Definition dclass_eqb (a b : dclass) : bool :=
  match a, b with
  | CRes n, CRes m => Nat.eqb n m
  | CEv n k, CEv m j => Nat.eqb n m && Nat.eqb k j
  | CErr, CErr => true
  | _, _ => false
  end.

Definition sframe_eqb (a b : sframe) : bool :=
  match a, b with
  | SAck, SAck | SKa, SKa | SConnError, SConnError | SPong, SPong => true
  | SData i c, SData j d => N.eqb i j && dclass_eqb c d
  | SComplete i, SComplete j => N.eqb i j
  | _, _ => false
  end.

Fixpoint list_eqb {A} (eqb : A -> A -> bool) (a b : list A) : bool :=
  match a, b with
  | [], [] => true
  | x :: a', y :: b' => eqb x y && list_eqb eqb a' b'
  | _, _ => false
  end.

Definition is_sublike (d : doc) : bool := match d with DSub | DSubFail => true | _ => false end.
