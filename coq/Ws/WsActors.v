(** * Ws/WsActors.v — C08 stage 2: the goroutines of one WebSocket connection as interleaved actors.

    Transcribed (identical in graphqlws/connection.go and graphqltransportws/connection.go, plus
    graphqlws.go), no proofs here:
    - [readLoop] with its deferred [beginClosing] and [close(readLoopDone)], and [handleMessage]
      reduced to the sequence of things it does that can block or that other goroutines see:
      [sendMessage] (blocking on the bounded [outgoing] queue), [beginClosing], starting a
      subscription goroutine, [Stop()] of a running stream;
    - the per-subscription goroutine of [HandleStart]: [SubscriptionSourceStream.Run]'s select on
      (context cancelled | event | channel closed), [SendData] per event, one final [SendComplete];
    - [writeLoop]: the select on (outgoing | closeMessage | closeReceived), the drain-then-close
      handshake, the bounded wait for the peer's close, the deferred [conn.Close()],
      [close(writeLoopDone)], [finishClosing()];
    - [beginClosing] / [finishClosing] with their [sync.Once] guards, [Close()] as called by
      [CloseHijackedConnections], [HandleClose] (Stop every stream in the map, deregister).

    Which frames are sent does not matter here (stage 1 is about that); what matters is who can be
    blocked on whom.  A client frame is therefore any finite program of read-loop operations
    ([EFrame prog]), which covers every branch of both [handleMessage] functions.

    [cap] is the capacity of [outgoing] ([connectionSendBufferSize] = 100).
    [fixed = false] is the pinned tree before the repair of defect #31: [sendMessage] selected only
    on (outgoing <- msg | ctx.Done()) with ctx = context.Background(), so it could only complete by
    enqueueing.  [fixed = true] is the current code: it also selects on [writeLoopDone].

    Modelling decisions (all in favour of more behaviours, except where noted):
    - a socket write may fail whenever it is attempted ([IWTakeFail], [IWDrainFail]); a keep-alive
      write that fails is the environment label [ETickFail];
    - the write loop's wait for the peer's close (closeReceived | readLoopDone | 1 s timer) can
      always end ([IWWaitDone]): the timer guarantees it;
    - [ticker.Stop(); conn.Close(); close(writeLoopDone)] are one step;
    - a client frame is handed to the read loop only when it is back in [ReadMessage] (frames wait
      in the socket buffer otherwise), and not after the client's close frame or a drop;
    - handler callbacks ([HandleInit], resolvers, the application's [Stop]) return: they are not
      actors (assumption listed in the manifest). *)
From Coq Require Import List Arith Bool.
Import ListNotations.

Inductive rop :=
| RSend            (* sendMessage; an error is only logged (SendData, SendComplete, connection_error, pong) *)
| RSendOrClose     (* sendMessage; on error beginClosing and return (connection_ack, first keep-alive) *)
| RBegin           (* beginClosing *)
| RSpawn           (* HandleStart, subscription: subscriptions[id] = stream; go func(){ Run; SendComplete }() *)
| RStop (i : nat)  (* HandleStop / release of an ended entry: Stop() of stream i, delete(subscriptions, id) *)
| RWaitCancel.     (* a handler callback (init callback, resolver) that returns only when the handler's context is
                      cancelled: an operation waiting for a backend with the request's context *)

Inductive rstate := RIdle (* in ReadMessage *) | RBusy (prog : list rop) (* in handleMessage *) | RDone.

Inductive gphase :=
| GRun        (* in Run's select *)
| GData       (* took an event: executing it and in SendData *)
| GComplete   (* Run returned: in SendComplete *)
| GDone.
Record gor := {
  g_phase : gphase;
  g_cancelled : bool;    (* its context was cancelled (by the wrapper around Stop) *)
  g_srcclosed : bool;    (* the source closed the event channel *)
  g_inmap : bool;        (* its stream is in graphqlWSHandler.subscriptions *)
  g_stops : nat          (* calls of the application's Stop() for its stream *)
}.

Inductive wstate :=
| WLoop       (* at the select of the for loop *)
| WDrain      (* took closeMessage: draining outgoing *)
| WWait       (* close frame written: waiting for closeReceived | readLoopDone | 1 s *)
| WFinish     (* returned: socket closed, writeLoopDone closed; in finishClosing, waiting for readLoopDone *)
| WDone.
Inductive astate := ANone | AWait (* Close(): beginClosing done, in finishClosing *) | ADone.

Record cfg := {
  rd : rstate; gs : list gor; wr : wstate; ac : astate;
  queue : nat;               (* messages in outgoing *)
  closemsg : bool;           (* closeMessage holds the close message *)
  closing : bool;            (* beginClosingOnce fired *)
  close_received : bool;     (* closeReceived is closed *)
  pending_close : bool;      (* the client's close frame is in the socket buffer *)
  dropped : bool;            (* the TCP connection is gone *)
  conn_closed : bool;        (* the server closed its socket *)
  finished : bool;           (* finishClosingOnce fired: HandleClose ran *)
  registered : bool          (* the connection is in API.graphqlWSConnections *)
}.

Definition init_cfg : cfg :=
  {| rd := RIdle; gs := []; wr := WLoop; ac := ANone; queue := 0; closemsg := false; closing := false;
     close_received := false; pending_close := false; dropped := false; conn_closed := false;
     finished := false; registered := true |}.

Inductive alabel :=
(* environment *)
| EFrame (prog : list rop) | EEmit (i : nat) | ESrcEnd (i : nat)
| EClientClose | EDrop | EAppClose | ETickFail
(* read loop *)
| IReadFail | IRSendOk | IRSendFail | IRBegin | IRSpawn | IRStop | IRReturn
| IRCancelled   (* a callback waiting for the cancellation of the handler's context returns: beginClosing has called Cancel() *)
(* subscription goroutine i *)
| IGCancel (i : nat) | IGEnd (i : nat) | IGDataOk (i : nat) | IGDataFail (i : nat)
| IGCompleteOk (i : nat) | IGCompleteFail (i : nat)
(* write loop *)
| IWTakeOk | IWTakeFail | IWCloseMsg | IWCloseRecv | IWDrainOk | IWDrainFail | IWDrainDone | IWWaitDone | IWFinish
(* the caller of Close() *)
| IAFinish.

Definition internal (l : alabel) : bool :=
  match l with
  | EFrame _ | EEmit _ | ESrcEnd _ | EClientClose | EDrop | EAppClose | ETickFail => false
  | _ => true
  end.

(** ** record updates *)
Definition with_rd (r : rstate) (c : cfg) : cfg :=
  {| rd := r; gs := gs c; wr := wr c; ac := ac c; queue := queue c; closemsg := closemsg c; closing := closing c;
     close_received := close_received c; pending_close := pending_close c; dropped := dropped c;
     conn_closed := conn_closed c; finished := finished c; registered := registered c |}.
Definition with_gs (g : list gor) (c : cfg) : cfg :=
  {| rd := rd c; gs := g; wr := wr c; ac := ac c; queue := queue c; closemsg := closemsg c; closing := closing c;
     close_received := close_received c; pending_close := pending_close c; dropped := dropped c;
     conn_closed := conn_closed c; finished := finished c; registered := registered c |}.
Definition with_wr (w : wstate) (c : cfg) : cfg :=
  {| rd := rd c; gs := gs c; wr := w; ac := ac c; queue := queue c; closemsg := closemsg c; closing := closing c;
     close_received := close_received c; pending_close := pending_close c; dropped := dropped c;
     conn_closed := conn_closed c; finished := finished c; registered := registered c |}.
Definition with_ac (a : astate) (c : cfg) : cfg :=
  {| rd := rd c; gs := gs c; wr := wr c; ac := a; queue := queue c; closemsg := closemsg c; closing := closing c;
     close_received := close_received c; pending_close := pending_close c; dropped := dropped c;
     conn_closed := conn_closed c; finished := finished c; registered := registered c |}.
Definition with_queue (q : nat) (c : cfg) : cfg :=
  {| rd := rd c; gs := gs c; wr := wr c; ac := ac c; queue := q; closemsg := closemsg c; closing := closing c;
     close_received := close_received c; pending_close := pending_close c; dropped := dropped c;
     conn_closed := conn_closed c; finished := finished c; registered := registered c |}.

(** beginClosing: sync.Once { closeMessage <- msg (buffered, never blocks); close(c.close); Cancel() } *)
Definition begin_closing (c : cfg) : cfg :=
  if closing c then c else
  {| rd := rd c; gs := gs c; wr := wr c; ac := ac c; queue := queue c; closemsg := true; closing := true;
     close_received := close_received c; pending_close := pending_close c; dropped := dropped c;
     conn_closed := conn_closed c; finished := finished c; registered := registered c |}.

(** the write loop returns: deferred ticker.Stop(), conn.Close(), close(writeLoopDone); then finishClosing *)
Definition writer_exit (c : cfg) : cfg :=
  {| rd := rd c; gs := gs c; wr := WFinish; ac := ac c; queue := queue c; closemsg := closemsg c; closing := closing c;
     close_received := close_received c; pending_close := pending_close c; dropped := dropped c;
     conn_closed := true; finished := finished c; registered := registered c |}.

(** [fixed = true] (current code): the write loop begins closing on its way out ([defer c.beginClosing]), so the
    handler's context is cancelled however the write loop ends; before the repair (write loop ended by a write
    error: nobody had begun closing) it did not. *)
Definition writer_out (fixed : bool) (c : cfg) : cfg :=
  if fixed then begin_closing (writer_exit c) else writer_exit c.

Definition stop_gor (g : gor) : gor :=
  if g_inmap g then
    {| g_phase := g_phase g; g_cancelled := true; g_srcclosed := g_srcclosed g; g_inmap := false; g_stops := S (g_stops g) |}
  else g.

(** finishClosing past its waits: sync.Once { HandleClose }: Stop every stream in the map, map = nil,
    delete the connection from the registry *)
Definition finish_once (c : cfg) : cfg :=
  if finished c then c else
  {| rd := rd c; gs := map stop_gor (gs c); wr := wr c; ac := ac c; queue := queue c; closemsg := closemsg c;
     closing := closing c; close_received := close_received c; pending_close := pending_close c; dropped := dropped c;
     conn_closed := conn_closed c; finished := true; registered := false |}.

Fixpoint upd {A} (i : nat) (f : A -> A) (l : list A) {struct l} : list A :=
  match l, i with
  | [], _ => []
  | x :: r, 0 => f x :: r
  | x :: r, S j => x :: upd j f r
  end.

Definition set_phase (ph : gphase) (g : gor) : gor :=
  {| g_phase := ph; g_cancelled := g_cancelled g; g_srcclosed := g_srcclosed g; g_inmap := g_inmap g; g_stops := g_stops g |}.
Definition set_srcclosed (g : gor) : gor :=
  {| g_phase := g_phase g; g_cancelled := g_cancelled g; g_srcclosed := true; g_inmap := g_inmap g; g_stops := g_stops g |}.
Definition new_gor : gor :=
  {| g_phase := GRun; g_cancelled := false; g_srcclosed := false; g_inmap := true; g_stops := 0 |}.

Definition writer_done (c : cfg) : bool := match wr c with WFinish | WDone => true | _ => false end.
Definition reader_done (c : cfg) : bool := match rd c with RDone => true | _ => false end.

Section Actors.
  Variable cap : nat.
  Variable fixed : bool.

  (** sendMessage can complete by enqueueing … *)
  Definition can_enqueue (c : cfg) : bool := Nat.ltb (queue c) cap.
  (** … or (current code) by noticing that the write loop is gone *)
  Definition can_give_up (c : cfg) : bool := fixed && writer_done c.

  Definition gphase_is (ph : gphase) (g : gor) : bool :=
    match g_phase g, ph with
    | GRun, GRun | GData, GData | GComplete, GComplete | GDone, GDone => true
    | _, _ => false
    end.

  Definition on_gor (i : nat) (c : cfg) (guard : gor -> bool) (f : gor -> gor) (k : cfg -> cfg) : option cfg :=
    match nth_error (gs c) i with
    | Some g => if guard g then Some (k (with_gs (upd i f (gs c)) c)) else None
    | None => None
    end.

  Definition astep (c : cfg) (l : alabel) : option cfg :=
    match l with
    (* ---- environment ---- *)
    | EFrame prog =>
        match rd c with
        | RIdle => if conn_closed c || pending_close c || dropped c then None else Some (with_rd (RBusy prog) c)
        | _ => None
        end
    | EEmit i => on_gor i c (fun g => gphase_is GRun g && negb (g_srcclosed g)) (set_phase GData) (fun x => x)
    | ESrcEnd i => on_gor i c (fun g => negb (g_srcclosed g)) set_srcclosed (fun x => x)
    | EClientClose =>
        if pending_close c || dropped c || conn_closed c then None else
        Some {| rd := rd c; gs := gs c; wr := wr c; ac := ac c; queue := queue c; closemsg := closemsg c; closing := closing c;
                close_received := close_received c; pending_close := true; dropped := dropped c;
                conn_closed := conn_closed c; finished := finished c; registered := registered c |}
    | EDrop =>
        if dropped c then None else
        Some {| rd := rd c; gs := gs c; wr := wr c; ac := ac c; queue := queue c; closemsg := closemsg c; closing := closing c;
                close_received := close_received c; pending_close := pending_close c; dropped := true;
                conn_closed := conn_closed c; finished := finished c; registered := registered c |}
    | EAppClose =>
        (* CloseHijackedConnections: the registry is emptied, then Close(): beginClosing, finishClosing *)
        match ac c with
        | ANone =>
            let c1 := begin_closing c in
            Some {| rd := rd c1; gs := gs c1; wr := wr c1; ac := AWait; queue := queue c1; closemsg := closemsg c1;
                    closing := closing c1; close_received := close_received c1; pending_close := pending_close c1;
                    dropped := dropped c1; conn_closed := conn_closed c1; finished := finished c1; registered := false |}
        | _ => None
        end
    | ETickFail => match wr c with WLoop => Some (writer_out fixed c) | _ => None end
    (* ---- read loop ---- *)
    | IReadFail =>
        match rd c with
        | RIdle =>
            if pending_close c || dropped c || conn_closed c then
              let c1 := {| rd := RDone; gs := gs c; wr := wr c; ac := ac c; queue := queue c; closemsg := closemsg c;
                           closing := closing c; close_received := close_received c || pending_close c;
                           pending_close := pending_close c; dropped := dropped c; conn_closed := conn_closed c;
                           finished := finished c; registered := registered c |} in
              Some (begin_closing c1)       (* deferred beginClosing(1011, "read error"), close(readLoopDone) *)
            else None
        | _ => None
        end
    | IRSendOk =>
        match rd c with
        | RBusy ((RSend | RSendOrClose) :: prog) =>
            if can_enqueue c then Some (with_rd (RBusy prog) (with_queue (S (queue c)) c)) else None
        | _ => None
        end
    | IRSendFail =>
        match rd c with
        | RBusy (RSend :: prog) => if can_give_up c then Some (with_rd (RBusy prog) c) else None
        | RBusy (RSendOrClose :: _) => if can_give_up c then Some (with_rd (RBusy []) (begin_closing c)) else None
        | _ => None
        end
    | IRBegin => match rd c with RBusy (RBegin :: prog) => Some (with_rd (RBusy prog) (begin_closing c)) | _ => None end
    | IRSpawn => match rd c with RBusy (RSpawn :: prog) => Some (with_rd (RBusy prog) (with_gs (gs c ++ [new_gor]) c)) | _ => None end
    | IRStop => match rd c with RBusy (RStop i :: prog) => Some (with_rd (RBusy prog) (with_gs (upd i stop_gor (gs c)) c)) | _ => None end
    | IRReturn => match rd c with RBusy [] => Some (with_rd RIdle c) | _ => None end
    | IRCancelled =>
        (* beginClosing: sync.Once { ...; Handler.Cancel() }: the context is cancelled exactly when closing has begun *)
        match rd c with RBusy (RWaitCancel :: prog) => if closing c then Some (with_rd (RBusy prog) c) else None | _ => None end
    (* ---- subscription goroutines ---- *)
    | IGCancel i => on_gor i c (fun g => gphase_is GRun g && g_cancelled g) (set_phase GComplete) (fun x => x)
    | IGEnd i => on_gor i c (fun g => gphase_is GRun g && g_srcclosed g) (set_phase GComplete) (fun x => x)
    | IGDataOk i => if can_enqueue c then on_gor i c (gphase_is GData) (set_phase GRun) (fun x => with_queue (S (queue c)) x) else None
    | IGDataFail i => if can_give_up c then on_gor i c (gphase_is GData) (set_phase GRun) (fun x => x) else None
    | IGCompleteOk i => if can_enqueue c then on_gor i c (gphase_is GComplete) (set_phase GDone) (fun x => with_queue (S (queue c)) x) else None
    | IGCompleteFail i => if can_give_up c then on_gor i c (gphase_is GComplete) (set_phase GDone) (fun x => x) else None
    (* ---- write loop ---- *)
    | IWTakeOk => match wr c, queue c with WLoop, S q => Some (with_queue q c) | _, _ => None end
    | IWTakeFail => match wr c, queue c with WLoop, S q => Some (writer_out fixed (with_queue q c)) | _, _ => None end
    | IWCloseMsg =>
        match wr c with
        | WLoop => if closemsg c then
                     Some {| rd := rd c; gs := gs c; wr := WDrain; ac := ac c; queue := queue c; closemsg := false; closing := closing c;
                             close_received := close_received c; pending_close := pending_close c; dropped := dropped c;
                             conn_closed := conn_closed c; finished := finished c; registered := registered c |}
                   else None
        | _ => None
        end
    | IWCloseRecv => match wr c with WLoop => if close_received c then Some (writer_out fixed c) else None | _ => None end
    | IWDrainOk => match wr c, queue c with WDrain, S q => Some (with_queue q c) | _, _ => None end
    | IWDrainFail => match wr c, queue c with WDrain, S q => Some (with_wr WWait (with_queue q c)) | _, _ => None end
    | IWDrainDone => match wr c, queue c with WDrain, 0 => Some (with_wr WWait c) | _, _ => None end
    | IWWaitDone => match wr c with WWait => Some (writer_out fixed c) | _ => None end
    | IWFinish => match wr c with WFinish => if reader_done c then Some (with_wr WDone (finish_once c)) else None | _ => None end
    (* ---- Close() ---- *)
    | IAFinish => match ac c with AWait => if reader_done c && writer_done c then Some (with_ac ADone (finish_once c)) else None | _ => None end
    end.

  (** runs *)
  Fixpoint arun (c : cfg) (ls : list alabel) : option cfg :=
    match ls with
    | [] => Some c
    | l :: r => match astep c l with Some c' => arun c' r | None => None end
    end.

  Definition reachable (c : cfg) : Prop := exists ls, arun init_cfg ls = Some c.

  (** every actor has terminated *)
  Definition all_gone (c : cfg) : bool :=
    reader_done c && match wr c with WDone => true | _ => false end &&
    match ac c with AWait => false | _ => true end &&
    forallb (gphase_is GDone) (gs c).

  (** the connection is on its way out: closing has begun, or the client has closed / dropped, or the
      server has closed its socket *)
  Definition ending (c : cfg) : bool := closing c || pending_close c || dropped c || conn_closed c.

  (** the read loop is in a handler call that returns only upon cancellation (now or later in this call) *)
  Definition is_wait (o : rop) : bool := match o with RWaitCancel => true | _ => false end.
  Definition waits (c : cfg) : bool := match rd c with RBusy prog => existsb is_wait prog | _ => false end.
  (** the connection is on its way out and will get there by itself: closing has begun (the handler's context is
      cancelled), or it is ending in another way and the read loop is not inside a call that waits for a cancellation
      (if it is, the way out starts when the write loop fails a write and exits, which begins closing) *)
  Definition settling (c : cfg) : bool := closing c || (ending c && negb (waits c)).

  (** all internal labels that could possibly apply to a configuration with n goroutines and a read
      loop program (used to state "no internal step is enabled" executably) *)
  Definition internal_labels (n : nat) : list alabel :=
    [IReadFail; IRSendOk; IRSendFail; IRBegin; IRSpawn; IRStop; IRReturn; IRCancelled;
     IWTakeOk; IWTakeFail; IWCloseMsg; IWCloseRecv; IWDrainOk; IWDrainFail; IWDrainDone; IWWaitDone; IWFinish; IAFinish] ++
    flat_map (fun i => [IGCancel i; IGEnd i; IGDataOk i; IGDataFail i; IGCompleteOk i; IGCompleteFail i]) (seq 0 n).
  Definition stuck (c : cfg) : bool :=
    forallb (fun l => match astep c l with None => true | Some _ => false end) (internal_labels (List.length (gs c))).
End Actors.
