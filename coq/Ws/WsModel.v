(** * Ws/WsModel.v — C08 stage 1: the dispatcher of a WebSocket connection as a deterministic machine.

    Transcribed (no proofs here):
    - [handleMessage] of graphql/transport/graphqlws/connection.go and of
      graphql/transport/graphqltransportws/connection.go ([handle_ws], [handle_tws]),
      [beginClosing] with its once-guard ([begin_closing]);
    - [graphqlWSHandler.HandleInit / HandleStart / HandleStop / HandleClose] of graphqlws.go
      ([handle_start], [handle_stop], [handle_close]) with the [subscriptions] map;
    - the per-subscription goroutine around [SubscriptionSourceStream.Run] (subscription.go): an
      event is turned into a data frame, the end of the source or the cancellation by [Stop]
      into one complete frame.

    Stage 1 is the *sequential* semantics: the goroutine's reaction to [Stop] / to the end of its
    source happens at once, and the whole shutdown (read loop ends, write loop ends,
    [finishClosing], [HandleClose]) is one step [LEnd].  The interleaved semantics with the bounded
    outgoing queue, the write loop and the closers is stage 2 (WsActors.v).

    What "send" means here: the call of [sendMessage], i.e. the frame enters the outgoing queue.
    Whether it reaches the socket is the write loop's business (stage 2). *)
From Coq Require Import List NArith ZArith Bool.
From ApiFu Require Import Ws.WsTypes.
Import ListNotations.

(** A source stream started on the connection, and the goroutine that runs it. *)
Record src := {
  s_op : nat;        (* operation number (ghost) *)
  s_id : N;          (* operation id chosen by the client *)
  s_stops : nat;     (* how often the application's Stop() was called *)
  s_ended : bool;    (* the source closed its event channel *)
  s_events : nat     (* events delivered so far *)
}.

(** The goroutine runs until its context is cancelled (by the wrapper around Stop) or the channel
    is closed; then it sends one complete and exits. *)
Definition live (x : src) : bool := Nat.eqb (s_stops x) 0 && negb (s_ended x).

Record st := {
  did_init : bool;            (* Connection.didInit *)
  closing : option Z;         (* beginClosingOnce fired, with this close code *)
  closed : bool;              (* read loop and write loop are gone, finishClosingOnce fired *)
  registered : bool;          (* the connection is in API.graphqlWSConnections *)
  subs : list (N * nat);      (* graphqlWSHandler.subscriptions: id -> operation number of the source *)
  srcs : list src;            (* every source ever started on this connection, oldest first *)
  clock : nat                 (* labels consumed so far = number of the next operation *)
}.

Definition init_st : st :=
  {| did_init := false; closing := None; closed := false; registered := true;
     subs := []; srcs := []; clock := 0 |}.

Definition set_did_init (s : st) : st :=
  {| did_init := true; closing := closing s; closed := closed s; registered := registered s;
     subs := subs s; srcs := srcs s; clock := clock s |}.
Definition set_closing (c : Z) (s : st) : st :=
  {| did_init := did_init s; closing := Some c; closed := closed s; registered := registered s;
     subs := subs s; srcs := srcs s; clock := clock s |}.
Definition set_subs_srcs (m : list (N * nat)) (l : list src) (s : st) : st :=
  {| did_init := did_init s; closing := closing s; closed := closed s; registered := registered s;
     subs := m; srcs := l; clock := clock s |}.
Definition tick (s : st) : st :=
  {| did_init := did_init s; closing := closing s; closed := closed s; registered := registered s;
     subs := subs s; srcs := srcs s; clock := S (clock s) |}.

(** ** the subscriptions map *)
Fixpoint lookup (id : N) (m : list (N * nat)) : option nat :=
  match m with
  | [] => None
  | (k, v) :: m' => if N.eqb k id then Some v else lookup id m'
  end.
Fixpoint remove_id (id : N) (m : list (N * nat)) : list (N * nat) :=
  match m with
  | [] => []
  | (k, v) :: m' => if N.eqb k id then remove_id id m' else (k, v) :: remove_id id m'
  end.

(** ** sources *)
(** Stop() of the source of operation n (through the wrapper installed by HandleStart: the
    application's Stop, then cancel): the goroutine, if still running, sends complete and exits. *)
Fixpoint stop_src (n : nat) (l : list src) : list src * list ev :=
  match l with
  | [] => ([], [])
  | x :: l' =>
      if Nat.eqb (s_op x) n then
        ({| s_op := s_op x; s_id := s_id x; s_stops := S (s_stops x); s_ended := s_ended x; s_events := s_events x |} :: l',
         VStop n :: (if live x then [VSend (SComplete (s_id x)) (Some n)] else []))
      else let (r, o) := stop_src n l' in (x :: r, o)
  end.

Fixpoint emit_src (n : nat) (l : list src) : list src * list ev :=
  match l with
  | [] => ([], [])
  | x :: l' =>
      if Nat.eqb (s_op x) n then
        if live x then
          ({| s_op := s_op x; s_id := s_id x; s_stops := s_stops x; s_ended := s_ended x; s_events := S (s_events x) |} :: l',
           [VSend (SData (s_id x) (CEv n (S (s_events x)))) (Some n)])
        else (l, [])
      else let (r, o) := emit_src n l' in (x :: r, o)
  end.

Fixpoint end_src (n : nat) (l : list src) : list src * list ev :=
  match l with
  | [] => ([], [])
  | x :: l' =>
      if Nat.eqb (s_op x) n then
        if s_ended x then (l, [])
        else
          ({| s_op := s_op x; s_id := s_id x; s_stops := s_stops x; s_ended := true; s_events := s_events x |} :: l',
           VSrcEnd n :: (if live x then [VSend (SComplete (s_id x)) (Some n)] else []))
      else let (r, o) := end_src n l' in (x :: r, o)
  end.

(** ** Connection.beginClosing: sync.Once around { closeMessage <- …; close(c.close); Cancel() } *)
Definition begin_closing (code : Z) (s : st) : st * list ev :=
  match closing s with
  | Some _ => (s, [])
  | None => (set_closing code s, [VBeginClose code])
  end.

(** ** graphqlWSHandler *)
Definition answer (n : nat) (id : N) (c : dclass) : list ev :=
  [VSend (SData id c) (Some n); VSend (SComplete id) (Some n)].

Section Dispatch.
  (** [ping_closes = true] is the pinned tree before the repair of defect #25 (graphql-transport-ws
      handleMessage had no case for ping); [false] is the current code. *)
  Variable ping_closes : bool.
  (** [keep_stale = true] is the pinned tree before the repair of the id-reuse defect (the map
      entry of a subscription whose source had ended made HandleStart ignore a new subscription
      with that id); [false] is the current code. *)
  Variable keep_stale : bool.
  (** [ka_early = true] is the pinned tree before the repair of the keep-alive defect (the graphql-ws
      write loop's ticker ran from [Serve], so a connection that waited a period with its init got a
      ka before its ack); [false] is the current code: the ticker is started when the read loop
      signals that the first ack has been queued. *)
  Variable ka_early : bool.

  Definition src_ended (n : nat) (l : list src) : bool :=
    existsb (fun x => Nat.eqb (s_op x) n && s_ended x) l.

  (** HandleStart, subscription branch, first lines: an entry whose goroutine has marked it ended
      is released (Stop, delete) instead of being treated as a duplicate. *)
  Definition release_ended (s : st) (id : N) : st * list ev :=
    match lookup id (subs s) with
    | Some m =>
        if src_ended m (srcs s) && negb keep_stale then
          let (l, o) := stop_src m (srcs s) in (set_subs_srcs (remove_id id (subs s)) l s, o)
        else (s, [])
    | None => (s, [])
    end.

  Definition handle_start (s : st) (id : N) (d : doc) : st * list ev :=
    let n := clock s in
    match d with
    | DInvalid => (s, VStart n id d :: answer n id CErr)
    | DQuery | DMutation =>
        (* API.execute: Config.Execute is called; if closing has begun the handler's context is already
           cancelled (beginClosing calls Cancel()): the resolvers do not run, the result carries errors only *)
        (s, VStart n id d :: VExec n :: answer n id (match closing s with Some _ => CErr | None => CRes n end))
    | DSub =>
        let (s1, o1) := release_ended s id in
        match lookup id (subs s1) with
        | Some _ => (s1, VStart n id d :: o1)     (* "if the subscription already exists, ignore this message" *)
        | None =>
            (set_subs_srcs ((id, n) :: subs s1)
                           (srcs s1 ++ [{| s_op := n; s_id := id; s_stops := 0; s_ended := false; s_events := 0 |}]) s1,
             VStart n id d :: o1 ++ [VSubscribe n])
        end
    | DSubFail =>
        let (s1, o1) := release_ended s id in
        match lookup id (subs s1) with
        | Some _ => (s1, VStart n id d :: o1)
        | None => (s1, VStart n id d :: o1 ++ VSubFail n :: answer n id CErr)
        end
    end.
Definition handle_stop (s : st) (id : N) : st * list ev :=
  match lookup id (subs s) with
  | Some n => let (l, o) := stop_src n (srcs s) in (set_subs_srcs (remove_id id (subs s)) l s, o)
  | None => (s, [])
  end.

(** HandleClose: Stop every stream still in the map (in map order; the order is not observable
    per operation), forget the map, deregister. *)
Fixpoint stop_all (m : list (N * nat)) (l : list src) : list src * list ev :=
  match m with
  | [] => (l, [])
  | (_, n) :: m' =>
      let (l1, o1) := stop_src n l in
      let (l2, o2) := stop_all m' l1 in (l2, o1 ++ o2)
  end.

Definition handle_close (s : st) : st * list ev :=
  let (l, o) := stop_all (subs s) (srcs s) in
  ({| did_init := did_init s; closing := closing s; closed := true; registered := false;
      subs := []; srcs := l; clock := clock s |}, o ++ [VDeregister]).

  (** graphqlws Connection.handleMessage *)
  Definition handle_ws (s : st) (f : cframe) : st * list ev :=
    match f with
    | Malformed => (s, [])                                   (* ignore malformed messages *)
    | Msg t id p =>
        match t with
        | TInit =>
            if init_ok p then
              (set_did_init s, [VInit true; VSend SAck None; VSend SKa None])
            else
              let (s', o) := begin_closing 1011 s in
              (s', VInit false :: VSend SConnError None :: o)
        | TStart =>
            if did_init s then
              match decode_start p with
              | None => (s, [])                              (* ignore malformed messages *)
              | Some d => handle_start s id d
              end
            else (s, [])
        | TStop => if did_init s then handle_stop s id else (s, [])
        | TTerminate => begin_closing 1000 s
        | _ => (s, [])                                       (* ignore unknown message types *)
        end
    end.

  (** graphqltransportws Connection.handleMessage *)
  Definition handle_tws (s : st) (f : cframe) : st * list ev :=
    match f with
    | Malformed => begin_closing 4400 s
    | Msg t id p =>
        match t with
        | TInit =>
            if init_ok p then (set_did_init s, [VInit true; VSend SAck None])
            else let (s', o) := begin_closing 4403 s in (s', VInit false :: o)
        | TSubscribe =>
            if did_init s then
              match decode_start p with
              | None => begin_closing 4400 s
              | Some d => handle_start s id d
              end
            else (s, [])
        | TComplete => if did_init s then handle_stop s id else (s, [])
        | TPing => if ping_closes then begin_closing 4400 s else (s, [VSend SPong None])
        | TPong => (s, [])
        | _ => begin_closing 4400 s
        end
    end.

  Definition handle (p : proto) : st -> cframe -> st * list ev :=
    match p with PWs => handle_ws | PTws => handle_tws end.

  (** close code the read loop's deferred beginClosing / Close() would use *)
  Definition end_code (e : ending) : Z := match e with EAppClose => 1000%Z | _ => 1011%Z end.

  (** One label.  After the connection has closed nothing reacts any more. *)
  Definition react (p : proto) (s : st) (l : label) : st * list ev :=
    if closed s then (s, [])
    else
      match l with
      | LFrame f => let (s', o) := handle p s f in (s', VRecv f :: o)
      | LEmit n => let (r, o) := emit_src n (srcs s) in (set_subs_srcs (subs s) r s, o)
      | LSrcEnd n => let (r, o) := end_src n (srcs s) in (set_subs_srcs (subs s) r s, o)
      | LEnd e =>
          let (s1, o1) := begin_closing (end_code e) s in
          let (s2, o2) := handle_close s1 in (s2, o1 ++ VGone :: o2)
      | LTick =>
          (* writeLoop: case <-keepAliveTicker.C: write the prepared keep-alive (graphql-ws: ka, only
             once the ticker has been started by the first ack; graphql-transport-ws: pong) *)
          (s, VTick :: match p with
                       | PWs => if did_init s || ka_early then [VSend SKa None] else []
                       | PTws => [VSend SPong None]
                       end)
      end.

  Definition step (p : proto) (s : st) (l : label) : st * list ev :=
    let (s', o) := react p s l in (tick s', o).

  (** A run: final state and the outputs of each label. *)
  Fixpoint run_from (p : proto) (s : st) (ls : list label) : st * list (list ev) :=
    match ls with
    | [] => (s, [])
    | l :: ls' =>
        let (s1, o) := step p s l in
        let (s2, os) := run_from p s1 ls' in (s2, o :: os)
    end.

  Definition run (p : proto) (ls : list label) : st * list (list ev) := run_from p init_st ls.
  Definition final (p : proto) (ls : list label) : st := fst (run p ls).
  Definition trace (p : proto) (ls : list label) : list ev := concat (snd (run p ls)).
End Dispatch.
