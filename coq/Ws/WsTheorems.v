(** * Ws/WsTheorems.v — C08 stage 1: the named theorems, in readable (Prop) form, derived from the
    invariants of WsProofs.v.  All of them are about the current code ([ping_closes = false],
    [keep_stale = false]) and hold for every protocol and every list of labels. *)
From Coq Require Import List NArith ZArith Bool Lia Arith.
From ApiFu Require Import Ws.WsTypes Ws.WsSpec Ws.WsModel Ws.WsProofs.
Import ListNotations.

Notation tr := (trace false false false).
Notation fin := (final false false false).

(** ** ack first *)
Lemma chk_ack_first_prop p fs : chk_ack_first p fs = true ->
  forall pre f post, fs = pre ++ f :: post -> ~ In SAck pre -> f = SAck \/ f = SConnError \/ (p = PTws /\ f = SPong).
Proof.
  induction fs as [|g fs IH]; intros H pre f post E N.
  - destruct pre; discriminate.
  - destruct pre as [|g' pre]; simpl in E; injection E as -> E.
    + destruct f; simpl in H; auto; try discriminate. destruct p; [discriminate|auto].
    + subst fs. apply (IH) with (pre := pre) (post := post); auto.
      * assert (g' <> SAck) by (intro; subst; apply N; now left).
        destruct g'; try congruence; simpl in H; try discriminate; try exact H.
        destruct p; simpl in H; try discriminate; exact H.
      * intro X. apply N. now right.
Qed.

Theorem ws_ack_first p ls pre f post :
  frames (tr p ls) = pre ++ f :: post -> ~ In SAck pre ->
  f = SAck \/ f = SConnError \/ (p = PTws /\ f = SPong).
Proof. intros E N. eapply chk_ack_first_prop; eauto. apply ack_first_all. Qed.

(** ** nothing operation-related before the first ack; an ack only after an accepted init *)
Lemma chk_no_op_prop t : chk_no_op_before_ack t = true ->
  forall pre e post, t = pre ++ e :: post -> is_op_event e = true -> exists o, In (VSend SAck o) pre.
Proof.
  induction t as [|g t IH]; intros H pre e post E Op.
  - destruct pre; discriminate.
  - destruct pre as [|g' pre]; simpl in E; injection E as -> E.
    + exfalso. destruct e as [f|f ow|b|n i d|n|n|n|n|n|z| | |]; simpl in *; try discriminate.
      destruct f; simpl in *; discriminate.
    + subst t.
      destruct g' as [f|f ow|b|n i d|n|n|n|n|n|z| | |]; simpl in H; try discriminate;
        try (destruct (IH H pre e post eq_refl Op) as (o & Ho); exists o; now right).
      destruct f; simpl in H; try discriminate;
        try (destruct (IH H pre e post eq_refl Op) as (o & Ho); exists o; now right).
      exists ow. now left.
Qed.

Lemma chk_acks_prop t : forall k, chk_acks k t = true ->
  forall pre o post, t = pre ++ VSend SAck o :: post -> In (VInit true) pre \/ 0 < k.
Proof.
  induction t as [|g t IH]; intros k H pre o post E.
  - destruct pre; discriminate.
  - destruct pre as [|g' pre]; simpl in E; injection E as -> E.
    + simpl in H. destruct k; [discriminate|right; lia].
    + subst t. simpl in H.
      destruct g' as [f|f ow|b|n i d|n|n|n|n|n|z| | |];
        try (destruct (IH _ H pre o post eq_refl) as [X|X]; [left; now right|now right]).
      * destruct f; try (destruct (IH _ H pre o post eq_refl) as [X|X]; [left; now right|now right]).
        destruct k; [discriminate|]. destruct (IH _ H pre o post eq_refl) as [X|X]; [left; now right|right; lia].
      * destruct b; [left; now left|]. destruct (IH _ H pre o post eq_refl) as [X|X]; [left; now right|now right].
Qed.

Theorem ws_no_exec_before_init p ls pre e post :
  tr p ls = pre ++ e :: post -> is_op_event e = true ->
  (exists o, In (VSend SAck o) pre) /\ In (VInit true) pre.
Proof.
  intros E Op. destruct (chk_no_op_prop _ (no_op_before_ack_all p ls) pre e post E Op) as (o & Ho).
  split; [eauto|]. apply in_split in Ho as (a & b & ->).
  destruct (chk_acks_prop _ 0 (acks_all p ls) a o (b ++ e :: post)) as [X|X]; [rewrite E, <- app_assoc; reflexivity| |lia].
  apply in_or_app. now left.
Qed.

(** the application's init callback accepts only for an init frame it accepts *)
Lemma handle_init_true pc ks p s f s' o :
  handle pc ks p s f = (s', o) -> In (VInit true) o -> exists id pl, f = Msg TInit id pl /\ init_ok pl = true.
Proof.
  intros H I. destruct (handle_shape _ _ _ _ _ _ _ H) as [A B C D E|A B C D E|bc A B C D E F|A B C D E|id d A B C|id A B C].
  - destruct D as [->|(c & ->)]; [destruct I|destruct I as [X|[]]; discriminate].
  - assumption.
  - subst o. destruct I as [X|I]; [discriminate|]. apply in_app_or in I as [I|I].
    + destruct p; simpl in I; intuition discriminate.
    + destruct D as [->|(c & ->)]; [destruct I|destruct I as [X|[]]; discriminate].
  - subst o. destruct I as [X|[]]. discriminate.
  - apply handle_start_opish in B as [Op _]. apply (proj1 (forallb_forall _ _) Op) in I. discriminate.
  - apply handle_stop_opish in B as [Op _]. apply (proj1 (forallb_forall _ _) Op) in I. discriminate.
Qed.

Lemma step_init_true pc ks ke p s l :
  In (VInit true) (snd (step pc ks ke p s l)) -> exists id pl, l = LFrame (Msg TInit id pl) /\ init_ok pl = true.
Proof.
  unfold step. destruct (react pc ks ke p s l) as [s1 o1] eqn:Re. simpl. intro I.
  unfold react in Re. destruct (closed s); [injection Re as _ <-; destruct I|].
  destruct l as [f|n|n|e|].
  - destruct (handle pc ks p s f) as [s2 o2] eqn:H. injection Re as _ <-.
    destruct I as [X|I]; [discriminate|]. destruct (handle_init_true _ _ _ _ _ _ _ H I) as (id & pl & -> & IO). eauto.
  - destruct (emit_src n (srcs s)) as [r o2] eqn:E. injection Re as _ <-.
    apply emit_src_opish in E. apply (proj1 (forallb_forall _ _) E) in I. discriminate.
  - destruct (end_src n (srcs s)) as [r o2] eqn:E. injection Re as _ <-.
    apply end_src_opish in E. apply (proj1 (forallb_forall _ _) E) in I. discriminate.
  - destruct (begin_closing (end_code e) s) as [s2 o2] eqn:B.
    destruct (begin_closing_neutral _ _ _ _ B) as (_ & _ & _ & _ & _ & _ & A7).
    unfold handle_close in Re. destruct (stop_all (subs s2) (srcs s2)) as [l3 o3] eqn:SA. injection Re as _ <-.
    apply stop_all_opish in SA. apply in_app_or in I as [I|[I|I]].
    + destruct A7 as [->| ->]; [destruct I|destruct I as [X|[]]; discriminate].
    + discriminate.
    + apply in_app_or in I as [I|[I|[]]]; [|discriminate]. apply (proj1 (forallb_forall _ _) SA) in I. discriminate.
  - injection Re as _ <-. destruct I as [X|I]; [discriminate|].
    destruct p; [destruct (did_init s || ke)|]; simpl in I; try contradiction; destruct I as [X|[]]; discriminate.
Qed.

Lemma init_true_label p ls :
  In (VInit true) (tr p ls) -> exists id pl, In (LFrame (Msg TInit id pl)) ls /\ init_ok pl = true.
Proof.
  induction ls as [|l ls IH] using rev_ind; [intros []|].
  rewrite trace_snoc. intro I. apply in_app_or in I as [I|I].
  - destruct (IH I) as (id & pl & A & B). exists id, pl. split; [apply in_or_app; now left|exact B].
  - destruct (step_init_true _ _ _ _ _ _ I) as (id & pl & -> & B). exists id, pl. split; [apply in_or_app; right; now left|exact B].
Qed.

(** operations sent on a connection on which no init was accepted are not executed: without an
    accepted init frame, nothing operation-related ever happens *)
Theorem ws_nothing_without_init p ls :
  (forall id pl, In (LFrame (Msg TInit id pl)) ls -> init_ok pl = false) ->
  forall e, In e (tr p ls) -> is_op_event e = false.
Proof.
  intros H e He. destruct (is_op_event e) eqn:Op; [|reflexivity]. exfalso.
  apply in_split in He as (pre & post & E).
  destruct (ws_no_exec_before_init p ls pre e post E Op) as (_ & I).
  assert (I' : In (VInit true) (tr p ls)) by (rewrite E; apply in_or_app; now left).
  destruct (init_true_label _ _ I') as (id & pl & A & B). rewrite (H id pl A) in B. discriminate.
Qed.

(** ** bookkeeping: the clock, and when the connection is closed *)
Lemma step_clock pc ks ke p s l : clock (fst (step pc ks ke p s l)) = S (clock s).
Proof.
  unfold step. destruct (react pc ks ke p s l) as [s1 o1] eqn:Re. simpl. f_equal.
  unfold react in Re. destruct (closed s); [now injection Re as <- _|].
  destruct l as [f|n|n|e|].
  - destruct (handle pc ks p s f) as [s2 o2] eqn:H. injection Re as <- _.
    destruct (handle_cases _ _ _ _ _ _ _ H) as [(_ & _ & C & _)|[(id & d & _ & HS)|(id & _ & HS)]]; [exact C| |].
    + unfold handle_start in HS.
      assert (R : forall s1 o1, release_ended ks s id = (s1, o1) -> clock s1 = clock s).
      { intros s3 o3 E. destruct (release_ended_cases _ _ _ _ _ E) as [[-> _]|(HS' & _)]; [reflexivity|].
        unfold handle_stop in HS'. destruct (lookup id (subs s)); [|now injection HS' as <- _].
        destruct (stop_src n (srcs s)). now injection HS' as <- _. }
      destruct d; try (now injection HS as <- _);
        destruct (release_ended ks s id) as [s3 o3] eqn:E; specialize (R _ _ eq_refl);
        destruct (lookup id (subs s3)); injection HS as <- _; exact R.
    + unfold handle_stop in HS. destruct (lookup id (subs s)); [|now injection HS as <- _].
      destruct (stop_src n (srcs s)). now injection HS as <- _.
  - destruct (emit_src n (srcs s)). now injection Re as <- _.
  - destruct (end_src n (srcs s)). now injection Re as <- _.
  - destruct (begin_closing (end_code e) s) as [s2 o2] eqn:B.
    destruct (begin_closing_neutral _ _ _ _ B) as (_ & _ & C & _).
    unfold handle_close in Re. destruct (stop_all (subs s2) (srcs s2)). now injection Re as <- _.
  - now injection Re as <- _.
Qed.

Lemma clock_final p ls : clock (fin p ls) = List.length ls.
Proof.
  induction ls as [|l ls IH] using rev_ind; [reflexivity|].
  rewrite final_snoc, step_clock, IH, app_length. simpl. lia.
Qed.

Lemma step_closed pc ks ke p s l :
  closed (fst (step pc ks ke p s l)) = closed s || match l with LEnd _ => true | _ => false end.
Proof.
  unfold step. destruct (react pc ks ke p s l) as [s1 o1] eqn:Re. simpl. change (closed (tick s1)) with (closed s1).
  unfold react in Re. destruct (closed s) eqn:Cl; [now injection Re as <- _|]. simpl.
  destruct l as [f|n|n|e|].
  - destruct (handle pc ks p s f) as [s2 o2] eqn:H. injection Re as <- _.
    destruct (handle_cases _ _ _ _ _ _ _ H) as [(_ & _ & _ & C & _)|[(id & d & _ & HS)|(id & _ & HS)]]; [congruence| |].
    + apply handle_start_out in HS as [X _]. congruence.
    + apply handle_stop_out in HS as [X _]. congruence.
  - destruct (emit_src n (srcs s)). injection Re as <- _. exact Cl.
  - destruct (end_src n (srcs s)). injection Re as <- _. exact Cl.
  - destruct (begin_closing (end_code e) s) as [s2 o2]. unfold handle_close in Re.
    destruct (stop_all (subs s2) (srcs s2)). now injection Re as <- _.
  - injection Re as <- _. exact Cl.
Qed.

(** the connection is closed exactly when an ending has occurred: every ending — client close,
    drop, close by the application, completed close handshake — leads to the closed state *)
Theorem ws_closed_iff p ls : closed (fin p ls) = true <-> exists e, In (LEnd e) ls.
Proof.
  induction ls as [|l ls IH] using rev_ind.
  - split; [discriminate|intros (e & [])].
  - rewrite final_snoc, step_closed. rewrite orb_true_iff, IH. split.
    + intros [(e & He)|X]; [exists e; apply in_or_app; now left|].
      destruct l; try discriminate. exists e. apply in_or_app. right. now left.
    + intros (e & He). apply in_app_or in He as [He|[->|[]]]; [left; eauto|now right].
Qed.

(** ** queries, mutations, documents answered with errors: exactly one result, then exactly one complete *)
Theorem ws_query_one_result_one_complete p ls n id d :
  In (VStart n id d) (tr p ls) -> is_sublike d = false ->
  owned n (tr p ls) = [SData id (result_class (tr p ls) d n); SComplete id] /\
  count (is_start n) (tr p ls) = 1 /\
  count (is_exec n) (tr p ls) = (match d with DInvalid => 0 | _ => 1 end).
Proof.
  intros H Sl. destruct (reach_inv _ _ _ _ _ _ (run_reach false false false p ls)) as [I _].
  pose proof (i_started _ _ _ _ I n id d H) as SO. unfold start_ok, start_okb, view in SO.
  destruct d; try discriminate; injection SO as -> -> _ _ _ _ ->; auto.
Qed.

(** the result is the operation's own unless closing had begun before it was started (the handler's context is
    cancelled by beginClosing: the operation is executed, its resolvers do not run, the result carries errors
    only); closing has begun before operation n iff a [VBeginClose] precedes its start in the trace *)
Theorem ws_begun_iff_closing p ls : existsb is_begin (tr p ls) = true <-> WsModel.closing (fin p ls) <> None.
Proof.
  rewrite (reach_begun false false false p _ _ (run_reach false false false p ls)). unfold begunb.
  destruct (WsModel.closing (fin p ls)); split; congruence.
Qed.

(** a start / subscribe frame with a decodable payload that arrives on an initialised connection
    that has not ended is started (so the theorem above and the next one apply to it) *)
Theorem ws_start_is_started p ls1 id pl d ls2 :
  decode_start pl = Some d -> did_init (fin p ls1) = true -> closed (fin p ls1) = false ->
  In (VStart (List.length ls1) id d)
     (tr p (ls1 ++ LFrame (Msg (match p with PWs => TStart | PTws => TSubscribe end) id pl) :: ls2)).
Proof.
  intros D DI Cl.
  set (l := LFrame (Msg (match p with PWs => TStart | PTws => TSubscribe end) id pl)).
  replace (ls1 ++ l :: ls2) with ((ls1 ++ [l]) ++ ls2) by (rewrite <- app_assoc; reflexivity).
  destruct (trace_app false false false p (ls1 ++ [l]) ls2) as (rest & ->). apply in_or_app. left.
  rewrite trace_snoc. apply in_or_app. right.
  unfold step, react. rewrite Cl. unfold l. rewrite <- clock_final with (p := p).
  destruct p; simpl; rewrite DI, D; unfold handle_start;
    destruct d; simpl;
    repeat match goal with
           | |- context [release_ended ?a ?b ?c] => destruct (release_ended a b c) as [s1 o1] eqn:R
           | |- context [lookup ?a ?b] => destruct (lookup a b)
           end; simpl; auto;
    try (destruct (release_ended_cases _ _ _ _ _ R) as [[-> _]|(HS & _)]; [auto|];
         right; left; f_equal; unfold handle_stop in HS; destruct (lookup id (subs (fin _ ls1))); [|now injection HS as <- _];
         destruct (stop_src n (srcs (fin _ ls1))); now injection HS as <- _).
Qed.

Lemma did_init_stays p s l : did_init s = true -> did_init (fst (step false false false p s l)) = true.
Proof.
  intro DI. destruct (step false false false p s l) as [s' o] eqn:St.
  destruct (step_conn false p _ _ _ _ St) as (_ & _ & _ & K). rewrite DI in K. exact K.
Qed.
Lemma did_init_run p s ls : did_init s = true -> did_init (fst (run_from false false false p s ls)) = true.
Proof.
  revert s. induction ls as [|l ls IH]; intros s DI; simpl; [exact DI|].
  destruct (step false false false p s l) as [s1 o] eqn:St. pose proof (did_init_stays p s l DI) as X. rewrite St in X.
  specialize (IH s1 X). destruct (run_from false false false p s1 ls). exact IH.
Qed.

(** once an init frame has been accepted on a connection that had not ended, the connection is
    initialised for good *)
Theorem ws_initialised_after_accepted_init p ls1 id pl ls2 :
  init_ok pl = true -> closed (fin p ls1) = false ->
  did_init (fin p (ls1 ++ LFrame (Msg TInit id pl) :: ls2)) = true.
Proof.
  intros IO Cl. unfold final, run. rewrite run_from_app.
  destruct (run_from false false false p init_st ls1) as [s1 o1] eqn:R1.
  assert (E : s1 = fin p ls1) by (unfold final, run; now rewrite R1). simpl.
  destruct (step false false false p s1 (LFrame (Msg TInit id pl))) as [s2 o2] eqn:St.
  assert (DI : did_init s2 = true).
  { unfold step, react in St. rewrite E, Cl in St. destruct p; simpl in St; rewrite IO in St; now injection St as <- _. }
  pose proof (did_init_run p s2 ls2 DI) as X. destruct (run_from false false false p s2 ls2). exact X.
Qed.

(** ** subscriptions: results 1..k, then exactly one complete once stopped or ended, then nothing *)
Theorem ws_sub_complete_once_then_silent p ls n :
  In (VSubscribe n) (tr p ls) ->
  exists id k,
    In (VStart n id DSub) (tr p ls) /\
    owned n (tr p ls) = evs id n k ++ (if stopped_or_ended n (tr p ls) then [SComplete id] else []).
Proof.
  intro H. destruct (reach_inv _ _ _ _ _ _ (run_reach false false false p ls)) as [I _].
  destruct (subscribed_has_source _ _ _ _ n I) as (x & Hx & Ex).
  { assert (0 < count (is_subscribe n) (tr p ls)); [|lia]. apply count_pos_iff. exists (VSubscribe n).
    split; [exact H|]. simpl. apply Nat.eqb_refl. }
  destruct (i_src _ _ _ _ I x Hx) as (A & B & V). unfold view in V. rewrite Ex in *.
  injection V as _ _ _ _ Es Ee Ow. exists (s_id x), (s_events x). split; [exact A|]. rewrite Ow. f_equal.
  rewrite stopped_or_ended_counts, Es, Ee. unfold tail_of, live.
  destruct (s_stops x); destruct (s_ended x); reflexivity.
Qed.

(** events 1..k are exactly k result frames, numbered in order *)
Lemma evs_length id n k : List.length (evs id n k) = k.
Proof. induction k as [|k IH]; [reflexivity|]. simpl. rewrite app_length, IH. simpl. lia. Qed.

(** ** ping / pong (graphql-transport-ws) *)
Theorem ws_ping_pong ls id pl :
  closed (fin PTws ls) = false ->
  snd (step false false false PTws (fin PTws ls) (LFrame (Msg TPing id pl))) = [VRecv (Msg TPing id pl); VSend SPong None].
Proof. intro Cl. unfold step, react. rewrite Cl. reflexivity. Qed.

(** over a whole run: one pong per ping, in order, and no pong that answers nothing *)
Theorem ws_pongs_match_pings p ls : chk_pongs p 0 (tr p ls) = true.
Proof. apply pongs_all. Qed.

(** ** the write loop's periodic keep-alive: a tick writes a pong (graphql-transport-ws, where a pong
    may be sent at any time), a ka in graphql-ws exactly when an init has been accepted — so by
    [ws_ack_first], which quantifies over runs with ticks anywhere, never before the first ack *)
Theorem ws_tick_keepalive p ls :
  closed (fin p ls) = false ->
  snd (step false false false p (fin p ls) LTick) =
  VTick :: match p with
           | PWs => if did_init (fin p ls) then [VSend SKa None] else []
           | PTws => [VSend SPong None]
           end.
Proof. intro Cl. unfold step, react. rewrite Cl. destruct p; [rewrite orb_false_r|]; reflexivity. Qed.

(** ** every source is stopped at most once, and exactly once when the connection has closed *)
Theorem ws_stop_exactly_once p ls n :
  In (VSubscribe n) (tr p ls) ->
  count (is_stop n) (tr p ls) <= 1 /\
  (closed (fin p ls) = true -> count (is_stop n) (tr p ls) = 1).
Proof.
  intro H. destruct (reach_inv _ _ _ _ _ _ (run_reach false false false p ls)) as [I [C0 C1]].
  destruct (subscribed_has_source _ _ _ _ n I) as (x & Hx & Ex).
  { assert (0 < count (is_subscribe n) (tr p ls)); [|lia]. apply count_pos_iff. exists (VSubscribe n).
    split; [exact H|]. simpl. apply Nat.eqb_refl. }
  destruct (i_src _ _ _ _ I x Hx) as (_ & B & V). unfold view in V. rewrite Ex in V. injection V as _ _ _ _ Es _ _.
  rewrite Es. split; [exact B|]. intro Cl. destruct (C1 Cl) as (_ & Sb & _).
  destruct (Nat.eq_dec (s_stops x) 0) as [Z|Z]; [|lia].
  pose proof (i_unstopped _ _ _ _ I x Hx Z) as X. rewrite Sb in X. destruct X.
Qed.

(** Stop() is only ever called on a source that was started *)
Theorem ws_stop_only_started p ls n : In (VStop n) (tr p ls) -> In (VSubscribe n) (tr p ls).
Proof.
  intro H. destruct (reach_inv _ _ _ _ _ _ (run_reach false false false p ls)) as [I _].
  destruct (subscribed_has_source _ _ _ _ n I) as (x & Hx & Ex).
  { assert (0 < count (is_stop n) (tr p ls)); [|lia]. apply count_pos_iff. exists (VStop n).
    split; [exact H|]. simpl. apply Nat.eqb_refl. }
  destruct (i_src _ _ _ _ I x Hx) as (_ & _ & V). unfold view in V. rewrite Ex in V. injection V as _ _ E3 _ _ _ _.
  assert (P : 0 < count (is_subscribe n) (tr p ls)) by lia. apply count_pos_iff in P as (e & He & Pe).
  destruct e; simpl in Pe; try discriminate. apply Nat.eqb_eq in Pe. now subst.
Qed.

(** ** deregistration *)
Theorem ws_deregistered p ls :
  (closed (fin p ls) = true -> registered (fin p ls) = false /\ count is_dereg (tr p ls) = 1) /\
  (closed (fin p ls) = false -> registered (fin p ls) = true /\ count is_dereg (tr p ls) = 0).
Proof.
  destruct (reach_inv _ _ _ _ _ _ (run_reach false false false p ls)) as [_ [C0 C1]]. split; intro Cl.
  - destruct (C1 Cl) as (A & _ & _ & B & _). auto.
  - destruct (C0 Cl) as (A & _ & B). auto.
Qed.

(** ** no subscription start is dropped *)
Theorem ws_no_start_dropped p ls pre n id d post :
  tr p ls = pre ++ VStart n id d :: post -> is_sublike d = true ->
  served n (tr p ls) = true \/ busy id pre = true.
Proof.
  intros E Sl. destruct (reach_ign p _ _ (run_reach false false false p ls) pre _ post n id d E eq_refl Sl); auto.
Qed.

(** ** the oracle of the correspondence check accepts every trace of the model *)
Theorem ws_model_meets_spec p ls : spec_verdict p (tr p ls) = None.
Proof. apply model_meets_spec. Qed.

(** the same oracle, softened for the part of a connection observed while it was going down (WsSpec.v):
    it accepts every model trace too, wherever the going-down part is taken to start *)
Theorem ws_model_meets_spec_closing k p ls : spec_verdict_from k p (tr p ls) = None.
Proof. apply model_meets_spec_from. Qed.

(** ** the repaired defects, kept as witnesses *)
From Coq Require Import String.
Open Scope string_scope.
Theorem ws_ping_refuted_before_fix :
  exists ls, spec_verdict PTws (trace true false false PTws ls) = Some "ping-pong".
Proof. exists [LFrame (Msg TInit 0 PayNone); LFrame (Msg TPing 0 PayNone)]. vm_compute. reflexivity. Qed.

Theorem ws_id_reuse_refuted_before_fix :
  exists ls, spec_verdict PWs (trace false true false PWs ls) = Some "stale-id-after-source-end".
Proof.
  exists [LFrame (Msg TInit 0 PayNone); LFrame (Msg TStart 1 (PayDoc DSub)); LSrcEnd 1; LFrame (Msg TStart 1 (PayDoc DSub))].
  vm_compute. reflexivity.
Qed.

(** the keep-alive defect: the ticker ran from [Serve], a period without init sufficed *)
Theorem ws_keepalive_refuted_before_fix :
  exists ls, spec_verdict PWs (trace false false true PWs ls) = Some "ack-not-first".
Proof. exists [LTick; LFrame (Msg TInit 0 PayNone)]. vm_compute. reflexivity. Qed.
