(** * Ws/WsProofs.v — C08 stage 1: invariants of the dispatcher over all label sequences. *)
From Coq Require Import List NArith ZArith Bool Lia.
From ApiFu Require Import Ws.WsTypes Ws.WsSpec Ws.WsModel.
Import ListNotations.

Lemma placeholder : closed init_st = false.
Proof. reflexivity. Qed.
