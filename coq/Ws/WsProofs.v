(** * Ws/WsProofs.v — C08 stage 1: invariants of the dispatcher over all label sequences.

    Everything here is proved for every protocol, every list of labels (client frames, source
    events, endings in any order and number) and — unless a lemma says otherwise — for both
    settings of the two "before the repair" switches of the model. *)
From Coq Require Import List NArith ZArith Bool Lia Arith.
From ApiFu Require Import Ws.WsTypes Ws.WsSpec Ws.WsModel.
Import ListNotations.

(** ** lists *)
Lemma count_app P a b : count P (a ++ b) = count P a + count P b.
Proof. unfold count. rewrite filter_app, app_length. reflexivity. Qed.
Lemma owned_app n a b : owned n (a ++ b) = owned n a ++ owned n b.
Proof. unfold owned. apply flat_map_app. Qed.
Lemma frames_app a b : frames (a ++ b) = frames a ++ frames b.
Proof. unfold frames. apply flat_map_app. Qed.

Lemma count_zero_iff P t : count P t = 0 <-> forall e, In e t -> P e = false.
Proof.
  unfold count. induction t as [|x t IH]; simpl.
  - split; [intros _ e []|reflexivity].
  - destruct (P x) eqn:E; simpl.
    + split; [discriminate|]. intro H. specialize (H x (or_introl eq_refl)). congruence.
    + rewrite IH. split.
      * intros H e [->|He]; auto.
      * intros H e He. apply H. now right.
Qed.

Lemma count_pos_iff P t : 0 < count P t <-> exists e, In e t /\ P e = true.
Proof.
  unfold count. induction t as [|x t IH]; simpl.
  - split; [lia|intros (e & [] & _)].
  - destruct (P x) eqn:E; simpl.
    + split; [intros _; exists x; auto|lia].
    + rewrite IH. split.
      * intros (e & He & Pe). exists e. auto.
      * intros (e & [->|He] & Pe); [congruence|]. exists e. auto.
Qed.

Lemma existsb_count P t : existsb P t = Nat.ltb 0 (count P t).
Proof.
  destruct (Nat.ltb 0 (count P t)) eqn:E.
  - apply Nat.ltb_lt, count_pos_iff in E. apply existsb_exists. exact E.
  - apply Nat.ltb_ge in E. assert (H : count P t = 0) by lia.
    rewrite count_zero_iff in H. destruct (existsb P t) eqn:X; [|reflexivity].
    apply existsb_exists in X as (e & He & Pe). rewrite (H e He) in Pe. discriminate.
Qed.

Lemma list_eqb_refl {A} (eqb : A -> A -> bool) (l : list A) :
  (forall x, eqb x x = true) -> list_eqb eqb l l = true.
Proof. intro R. induction l as [|x l IH]; simpl; [reflexivity|]. now rewrite R, IH. Qed.

Lemma dclass_eqb_refl c : dclass_eqb c c = true.
Proof. destruct c; simpl; rewrite ?Nat.eqb_refl; reflexivity. Qed.
Lemma sframe_eqb_refl f : sframe_eqb f f = true.
Proof. destruct f; simpl; rewrite ?N.eqb_refl, ?dclass_eqb_refl; reflexivity. Qed.

Lemma dclass_eqb_eq a b : dclass_eqb a b = true -> a = b.
Proof.
  destruct a, b; simpl; intro H; try discriminate; try reflexivity.
  - apply Nat.eqb_eq in H. now subst.
  - apply andb_true_iff in H as [H1 H2]. apply Nat.eqb_eq in H1, H2. now subst.
Qed.
Lemma sframe_eqb_eq a b : sframe_eqb a b = true -> a = b.
Proof.
  destruct a, b; simpl; intro H; try discriminate; try reflexivity.
  - apply andb_true_iff in H as [H1 H2]. apply N.eqb_eq in H1. apply dclass_eqb_eq in H2. now subst.
  - apply N.eqb_eq in H. now subst.
Qed.
Lemma list_eqb_eq {A} (eqb : A -> A -> bool) (a b : list A) :
  (forall x y, eqb x y = true -> x = y) -> list_eqb eqb a b = true -> a = b.
Proof.
  intro R. revert b. induction a as [|x a IH]; intros [|y b]; simpl; intro H; try discriminate; [reflexivity|].
  apply andb_true_iff in H as [H1 H2]. apply R in H1. apply IH in H2. now subst.
Qed.

(** ** runs *)
Section Runs.
  Variables pc ks ke : bool.
  Variable p : proto.

  Lemma run_from_app s ls1 ls2 :
    run_from pc ks ke p s (ls1 ++ ls2) =
    let (s1, o1) := run_from pc ks ke p s ls1 in
    let (s2, o2) := run_from pc ks ke p s1 ls2 in (s2, o1 ++ o2).
  Proof.
    revert s. induction ls1 as [|l ls1 IH]; intro s; simpl.
    - destruct (run_from pc ks ke p s ls2); reflexivity.
    - destruct (step pc ks ke p s l) as [s1 o]. rewrite IH.
      destruct (run_from pc ks ke p s1 ls1) as [s2 os]. destruct (run_from pc ks ke p s2 ls2). reflexivity.
  Qed.

  (** reachable (state, trace) pairs *)
  Inductive reach : st -> list ev -> Prop :=
  | reach_init : reach init_st []
  | reach_step s t l s' o : reach s t -> step pc ks ke p s l = (s', o) -> reach s' (t ++ o).

  Lemma final_snoc ls l :
    final pc ks ke p (ls ++ [l]) = fst (step pc ks ke p (final pc ks ke p ls) l).
  Proof.
    unfold final, run. rewrite run_from_app. destruct (run_from pc ks ke p init_st ls) as [s1 o1]. simpl.
    destruct (step pc ks ke p s1 l). reflexivity.
  Qed.
  Lemma trace_snoc ls l :
    trace pc ks ke p (ls ++ [l]) = trace pc ks ke p ls ++ snd (step pc ks ke p (final pc ks ke p ls) l).
  Proof.
    unfold trace, final, run. rewrite run_from_app. destruct (run_from pc ks ke p init_st ls) as [s1 o1]. simpl.
    destruct (step pc ks ke p s1 l). simpl. rewrite concat_app. simpl. now rewrite app_nil_r.
  Qed.

  Lemma run_reach ls : reach (final pc ks ke p ls) (trace pc ks ke p ls).
  Proof.
    induction ls as [|l ls IH] using rev_ind.
    - apply reach_init.
    - rewrite final_snoc, trace_snoc. eapply reach_step; [exact IH|]. apply surjective_pairing.
  Qed.

  Lemma trace_app ls1 ls2 :
    exists rest, trace pc ks ke p (ls1 ++ ls2) = trace pc ks ke p ls1 ++ rest.
  Proof.
    unfold trace, run. rewrite run_from_app. destruct (run_from pc ks ke p init_st ls1) as [s1 o1].
    destruct (run_from pc ks ke p s1 ls2) as [s2 o2]. simpl. rewrite concat_app. eauto.
  Qed.
End Runs.

(** ** operations on the list of sources *)
Definition bump (x : src) : src :=
  {| s_op := s_op x; s_id := s_id x; s_stops := S (s_stops x); s_ended := s_ended x; s_events := s_events x |}.
Definition more (x : src) : src :=
  {| s_op := s_op x; s_id := s_id x; s_stops := s_stops x; s_ended := s_ended x; s_events := S (s_events x) |}.
Definition finish (x : src) : src :=
  {| s_op := s_op x; s_id := s_id x; s_stops := s_stops x; s_ended := true; s_events := s_events x |}.

Definition complete_if_live (x : src) : list ev :=
  if live x then [VSend (SComplete (s_id x)) (Some (s_op x))] else [].

Lemma stop_src_none n l : (forall x, In x l -> s_op x <> n) -> stop_src n l = (l, []).
Proof.
  induction l as [|y l IH]; intro H; simpl; [reflexivity|].
  destruct (Nat.eqb (s_op y) n) eqn:E.
  - apply Nat.eqb_eq in E. exfalso. apply (H y); [now left|exact E].
  - rewrite IH; [reflexivity|]. intros x Hx. apply H. now right.
Qed.
Lemma stop_src_some n l : (exists x, In x l /\ s_op x = n) ->
  exists l1 x l2, l = l1 ++ x :: l2 /\ s_op x = n /\ (forall y, In y l1 -> s_op y <> n) /\
                  stop_src n l = (l1 ++ bump x :: l2, VStop n :: complete_if_live x).
Proof.
  induction l as [|y l IH]; intros (x & Hx & Hn); [destruct Hx|]. simpl.
  destruct (Nat.eqb (s_op y) n) eqn:E.
  - apply Nat.eqb_eq in E. exists [], y, l.
    split; [reflexivity|]. split; [exact E|]. split; [intros z []|].
    unfold complete_if_live, bump. simpl. rewrite E. reflexivity.
  - destruct Hx as [->|Hx]; [apply Nat.eqb_neq in E; congruence|].
    destruct IH as (l1 & z & l2 & -> & Hz & Hl1 & Hs); [eauto|].
    exists (y :: l1), z, l2.
    split; [reflexivity|]. split; [exact Hz|].
    split; [intros w [<-|Hw]; [now apply Nat.eqb_neq in E|auto]|].
    rewrite Hs. reflexivity.
Qed.

Lemma emit_src_none n l : (forall x, In x l -> s_op x <> n) -> emit_src n l = (l, []).
Proof.
  induction l as [|y l IH]; intro H; simpl; [reflexivity|].
  destruct (Nat.eqb (s_op y) n) eqn:E.
  - apply Nat.eqb_eq in E. exfalso. apply (H y); [now left|exact E].
  - rewrite IH; [reflexivity|]. intros x Hx. apply H. now right.
Qed.
Lemma emit_src_some n l : (exists x, In x l /\ s_op x = n) ->
  exists l1 x l2, l = l1 ++ x :: l2 /\ s_op x = n /\ (forall y, In y l1 -> s_op y <> n) /\
                  emit_src n l = if live x then (l1 ++ more x :: l2, [VSend (SData (s_id x) (CEv n (S (s_events x)))) (Some n)])
                                 else (l, []).
Proof.
  induction l as [|y l IH]; intros (x & Hx & Hn); [destruct Hx|]. simpl.
  destruct (Nat.eqb (s_op y) n) eqn:E.
  - apply Nat.eqb_eq in E. exists [], y, l.
    split; [reflexivity|]. split; [exact E|]. split; [intros z []|].
    unfold more. simpl. rewrite E. destruct (live y); reflexivity.
  - destruct Hx as [->|Hx]; [apply Nat.eqb_neq in E; congruence|].
    destruct IH as (l1 & z & l2 & -> & Hz & Hl1 & Hs); [eauto|].
    exists (y :: l1), z, l2.
    split; [reflexivity|]. split; [exact Hz|].
    split; [intros w [<-|Hw]; [now apply Nat.eqb_neq in E|auto]|].
    rewrite Hs. destruct (live z); reflexivity.
Qed.

Lemma end_src_none n l : (forall x, In x l -> s_op x <> n) -> end_src n l = (l, []).
Proof.
  induction l as [|y l IH]; intro H; simpl; [reflexivity|].
  destruct (Nat.eqb (s_op y) n) eqn:E.
  - apply Nat.eqb_eq in E. exfalso. apply (H y); [now left|exact E].
  - rewrite IH; [reflexivity|]. intros x Hx. apply H. now right.
Qed.
Lemma end_src_some n l : (exists x, In x l /\ s_op x = n) ->
  exists l1 x l2, l = l1 ++ x :: l2 /\ s_op x = n /\ (forall y, In y l1 -> s_op y <> n) /\
                  end_src n l = if s_ended x then (l, [])
                                else (l1 ++ finish x :: l2, VSrcEnd n :: complete_if_live x).
Proof.
  induction l as [|y l IH]; intros (x & Hx & Hn); [destruct Hx|]. simpl.
  destruct (Nat.eqb (s_op y) n) eqn:E.
  - apply Nat.eqb_eq in E. exists [], y, l.
    split; [reflexivity|]. split; [exact E|]. split; [intros z []|].
    unfold complete_if_live, finish. simpl. rewrite E. destruct (s_ended y); reflexivity.
  - destruct Hx as [->|Hx]; [apply Nat.eqb_neq in E; congruence|].
    destruct IH as (l1 & z & l2 & -> & Hz & Hl1 & Hs); [eauto|].
    exists (y :: l1), z, l2.
    split; [reflexivity|]. split; [exact Hz|].
    split; [intros w [<-|Hw]; [now apply Nat.eqb_neq in E|auto]|].
    rewrite Hs. destruct (s_ended z); reflexivity.
Qed.

Lemma op_dec n l : (exists x : src, In x l /\ s_op x = n) \/ (forall x, In x l -> s_op x <> n).
Proof.
  induction l as [|y l [IH|IH]].
  - right. intros x [].
  - left. destruct IH as (x & Hx & E). exists x. split; [now right|exact E].
  - destruct (Nat.eq_dec (s_op y) n) as [E|E].
    + left. exists y. split; [now left|exact E].
    + right. intros x [<-|Hx]; auto.
Qed.

(** ** the subscriptions map *)
Lemma lookup_some id m n : lookup id m = Some n ->
  exists m1 m2, m = m1 ++ (id, n) :: m2 /\ (forall k v, In (k, v) m1 -> k <> id).
Proof.
  induction m as [|[k v] m IH]; simpl; [discriminate|].
  destruct (N.eqb k id) eqn:E.
  - intro H. injection H as ->. apply N.eqb_eq in E. subst k. exists [], m. split; [reflexivity|intros ? ? []].
  - intro H. destruct (IH H) as (m1 & m2 & -> & Hm1). exists ((k, v) :: m1), m2. split; [reflexivity|].
    intros k' v' [X|X]; [injection X as <- <-; now apply N.eqb_neq in E|eauto].
Qed.
Lemma lookup_none id m : lookup id m = None -> forall n, ~ In (id, n) m.
Proof.
  induction m as [|[k v] m IH]; simpl; intros H n; [tauto|].
  destruct (N.eqb k id) eqn:E; [discriminate|].
  intros [X|X]; [injection X as -> ->; rewrite N.eqb_refl in E; discriminate|]. exact (IH H n X).
Qed.
Lemma remove_id_notin id m : (forall k v, In (k, v) m -> k <> id) -> remove_id id m = m.
Proof.
  induction m as [|[k v] m IH]; simpl; intro H; [reflexivity|].
  destruct (N.eqb k id) eqn:E.
  - apply N.eqb_eq in E. exfalso. apply (H k v); [now left|exact E].
  - f_equal. apply IH. intros k' v' X. apply (H k' v'). now right.
Qed.
Lemma remove_id_split id n m1 m2 :
  (forall k v, In (k, v) m1 -> k <> id) -> NoDup (map fst (m1 ++ (id, n) :: m2)) ->
  remove_id id (m1 ++ (id, n) :: m2) = m1 ++ m2.
Proof.
  intros H1 ND. induction m1 as [|[k v] m1 IH]; simpl in *.
  - rewrite N.eqb_refl. apply remove_id_notin. intros k v Hk ->. inversion ND as [|? ? X _]; subst.
    apply X. apply (in_map fst) in Hk. exact Hk.
  - destruct (N.eqb k id) eqn:E.
    + apply N.eqb_eq in E. exfalso. apply (H1 k v); [now left|exact E].
    + f_equal. apply IH; [intros k' v' X; apply (H1 k' v'); now right|]. now inversion ND.
Qed.

(** ** what a trace says about one operation *)
Definition ev_op (e : ev) : option nat :=
  match e with
  | VSend _ (Some n) | VStart n _ _ | VExec n | VSubscribe n | VSubFail n | VSrcEnd n | VStop n => Some n
  | _ => None
  end.

Definition silent (n : nat) (o : list ev) : Prop := forall e, In e o -> ev_op e <> Some n.

(** (starts, execs, subscribes, subscribe failures, stops, source ends, frames owned) of operation n *)
Definition view (n : nat) (t : list ev) : nat * nat * nat * nat * nat * nat * list sframe :=
  (count (is_start n) t, count (is_exec n) t, count (is_subscribe n) t, count (is_subfail n) t,
   count (is_stop n) t, count (is_srcend n) t, owned n t).

Definition vplus (a b : nat * nat * nat * nat * nat * nat * list sframe) :=
  match a, b with
  | (a1, a2, a3, a4, a5, a6, a7), (b1, b2, b3, b4, b5, b6, b7) =>
      (a1 + b1, a2 + b2, a3 + b3, a4 + b4, a5 + b5, a6 + b6, a7 ++ b7)
  end.
Definition vzero : nat * nat * nat * nat * nat * nat * list sframe := (0, 0, 0, 0, 0, 0, []).

Lemma view_app n a b : view n (a ++ b) = vplus (view n a) (view n b).
Proof. unfold view, vplus. rewrite !count_app, owned_app. reflexivity. Qed.

Lemma vplus_zero_r a : vplus a vzero = a.
Proof. destruct a as [[[[[[a1 a2] a3] a4] a5] a6] a7]. unfold vplus, vzero. rewrite !Nat.add_0_r, app_nil_r. reflexivity. Qed.
Lemma vplus_zero_l a : vplus vzero a = a.
Proof. destruct a as [[[[[[a1 a2] a3] a4] a5] a6] a7]. reflexivity. Qed.

Lemma view_silent n o : silent n o -> view n o = vzero.
Proof.
  intro H. induction o as [|e o IH]; [reflexivity|].
  assert (He : ev_op e <> Some n) by (apply H; now left).
  assert (Ho : silent n o) by (intros x Hx; apply H; now right).
  specialize (IH Ho). change (e :: o) with ([e] ++ o). rewrite view_app, IH, vplus_zero_r.
  unfold view, vzero, count, owned. simpl.
  destruct e as [f|f [m|]|b|m i d|m|m|m|m|m|z| | |]; simpl in *; try reflexivity;
    destruct (Nat.eqb m n) eqn:E; try reflexivity; apply Nat.eqb_eq in E; subst; congruence.
Qed.

Lemma view_app_silent n t o : silent n o -> view n (t ++ o) = view n t.
Proof. intro H. rewrite view_app, (view_silent _ _ H). apply vplus_zero_r. Qed.

Lemma silent_none o n : (forall e, In e o -> ev_op e = None) -> silent n o.
Proof. intros H e He. rewrite (H e He). discriminate. Qed.
Lemma silent_other o n m : (forall e, In e o -> ev_op e = Some m \/ ev_op e = None) -> m <> n -> silent n o.
Proof. intros H D e He. destruct (H e He) as [X|X]; rewrite X; congruence. Qed.

(** a trace that never mentions n *)
Lemma view_fresh c n t : (forall e k, In e t -> ev_op e = Some k -> k < c) -> c <= n -> view n t = vzero.
Proof.
  intros H L. apply view_silent. intros e He X. specialize (H e n He X). lia.
Qed.

(** events 1..k of subscription n *)
Fixpoint evs (id : N) (n k : nat) : list sframe :=
  match k with 0 => [] | S k' => evs id n k' ++ [SData id (CEv n (S k'))] end.

Definition tail_of (x : src) : list sframe := if live x then [] else [SComplete (s_id x)].

Definition src_ok (x : src) (t : list ev) : Prop :=
  In (VStart (s_op x) (s_id x) DSub) t /\ s_stops x <= 1 /\
  view (s_op x) t = (1, 0, 1, 0, s_stops x, (if s_ended x then 1 else 0),
                     evs (s_id x) (s_op x) (s_events x) ++ tail_of x).

Definition answer_frames (id : N) (c : dclass) : list sframe := [SData id c; SComplete id].

Definition start_okb (b : bool) (l : list src) (t : list ev) (n : nat) (id : N) (d : doc) : Prop :=
  match d with
  | DQuery | DMutation => view n t = (1, 1, 0, 0, 0, 0, answer_frames id (if b then CErr else CRes n))
  | DInvalid => view n t = (1, 0, 0, 0, 0, 0, answer_frames id CErr)
  | DSubFail => view n t = (1, 0, 0, 1, 0, 0, answer_frames id CErr) \/ view n t = (1, 0, 0, 0, 0, 0, [])
  | DSub => (exists x, In x l /\ s_op x = n /\ s_id x = id) \/ view n t = (1, 0, 0, 0, 0, 0, [])
  end.
(** the result class of a query is decided by whether closing had begun when it was started *)
Definition start_ok (l : list src) (t : list ev) (n : nat) (id : N) (d : doc) : Prop :=
  start_okb (begun_before n t) l t n id d.

Lemma begun_before_app n id d t o : In (VStart n id d) t -> begun_before n (t ++ o) = begun_before n t.
Proof.
  induction t as [|e t IH]; [intros []|]. intros [->|H]; simpl.
  - now rewrite Nat.eqb_refl.
  - destruct e as [f|f ow|b|m i d'|m|m|m|m|m|z| | |]; simpl; auto. destruct (Nat.eqb m n); auto.
Qed.
Lemma begun_before_fresh n id d t tail :
  (forall e, In e t -> is_start n e = false) ->
  begun_before n (t ++ VStart n id d :: tail) = existsb is_begin t.
Proof.
  induction t as [|e t IH]; intro F; simpl.
  - now rewrite Nat.eqb_refl.
  - assert (Fe : is_start n e = false) by (apply F; now left).
    assert (Ft : forall e', In e' t -> is_start n e' = false) by (intros e' H; apply F; now right).
    destruct e as [f|f ow|b|m i d'|m|m|m|m|m|z| | |]; simpl in *; auto. rewrite Fe. auto.
Qed.

Record InvC (c : nat) (m : list (N * nat)) (l : list src) (t : list ev) : Prop := {
  i_ops : forall e n, In e t -> ev_op e = Some n -> n < c;
  i_src_lt : forall x, In x l -> s_op x < c;
  i_nodup : NoDup (map s_op l);
  i_src : forall x, In x l -> src_ok x t;
  i_subs : forall id n, In (id, n) m -> exists x, In x l /\ s_op x = n /\ s_id x = id /\ s_stops x = 0;
  i_keys : NoDup (map fst m);
  i_unstopped : forall x, In x l -> s_stops x = 0 -> In (s_id x, s_op x) m;
  i_started : forall n id d, In (VStart n id d) t -> start_ok l t n id d;
  i_owner : forall e n, In e t -> ev_op e = Some n -> 0 < count (is_start n) t
}.

Lemma start_unique n t id d id' d' :
  count (is_start n) t = 1 -> In (VStart n id d) t -> In (VStart n id' d') t -> id = id' /\ d = d'.
Proof.
  unfold count. induction t as [|e t IH]; simpl; [intros _ []|].
  destruct (is_start n e) eqn:E; simpl.
  - intros H. injection H as H. 
    assert (Z : forall e', In e' t -> is_start n e' = false) by (apply count_zero_iff; exact H).
    intros [->|X] [Y|Y].
    + injection Y as <- <-. auto.
    + specialize (Z _ Y). simpl in Z. rewrite Nat.eqb_refl in Z. discriminate.
    + specialize (Z _ X). simpl in Z. rewrite Nat.eqb_refl in Z. discriminate.
    + specialize (Z _ X). simpl in Z. rewrite Nat.eqb_refl in Z. discriminate.
  - intros H [->|X] [Y|Y]; try (simpl in E; rewrite Nat.eqb_refl in E; discriminate).
    + subst e. simpl in E. rewrite Nat.eqb_refl in E. discriminate.
    + now apply IH.
Qed.

Lemma nodup_op_eq (l : list src) x y : NoDup (map s_op l) -> In x l -> In y l -> s_op x = s_op y -> x = y.
Proof.
  induction l as [|z l IH]; simpl; [intros _ []|].
  intros ND [->|Hx] [->|Hy] E; auto.
  - inversion ND as [|? ? N1 _]; subst. exfalso. apply N1. rewrite E. now apply in_map.
  - inversion ND as [|? ? N1 _]; subst. exfalso. apply N1. rewrite <- E. now apply in_map.
  - inversion ND; subst. auto.
Qed.

(** ** elementary steps preserve the invariant *)

Lemma src_ok_silent x t o : silent (s_op x) o -> src_ok x t -> src_ok x (t ++ o).
Proof.
  intros S (A & B & C). split; [apply in_or_app; now left|]. split; [exact B|].
  rewrite view_app_silent; assumption.
Qed.

Lemma start_ok_silent l t o n id d : In (VStart n id d) t -> silent n o -> start_ok l t n id d -> start_ok l (t ++ o) n id d.
Proof.
  intros M S H. unfold start_ok in *. rewrite (begun_before_app n id d t o M). unfold start_okb in *.
  rewrite view_app_silent by exact S. exact H.
Qed.

Lemma count_mono P t o : count P t <= count P (t ++ o).
Proof. rewrite count_app. lia. Qed.

(** L1: events that mention no operation *)
Lemma inv_neutral c m l t o :
  InvC c m l t -> (forall e, In e o -> ev_op e = None) -> InvC c m l (t ++ o).
Proof.
  intros I N. destruct I as [I1 I2 I3 I4 I5 I6 I7 I8 I9]. constructor; auto.
  - intros e n He X. apply in_app_or in He as [He|He]; [eauto|]. rewrite (N e He) in X. discriminate.
  - intros x Hx. apply src_ok_silent; [now apply silent_none|auto].
  - intros n id d H. apply in_app_or in H as [H|H].
    + apply start_ok_silent; [exact H|now apply silent_none|auto].
    + specialize (N _ H). discriminate.
  - intros e n He X. apply in_app_or in He as [He|He].
    + eapply Nat.lt_le_trans; [eapply I9; eauto|apply count_mono].
    + rewrite (N e He) in X. discriminate.
Qed.

Lemma inv_weaken c c' m l t : InvC c m l t -> c <= c' -> InvC c' m l t.
Proof.
  intros [I1 I2 I3 I4 I5 I6 I7 I8 I9] L. constructor; auto.
  - intros e n He X. specialize (I1 e n He X). lia.
  - intros x Hx. specialize (I2 x Hx). lia.
Qed.

(** L2: the block of a fresh operation: its start followed by events of that operation only *)
Lemma inv_block c m l t n id d tail :
  InvC c m l t -> c <= n ->
  (forall e, In e tail -> ev_op e = Some n /\ is_start n e = false) ->
  start_okb (existsb is_begin t) l (VStart n id d :: tail) n id d ->
  InvC (S n) m l (t ++ VStart n id d :: tail).
Proof.
  intros I L T SO. pose proof (inv_weaken _ (S n) _ _ _ I ltac:(lia)) as I'.
  destruct I as [I1 I2 I3 I4 I5 I6 I7 I8 I9].
  assert (Fr : view n t = vzero) by (eapply view_fresh; eauto).
  assert (Ops : forall e, In e (VStart n id d :: tail) -> ev_op e = Some n \/ ev_op e = None).
  { intros e [<-|He]; [now left|]. left. now apply T. }
  constructor; try (now destruct I').
  - intros e k He X. apply in_app_or in He as [He|He]; [specialize (I1 e k He X); lia|].
    destruct (Ops e He) as [Y|Y]; rewrite Y in X; [injection X as <-; lia|discriminate].
  - intros x Hx. apply src_ok_silent; [|auto]. eapply silent_other; [exact Ops|]. specialize (I2 x Hx). lia.
  - intros k id' d' H. apply in_app_or in H as [H|H].
    + apply start_ok_silent; [exact H| |auto]. eapply silent_other; [exact Ops|].
      specialize (I1 _ k H eq_refl). lia.
    + assert (k = n /\ id' = id /\ d' = d) as (-> & -> & ->).
      { destruct H as [H|H]; [injection H as <- <- <-; auto|].
        destruct (T _ H) as [_ X]. simpl in X. destruct (T _ H) as [Y _]. simpl in Y. injection Y as ->.
        rewrite Nat.eqb_refl in X. discriminate. }
      unfold start_ok. rewrite begun_before_fresh.
      * unfold start_okb in *. rewrite view_app, Fr, vplus_zero_l. exact SO.
      * intros e He. destruct (is_start n e) eqn:Q; [|reflexivity]. exfalso.
        destruct e as [f|f ow|b|m0 i d'|m0|m0|m0|m0|m0|z| | |]; try discriminate. simpl in Q. apply Nat.eqb_eq in Q. subst m0.
        specialize (I1 _ n He eq_refl). lia.
  - intros e k He X. apply in_app_or in He as [He|He].
    + eapply Nat.lt_le_trans; [eapply I9; eauto|apply count_mono].
    + destruct (Ops e He) as [Y|Y]; rewrite Y in X; [injection X as <-|discriminate].
      rewrite count_app. unfold count at 2. simpl. rewrite Nat.eqb_refl. simpl. lia.
Qed.

Lemma nodup_mid_key (m1 m2 : list (N * nat)) id n id' n' :
  NoDup (map fst (m1 ++ (id, n) :: m2)) -> In (id', n') (m1 ++ m2) -> id' <> id.
Proof.
  intros ND H ->. rewrite map_app in ND. simpl in ND. apply NoDup_remove_2 in ND.
  apply ND. rewrite <- map_app. change id with (fst (id, n')). now apply in_map.
Qed.

Lemma in_mid {A} (x y : A) l1 l2 : In y (l1 ++ x :: l2) -> y = x \/ In y (l1 ++ l2).
Proof.
  intro H. apply in_app_or in H as [H|[H|H]]; auto.
  - right. apply in_or_app. now left.
  - right. apply in_or_app. now right.
Qed.
Lemma in_mid_inv {A} (x y : A) l1 l2 : In y (l1 ++ l2) -> In y (l1 ++ x :: l2).
Proof. intro H. apply in_app_or in H as [H|H]; apply in_or_app; [now left|right; now right]. Qed.

Lemma tail_of_bump x : evs (s_id x) (s_op x) (s_events x) ++ tail_of x ++ owned (s_op x) (complete_if_live x)
                       = evs (s_id (bump x)) (s_op (bump x)) (s_events (bump x)) ++ tail_of (bump x).
Proof.
  unfold tail_of, complete_if_live, bump, live. simpl.
  destruct (Nat.eqb (s_stops x) 0 && negb (s_ended x)); simpl; [rewrite Nat.eqb_refl|]; reflexivity.
Qed.

(** L4: Stop() of the source behind one map entry, and removal of the entry *)
Lemma inv_stop c m1 id n m2 l t l' o :
  InvC c (m1 ++ (id, n) :: m2) l t -> stop_src n l = (l', o) ->
  InvC c (m1 ++ m2) l' (t ++ o).
Proof.
  intros I S. destruct I as [I1 I2 I3 I4 I5 I6 I7 I8 I9].
  destruct (I5 id n) as (x & Hx & Ex & Eid & Est); [apply in_or_app; right; now left|].
  destruct (stop_src_some n l) as (l1 & x' & l2 & El & Ex' & Hl1 & S'); [eauto|].
  assert (x' = x).
  { apply (nodup_op_eq l); auto; [rewrite El; apply in_or_app; right; now left|congruence]. }
  subst x'. rewrite S in S'. injection S' as -> ->.
  assert (Ops : forall e, In e (VStop n :: complete_if_live x) -> ev_op e = Some n \/ ev_op e = None).
  { intros e [<-|He]; [now left|]. unfold complete_if_live in He. destruct (live x); [|destruct He].
    destruct He as [<-|[]]. left. simpl. now rewrite Ex. }
  assert (Other : forall y, In y (l1 ++ l2) -> s_op y <> n).
  { intros y Hy E. assert (y = x). { apply (nodup_op_eq l); auto; [rewrite El; now apply in_mid_inv|congruence]. }
    subst y. rewrite El in I3. rewrite map_app in I3. simpl in I3. apply NoDup_remove_2 in I3.
    apply I3. rewrite <- map_app. now apply in_map. }
  destruct (I4 x Hx) as (A & B & C).
  constructor.
  - intros e k He X. apply in_app_or in He as [He|He]; [eauto|].
    destruct (Ops e He) as [Y|Y]; rewrite Y in X; [injection X as <-|discriminate]. rewrite <- Ex. auto.
  - intros y Hy. apply in_mid in Hy as [->|Hy]; [apply (I2 x Hx)|]. apply I2. rewrite El. now apply in_mid_inv.
  - rewrite El in I3. rewrite map_app in *. exact I3.
  - intros y Hy. apply in_mid in Hy as [->|Hy].
    + split; [apply in_or_app; now left|]. split; [simpl; lia|].
      change (s_op (bump x)) with (s_op x). rewrite view_app, C. rewrite <- tail_of_bump.
      unfold view, vplus. rewrite Ex. unfold count. simpl.
      rewrite Nat.eqb_refl. simpl.
      assert (Z : forall P, (forall f o, P (VSend f o) = false) -> List.length (filter P (complete_if_live x)) = 0).
      { intros P HP. unfold complete_if_live. destruct (live x); simpl; [rewrite HP|]; reflexivity. }
      rewrite !Z by reflexivity. rewrite Est. rewrite <- Ex.
      rewrite <- !app_assoc. repeat f_equal; lia.
    + apply src_ok_silent; [|apply I4; rewrite El; now apply in_mid_inv].
      eapply silent_other; [exact Ops|]. intro E. now apply (Other y Hy).
  - intros id' n' H. destruct (I5 id' n') as (y & Hy & Ey & Eyid & Eyst); [now apply in_mid_inv|].
    exists y. repeat split; auto. rewrite El in Hy. apply in_mid in Hy as [->|Hy]; [|now apply in_mid_inv].
    exfalso. eapply nodup_mid_key; [exact I6|exact H|]. congruence.
  - rewrite map_app in *. simpl in I6. now apply NoDup_remove_1 in I6.
  - intros y Hy Sy. apply in_mid in Hy as [->|Hy]; [simpl in Sy; discriminate|].
    assert (Hy' : In y l) by (rewrite El; now apply in_mid_inv).
    specialize (I7 y Hy' Sy). apply in_mid in I7 as [E|E]; [|exact E].
    injection E as _ E. exfalso. now apply (Other y Hy).
  - intros k id' d' H. apply in_app_or in H as [H|H].
    + destruct (Nat.eq_dec k n) as [->|D].
      * rewrite <- Ex in H. assert (U : count (is_start (s_op x)) t = 1) by (unfold view in C; congruence).
        destruct (start_unique _ _ _ _ _ _ U A H) as [<- <-].
        left. exists (bump x). split; [apply in_or_app; right; now left|]. auto.
      * specialize (I8 k id' d' H).
        assert (Sil : silent k (VStop n :: complete_if_live x)) by (eapply silent_other; [exact Ops|congruence]).
        destruct d'; try (now apply start_ok_silent).
        destruct I8 as [(y & Hy & Ey & Eyid)|V].
        -- left. rewrite El in Hy. apply in_mid in Hy as [->|Hy]; [congruence|].
           exists y. split; [now apply in_mid_inv|auto].
        -- right. rewrite view_app_silent; auto.
    + destruct H as [H|H]; [discriminate|]. unfold complete_if_live in H. destruct (live x); [|destruct H].
      destruct H as [H|[]]. discriminate.
  - intros e k He X. apply in_app_or in He as [He|He].
    + eapply Nat.lt_le_trans; [eapply I9; eauto|apply count_mono].
    + destruct (Ops e He) as [Y|Y]; rewrite Y in X; [injection X as <-|discriminate].
      rewrite count_app. rewrite <- Ex. unfold view in C. assert (count (is_start (s_op x)) t = 1) by congruence. lia.
Qed.

Lemma NoDup_snoc {A} (l : list A) x : NoDup l -> ~ In x l -> NoDup (l ++ [x]).
Proof.
  induction l as [|y l IH]; simpl; intros ND H.
  - constructor; [intros []|constructor].
  - inversion ND as [|? ? N1 N2]; subst. constructor.
    + intro X. apply in_app_or in X as [X|[X|[]]]; [auto|]. subst. apply H. now left.
    + apply IH; [exact N2|]. intro X. apply H. now right.
Qed.

(** L5: a started subscription gets its source *)
Definition new_src (n : nat) (id : N) : src :=
  {| s_op := n; s_id := id; s_stops := 0; s_ended := false; s_events := 0 |}.

Lemma inv_subscribe c m l t n id :
  InvC c m l t -> (forall x, In x l -> s_op x <> n) -> n < c ->
  In (VStart n id DSub) t -> view n t = (1, 0, 0, 0, 0, 0, []) -> (forall k, ~ In (id, k) m) ->
  InvC c ((id, n) :: m) (l ++ [new_src n id]) (t ++ [VSubscribe n]).
Proof.
  intros I Fr L St V Free. destruct I as [I1 I2 I3 I4 I5 I6 I7 I8 I9].
  assert (Ops : forall e, In e [VSubscribe n] -> ev_op e = Some n \/ ev_op e = None).
  { intros e [<-|[]]. now left. }
  constructor.
  - intros e k He X. apply in_app_or in He as [He|[<-|[]]]; [eauto|]. injection X as <-. exact L.
  - intros x Hx. apply in_app_or in Hx as [Hx|[<-|[]]]; [auto|exact L].
  - rewrite map_app. simpl. apply NoDup_snoc; [exact I3|].
    intro H. apply in_map_iff in H as (x & E & Hx). now apply (Fr x Hx).
  - intros x Hx. apply in_app_or in Hx as [Hx|[<-|[]]].
    + apply src_ok_silent; [|auto]. eapply silent_other; [exact Ops|]. intro E. now apply (Fr x Hx).
    + split; [apply in_or_app; now left|]. split; [simpl; lia|].
      simpl. rewrite view_app, V. unfold view, vplus, count. simpl. rewrite Nat.eqb_refl. reflexivity.
  - intros id' n' [H|H].
    + injection H as <- <-. exists (new_src n id). split; [apply in_or_app; right; now left|auto].
    + destruct (I5 id' n' H) as (x & Hx & R). exists x. split; [apply in_or_app; now left|exact R].
  - simpl. constructor; [|exact I6]. intro H. apply in_map_iff in H as ([k v] & E & H). simpl in E. subst k.
    exact (Free v H).
  - intros x Hx Sx. apply in_app_or in Hx as [Hx|[<-|[]]]; [right; auto|now left].
  - intros k id' d' H. apply in_app_or in H as [H|[H|[]]]; [|discriminate].
    destruct (Nat.eq_dec k n) as [->|D].
    + assert (U : count (is_start n) t = 1) by (unfold view in V; congruence).
      destruct (start_unique _ _ _ _ _ _ U St H) as [<- <-].
      left. exists (new_src n id). split; [apply in_or_app; right; now left|auto].
    + specialize (I8 k id' d' H).
      assert (Sil : silent k [VSubscribe n]) by (eapply silent_other; [exact Ops|congruence]).
      destruct d'; try (now apply start_ok_silent).
      destruct I8 as [(y & Hy & Ey & Eyid)|V'].
      * left. exists y. split; [apply in_or_app; now left|auto].
      * right. rewrite view_app_silent; auto.
  - intros e k He X. apply in_app_or in He as [He|[<-|[]]].
    + eapply Nat.lt_le_trans; [eapply I9; eauto|apply count_mono].
    + injection X as <-. rewrite count_app. unfold view in V. assert (count (is_start n) t = 1) by congruence. lia.
Qed.

(** L6: a started subscription whose subscribe resolver fails is answered with errors *)
Lemma inv_subfail c m l t n id :
  InvC c m l t -> (forall x, In x l -> s_op x <> n) -> n < c ->
  In (VStart n id DSubFail) t -> view n t = (1, 0, 0, 0, 0, 0, []) ->
  InvC c m l (t ++ VSubFail n :: answer n id CErr).
Proof.
  intros I Fr L St V. destruct I as [I1 I2 I3 I4 I5 I6 I7 I8 I9].
  assert (Ops : forall e, In e (VSubFail n :: answer n id CErr) -> ev_op e = Some n \/ ev_op e = None).
  { intros e [<-|[<-|[<-|[]]]]; now left. }
  constructor; auto.
  - intros e k He X. apply in_app_or in He as [He|He]; [eauto|].
    destruct (Ops e He) as [Y|Y]; rewrite Y in X; [injection X as <-; exact L|discriminate].
  - intros x Hx. apply src_ok_silent; [|auto]. eapply silent_other; [exact Ops|]. intro E. now apply (Fr x Hx).
  - intros k id' d' H. apply in_app_or in H as [H|H].
    + destruct (Nat.eq_dec k n) as [->|D].
      * assert (U : count (is_start n) t = 1) by (unfold view in V; congruence).
        destruct (start_unique _ _ _ _ _ _ U St H) as [<- <-].
        left. rewrite view_app, V. unfold view, vplus, count, answer, answer_frames, owned. simpl.
        rewrite Nat.eqb_refl. reflexivity.
      * apply start_ok_silent; [exact H| |auto]. eapply silent_other; [exact Ops|congruence].
    + destruct H as [H|[H|[H|[]]]]; discriminate.
  - intros e k He X. apply in_app_or in He as [He|He].
    + eapply Nat.lt_le_trans; [eapply I9; eauto|apply count_mono].
    + destruct (Ops e He) as [Y|Y]; rewrite Y in X; [injection X as <-|discriminate].
      rewrite count_app. unfold view in V. assert (count (is_start n) t = 1) by congruence. lia.
Qed.

(** the generic part of "something happens to source x only": everything but [i_src] for x itself *)
Lemma inv_touch c m l1 x x' l2 t o :
  InvC c m (l1 ++ x :: l2) t ->
  s_op x' = s_op x -> s_id x' = s_id x -> s_stops x' = s_stops x ->
  (forall e, In e o -> ev_op e = Some (s_op x) /\ is_start (s_op x) e = false) ->
  src_ok x' (t ++ o) ->
  InvC c m (l1 ++ x' :: l2) (t ++ o).
Proof.
  intros I Eo Ei Es Ops OK. destruct I as [I1 I2 I3 I4 I5 I6 I7 I8 I9].
  assert (Hx : In x (l1 ++ x :: l2)) by (apply in_or_app; right; now left).
  assert (Ops' : forall e, In e o -> ev_op e = Some (s_op x) \/ ev_op e = None) by (intros e He; left; now apply Ops).
  assert (Other : forall y, In y (l1 ++ l2) -> s_op y <> s_op x).
  { intros y Hy E. rewrite map_app in I3. simpl in I3. apply NoDup_remove_2 in I3.
    apply I3. rewrite <- map_app, <- E. now apply in_map. }
  destruct (I4 x Hx) as (A & B & C).
  constructor; auto.
  - intros e k He X. apply in_app_or in He as [He|He]; [eauto|].
    destruct (Ops e He) as [Y _]. rewrite Y in X. injection X as <-. auto.
  - intros y Hy. apply in_mid in Hy as [->|Hy]; [rewrite Eo; auto|]. apply I2. now apply in_mid_inv.
  - rewrite map_app in *. simpl in *. now rewrite Eo.
  - intros y Hy. apply in_mid in Hy as [->|Hy]; [exact OK|].
    apply src_ok_silent; [|apply I4; now apply in_mid_inv].
    eapply silent_other; [exact Ops'|]. intro E. now apply (Other y Hy).
  - intros id' n' H. destruct (I5 id' n' H) as (y & Hy & Ey & Eyid & Eyst).
    apply in_mid in Hy as [->|Hy].
    + exists x'. split; [apply in_or_app; right; now left|]. repeat split; congruence.
    + exists y. split; [now apply in_mid_inv|auto].
  - intros y Hy Sy. apply in_mid in Hy as [->|Hy].
    + rewrite Ei, Eo. apply I7; [exact Hx|congruence].
    + apply I7; [now apply in_mid_inv|exact Sy].
  - intros k id' d' H. apply in_app_or in H as [H|H].
    + destruct (Nat.eq_dec k (s_op x)) as [->|D].
      * assert (U : count (is_start (s_op x)) t = 1) by (unfold view in C; congruence).
        destruct (start_unique _ _ _ _ _ _ U A H) as [<- <-].
        left. exists x'. split; [apply in_or_app; right; now left|auto].
      * specialize (I8 k id' d' H).
        assert (Sil : silent k o) by (eapply silent_other; [exact Ops'|congruence]).
        destruct d'; try (now apply start_ok_silent).
        destruct I8 as [(y & Hy & Ey & Eyid)|V].
        -- left. apply in_mid in Hy as [->|Hy]; [congruence|].
           exists y. split; [now apply in_mid_inv|auto].
        -- right. rewrite view_app_silent; auto.
    + destruct (Ops _ H) as [_ X]. simpl in X. destruct (Ops _ H) as [Y _]. simpl in Y. injection Y as ->.
      rewrite Nat.eqb_refl in X. discriminate.
  - intros e k He X. apply in_app_or in He as [He|He].
    + eapply Nat.lt_le_trans; [eapply I9; eauto|apply count_mono].
    + destruct (Ops e He) as [Y _]. rewrite Y in X. injection X as <-.
      rewrite count_app. unfold view in C. assert (count (is_start (s_op x)) t = 1) by congruence. lia.
Qed.

(** L7: an event of a live source *)
Lemma inv_emit c m l t n r o :
  InvC c m l t -> emit_src n l = (r, o) -> InvC c m r (t ++ o).
Proof.
  intros I E. destruct (op_dec n l) as [Ex|Nx].
  - destruct (emit_src_some n l Ex) as (l1 & x & l2 & -> & En & _ & E').
    rewrite E in E'. destruct (live x) eqn:Lv; injection E' as -> ->.
    + assert (Hx : In x (l1 ++ x :: l2)) by (apply in_or_app; right; now left).
      destruct (i_src _ _ _ _ I x Hx) as (A & B & C).
      eapply inv_touch; eauto.
      * intros e [<-|[]]. simpl. now rewrite En.
      * split; [apply in_or_app; now left|]. split; [exact B|].
        change (s_op (more x)) with (s_op x). rewrite view_app, C. unfold view, vplus, count, owned. simpl.
        rewrite <- En, Nat.eqb_refl. simpl. unfold tail_of. change (live (more x)) with (live x). rewrite Lv.
        rewrite !Nat.add_0_r, !app_nil_r. reflexivity.
    + rewrite app_nil_r. exact I.
  - rewrite (emit_src_none n l Nx) in E. injection E as <- <-. rewrite app_nil_r. exact I.
Qed.

(** L8: the source closes its channel *)
Lemma inv_srcend c m l t n r o :
  InvC c m l t -> end_src n l = (r, o) -> InvC c m r (t ++ o).
Proof.
  intros I E. destruct (op_dec n l) as [Ex|Nx].
  - destruct (end_src_some n l Ex) as (l1 & x & l2 & -> & En & _ & E').
    rewrite E in E'. destruct (s_ended x) eqn:Ed; injection E' as -> ->.
    + rewrite app_nil_r. exact I.
    + assert (Hx : In x (l1 ++ x :: l2)) by (apply in_or_app; right; now left).
      destruct (i_src _ _ _ _ I x Hx) as (A & B & C).
      eapply inv_touch; eauto.
      * intros e [<-|He]; [simpl; now rewrite En|]. unfold complete_if_live in He.
        destruct (live x); [|destruct He]. destruct He as [<-|[]]. simpl. now rewrite En.
      * split; [apply in_or_app; now left|]. split; [exact B|].
        change (s_op (finish x)) with (s_op x). rewrite view_app, C. rewrite Ed.
        unfold view, vplus, count. simpl. rewrite <- En, Nat.eqb_refl. simpl.
        assert (Z : forall P, (forall f o, P (VSend f o) = false) -> List.length (filter P (complete_if_live x)) = 0).
        { intros P HP. unfold complete_if_live. destruct (live x); simpl; [rewrite HP|]; reflexivity. }
        rewrite !Z by reflexivity.
        unfold tail_of, complete_if_live, live, finish. simpl. rewrite Ed. simpl. rewrite andb_false_r, andb_true_r.
        destruct (Nat.eqb (s_stops x) 0); simpl; [rewrite Nat.eqb_refl|]; rewrite ?app_nil_r, ?Nat.add_0_r; reflexivity.
  - rewrite (end_src_none n l Nx) in E. injection E as <- <-. rewrite app_nil_r. exact I.
Qed.

(** L9: HandleClose stops everything still in the map *)
Lemma inv_stop_all c m : forall l t l' o,
  InvC c m l t -> stop_all m l = (l', o) -> InvC c [] l' (t ++ o).
Proof.
  induction m as [|[id n] m IH]; intros l t l' o I S; simpl in S.
  - injection S as <- <-. rewrite app_nil_r. exact I.
  - destruct (stop_src n l) as [l1 o1] eqn:S1. destruct (stop_all m l1) as [l2 o2] eqn:S2.
    injection S as <- <-. rewrite app_assoc. eapply IH; [|exact S2].
    apply (inv_stop c [] id n m l t l1 o1); assumption.
Qed.

(** ** the handler's operations and the invariant *)
Definition Inv (s : st) (t : list ev) : Prop := InvC (clock s) (subs s) (srcs s) t.

Lemma handle_stop_inv c s id s' o t :
  InvC c (subs s) (srcs s) t -> handle_stop s id = (s', o) ->
  InvC c (subs s') (srcs s') (t ++ o) /\ clock s' = clock s /\ map s_op (srcs s') = map s_op (srcs s).
Proof.
  intros I H. unfold handle_stop in H. destruct (lookup id (subs s)) as [n|] eqn:L.
  - destruct (stop_src n (srcs s)) as [l o'] eqn:S. injection H as <- <-. simpl.
    destruct (lookup_some _ _ _ L) as (m1 & m2 & E & Hm1).
    split; [|split; [reflexivity|]].
    + rewrite E. rewrite remove_id_split; [|exact Hm1|rewrite <- E; exact (i_keys _ _ _ _ I)].
      eapply inv_stop; [rewrite <- E; exact I|exact S].
    + destruct (op_dec n (srcs s)) as [Ex|Nx].
      * destruct (stop_src_some n _ Ex) as (l1 & x & l2 & El & _ & _ & S'). rewrite S in S'. injection S' as -> _.
        rewrite El, !map_app. reflexivity.
      * rewrite (stop_src_none _ _ Nx) in S. now injection S as <- _.
  - injection H as <- <-. rewrite app_nil_r. auto.
Qed.

(** has beginClosing fired (the handler's context is cancelled)? *)
Definition begunb (s : st) : bool := match closing s with Some _ => true | None => false end.

Section HandlerInv.
  Variables pc ks : bool.

  Lemma release_ended_cases s id s1 o1 :
    release_ended ks s id = (s1, o1) ->
    (s1 = s /\ o1 = []) \/ (handle_stop s id = (s1, o1) /\ lookup id (subs s1) = None /\ exists m, lookup id (subs s) = Some m).
  Proof.
    unfold release_ended, handle_stop. destruct (lookup id (subs s)) as [m|] eqn:L.
    - destruct (src_ended m (srcs s) && negb ks).
      + destruct (stop_src m (srcs s)) as [l o]. intro H. injection H as <- <-. right. split; [reflexivity|]. simpl.
        split; [|eauto]. clear. induction (subs s) as [|[k v] r IH]; simpl; [reflexivity|].
        destruct (N.eqb k id) eqn:E; [exact IH|]. simpl. now rewrite E.
      + intro H. injection H as <- <-. now left.
    - intro H. injection H as <- <-. now left.
  Qed.

  Lemma handle_start_inv s id d s' o t :
    Inv s t -> existsb is_begin t = begunb s -> handle_start ks s id d = (s', o) ->
    InvC (S (clock s)) (subs s') (srcs s') (t ++ o) /\ clock s' = clock s.
  Proof.
    intros I Bg H. unfold Inv in I. set (n := clock s) in *.
    assert (Fresh : forall x, In x (srcs s) -> s_op x <> n).
    { intros x Hx. pose proof (i_src_lt _ _ _ _ I x Hx). lia. }
    unfold handle_start in H. fold n in H.
    destruct d.
    - (* query *) injection H as <- <-. split; [|reflexivity].
      apply (inv_block n); [exact I|lia| |].
      + intros e [<-|[<-|[<-|[]]]]; auto.
      + unfold start_okb. rewrite Bg. unfold begunb. destruct (closing s);
          unfold view, count, owned, answer_frames; simpl; rewrite Nat.eqb_refl; reflexivity.
    - (* mutation *) injection H as <- <-. split; [|reflexivity].
      apply (inv_block n); [exact I|lia| |].
      + intros e [<-|[<-|[<-|[]]]]; auto.
      + unfold start_okb. rewrite Bg. unfold begunb. destruct (closing s);
          unfold view, count, owned, answer_frames; simpl; rewrite Nat.eqb_refl; reflexivity.
    - (* subscription *)
      destruct (release_ended ks s id) as [s1 o1] eqn:R.
      assert (I0 : InvC (S n) (subs s) (srcs s) (t ++ [VStart n id DSub])).
      { apply (inv_block n); [exact I|lia|intros e []|]. right. unfold view, count, owned. simpl. now rewrite Nat.eqb_refl. }
      assert (V0 : view n (t ++ [VStart n id DSub]) = (1, 0, 0, 0, 0, 0, [])).
      { rewrite view_app, (view_fresh (clock s) n t (i_ops _ _ _ _ I) (le_n _)), vplus_zero_l.
        unfold view, count, owned. simpl. now rewrite Nat.eqb_refl. }
      assert (I1 : InvC (S n) (subs s1) (srcs s1) ((t ++ [VStart n id DSub]) ++ o1) /\ clock s1 = n /\
                   map s_op (srcs s1) = map s_op (srcs s) /\ silent n o1).
      { destruct (release_ended_cases _ _ _ _ R) as [[-> ->]|(HS & _ & _)].
        - rewrite app_nil_r. split; [exact I0|]. split; [reflexivity|]. split; [reflexivity|]. intros e [].
        - destruct (handle_stop_inv _ _ _ _ _ _ I0 HS) as (A & B & C).
          split; [exact A|]. split; [exact B|]. split; [exact C|].
          unfold handle_stop in HS. destruct (lookup id (subs s)) as [k|] eqn:L.
          + destruct (stop_src k (srcs s)) as [l' o'] eqn:S. injection HS as _ <-.
            destruct (i_subs _ _ _ _ I id k) as (x & Hx & Ex & _).
            { destruct (lookup_some _ _ _ L) as (m1 & m2 & E & _). rewrite E. apply in_or_app. right. now left. }
            destruct (stop_src_some k (srcs s)) as (l1 & x' & l2 & El & Ex' & _ & S'); [eauto|].
            rewrite S in S'. injection S' as _ ->.
            assert (k <> n) by (rewrite <- Ex; now apply Fresh).
            intros e [<-|He]; [simpl; congruence|]. unfold complete_if_live in He.
            destruct (live x'); [|destruct He]. destruct He as [<-|[]]. simpl. congruence.
          + injection HS as _ <-. intros e []. }
      destruct I1 as (I1 & C1 & M1 & Sil).
      assert (Fresh1 : forall x, In x (srcs s1) -> s_op x <> n).
      { intros x Hx E. apply (in_map s_op) in Hx. rewrite M1 in Hx. apply in_map_iff in Hx as (y & Ey & Hy).
        apply (Fresh y Hy). congruence. }
      destruct (lookup id (subs s1)) as [k|] eqn:L1; injection H as <- <-.
      + split; [|exact C1]. rewrite <- app_assoc in I1. exact I1.
      + simpl. split; [|exact C1].
        replace (t ++ VStart n id DSub :: o1 ++ [VSubscribe n]) with (((t ++ [VStart n id DSub]) ++ o1) ++ [VSubscribe n])
          by (rewrite <- !app_assoc; reflexivity).
        apply inv_subscribe; auto.
        * apply in_or_app. left. apply in_or_app. right. now left.
        * rewrite view_app_silent; auto.
        * now apply lookup_none.
    - (* subscription whose resolver fails *)
      destruct (release_ended ks s id) as [s1 o1] eqn:R.
      assert (I0 : InvC (S n) (subs s) (srcs s) (t ++ [VStart n id DSubFail])).
      { apply (inv_block n); [exact I|lia|intros e []|]. right. unfold view, count, owned. simpl. now rewrite Nat.eqb_refl. }
      assert (V0 : view n (t ++ [VStart n id DSubFail]) = (1, 0, 0, 0, 0, 0, [])).
      { rewrite view_app, (view_fresh (clock s) n t (i_ops _ _ _ _ I) (le_n _)), vplus_zero_l.
        unfold view, count, owned. simpl. now rewrite Nat.eqb_refl. }
      assert (I1 : InvC (S n) (subs s1) (srcs s1) ((t ++ [VStart n id DSubFail]) ++ o1) /\ clock s1 = n /\
                   map s_op (srcs s1) = map s_op (srcs s) /\ silent n o1).
      { destruct (release_ended_cases _ _ _ _ R) as [[-> ->]|(HS & _ & _)].
        - rewrite app_nil_r. split; [exact I0|]. split; [reflexivity|]. split; [reflexivity|]. intros e [].
        - destruct (handle_stop_inv _ _ _ _ _ _ I0 HS) as (A & B & C).
          split; [exact A|]. split; [exact B|]. split; [exact C|].
          unfold handle_stop in HS. destruct (lookup id (subs s)) as [k|] eqn:L.
          + destruct (stop_src k (srcs s)) as [l' o'] eqn:S. injection HS as _ <-.
            destruct (i_subs _ _ _ _ I id k) as (x & Hx & Ex & _).
            { destruct (lookup_some _ _ _ L) as (m1 & m2 & E & _). rewrite E. apply in_or_app. right. now left. }
            destruct (stop_src_some k (srcs s)) as (l1 & x' & l2 & El & Ex' & _ & S'); [eauto|].
            rewrite S in S'. injection S' as _ ->.
            assert (k <> n) by (rewrite <- Ex; now apply Fresh).
            intros e [<-|He]; [simpl; congruence|]. unfold complete_if_live in He.
            destruct (live x'); [|destruct He]. destruct He as [<-|[]]. simpl. congruence.
          + injection HS as _ <-. intros e []. }
      destruct I1 as (I1 & C1 & M1 & Sil).
      assert (Fresh1 : forall x, In x (srcs s1) -> s_op x <> n).
      { intros x Hx E. apply (in_map s_op) in Hx. rewrite M1 in Hx. apply in_map_iff in Hx as (y & Ey & Hy).
        apply (Fresh y Hy). congruence. }
      destruct (lookup id (subs s1)) as [k|] eqn:L1; injection H as <- <-.
      + split; [|exact C1]. rewrite <- app_assoc in I1. exact I1.
      + split; [|exact C1].
        replace (t ++ VStart n id DSubFail :: o1 ++ VSubFail n :: answer n id CErr)
          with (((t ++ [VStart n id DSubFail]) ++ o1) ++ VSubFail n :: answer n id CErr)
          by (rewrite <- !app_assoc; reflexivity).
        apply inv_subfail; auto.
        * apply in_or_app. left. apply in_or_app. right. now left.
        * rewrite view_app_silent; auto.
    - (* invalid *) injection H as <- <-. split; [|reflexivity].
      apply (inv_block n); [exact I|lia| |].
      + intros e [<-|[<-|[]]]; auto.
      + unfold start_okb, view, count, owned, answer_frames. simpl. rewrite Nat.eqb_refl. reflexivity.
  Qed.
End HandlerInv.

(** ** every branch of handleMessage is neutral, a HandleStart or a HandleStop *)
Section Main.
  Variables pc ks : bool.
  Variable p : proto.

  Lemma begin_closing_neutral code s s' o :
    begin_closing code s = (s', o) ->
    subs s' = subs s /\ srcs s' = srcs s /\ clock s' = clock s /\ did_init s' = did_init s /\
    closed s' = closed s /\ registered s' = registered s /\
    (o = [] \/ o = [VBeginClose code]).
  Proof.
    unfold begin_closing. destruct (closing s); intro H; injection H as <- <-; simpl; repeat split; auto.
  Qed.

  Lemma handle_cases s f s' o :
    handle pc ks p s f = (s', o) ->
    (subs s' = subs s /\ srcs s' = srcs s /\ clock s' = clock s /\ closed s' = closed s /\ registered s' = registered s /\
     forall e, In e o -> ev_op e = None /\ is_gone e = false /\ is_dereg e = false)
    \/ (exists id d, did_init s = true /\ handle_start ks s id d = (s', o))
    \/ (exists id, did_init s = true /\ handle_stop s id = (s', o)).
  Proof.
    assert (BC : forall code s0 s1 o1 pre, begin_closing code s0 = (s1, o1) ->
              (forall e, In e pre -> ev_op e = None /\ is_gone e = false /\ is_dereg e = false) ->
              subs s1 = subs s0 /\ srcs s1 = srcs s0 /\ clock s1 = clock s0 /\ closed s1 = closed s0 /\ registered s1 = registered s0 /\
              forall e, In e (pre ++ o1) -> ev_op e = None /\ is_gone e = false /\ is_dereg e = false).
    { intros code s0 s1 o1 pre H Hpre. destruct (begin_closing_neutral _ _ _ _ H) as (A & B & C & _ & D & E & F).
      repeat split; auto; apply in_app_or in H0 as [X|X]; try (now apply Hpre);
        destruct F as [->| ->]; try destruct X as [<-|[]]; try destruct X; reflexivity. }
    assert (Nil : forall e : ev, In e [] -> ev_op e = None /\ is_gone e = false /\ is_dereg e = false) by (intros e []).
    destruct p; destruct f as [|ty id pl]; simpl.
    - intro H. injection H as <- <-. left. repeat split; auto; destruct H.
    - destruct ty; try (intro H; injection H as <- <-; left; repeat split; auto; destruct H).
      + destruct (init_ok pl).
        * intro H. injection H as <- <-. left. repeat split; auto;
            destruct H as [<-|[<-|[<-|[]]]]; reflexivity.
        * destruct (begin_closing 1011 s) as [s1 o1] eqn:B. intro H. injection H as <- <-. left.
          apply (BC _ _ _ _ [VInit false; VSend SConnError None]) in B.
          -- exact B.
          -- intros e [<-|[<-|[]]]; repeat split; reflexivity.
      + intro H. destruct (BC _ _ _ _ [] H Nil) as (A & B & C & D & E & F). left. repeat split; auto; now apply F.
      + destruct (did_init s) eqn:DI.
        * destruct (decode_start pl) as [d|].
          -- intro H. right. left. eauto.
          -- intro H. injection H as <- <-. left. repeat split; auto; destruct H.
        * intro H. injection H as <- <-. left. repeat split; auto; destruct H.
      + destruct (did_init s) eqn:DI.
        * intro H. right. right. eauto.
        * intro H. injection H as <- <-. left. repeat split; auto; destruct H.
    - intro H. destruct (BC _ _ _ _ [] H Nil) as (A & B & C & D & E & F). left. repeat split; auto; now apply F.
    - destruct ty; try (intro H; destruct (BC _ _ _ _ [] H Nil) as (A & B & C & D & E & F); left; repeat split; auto; now apply F).
      + destruct (init_ok pl).
        * intro H. injection H as <- <-. left. repeat split; auto;
            destruct H as [<-|[<-|[]]]; reflexivity.
        * destruct (begin_closing 4403 s) as [s1 o1] eqn:B. intro H. injection H as <- <-. left.
          apply (BC _ _ _ _ [VInit false]) in B.
          -- exact B.
          -- intros e [<-|[]]; repeat split; reflexivity.
      + destruct (did_init s) eqn:DI.
        * destruct (decode_start pl) as [d|].
          -- intro H. right. left. eauto.
          -- intro H. destruct (BC _ _ _ _ [] H Nil) as (A & B & C & D & E & F). left. repeat split; auto; now apply F.
        * intro H. injection H as <- <-. left. repeat split; auto; destruct H.
      + destruct (did_init s) eqn:DI.
        * intro H. right. right. eauto.
        * intro H. injection H as <- <-. left. repeat split; auto; destruct H.
      + destruct pc.
        * intro H. destruct (BC _ _ _ _ [] H Nil) as (A & B & C & D & E & F). left. repeat split; auto; now apply F.
        * intro H. injection H as <- <-. left. repeat split; auto; destruct H as [<-|[]]; reflexivity.
      + intro H. injection H as <- <-. left. repeat split; auto; destruct H.
  Qed.
End Main.

(** ** live part / after gone and append *)
Lemma live_part_nogone t o : count is_gone t = 0 -> live_part (t ++ o) = t ++ live_part o.
Proof.
  induction t as [|e t IH]; simpl; [reflexivity|]. unfold count in *. simpl.
  destruct e; simpl; intro H; try discriminate; f_equal; auto.
Qed.
Lemma after_gone_nogone t o : count is_gone t = 0 -> after_gone (t ++ o) = after_gone o.
Proof.
  induction t as [|e t IH]; simpl; [reflexivity|]. unfold count in *. simpl.
  destruct e; simpl; intro H; try discriminate; auto.
Qed.
Lemma live_part_gone t o : 0 < count is_gone t -> live_part (t ++ o) = live_part t.
Proof.
  induction t as [|e t IH]; simpl; [unfold count; simpl; lia|]. unfold count in *. simpl.
  destruct e; simpl; intro H; try reflexivity; f_equal; auto.
Qed.
Lemma after_gone_gone t o : 0 < count is_gone t -> after_gone (t ++ o) = after_gone t ++ o.
Proof.
  induction t as [|e t IH]; simpl; [unfold count; simpl; lia|]. unfold count in *. simpl.
  destruct e; simpl; intro H; try reflexivity; auto.
Qed.
Lemma live_part_self t : count is_gone t = 0 -> live_part t = t.
Proof. intro H. rewrite <- (app_nil_r t) at 1. rewrite live_part_nogone by exact H. simpl. apply app_nil_r. Qed.

Lemma stop_src_out n l l' o : stop_src n l = (l', o) -> forallb after_gone_ok o = true /\ count is_gone o = 0 /\ count is_dereg o = 0.
Proof.
  revert l' o. induction l as [|x l IH]; simpl; intros l' o H.
  - injection H as <- <-. auto.
  - destruct (Nat.eqb (s_op x) n).
    + injection H as <- <-. destruct (live x); auto.
    + destruct (stop_src n l) as [r o']. injection H as <- <-. eapply IH. reflexivity.
Qed.
Lemma stop_all_out m : forall l l' o, stop_all m l = (l', o) ->
  forallb after_gone_ok o = true /\ count is_gone o = 0 /\ count is_dereg o = 0.
Proof.
  induction m as [|[id n] m IH]; simpl; intros l l' o H.
  - injection H as <- <-. auto.
  - destruct (stop_src n l) as [l1 o1] eqn:S1. destruct (stop_all m l1) as [l2 o2] eqn:S2. injection H as <- <-.
    destruct (stop_src_out _ _ _ _ S1) as (A & B & C). destruct (IH _ _ _ S2) as (A' & B' & C').
    rewrite forallb_app, !count_app, A, A', B, B', C, C'. auto.
Qed.

Definition CloseInv (s : st) (t : list ev) : Prop :=
  (closed s = false -> registered s = true /\ count is_gone t = 0 /\ count is_dereg t = 0) /\
  (closed s = true -> registered s = false /\ subs s = [] /\ count is_gone t = 1 /\ count is_dereg t = 1 /\
                      existsb is_dereg (live_part t) = false /\ forallb after_gone_ok (after_gone t) = true).

Lemma count_none P o : (forall e, In e o -> P e = false) -> count P o = 0.
Proof. intro H. now apply count_zero_iff. Qed.

(** ** closing has begun exactly when the trace says so *)
Lemma stop_src_nb n l : existsb is_begin (snd (stop_src n l)) = false.
Proof.
  induction l as [|x l IH]; simpl; [reflexivity|]. destruct (Nat.eqb (s_op x) n); simpl.
  - destruct (live x); reflexivity.
  - destruct (stop_src n l). exact IH.
Qed.
Lemma emit_src_nb n l : existsb is_begin (snd (emit_src n l)) = false.
Proof.
  induction l as [|x l IH]; simpl; [reflexivity|]. destruct (Nat.eqb (s_op x) n); simpl.
  - destruct (live x); reflexivity.
  - destruct (emit_src n l). exact IH.
Qed.
Lemma end_src_nb n l : existsb is_begin (snd (end_src n l)) = false.
Proof.
  induction l as [|x l IH]; simpl; [reflexivity|]. destruct (Nat.eqb (s_op x) n); simpl.
  - destruct (s_ended x); simpl; [reflexivity|]. destruct (live x); reflexivity.
  - destruct (end_src n l). exact IH.
Qed.
Lemma stop_all_nb m : forall l, existsb is_begin (snd (stop_all m l)) = false.
Proof.
  induction m as [|[id n] m IH]; intro l; simpl; [reflexivity|].
  pose proof (stop_src_nb n l) as A. destruct (stop_src n l) as [l1 o1]. pose proof (IH l1) as B.
  destruct (stop_all m l1) as [l2 o2]. simpl in *. now rewrite existsb_app, A, B.
Qed.
Lemma handle_stop_nb s id : closing (fst (handle_stop s id)) = closing s /\ existsb is_begin (snd (handle_stop s id)) = false.
Proof.
  unfold handle_stop. destruct (lookup id (subs s)); [|auto].
  pose proof (stop_src_nb n (srcs s)) as A. destruct (stop_src n (srcs s)). auto.
Qed.
Lemma release_ended_nb ks s id :
  closing (fst (release_ended ks s id)) = closing s /\ existsb is_begin (snd (release_ended ks s id)) = false.
Proof.
  unfold release_ended. destruct (lookup id (subs s)); [|auto]. destruct (src_ended n (srcs s) && negb ks); [|auto].
  pose proof (stop_src_nb n (srcs s)) as A. destruct (stop_src n (srcs s)). auto.
Qed.
Lemma handle_start_nb ks s id d :
  closing (fst (handle_start ks s id d)) = closing s /\ existsb is_begin (snd (handle_start ks s id d)) = false.
Proof.
  unfold handle_start. destruct d; simpl; auto.
  - destruct (release_ended_nb ks s id) as [A B]. destruct (release_ended ks s id) as [s1 o1]. simpl in *.
    destruct (lookup id (subs s1)); simpl; rewrite ?existsb_app, B; auto.
  - destruct (release_ended_nb ks s id) as [A B]. destruct (release_ended ks s id) as [s1 o1]. simpl in *.
    destruct (lookup id (subs s1)); simpl; rewrite ?existsb_app, B; auto.
Qed.
Lemma begin_closing_nb code s :
  begunb (fst (begin_closing code s)) = true /\ existsb is_begin (snd (begin_closing code s)) = negb (begunb s).
Proof. unfold begin_closing, begunb. destruct (closing s) eqn:E; simpl; rewrite ?E; auto. Qed.

Lemma handle_nb pc ks p s f :
  begunb (fst (handle pc ks p s f)) = begunb s || existsb is_begin (snd (handle pc ks p s f)).
Proof.
  assert (BC : forall code pre, existsb is_begin pre = false ->
            begunb (fst (begin_closing code s)) = begunb s || existsb is_begin (pre ++ snd (begin_closing code s))).
  { intros code pre Hp. destruct (begin_closing_nb code s) as [A B]. rewrite existsb_app, Hp, A, B. simpl.
    destruct (begunb s); reflexivity. }
  assert (HS : forall id d, begunb (fst (handle_start ks s id d)) = begunb s || existsb is_begin (snd (handle_start ks s id d))).
  { intros id d. destruct (handle_start_nb ks s id d) as [A B]. unfold begunb. now rewrite A, B, orb_false_r. }
  assert (HP : forall id, begunb (fst (handle_stop s id)) = begunb s || existsb is_begin (snd (handle_stop s id))).
  { intros id. destruct (handle_stop_nb s id) as [A B]. unfold begunb. now rewrite A, B, orb_false_r. }
  assert (Q : forall o, existsb is_begin o = false -> begunb s = begunb s || existsb is_begin o).
  { intros o ->. now rewrite orb_false_r. }
  destruct p; destruct f as [|ty id pl]; simpl.
  - (simpl; now rewrite orb_false_r).
  - destruct ty; simpl; try ((simpl; now rewrite orb_false_r)).
    + destruct (init_ok pl); simpl; [(simpl; now rewrite orb_false_r)|].
      specialize (BC 1011%Z [VInit false; VSend SConnError None] eq_refl).
      destruct (begin_closing 1011 s) as [s1 o1]. exact BC.
    + exact (BC 1000%Z [] eq_refl).
    + destruct (did_init s); [|(simpl; now rewrite orb_false_r)]. destruct (decode_start pl); [apply HS|(simpl; now rewrite orb_false_r)].
    + destruct (did_init s); [apply HP|(simpl; now rewrite orb_false_r)].
  - exact (BC 4400%Z [] eq_refl).
  - destruct ty; simpl; try (exact (BC 4400%Z [] eq_refl)); try ((simpl; now rewrite orb_false_r)).
    + destruct (init_ok pl); simpl; [(simpl; now rewrite orb_false_r)|].
      specialize (BC 4403%Z [VInit false] eq_refl). destruct (begin_closing 4403 s) as [s1 o1]. exact BC.
    + destruct (did_init s); [|(simpl; now rewrite orb_false_r)]. destruct (decode_start pl); [apply HS|exact (BC 4400%Z [] eq_refl)].
    + destruct (did_init s); [apply HP|(simpl; now rewrite orb_false_r)].
    + destruct pc; [exact (BC 4400%Z [] eq_refl)|(simpl; now rewrite orb_false_r)].
Qed.

Section Main2.
  Variables pc ks ke : bool.
  Variable p : proto.

  Lemma emit_src_out n l r o : emit_src n l = (r, o) ->
    forall e, In e o -> is_gone e = false /\ is_dereg e = false.
  Proof.
    revert r o. induction l as [|x l IH]; simpl; intros r o H.
    - injection H as <- <-. intros e [].
    - destruct (Nat.eqb (s_op x) n).
      + destruct (live x); injection H as <- <-; [intros e [<-|[]]; auto|intros e []].
      + destruct (emit_src n l) as [r' o']. injection H as <- <-. eapply IH. reflexivity.
  Qed.
  Lemma end_src_out n l r o : end_src n l = (r, o) ->
    forall e, In e o -> is_gone e = false /\ is_dereg e = false.
  Proof.
    revert r o. induction l as [|x l IH]; simpl; intros r o H.
    - injection H as <- <-. intros e [].
    - destruct (Nat.eqb (s_op x) n).
      + destruct (s_ended x); injection H as <- <-; [intros e []|].
        intros e [<-|He]; [auto|]. destruct (live x); [destruct He as [<-|[]]; auto|destruct He].
      + destruct (end_src n l) as [r' o']. injection H as <- <-. eapply IH. reflexivity.
  Qed.
  Lemma handle_stop_out s id s' o : handle_stop s id = (s', o) ->
    closed s' = closed s /\ registered s' = registered s /\ count is_gone o = 0 /\ count is_dereg o = 0.
  Proof.
    unfold handle_stop. destruct (lookup id (subs s)).
    - destruct (stop_src n (srcs s)) as [l o'] eqn:S. intro H. injection H as <- <-. simpl.
      destruct (stop_src_out _ _ _ _ S) as (_ & B & C). auto.
    - intro H. injection H as <- <-. auto.
  Qed.
  Lemma handle_start_out s id d s' o : handle_start ks s id d = (s', o) ->
    closed s' = closed s /\ registered s' = registered s /\ count is_gone o = 0 /\ count is_dereg o = 0.
  Proof.
    assert (R : forall s1 o1, release_ended ks s id = (s1, o1) ->
                closed s1 = closed s /\ registered s1 = registered s /\ count is_gone o1 = 0 /\ count is_dereg o1 = 0).
    { intros s1 o1 H. destruct (release_ended_cases _ _ _ _ _ H) as [[-> ->]|(HS & _)]; [auto|].
      now apply handle_stop_out in HS. }
    unfold handle_start. destruct d; try (intro H; injection H as <- <-; auto).
    - destruct (release_ended ks s id) as [s1 o1] eqn:E. destruct (R _ _ eq_refl) as (A & B & C & D).
      destruct (lookup id (subs s1)); intro H; injection H as <- <-; simpl; repeat split; auto;
        change (VStart (clock s) id DSub :: ?x) with ([VStart (clock s) id DSub] ++ x); rewrite !count_app, ?C, ?D; reflexivity.
    - destruct (release_ended ks s id) as [s1 o1] eqn:E. destruct (R _ _ eq_refl) as (A & B & C & D).
      destruct (lookup id (subs s1)); intro H; injection H as <- <-; simpl; repeat split; auto;
        change (VStart (clock s) id DSubFail :: ?x) with ([VStart (clock s) id DSubFail] ++ x); rewrite !count_app, ?C, ?D; reflexivity.
  Qed.

  Theorem reach_begun s t : reach pc ks ke p s t -> existsb is_begin t = begunb s.
  Proof.
    induction 1 as [|s t l s' o R IH St]; [reflexivity|].
    unfold step in St. destruct (react pc ks ke p s l) as [s1 o1] eqn:Re. injection St as <- <-.
    change (begunb (tick s1)) with (begunb s1). rewrite existsb_app, IH.
    unfold react in Re. destruct (closed s); [injection Re as <- <-; simpl; apply orb_false_r|].
    destruct l as [f|n|n|e|].
    - pose proof (handle_nb pc ks p s f) as A. destruct (handle pc ks p s f) as [s2 o2]. injection Re as <- <-.
      simpl in *. symmetry. exact A.
    - pose proof (emit_src_nb n (srcs s)) as A. destruct (emit_src n (srcs s)) as [r o2]. injection Re as <- <-.
      simpl in *. rewrite A. apply orb_false_r.
    - pose proof (end_src_nb n (srcs s)) as A. destruct (end_src n (srcs s)) as [r o2]. injection Re as <- <-.
      simpl in *. rewrite A. apply orb_false_r.
    - destruct (begin_closing_nb (end_code e) s) as [A B].
      destruct (begin_closing (end_code e) s) as [s2 o2]. simpl in A, B. unfold handle_close in Re.
      pose proof (stop_all_nb (subs s2) (srcs s2)) as C. destruct (stop_all (subs s2) (srcs s2)) as [l3 o3].
      injection Re as <- <-. simpl in C. rewrite !existsb_app. simpl. rewrite existsb_app, B, C. simpl.
      unfold begunb in *. simpl. rewrite A. destruct (closing s); reflexivity.
    - injection Re as <- <-. destruct p; [destruct (did_init s || ke)|]; simpl; apply orb_false_r.
  Qed.

  Theorem reach_inv s t : reach pc ks ke p s t -> Inv s t /\ CloseInv s t.
  Proof.
    induction 1 as [|s t l s' o R [I C] St].
    - split.
      + constructor; simpl; try (intros; contradiction); try constructor.
      + split; simpl; [auto|discriminate].
    - unfold step in St. destruct (react pc ks ke p s l) as [s1 o1] eqn:Re. injection St as <- <-.
      unfold Inv. change (clock (tick s1)) with (S (clock s1)). change (subs (tick s1)) with (subs s1).
      change (srcs (tick s1)) with (srcs s1).
      assert (CI : closed (tick s1) = closed s1 /\ registered (tick s1) = registered s1) by (split; reflexivity).
      unfold CloseInv. destruct CI as [-> ->]. change (subs (tick s1)) with (subs s1).
      unfold react in Re. destruct (closed s) eqn:Cl.
      { injection Re as <- <-. rewrite app_nil_r. split; [apply (inv_weaken (clock s)); [exact I|lia]|].
        exact C. }
      destruct C as [C0 _]. destruct (C0 Cl) as (Rg & G0 & D0).
      assert (Keep : forall o', closed s1 = false -> registered s1 = true -> count is_gone o' = 0 -> count is_dereg o' = 0 ->
                     (closed s1 = false -> registered s1 = true /\ count is_gone (t ++ o') = 0 /\ count is_dereg (t ++ o') = 0) /\
                     (closed s1 = true -> registered s1 = false /\ subs s1 = [] /\ count is_gone (t ++ o') = 1 /\ count is_dereg (t ++ o') = 1 /\
                        existsb is_dereg (live_part (t ++ o')) = false /\ forallb after_gone_ok (after_gone (t ++ o')) = true)).
      { intros o' A B X Y. split; [intros _; rewrite !count_app, G0, D0, X, Y; auto|congruence]. }
      destruct l as [f|n|n|e|].
      + (* a client frame *)
        destruct (handle pc ks p s f) as [s2 o2] eqn:H. injection Re as <- <-.
        assert (I' : InvC (clock s) (subs s) (srcs s) (t ++ [VRecv f])).
        { apply inv_neutral; [exact I|]. intros e [<-|[]]. reflexivity. }
        replace (t ++ VRecv f :: o2) with ((t ++ [VRecv f]) ++ o2) by (rewrite <- app_assoc; reflexivity).
        destruct (handle_cases _ _ _ _ _ _ _ H) as [(A & B & Ck & D & E & F)|[(id & d & DI & HS)|(id & DI & HS)]].
        * split.
          -- rewrite A, B, Ck. apply (inv_weaken (clock s)); [|lia]. apply inv_neutral; [exact I'|]. intros e He. now apply F.
          -- rewrite <- app_assoc. apply Keep; try congruence.
             ++ apply count_none. intros e [<-|He]; [reflexivity|]. now apply F.
             ++ apply count_none. intros e [<-|He]; [reflexivity|]. now apply F.
        * assert (Bg : existsb is_begin (t ++ [VRecv f]) = begunb s).
          { rewrite existsb_app, (reach_begun _ _ R). simpl. apply orb_false_r. }
          destruct (handle_start_inv ks s id d s2 o2 (t ++ [VRecv f]) I' Bg HS) as [J Ck].
          destruct (handle_start_out _ _ _ _ _ HS) as (A & B & X & Y).
          split; [rewrite Ck; exact J|]. rewrite <- app_assoc. apply Keep; try congruence.
          -- change (VRecv f :: o2) with ([VRecv f] ++ o2). rewrite count_app, X. reflexivity.
          -- change (VRecv f :: o2) with ([VRecv f] ++ o2). rewrite count_app, Y. reflexivity.
        * destruct (handle_stop_inv _ _ _ _ _ _ I' HS) as (J & Ck & _).
          destruct (handle_stop_out _ _ _ _ HS) as (A & B & X & Y).
          split; [rewrite Ck; apply (inv_weaken (clock s)); [exact J|lia]|]. rewrite <- app_assoc. apply Keep; try congruence.
          -- change (VRecv f :: o2) with ([VRecv f] ++ o2). rewrite count_app, X. reflexivity.
          -- change (VRecv f :: o2) with ([VRecv f] ++ o2). rewrite count_app, Y. reflexivity.
      + (* a source event *)
        destruct (emit_src n (srcs s)) as [r o2] eqn:E. injection Re as <- <-. simpl. split.
        * apply (inv_weaken (clock s)); [|lia]. eapply inv_emit; eauto.
        * apply Keep; auto; apply count_none; intros e He; now apply (emit_src_out _ _ _ _ E).
      + (* the end of a source *)
        destruct (end_src n (srcs s)) as [r o2] eqn:E. injection Re as <- <-. simpl. split.
        * apply (inv_weaken (clock s)); [|lia]. eapply inv_srcend; eauto.
        * apply Keep; auto; apply count_none; intros e He; now apply (end_src_out _ _ _ _ E).
      + (* the connection ends *)
        destruct (begin_closing (end_code e) s) as [s2 o2] eqn:B.
        destruct (begin_closing_neutral _ _ _ _ B) as (A1 & A2 & A3 & A4 & A5 & A6 & A7).
        unfold handle_close in Re. rewrite A1, A2 in Re.
        destruct (stop_all (subs s) (srcs s)) as [l3 o3] eqn:SA. injection Re as <- <-. simpl.
        destruct (stop_all_out _ _ _ _ SA) as (X1 & X2 & X3).
        assert (N2 : forall e0, In e0 (o2 ++ [VGone]) -> ev_op e0 = None).
        { intros e0 He. apply in_app_or in He as [He|[<-|[]]]; [|reflexivity]. destruct A7 as [->| ->]; [destruct He|].
          destruct He as [<-|[]]. reflexivity. }
        split.
        * rewrite A3. apply (inv_weaken (clock s)); [|lia].
          replace (t ++ o2 ++ VGone :: o3 ++ [VDeregister]) with (((t ++ (o2 ++ [VGone])) ++ o3) ++ [VDeregister])
            by (rewrite <- !app_assoc; reflexivity).
          apply inv_neutral; [|intros e0 [<-|[]]; reflexivity].
          eapply inv_stop_all; [|exact SA]. apply inv_neutral; [exact I|exact N2].
        * split; [discriminate|]. intros _.
          assert (G2 : count is_gone o2 = 0 /\ count is_dereg o2 = 0).
          { destruct A7 as [->| ->]; auto. }
          destruct G2 as [G2 D2].
          replace (t ++ o2 ++ VGone :: o3 ++ [VDeregister]) with ((t ++ o2) ++ VGone :: o3 ++ [VDeregister])
            by (rewrite <- !app_assoc; reflexivity).
          assert (G3 : count is_gone (t ++ o2) = 0) by (rewrite count_app; lia).
          repeat split; auto.
          -- rewrite count_app, G3. change (VGone :: o3 ++ [VDeregister]) with ([VGone] ++ o3 ++ [VDeregister]).
             rewrite !count_app, X2. reflexivity.
          -- rewrite !count_app, D0, D2. change (VGone :: o3 ++ [VDeregister]) with ([VGone] ++ o3 ++ [VDeregister]).
             rewrite !count_app, X3. reflexivity.
          -- rewrite live_part_nogone by exact G3. simpl. rewrite app_nil_r.
             rewrite existsb_count, count_app, D0, D2. reflexivity.
          -- rewrite after_gone_nogone by exact G3. simpl. rewrite forallb_app, X1. reflexivity.
      + (* a keep-alive tick *)
        injection Re as <- <-.
        assert (N : forall e0, In e0 (VTick :: match p with
                                               | PWs => if did_init s || ke then [VSend SKa None] else []
                                               | PTws => [VSend SPong None] end) ->
                    ev_op e0 = None /\ is_gone e0 = false /\ is_dereg e0 = false).
        { intros e0 [<-|He]; [auto|]. destruct p; [destruct (did_init s || ke)|]; simpl in He; try contradiction;
            destruct He as [<-|[]]; auto. }
        split.
        * apply (inv_weaken (clock s)); [|lia]. apply inv_neutral; [exact I|]. intros e0 He. now apply N.
        * apply Keep; auto; apply count_none; intros e0 He; now apply N.
  Qed.
End Main2.

(** ** from the invariant to the rules of the Spec *)

(** events j+1 .. j+k, head first *)
Fixpoint evs_from (id : N) (n j k : nat) : list sframe :=
  match k with 0 => [] | S k' => SData id (CEv n (S j)) :: evs_from id n (S j) k' end.
Lemma evs_from_snoc id n k : forall j, evs_from id n j (S k) = evs_from id n j k ++ [SData id (CEv n (S (j + k)))].
Proof.
  induction k as [|k IH]; intro j; simpl.
  - now rewrite Nat.add_0_r.
  - f_equal. specialize (IH (S j)). simpl in IH. rewrite IH. now rewrite Nat.add_succ_r.
Qed.
Lemma evs_is_from id n k : evs id n k = evs_from id n 0 k.
Proof. induction k as [|k IH]; [reflexivity|]. rewrite evs_from_snoc. simpl. now rewrite IH. Qed.

Lemma chk_sub_frames_evs id n c tl k : forall j,
  chk_sub_frames id n (j + k) c tl = true -> chk_sub_frames id n j c (evs_from id n j k ++ tl) = true.
Proof.
  induction k as [|k IH]; intros j H; simpl.
  - now rewrite Nat.add_0_r in H.
  - rewrite N.eqb_refl, !Nat.eqb_refl. simpl. apply IH. now rewrite Nat.add_succ_r in H.
Qed.

Lemma existsb_live_part P t : existsb P (live_part t) = true -> existsb P t = true.
Proof.
  induction t as [|e t IH]; simpl; [auto|].
  destruct e; simpl; intro H; try discriminate; apply orb_true_iff in H as [H|H]; rewrite ?H, ?orb_true_r; auto;
    rewrite IH by exact H; apply orb_true_r.
Qed.

Lemma stopped_or_ended_counts n t :
  stopped_or_ended n t = Nat.ltb 0 (count (is_stop n) t + count (is_srcend n) t).
Proof.
  unfold stopped_or_ended. induction t as [|e t IH]; [reflexivity|]. simpl. rewrite IH. unfold count. simpl.
  destruct (is_stop n e) eqn:A; destruct (is_srcend n e) eqn:B; simpl; try reflexivity.
  rewrite Nat.add_succ_r. reflexivity.
Qed.

Lemma subscribed_has_source c m l t n :
  InvC c m l t -> 0 < count (is_subscribe n) t + count (is_stop n) t + count (is_srcend n) t ->
  exists x, In x l /\ s_op x = n.
Proof.
  intros I H.
  assert (exists e, In e t /\ ev_op e = Some n) as (e & He & Eo).
  { assert (X : 0 < count (is_subscribe n) t \/ 0 < count (is_stop n) t \/ 0 < count (is_srcend n) t) by lia.
    destruct X as [X|[X|X]]; apply count_pos_iff in X as (e & He & Pe); exists e; split; auto;
      destruct e; simpl in Pe; try discriminate; apply Nat.eqb_eq in Pe; now subst. }
  pose proof (i_owner _ _ _ _ I e n He Eo) as St. apply count_pos_iff in St as (e' & He' & Pe').
  destruct e'; simpl in Pe'; try discriminate. apply Nat.eqb_eq in Pe'. subst n0.
  pose proof (i_started _ _ _ _ I n id d He') as SO. unfold start_ok in SO.
  destruct d; try (unfold view in SO; injection SO as _ _ E3 _ E5 E6 _; lia).
  - destruct SO as [(x & Hx & Ex & _)|SO]; [eauto|]. unfold view in SO. injection SO as _ _ E3 _ E5 E6 _. lia.
  - destruct SO as [SO|SO]; unfold view in SO; injection SO as _ _ E3 _ E5 E6 _; lia.
Qed.

Definition well_owned (e : ev) : bool :=
  match e with
  | VSend (SData _ _) None | VSend (SComplete _) None => false
  | VSend SAck (Some _) | VSend SKa (Some _) | VSend SConnError (Some _) | VSend SPong (Some _) => false
  | _ => true
  end.

Theorem inv_chk_ops c m l t : InvC c m l t -> forallb well_owned t = true -> chk_ops t = true.
Proof.
  intros I WO. unfold chk_ops. apply forallb_forall. intros e He.
  assert (Own : forall n, ev_op e = Some n -> existsb (is_start n) t = true).
  { intros n E. rewrite existsb_count. apply Nat.ltb_lt. eapply i_owner; eauto. }
  assert (Src : forall n, ev_op e = Some n -> (is_stop n e = true \/ is_srcend n e = true) -> Nat.ltb 0 (count (is_subscribe n) t) = true).
  { intros n E P. apply Nat.ltb_lt.
    destruct (subscribed_has_source _ _ _ _ n I) as (x & Hx & Ex).
    - assert (0 < count (is_stop n) t + count (is_srcend n) t); [|lia].
      destruct P as [P|P]; [assert (0 < count (is_stop n) t)|assert (0 < count (is_srcend n) t)]; try lia;
        apply count_pos_iff; eauto.
    - destruct (i_src _ _ _ _ I x Hx) as (_ & _ & V). unfold view in V. rewrite Ex in V. injection V as _ _ E3 _ _ _ _. lia. }
  destruct e as [f|f [k|]|b|n id d|n|n|n|n|n|z| | |]; simpl; auto;
    try (apply Own; reflexivity); try (apply Src; [reflexivity|simpl; rewrite Nat.eqb_refl; auto]).
  - (* owned frame *) destruct f; try (apply Own; reflexivity);
      apply (proj1 (forallb_forall _ _) WO) in He; discriminate.
  - (* unowned frame *) destruct f; auto; apply (proj1 (forallb_forall _ _) WO) in He; discriminate.
  - (* a start *)
    pose proof (i_started _ _ _ _ I n id d He) as SO. unfold start_ok, start_okb in SO.
    destruct d.
    + unfold view in SO. injection SO as -> -> -> -> _ _ Ow. unfold answered, exec_class. rewrite Ow. simpl.
      rewrite ?N.eqb_refl, ?dclass_eqb_refl, ?Nat.eqb_refl. reflexivity.
    + unfold view in SO. injection SO as -> -> -> -> _ _ Ow. unfold answered, exec_class. rewrite Ow. simpl.
      rewrite ?N.eqb_refl, ?dclass_eqb_refl, ?Nat.eqb_refl. reflexivity.
    + destruct SO as [(x & Hx & Ex & Eid)|SO].
      * destruct (i_src _ _ _ _ I x Hx) as (_ & B & V). rewrite Ex, Eid in V. unfold view in V.
        injection V as -> -> -> -> Es Ee Ow. simpl. rewrite Ow, evs_is_from.
        apply chk_sub_frames_evs. unfold tail_of, completion.
        assert (SE : stopped_or_ended n t = negb (live x)).
        { rewrite stopped_or_ended_counts, Es, Ee. unfold live.
          destruct (s_stops x) as [|k]; destruct (s_ended x); reflexivity. }
        destruct (live x) eqn:Lv; simpl in SE.
        -- destruct (stopped_or_ended n (live_part t)) eqn:X.
           ++ apply existsb_live_part in X. unfold stopped_or_ended in SE. congruence.
           ++ rewrite SE. reflexivity.
        -- rewrite SE. destruct (stopped_or_ended n (live_part t)); cbn [chk_sub_frames]; rewrite Eid, N.eqb_refl; reflexivity.
      * unfold view in SO. injection SO as -> -> -> -> _ _ ->. reflexivity.
    + destruct SO as [SO|SO]; unfold view in SO; injection SO as -> -> -> -> _ _ Ow; simpl; [|now rewrite Ow].
      unfold answered. rewrite Ow. simpl. now rewrite N.eqb_refl.
    + unfold view in SO. injection SO as -> -> -> -> _ _ Ow. unfold answered. rewrite Ow. simpl.
      now rewrite N.eqb_refl.
Qed.

Theorem inv_chk_stops s t : Inv s t -> CloseInv s t -> chk_stops t = true.
Proof.
  intros I [C0 C1]. unfold chk_stops. apply forallb_forall. intros e He.
  destruct e; simpl; auto.
  destruct (subscribed_has_source _ _ _ _ n I) as (x & Hx & Ex).
  { assert (0 < count (is_subscribe n) t); [|lia]. apply count_pos_iff. exists (VSubscribe n). split; [exact He|].
    simpl. apply Nat.eqb_refl. }
  destruct (i_src _ _ _ _ I x Hx) as (_ & B & V). unfold view in V. rewrite Ex in V. injection V as _ _ _ _ Es _ _.
  rewrite Es. destruct (existsb is_dereg t) eqn:D.
  - apply Nat.eqb_eq. destruct (closed s) eqn:Cl.
    + destruct (C1 eq_refl) as (_ & Sb & _).
      destruct (Nat.eq_dec (s_stops x) 0) as [Z|Z]; [|lia].
      pose proof (i_unstopped _ _ _ _ I x Hx Z) as X. rewrite Sb in X. destruct X.
    + destruct (C0 eq_refl) as (_ & _ & D0). rewrite existsb_count, D0 in D. discriminate.
  - now apply Nat.leb_le.
Qed.

Theorem inv_chk_dereg s t : CloseInv s t -> chk_dereg t = true.
Proof.
  intros [C0 C1]. unfold chk_dereg. destruct (closed s) eqn:Cl.
  - destruct (C1 eq_refl) as (_ & _ & G & D & L & A). rewrite existsb_count, G, D, L, A. reflexivity.
  - destruct (C0 eq_refl) as (_ & G & D). rewrite existsb_count, G, D. reflexivity.
Qed.

(** ** the shape of what one step puts on the trace *)

(** events of operations, each with an owner *)
Definition opish (e : ev) : bool :=
  match e with
  | VSend (SData _ _) (Some _) | VSend (SComplete _) (Some _)
  | VStart _ _ _ | VExec _ | VSubscribe _ | VSubFail _ | VSrcEnd _ | VStop _ => true
  | _ => false
  end.

Lemma stop_src_opish n l l' o : stop_src n l = (l', o) -> forallb opish o = true.
Proof.
  revert l' o. induction l as [|x l IH]; simpl; intros l' o H.
  - now injection H as <- <-.
  - destruct (Nat.eqb (s_op x) n).
    + injection H as <- <-. destruct (live x); reflexivity.
    + destruct (stop_src n l) as [r o']. injection H as <- <-. eapply IH. reflexivity.
Qed.
Lemma emit_src_opish n l l' o : emit_src n l = (l', o) -> forallb opish o = true.
Proof.
  revert l' o. induction l as [|x l IH]; simpl; intros l' o H.
  - now injection H as <- <-.
  - destruct (Nat.eqb (s_op x) n).
    + destruct (live x); injection H as <- <-; reflexivity.
    + destruct (emit_src n l) as [r o']. injection H as <- <-. eapply IH. reflexivity.
Qed.
Lemma end_src_opish n l l' o : end_src n l = (l', o) -> forallb opish o = true.
Proof.
  revert l' o. induction l as [|x l IH]; simpl; intros l' o H.
  - now injection H as <- <-.
  - destruct (Nat.eqb (s_op x) n).
    + destruct (s_ended x); injection H as <- <-; [reflexivity|]. destruct (live x); reflexivity.
    + destruct (end_src n l) as [r o']. injection H as <- <-. eapply IH. reflexivity.
Qed.
Lemma stop_all_opish m : forall l l' o, stop_all m l = (l', o) -> forallb opish o = true.
Proof.
  induction m as [|[id n] m IH]; simpl; intros l l' o H.
  - now injection H as <- <-.
  - destruct (stop_src n l) as [l1 o1] eqn:S1. destruct (stop_all m l1) as [l2 o2] eqn:S2. injection H as <- <-.
    rewrite forallb_app, (stop_src_opish _ _ _ _ S1), (IH _ _ _ S2). reflexivity.
Qed.
Lemma handle_stop_opish s id s' o : handle_stop s id = (s', o) -> forallb opish o = true /\ did_init s' = did_init s.
Proof.
  unfold handle_stop. destruct (lookup id (subs s)).
  - destruct (stop_src n (srcs s)) as [l o'] eqn:S. intro H. injection H as <- <-. split; [|reflexivity].
    eapply stop_src_opish; eauto.
  - intro H. injection H as <- <-. auto.
Qed.
Lemma handle_start_opish ks s id d s' o :
  handle_start ks s id d = (s', o) -> forallb opish o = true /\ did_init s' = did_init s.
Proof.
  assert (R : forall s1 o1, release_ended ks s id = (s1, o1) -> forallb opish o1 = true /\ did_init s1 = did_init s).
  { intros s1 o1 H. destruct (release_ended_cases _ _ _ _ _ H) as [[-> ->]|(HS & _)]; [auto|].
    now apply handle_stop_opish in HS. }
  unfold handle_start. destruct d; try (intro H; injection H as <- <-; auto).
  - destruct (release_ended ks s id) as [s1 o1] eqn:E. destruct (R _ _ eq_refl) as [A B].
    destruct (lookup id (subs s1)); intro H; injection H as <- <-; simpl; rewrite ?forallb_app, A; auto.
  - destruct (release_ended ks s id) as [s1 o1] eqn:E. destruct (R _ _ eq_refl) as [A B].
    destruct (lookup id (subs s1)); intro H; injection H as <- <-; simpl; rewrite ?forallb_app, A; auto.
Qed.

Definition answers_ping (pc : bool) (p : proto) (f : cframe) : bool :=
  match p, f with PTws, Msg TPing _ _ => negb pc | _, _ => false end.
Definition ka (p : proto) : list ev := match p with PWs => [VSend SKa None] | PTws => [] end.
Definition connerr (p : proto) : list ev := match p with PWs => [VSend SConnError None] | PTws => [] end.
Definition is_bc (o : list ev) : Prop := o = [] \/ exists c, o = [VBeginClose c].

Inductive hshape (pc ks : bool) (p : proto) (f : cframe) (s s' : st) (o : list ev) : Prop :=
| hs_quiet : did_init s' = did_init s -> subs s' = subs s -> srcs s' = srcs s -> is_bc o ->
             answers_ping pc p f = false -> hshape pc ks p f s s' o
| hs_accept : did_init s' = true -> subs s' = subs s -> srcs s' = srcs s ->
              o = VInit true :: VSend SAck None :: ka p -> answers_ping pc p f = false ->
              (exists id pl, f = Msg TInit id pl /\ init_ok pl = true) -> hshape pc ks p f s s' o
| hs_reject bc : did_init s' = did_init s -> subs s' = subs s -> srcs s' = srcs s -> is_bc bc ->
                 o = VInit false :: connerr p ++ bc -> answers_ping pc p f = false -> hshape pc ks p f s s' o
| hs_pong : did_init s' = did_init s -> subs s' = subs s -> srcs s' = srcs s ->
            o = [VSend SPong None] -> answers_ping pc p f = true -> hshape pc ks p f s s' o
| hs_start id d : did_init s = true -> handle_start ks s id d = (s', o) -> answers_ping pc p f = false -> hshape pc ks p f s s' o
| hs_stop id : did_init s = true -> handle_stop s id = (s', o) -> answers_ping pc p f = false -> hshape pc ks p f s s' o.

Lemma handle_shape pc ks p s f s' o : handle pc ks p s f = (s', o) -> hshape pc ks p f s s' o.
Proof.
  assert (BC : forall code s1 o1, begin_closing code s = (s1, o1) ->
               did_init s1 = did_init s /\ subs s1 = subs s /\ srcs s1 = srcs s /\ is_bc o1).
  { intros code s1 o1 H. destruct (begin_closing_neutral _ _ _ _ H) as (A & B & _ & D & _ & _ & F).
    repeat split; auto. destruct F as [->| ->]; [now left|right; eauto]. }
  destruct p; destruct f as [|ty id pl]; simpl.
  - intro H. injection H as <- <-. apply hs_quiet; auto; try reflexivity; try congruence. now left.
  - destruct ty; try (intro H; injection H as <- <-; apply hs_quiet; auto; try reflexivity; try congruence; now left).
    + destruct (init_ok pl) eqn:IO.
      * intro H. injection H as <- <-. apply hs_accept; eauto; reflexivity.
      * destruct (begin_closing 1011 s) as [s1 o1] eqn:B. intro H. injection H as <- <-.
        destruct (BC _ _ _ B) as (A1 & A2 & A3 & A4). eapply hs_reject; eauto; reflexivity.
    + intro H. destruct (BC _ _ _ H) as (A1 & A2 & A3 & A4). apply hs_quiet; auto; try reflexivity; try congruence.
    + destruct (did_init s) eqn:DI.
      * destruct (decode_start pl) as [d|].
        -- intro H. eapply hs_start; eauto; reflexivity.
        -- intro H. injection H as <- <-. apply hs_quiet; auto; try reflexivity; try congruence. now left.
      * intro H. injection H as <- <-. apply hs_quiet; auto; try reflexivity; try congruence. now left.
    + destruct (did_init s) eqn:DI.
      * intro H. eapply hs_stop; eauto; reflexivity.
      * intro H. injection H as <- <-. apply hs_quiet; auto; try reflexivity; try congruence. now left.
  - intro H. destruct (BC _ _ _ H) as (A1 & A2 & A3 & A4). apply hs_quiet; auto; try reflexivity; try congruence.
  - destruct ty; try (intro H; destruct (BC _ _ _ H) as (A1 & A2 & A3 & A4); apply hs_quiet; auto; try reflexivity; try congruence).
    + destruct (init_ok pl) eqn:IO.
      * intro H. injection H as <- <-. apply hs_accept; eauto; reflexivity.
      * destruct (begin_closing 4403 s) as [s1 o1] eqn:B. intro H. injection H as <- <-.
        destruct (BC _ _ _ B) as (A1 & A2 & A3 & A4). eapply hs_reject; eauto; reflexivity.
    + destruct (did_init s) eqn:DI.
      * destruct (decode_start pl) as [d|].
        -- intro H. eapply hs_start; eauto; reflexivity.
        -- intro H. destruct (BC _ _ _ H) as (A1 & A2 & A3 & A4). apply hs_quiet; auto; try reflexivity; try congruence.
      * intro H. injection H as <- <-. apply hs_quiet; auto; try reflexivity; try congruence. now left.
    + destruct (did_init s) eqn:DI.
      * intro H. eapply hs_stop; eauto; reflexivity.
      * intro H. injection H as <- <-. apply hs_quiet; auto; try reflexivity; try congruence. now left.
    + destruct pc.
      * intro H. destruct (BC _ _ _ H) as (A1 & A2 & A3 & A4). apply hs_quiet; auto; try reflexivity; try congruence.
      * intro H. injection H as <- <-. apply hs_pong; auto; reflexivity.
    + intro H. injection H as <- <-. apply hs_quiet; auto; try reflexivity; try congruence. now left.
Qed.

(** ** connection-level rules: R1-R4 and the owners of frames *)
Lemma chk_acks_app t : forall k o, chk_acks k t = true -> chk_acks 0 o = true -> chk_acks k (t ++ o) = true.
Proof.
  induction t as [|e t IH]; intros k o H Ho; simpl in *.
  - apply Nat.eqb_eq in H. now subst.
  - destruct e as [f|f ow|b|n i d|n|n|n|n|n|z| | |]; auto.
    + destruct f; auto. destruct k; [discriminate|auto].
    + destruct b; auto.
Qed.
Lemma chk_pongs_app p t : forall k o, chk_pongs p k t = true -> chk_pongs p 0 o = true -> chk_pongs p k (t ++ o) = true.
Proof.
  induction t as [|e t IH]; intros k o H Ho; simpl in *.
  - apply Nat.eqb_eq in H. now subst.
  - destruct (is_ping p e); [auto|]. destruct (is_pong e); [|auto]. destruct k; [discriminate|auto].
Qed.

Lemma opish_acks o : forallb opish o = true -> chk_acks 0 o = true.
Proof.
  induction o as [|e o IH]; simpl; [reflexivity|]. intro H. apply andb_true_iff in H as [H1 H2].
  destruct e as [f|f ow|b|n i d|n|n|n|n|n|z| | |]; simpl in H1; try discriminate; auto.
  destruct f; try discriminate; auto.
Qed.
Lemma opish_pongs p o : forallb opish o = true -> chk_pongs p 0 o = true.
Proof.
  induction o as [|e o IH]; simpl; [reflexivity|]. intro H. apply andb_true_iff in H as [H1 H2].
  destruct e as [f|f ow|b|n i d|n|n|n|n|n|z| | |]; simpl in H1; try discriminate;
    try (destruct p; simpl; auto; fail).
  destruct f; try discriminate; destruct p; simpl; auto.
Qed.
Lemma opish_wo o : forallb opish o = true -> forallb well_owned o = true.
Proof.
  intro H. apply forallb_forall. intros e He. apply (proj1 (forallb_forall _ _) H) in He.
  destruct e as [f|f [k|]|b|n i d|n|n|n|n|n|z| | |]; simpl in *; try discriminate; auto; destruct f; try discriminate; auto.
Qed.
Lemma opish_op o : forallb opish o = true -> forallb is_op_event o = true.
Proof.
  intro H. apply forallb_forall. intros e He. apply (proj1 (forallb_forall _ _) H) in He.
  destruct e as [f|f [k|]|b|n i d|n|n|n|n|n|z| | |]; simpl in *; try discriminate; auto; destruct f; try discriminate; auto.
Qed.
Lemma chk_ack_first_after p a b : chk_ack_first p a = true -> In SAck a -> chk_ack_first p (a ++ b) = true.
Proof.
  induction a as [|f a IH]; simpl; [intros _ []|]. intros H [->|Hin]; [reflexivity|].
  destruct f; auto; simpl in *; try discriminate;
    try (apply andb_true_iff in H as [H1 H2]; rewrite H1; simpl; auto).
Qed.
Lemma chk_ack_first_before p a b : forallb (pre_ack_ok p) a = true -> chk_ack_first p (a ++ b) = chk_ack_first p b.
Proof.
  induction a as [|f a IH]; simpl; [reflexivity|]. intro H. apply andb_true_iff in H as [H1 H2].
  destruct f; simpl in H1; try discriminate; [|destruct p; try discriminate]; simpl; auto.
Qed.
Definition is_ack_ev (e : ev) : bool := match e with VSend SAck _ => true | _ => false end.
Lemma chk_noop_after a b : chk_no_op_before_ack a = true -> existsb is_ack_ev a = true -> chk_no_op_before_ack (a ++ b) = true.
Proof.
  induction a as [|e a IH]; simpl; [discriminate|]. intros H X.
  destruct e as [f|f ow|bb|n i d|n|n|n|n|n|z| | |]; simpl in *; try discriminate; auto.
  destruct f; simpl in *; try discriminate; auto.
Qed.
Lemma chk_noop_before a b : forallb (fun e => negb (is_op_event e) && negb (is_ack_ev e)) a = true ->
  chk_no_op_before_ack (a ++ b) = chk_no_op_before_ack b.
Proof.
  induction a as [|e a IH]; simpl; [reflexivity|]. intro H. apply andb_true_iff in H as [H1 H2].
  destruct e as [f|f ow|bb|n i d|n|n|n|n|n|z| | |]; simpl in *; try discriminate; auto.
  destruct f; simpl in *; try discriminate; auto.
Qed.

Definition AckInv (p : proto) (s : st) (t : list ev) : Prop :=
  if did_init s then
    In SAck (frames t) /\ chk_ack_first p (frames t) = true /\
    existsb is_ack_ev t = true /\ chk_no_op_before_ack t = true
  else
    forallb (pre_ack_ok p) (frames t) = true /\
    forallb (fun e => negb (is_op_event e) && negb (is_ack_ev e)) t = true /\
    srcs s = [] /\ subs s = [].

Record ConnInv (p : proto) (s : st) (t : list ev) : Prop := {
  c_wo : forallb well_owned t = true;
  c_acks : chk_acks 0 t = true;
  c_pongs : chk_pongs p 0 t = true;
  c_ack : AckInv p s t
}.

Lemma is_ping_answers p f : is_ping p (VRecv f) = answers_ping false p f.
Proof. destruct p, f as [|[] ? ?]; reflexivity. Qed.

Section Conn.
  Variable ks : bool.
  Variable p : proto.

  (** what one step appends, reduced to the four facts the connection-level rules need *)
  Lemma step_conn s l s' o :
    step false ks false p s l = (s', o) ->
    forallb well_owned o = true /\ chk_acks 0 o = true /\ chk_pongs p 0 o = true /\
    (if did_init s then
       did_init s' = true
     else
       if did_init s' then
         subs s' = [] -> exists pre post, o = pre ++ VSend SAck None :: post /\
           forallb (pre_ack_ok p) (frames pre) = true /\ forallb (fun e => negb (is_op_event e) && negb (is_ack_ev e)) pre = true /\
           forallb (fun e => negb (is_op_event e)) post = true /\ chk_ack_first p (frames (VSend SAck None :: post)) = true
       else
         (srcs s = [] -> subs s = [] ->
          forallb (pre_ack_ok p) (frames o) = true /\
          forallb (fun e => negb (is_op_event e) && negb (is_ack_ev e)) o = true /\ srcs s' = [] /\ subs s' = [])).
  Proof.
    unfold step. destruct (react false ks false p s l) as [s1 o1] eqn:Re. intro H. injection H as <- <-.
    change (did_init (tick s1)) with (did_init s1). change (subs (tick s1)) with (subs s1). change (srcs (tick s1)) with (srcs s1).
    unfold react in Re. destruct (closed s).
    { injection Re as <- <-. repeat split; auto. destruct (did_init s); auto. }
    destruct l as [f|n|n|e|].
    - destruct (handle false ks p s f) as [s2 o2] eqn:H. injection Re as <- <-.
      destruct (handle_shape _ _ _ _ _ _ _ H) as [A B C D E|A B C D E|bc A B C D E F|A B C D E|id d A B C|id A B C].
      + (* quiet *)
        assert (X : o2 = [] \/ exists c, o2 = [VBeginClose c]) by exact D.
        rewrite A, B, C. split; [|split; [|split]].
        * destruct X as [->|(c & ->)]; reflexivity.
        * destruct X as [->|(c & ->)]; reflexivity.
        * simpl. rewrite is_ping_answers, E. destruct X as [->|(c & ->)]; destruct p; reflexivity.
        * destruct (did_init s); [reflexivity|]. intros S1 S2. destruct X as [->|(c & ->)]; auto.
      + (* accepted init *)
        subst o2. rewrite A. split; [|split; [|split]].
        * destruct p; reflexivity.
        * destruct p; reflexivity.
        * simpl. rewrite is_ping_answers, E. destruct p; reflexivity.
        * destruct (did_init s); [reflexivity|]. intros _.
          exists [VRecv f; VInit true], (ka p). repeat split; destruct p; reflexivity.
      + (* rejected init *)
        subst o2. rewrite A, B, C. assert (X : bc = [] \/ exists c, bc = [VBeginClose c]) by exact D.
        split; [|split; [|split]].
        * destruct p, X as [->|(c & ->)]; reflexivity.
        * destruct p, X as [->|(c & ->)]; reflexivity.
        * simpl. rewrite is_ping_answers, F. destruct p, X as [->|(c & ->)]; reflexivity.
        * destruct (did_init s); [reflexivity|]. intros S1 S2. destruct p, X as [->|(c & ->)]; auto.
      + (* ping answered *)
        subst o2. rewrite A, B, C.
        destruct p; [destruct f as [|[] ? ?]; discriminate|].
        split; [|split; [|split]]; try reflexivity.
        * cbn [chk_pongs]. rewrite is_ping_answers, E. reflexivity.
        * destruct (did_init s); [reflexivity|]. intros S1 S2. auto.
      + (* HandleStart *)
        destruct (handle_start_opish _ _ _ _ _ _ B) as [Op DI]. rewrite DI, A. split; [|split; [|split]]; auto.
        * simpl. now apply opish_wo.
        * simpl. now apply opish_acks.
        * simpl. rewrite is_ping_answers, C. now apply opish_pongs.
      + (* HandleStop *)
        destruct (handle_stop_opish _ _ _ _ B) as [Op DI]. rewrite DI, A. split; [|split; [|split]]; auto.
        * simpl. now apply opish_wo.
        * simpl. now apply opish_acks.
        * simpl. rewrite is_ping_answers, C. now apply opish_pongs.
    - destruct (emit_src n (srcs s)) as [r o2] eqn:E. injection Re as <- <-. simpl.
      pose proof (emit_src_opish _ _ _ _ E) as Op. split; [now apply opish_wo|]. split; [now apply opish_acks|].
      split; [now apply opish_pongs|]. destruct (did_init s); [reflexivity|]. intros S1 S2. rewrite S1 in E. injection E as <- <-. auto.
    - destruct (end_src n (srcs s)) as [r o2] eqn:E. injection Re as <- <-. simpl.
      pose proof (end_src_opish _ _ _ _ E) as Op. split; [now apply opish_wo|]. split; [now apply opish_acks|].
      split; [now apply opish_pongs|]. destruct (did_init s); [reflexivity|]. intros S1 S2. rewrite S1 in E. injection E as <- <-. auto.
    - destruct (begin_closing (end_code e) s) as [s2 o2] eqn:B.
      destruct (begin_closing_neutral _ _ _ _ B) as (A1 & A2 & A3 & A4 & A5 & A6 & A7).
      unfold handle_close in Re. rewrite A1, A2 in Re.
      destruct (stop_all (subs s) (srcs s)) as [l3 o3] eqn:SA. injection Re as <- <-. simpl.
      pose proof (stop_all_opish _ _ _ _ SA) as Op. rewrite A4.
      assert (W : forall (P : ev -> bool), P (VBeginClose (end_code e)) = true -> P VGone = true -> P VDeregister = true ->
                  forallb P o3 = true -> forallb P (o2 ++ VGone :: o3 ++ [VDeregister]) = true).
      { intros P P1 P2 P3 P4. rewrite forallb_app. simpl. rewrite forallb_app, P2, P4. simpl. rewrite P3.
        destruct A7 as [->| ->]; simpl; rewrite ?P1; reflexivity. }
      split; [apply W; auto; now apply opish_wo|].
      split.
      { apply (chk_acks_app o2); [destruct A7 as [->| ->]; reflexivity|]. simpl.
        apply (chk_acks_app o3); [now apply opish_acks|reflexivity]. }
      split.
      { apply (chk_pongs_app p o2); [destruct A7 as [->| ->]; destruct p; reflexivity|].
        change (VGone :: o3 ++ [VDeregister]) with ([VGone] ++ o3 ++ [VDeregister]).
        apply (chk_pongs_app p [VGone]); [destruct p; reflexivity|].
        apply (chk_pongs_app p o3); [now apply opish_pongs|destruct p; reflexivity]. }
      destruct (did_init s); [reflexivity|]. intros S1 S2. rewrite S1, S2 in SA. simpl in SA. injection SA as <- <-.
      destruct A7 as [->| ->]; auto.
    - (* a keep-alive tick: a pong (graphql-transport-ws), a ka only after an accepted init (graphql-ws) *)
      injection Re as <- <-.
      destruct p; destruct (did_init s) eqn:DI; simpl;
        (split; [reflexivity|split; [reflexivity|split; [reflexivity|]]]); try reflexivity; intros S1 S2; auto.
  Qed.

  Theorem reach_conn s t : reach false ks false p s t -> ConnInv p s t.
  Proof.
    induction 1 as [|s t l s' o R [W A P K] St].
    - constructor; try reflexivity. unfold AckInv. simpl. auto.
    - destruct (step_conn _ _ _ _ St) as (W' & A' & P' & K').
      constructor.
      + now rewrite forallb_app, W, W'.
      + now apply chk_acks_app.
      + now apply chk_pongs_app.
      + unfold AckInv in *. destruct (did_init s) eqn:DI.
        * rewrite K'. destruct K as (K1 & K2 & K3 & K4). rewrite frames_app. repeat split.
          -- apply in_or_app. now left.
          -- now apply chk_ack_first_after.
          -- rewrite existsb_app, K3. reflexivity.
          -- now apply chk_noop_after.
        * destruct K as (K1 & K2 & K3 & K4). destruct (did_init s').
          -- assert (S' : subs s' = []).
             { (* the step that accepts an init does not touch the map *)
               unfold step in St. destruct (react false ks false p s l) as [s1 o1] eqn:Re. injection St as <- <-.
               change (subs (tick s1)) with (subs s1). clear K'.
               revert Re. unfold react. destruct (closed s); [intro X; injection X as <- <-; exact K4|].
               destruct l as [f|n|n|e|].
               - destruct (handle false ks p s f) as [s2 o2] eqn:H. intro X. injection X as <- <-.
                 destruct (handle_shape _ _ _ _ _ _ _ H) as [? B ? ? ?|? B ? ? ?|bc ? B ? ? ? ?|? B ? ? ?|id d A0 B ?|id A0 B ?]; congruence.
               - destruct (emit_src n (srcs s)). intro X. injection X as <- <-. exact K4.
               - destruct (end_src n (srcs s)). intro X. injection X as <- <-. exact K4.
               - destruct (begin_closing (end_code e) s) as [s2 o2]. unfold handle_close.
                 destruct (stop_all (subs s2) (srcs s2)). intro X. injection X as <- <-. reflexivity.
               - intro X. injection X as <- <-. exact K4. }
             destruct (K' S') as (pre & post & -> & Q1 & Q2 & Q3 & Q4).
             rewrite !frames_app. repeat split.
             ++ apply in_or_app. right. apply in_or_app. right. simpl. now left.
             ++ rewrite chk_ack_first_before by exact K1. rewrite chk_ack_first_before by exact Q1. exact Q4.
             ++ rewrite !existsb_app. simpl. now rewrite !orb_true_r.
             ++ rewrite chk_noop_before by exact K2. rewrite chk_noop_before by exact Q2. reflexivity.
          -- destruct (K' K3 K4) as (Q1 & Q2 & Q3 & Q4). rewrite frames_app, !forallb_app, K1, K2, Q1, Q2. auto.
  Qed.
End Conn.

(** ** R6: no subscription start is dropped (current code, [keep_stale = false]) *)
Definition IgnInv (t : list ev) : Prop :=
  forall pre e post n id d, t = pre ++ e :: post -> e = VStart n id d -> is_sublike d = true ->
    busy id pre = true \/ served n t = true.

Lemma served_app n a b : served n (a ++ b) = served n a || served n b.
Proof. unfold served. apply existsb_app. Qed.

Lemma chk_ignored_from_spec a whole : forall t pre0,
  (forall t1 e t2 id, t = t1 ++ e :: t2 -> ignored_start whole e = Some id -> busy id (pre0 ++ t1) = true) ->
  chk_ignored_from a whole pre0 t = true.
Proof.
  induction t as [|e t IH]; intros pre0 H; simpl; [reflexivity|].
  apply andb_true_iff. split.
  - destruct (ignored_start whole e) as [id|] eqn:E; [|reflexivity].
    rewrite <- (app_nil_r pre0). rewrite (H [] e t id eq_refl E). reflexivity.
  - apply IH. intros t1 e' t2 id Et Ig. rewrite <- app_assoc. simpl.
    apply (H (e :: t1) e' t2 id); [simpl; now rewrite Et|exact Ig].
Qed.

Lemma ign_chk a t : IgnInv t -> chk_ignored a t = true.
Proof.
  intro I. unfold chk_ignored. apply chk_ignored_from_spec. intros t1 e t2 id Et Ig. simpl.
  unfold ignored_start in Ig. destruct e as [f|f ow|b|n i d|n|n|n|n|n|z| | |]; try discriminate.
  destruct (is_sublike d) eqn:Sl; [|discriminate]. destruct (served n t) eqn:Sv; [discriminate|].
  simpl in Ig. injection Ig as ->.
  destruct (I t1 _ t2 n id d Et eq_refl Sl) as [B|S]; [exact B|congruence].
Qed.

Lemma no_complete_in_evs id n k : existsb (fun f => match f with SComplete _ => true | _ => false end) (evs id n k) = false.
Proof. induction k as [|k IH]; [reflexivity|]. simpl. rewrite existsb_app, IH. reflexivity. Qed.

Lemma complete_of_owned k t :
  existsb (is_complete_of k) t = existsb (fun f => match f with SComplete _ => true | _ => false end) (owned k t).
Proof.
  induction t as [|e t IH]; [reflexivity|]. simpl. unfold owned in *. simpl. rewrite existsb_app, <- IH.
  f_equal. destruct e as [f|f [m|]|b|n i d|n|n|n|n|n|z| | |]; simpl; try reflexivity.
  - destruct (Nat.eqb m k); destruct f; reflexivity.
  - destruct f; reflexivity.
Qed.

Lemma busy_of_live c m l t x :
  InvC c m l t -> In x l -> live x = true -> busy (s_id x) t = true.
Proof.
  intros I Hx Lv. destruct (i_src _ _ _ _ I x Hx) as (A & B & V). unfold view in V.
  injection V as _ _ E3 _ _ _ Ow. unfold busy. apply existsb_exists.
  exists (VStart (s_op x) (s_id x) DSub). split; [exact A|]. rewrite N.eqb_refl. simpl.
  rewrite existsb_count, E3. simpl. rewrite complete_of_owned, Ow. unfold tail_of. rewrite Lv, app_nil_r.
  now rewrite no_complete_in_evs.
Qed.

Lemma handle_stop_nostart s id s' o : handle_stop s id = (s', o) -> forall e n i d, In e o -> e <> VStart n i d.
Proof.
  intros H e n i d He ->. unfold handle_stop in H. destruct (lookup id (subs s)).
  - destruct (stop_src n0 (srcs s)) as [l o'] eqn:S. injection H as <- <-.
    destruct (stop_src_out _ _ _ _ S) as (A & _). apply (proj1 (forallb_forall _ _) A) in He. discriminate.
  - injection H as <- <-. destruct He.
Qed.

Lemma handle_start_served_or_busy c s id d s' o t :
  InvC c (subs s) (srcs s) t -> handle_start false s id d = (s', o) -> is_sublike d = true ->
  exists o', o = VStart (clock s) id d :: o' /\ (forall e n i d', In e o' -> e <> VStart n i d') /\
             (served (clock s) o' = true \/ busy id t = true).
Proof.
  intros I H Sl.
  assert (R : forall s1 o1, release_ended false s id = (s1, o1) ->
              (forall e n i d', In e o1 -> e <> VStart n i d') /\
              (forall k, lookup id (subs s1) = Some k -> busy id t = true)).
  { intros s1 o1 E. destruct (release_ended_cases _ _ _ _ _ E) as [[-> ->]|(HS & LN & _)].
    - split; [intros e n i d' []|]. intros k L.
      unfold release_ended in E. rewrite L in E. rewrite andb_true_r in E.
      destruct (src_ended k (srcs s)) eqn:SE.
      + exfalso. destruct (stop_src k (srcs s)) as [l' o'] eqn:S. injection E as E _.
        apply (f_equal subs) in E. simpl in E.
        destruct (lookup_some _ _ _ L) as (m1 & m2 & Em & Hm1).
        rewrite Em in E at 1. rewrite remove_id_split in E; [|exact Hm1|rewrite <- Em; exact (i_keys _ _ _ _ I)].
        rewrite Em in E. apply (f_equal (@List.length _)) in E. rewrite !app_length in E. simpl in E. lia.
      + destruct (lookup_some _ _ _ L) as (m1 & m2 & Em & _).
        destruct (i_subs _ _ _ _ I id k) as (x & Hx & Ex & Eid & Est); [rewrite Em; apply in_or_app; right; now left|].
        rewrite <- Eid. eapply busy_of_live; eauto. unfold live. rewrite Est. simpl.
        destruct (s_ended x) eqn:En; [|reflexivity]. exfalso.
        assert (src_ended k (srcs s) = true); [|congruence].
        unfold src_ended. apply existsb_exists. exists x. split; [exact Hx|]. rewrite Ex, Nat.eqb_refl, En. reflexivity.
    - split; [intros e n i d'; eapply handle_stop_nostart; eauto|]. intros k L. congruence. }
  unfold handle_start in H. destruct d; try discriminate.
  - destruct (release_ended false s id) as [s1 o1] eqn:E. destruct (R _ _ eq_refl) as [R1 R2].
    destruct (lookup id (subs s1)) as [k|] eqn:L; injection H as <- <-.
    + exists o1. split; [reflexivity|]. split; [exact R1|]. right. eapply R2. reflexivity.
    + exists (o1 ++ [VSubscribe (clock s)]). split; [reflexivity|]. split.
      * intros e n i d' He. apply in_app_or in He as [He|[<-|[]]]; [now apply R1|discriminate].
      * left. rewrite served_app. unfold served at 2. simpl. rewrite Nat.eqb_refl. apply orb_true_r.
  - destruct (release_ended false s id) as [s1 o1] eqn:E. destruct (R _ _ eq_refl) as [R1 R2].
    destruct (lookup id (subs s1)) as [k|] eqn:L; injection H as <- <-.
    + exists o1. split; [reflexivity|]. split; [exact R1|]. right. eapply R2. reflexivity.
    + exists (o1 ++ VSubFail (clock s) :: answer (clock s) id CErr). split; [reflexivity|]. split.
      * intros e n i d' He. apply in_app_or in He as [He|[<-|[<-|[<-|[]]]]]; try discriminate. now apply R1.
      * left. rewrite served_app. unfold served at 2. simpl. rewrite Nat.eqb_refl. simpl. apply orb_true_r.
Qed.

Lemma app_split {A} (t o pre post : list A) e :
  t ++ o = pre ++ e :: post ->
  (exists post', t = pre ++ e :: post' /\ post = post' ++ o) \/
  (exists o_pre, pre = t ++ o_pre /\ o = o_pre ++ e :: post).
Proof.
  revert pre. induction t as [|x t IH]; intros pre H; simpl in *.
  - right. exists pre. auto.
  - destruct pre as [|y pre]; simpl in H.
    + injection H as -> <-. left. exists t. auto.
    + injection H as -> H. destruct (IH _ H) as [(post' & -> & ->)|(o_pre & -> & ->)].
      * left. exists post'. auto.
      * right. exists o_pre. auto.
Qed.

Lemma emit_src_nostart n l r o : emit_src n l = (r, o) -> forall e k i d, In e o -> e <> VStart k i d.
Proof.
  intros H e k i d He ->. destruct (op_dec n l) as [Ex|Nx].
  - destruct (emit_src_some n l Ex) as (l1 & x & l2 & _ & _ & _ & E'). rewrite H in E'.
    destruct (live x); injection E' as _ ->; [destruct He as [X|[]]; discriminate|destruct He].
  - rewrite (emit_src_none n l Nx) in H. injection H as _ <-. destruct He.
Qed.
Lemma end_src_nostart n l r o : end_src n l = (r, o) -> forall e k i d, In e o -> e <> VStart k i d.
Proof.
  intros H e k i d He ->. destruct (op_dec n l) as [Ex|Nx].
  - destruct (end_src_some n l Ex) as (l1 & x & l2 & _ & _ & _ & E'). rewrite H in E'.
    destruct (s_ended x); injection E' as _ ->; [destruct He|].
    destruct He as [X|He]; [discriminate|]. unfold complete_if_live in He. destruct (live x); [|destruct He].
    destruct He as [X|[]]. discriminate.
  - rewrite (end_src_none n l Nx) in H. injection H as _ <-. destruct He.
Qed.

Section Ign.
  Variable p : proto.

  Lemma step_starts s t l s' o :
    Inv s t -> step false false false p s l = (s', o) ->
    (forall e n i d, In e o -> e <> VStart n i d) \/
    (exists f id d o', o = VRecv f :: VStart (clock s) id d :: o' /\
       (forall e n i d', In e o' -> e <> VStart n i d') /\
       (is_sublike d = true -> served (clock s) o' = true \/ busy id (t ++ [VRecv f]) = true)).
  Proof.
    intros I St. unfold step in St. destruct (react false false false p s l) as [s1 o1] eqn:Re. injection St as _ <-.
    unfold react in Re. destruct (closed s).
    { injection Re as _ <-. left. intros e n i d []. }
    destruct l as [f|n|n|e|].
    - destruct (handle false false p s f) as [s2 o2] eqn:H. injection Re as _ <-.
      destruct (handle_shape _ _ _ _ _ _ _ H) as [A B C D E|A B C D E|bc A B C D E F|A B C D E|id d A B C|id A B C].
      + left. intros e n i d [<-|He]; [discriminate|]. destruct D as [->|(c & ->)]; [destruct He|].
        destruct He as [<-|[]]. discriminate.
      + left. subst o2. intros e n i d He. destruct p; simpl in He; intuition (subst; discriminate).
      + left. subst o2. intros e n i d He. destruct D as [->|(c & ->)]; destruct p; simpl in He; intuition (subst; discriminate).
      + left. subst o2. intros e n i d He. simpl in He. intuition (subst; discriminate).
      + right. exists f, id, d.
        assert (I' : InvC (clock s) (subs s) (srcs s) (t ++ [VRecv f])).
        { apply inv_neutral; [exact I|]. intros e [<-|[]]. reflexivity. }
        destruct (is_sublike d) eqn:Sl.
        * destruct (handle_start_served_or_busy _ _ _ _ _ _ _ I' B Sl) as (o' & -> & N & SB).
          exists o'. split; [reflexivity|]. split; [exact N|]. intros _. exact SB.
        * unfold handle_start in B. destruct d; try discriminate; injection B as _ <-;
            eexists; (split; [reflexivity|]); (split; [|discriminate]);
            intros e n i d' He; simpl in He; intuition (subst; discriminate).
      + left. intros e n i d [<-|He]; [discriminate|]. eapply handle_stop_nostart; eauto.
    - destruct (emit_src n (srcs s)) as [r o2] eqn:E. injection Re as _ <-. left. intros e k i d. eapply emit_src_nostart; eauto.
    - destruct (end_src n (srcs s)) as [r o2] eqn:E. injection Re as _ <-. left. intros e k i d. eapply end_src_nostart; eauto.
    - destruct (begin_closing (end_code e) s) as [s2 o2] eqn:B.
      destruct (begin_closing_neutral _ _ _ _ B) as (A1 & A2 & _ & _ & _ & _ & A7).
      unfold handle_close in Re. destruct (stop_all (subs s2) (srcs s2)) as [l3 o3] eqn:SA. injection Re as _ <-.
      destruct (stop_all_out _ _ _ _ SA) as (X1 & _). left. intros e0 n i d He ->.
      apply in_app_or in He as [He|[He|He]].
      + destruct A7 as [->| ->]; [destruct He|destruct He as [X|[]]; discriminate].
      + discriminate.
      + apply in_app_or in He as [He|[He|[]]]; [|discriminate].
        apply (proj1 (forallb_forall _ _) X1) in He. discriminate.
    - injection Re as _ <-. left. intros e n i d [<-|He]; [discriminate|].
      destruct p; [destruct (did_init s || false)|]; simpl in He; try contradiction; destruct He as [<-|[]]; discriminate.
  Qed.

  Theorem reach_ign s t : reach false false false p s t -> IgnInv t.
  Proof.
    induction 1 as [|s t l s' o R IH St].
    - intros pre e post n id d H. destruct pre; discriminate.
    - pose proof (reach_inv _ _ _ _ _ _ R) as [I _].
      intros pre e post n id d H -> Sl.
      destruct (app_split _ _ _ _ _ H) as [(post' & Et & ->)|(o_pre & -> & Eo)].
      + destruct (IH _ _ _ n id d Et eq_refl Sl) as [B|S]; [now left|]. right. rewrite served_app, S. reflexivity.
      + destruct (step_starts _ _ _ _ _ I St) as [N|(f & id' & d' & o' & -> & N & SB)].
        * exfalso. apply (N (VStart n id d) n id d); [|reflexivity]. rewrite Eo. apply in_or_app. right. now left.
        * destruct o_pre as [|x o_pre]; [discriminate|]. injection Eo as Ex Eo. subst x.
          destruct o_pre as [|y o_pre].
          -- simpl in Eo. injection Eo as En Eid Ed Eo'. subst n id' d' o'. destruct (SB Sl) as [S|B]; [|now left].
             right. rewrite served_app. unfold served at 2. simpl. unfold served in S. rewrite S. apply orb_true_r.
          -- injection Eo as _ Eo. exfalso. apply (N (VStart n id d) n id d); [|reflexivity].
             rewrite Eo. apply in_or_app. right. now left.
  Qed.
End Ign.

(** ** every trace of the model satisfies every rule of the Spec *)
Section Verdict.
  Variable p : proto.

  Lemma ackinv_first s t : AckInv p s t -> chk_ack_first p (frames t) = true /\ chk_no_op_before_ack t = true.
  Proof.
    unfold AckInv. destruct (did_init s).
    - intros (_ & A & _ & B). auto.
    - intros (A & B & _ & _). split.
      + rewrite <- (app_nil_r (frames t)). now rewrite chk_ack_first_before.
      + rewrite <- (app_nil_r t). now rewrite chk_noop_before.
  Qed.

  Theorem ack_first_all ls : chk_ack_first p (frames (trace false false false p ls)) = true.
  Proof. destruct (reach_conn false p _ _ (run_reach false false false p ls)) as [_ _ _ K]. now apply ackinv_first in K. Qed.
  Theorem no_op_before_ack_all ls : chk_no_op_before_ack (trace false false false p ls) = true.
  Proof. destruct (reach_conn false p _ _ (run_reach false false false p ls)) as [_ _ _ K]. now apply ackinv_first in K. Qed.
  Theorem acks_all ls : chk_acks 0 (trace false false false p ls) = true.
  Proof. now destruct (reach_conn false p _ _ (run_reach false false false p ls)). Qed.
  Theorem pongs_all ls : chk_pongs p 0 (trace false false false p ls) = true.
  Proof. now destruct (reach_conn false p _ _ (run_reach false false false p ls)). Qed.
  Theorem ops_all ls : chk_ops (trace false false false p ls) = true.
  Proof.
    destruct (reach_inv _ _ _ _ _ _ (run_reach false false false p ls)) as [I _].
    destruct (reach_conn false p _ _ (run_reach false false false p ls)) as [W _ _ _].
    eapply inv_chk_ops; eauto.
  Qed.
  Theorem ignored_all a ls : chk_ignored a (trace false false false p ls) = true.
  Proof. apply ign_chk. eapply reach_ign. apply run_reach. Qed.
  Theorem stops_all ls : chk_stops (trace false false false p ls) = true.
  Proof. destruct (reach_inv _ _ _ _ _ _ (run_reach false false false p ls)) as [I C]. eapply inv_chk_stops; eauto. Qed.
  Theorem dereg_all ls : chk_dereg (trace false false false p ls) = true.
  Proof. destruct (reach_inv _ _ _ _ _ _ (run_reach false false false p ls)) as [I C]. eapply inv_chk_dereg; eauto. Qed.

  Theorem model_meets_spec ls : spec_verdict p (trace false false false p ls) = None.
  Proof.
    unfold spec_verdict.
    rewrite ack_first_all, no_op_before_ack_all, acks_all, pongs_all, ops_all, !ignored_all, stops_all, dereg_all.
    reflexivity.
  Qed.

  (** the softened rules follow from the strict ones *)
  Lemma prefixb_of_eqb a b : list_eqb sframe_eqb a b = true -> prefixb a b = true.
  Proof.
    revert b. induction a as [|x a IH]; intros [|y b] H; simpl in *; try discriminate; [reflexivity|].
    apply andb_true_iff in H as [H1 H2]. rewrite H1. simpl. now apply IH.
  Qed.
  Lemma chk_sub_frames_soften id n c : forall fs k, chk_sub_frames id n k c fs = true -> chk_sub_frames id n k (soften c) fs = true.
  Proof.
    induction fs as [|f fs IH]; intros k H; simpl in *.
    - destruct c; simpl; auto.
    - destruct f; try discriminate.
      + destruct c0; try discriminate. apply andb_true_iff in H as [H1 H2]. rewrite H1. simpl. now apply IH.
      + destruct c; simpl in *; auto.
  Qed.
  Lemma chk_op_soft_of t e : chk_op t e = true -> chk_op_soft t e = true.
  Proof.
    destruct e as [f|f ow|b|n i d|n|n|n|n|n|z| | |]; simpl; auto. unfold answered.
    intro H. apply andb_true_iff in H as [H1 H2]. rewrite H1. simpl. destruct d.
    - repeat (apply andb_true_iff in H2 as [H2 ?]). repeat (apply andb_true_iff; split); auto. now apply prefixb_of_eqb.
    - repeat (apply andb_true_iff in H2 as [H2 ?]). repeat (apply andb_true_iff; split); auto. now apply prefixb_of_eqb.
    - repeat (apply andb_true_iff in H2 as [H2 ?]). repeat (apply andb_true_iff; split); auto.
      destruct (count (is_subscribe n) t) as [|[|k]]; auto. now apply chk_sub_frames_soften.
    - repeat (apply andb_true_iff in H2 as [H2 ?]). repeat (apply andb_true_iff; split); auto.
      destruct (count (is_subfail n) t) as [|[|k]]; auto. now apply prefixb_of_eqb.
    - repeat (apply andb_true_iff in H2 as [H2 ?]). repeat (apply andb_true_iff; split); auto. now apply prefixb_of_eqb.
  Qed.
  Lemma chk_op_mid_of k t e : chk_op t e = true -> chk_op_mid k t e = true.
  Proof.
    destruct e as [f|f ow|b|n i d|n|n|n|n|n|z| | |]; simpl; auto. destruct d; auto.
    intro H. apply andb_true_iff in H as [H1 H2]. rewrite H1. simpl.
    apply andb_true_iff in H2 as [H2 H3]. rewrite H2. simpl.
    destruct (count (is_subscribe n) t) as [|[|j]]; auto.
    unfold completion_from. destruct (completion n t) eqn:C; auto.
    destruct (stopped_or_ended n (firstn k t)); auto. now apply (chk_sub_frames_soften i n Must).
  Qed.
  Lemma chk_ops_from_of k t : chk_ops t = true -> chk_ops_from k t = true.
  Proof.
    unfold chk_ops, chk_ops_from. intro H. rewrite forallb_forall in H. apply andb_true_iff. split; apply forallb_forall; intros e He.
    - apply chk_op_mid_of. apply H. rewrite <- (firstn_skipn k t). apply in_or_app. now left.
    - apply chk_op_soft_of. apply H. rewrite <- (firstn_skipn k t). apply in_or_app. now right.
  Qed.
  Lemma chk_acks_slack_of s : forall t pending, chk_acks pending t = true -> chk_acks_slack s pending t = true.
  Proof.
    induction t as [|e t IH]; intros pending H; simpl in *.
    - apply Nat.eqb_eq in H. subst. reflexivity.
    - destruct e as [f|f ow|b|n i d|n|n|n|n|n|z| | |]; auto.
      + destruct f; auto. destruct pending; [discriminate|auto].
      + destruct b; auto.
  Qed.
  Lemma chk_pongs_slack_of s : forall t pending, chk_pongs p pending t = true -> chk_pongs_slack p s pending t = true.
  Proof.
    induction t as [|e t IH]; intros pending H; simpl in *.
    - apply Nat.eqb_eq in H. subst. reflexivity.
    - destruct (is_ping p e); auto. destruct (is_pong e); auto. destruct pending; [discriminate|auto].
  Qed.

  Lemma chk_noop_from_of : forall t k, chk_no_op_before_ack t = true -> chk_no_op_before_ack_from k t = true.
  Proof.
    induction t as [|e t IH]; intros k H; simpl in *; [reflexivity|].
    destruct e as [f|f ow|b|n i d|n|n|n|n|n|z| | |]; simpl in *; try discriminate; auto.
    - destruct f; simpl in *; try discriminate; auto.
    - destruct b; [destruct (Nat.eqb k 0); auto|auto].
  Qed.

  Theorem model_meets_spec_from k ls : spec_verdict_from k p (trace false false false p ls) = None.
  Proof.
    unfold spec_verdict_from.
    rewrite ack_first_all, (chk_noop_from_of _ _ (no_op_before_ack_all ls)), (chk_acks_slack_of _ _ _ (acks_all ls)),
      (chk_pongs_slack_of _ _ _ (pongs_all ls)), (chk_ops_from_of _ _ (ops_all ls)), !ignored_all, stops_all, dereg_all.
    reflexivity.
  Qed.
End Verdict.
