(** * Ws/WsSpec.v — C08 reference semantics: what a trace of a WebSocket connection must look like.

    Written from the property statement (and the two protocol descriptions), not from the code.
    A trace is a list of events (WsTypes.ev), oldest first.  Every rule is an executable check on
    the trace; [spec_verdict] runs them all and names the first one that fails.  The same checks
    are (a) what the theorems of Properties/C08.v say about every trace of the model and (b) the
    oracle the correspondence check runs on the trace observed from the real server.

    R1 ack first            before the first connection_ack the server sends nothing but a
                            connection error (graphql-transport-ws: or a pong)
    R2 no operation early   nothing operation-related happens before the first ack: no resolver
                            runs, no operation is started, no result / complete is sent
    R3 ack answers init     every ack answers one accepted init
    R4 ping/pong            graphql-transport-ws: one pong per ping and one per keep-alive period
                            (the protocol's heartbeat), none else; graphql-ws has no pong
    R5 operation lifecycle  every started query / mutation (also one answered with errors only)
                            owns exactly [result; complete]; every started subscription owns
                            events 1..k in order, then exactly one complete if and only if it was
                            stopped or its source ended, then nothing; nothing is owned by an
                            operation that was not started
    R6 no start dropped     a subscription start is ignored only while a subscription with the
                            same id has not completed
    R7 stop exactly once    every source's Stop() runs at most once, and exactly once when the
                            connection has closed
    R8 deregistered         once both loops are gone the connection is deregistered, exactly once,
                            and after that point only Stop() calls, their completes and the
                            deregistration happen *)
From Coq Require Import List NArith ZArith Bool String.
From ApiFu Require Import Ws.WsTypes.
Import ListNotations.
Open Scope string_scope.

(** ** projections of a trace *)
Definition frame_of (e : ev) : list sframe := match e with VSend f _ => [f] | _ => [] end.
Definition frames (t : list ev) : list sframe := flat_map frame_of t.

Definition owned_of (n : nat) (e : ev) : list sframe :=
  match e with VSend f (Some m) => if Nat.eqb m n then [f] else [] | _ => [] end.
(** the frames sent on behalf of operation n, in order *)
Definition owned (n : nat) (t : list ev) : list sframe := flat_map (owned_of n) t.

Definition count (P : ev -> bool) (t : list ev) : nat := List.length (filter P t).

Definition is_start (n : nat) (e : ev) : bool := match e with VStart m _ _ => Nat.eqb m n | _ => false end.
Definition is_exec (n : nat) (e : ev) : bool := match e with VExec m => Nat.eqb m n | _ => false end.
Definition is_subscribe (n : nat) (e : ev) : bool := match e with VSubscribe m => Nat.eqb m n | _ => false end.
Definition is_subfail (n : nat) (e : ev) : bool := match e with VSubFail m => Nat.eqb m n | _ => false end.
Definition is_stop (n : nat) (e : ev) : bool := match e with VStop m => Nat.eqb m n | _ => false end.
Definition is_srcend (n : nat) (e : ev) : bool := match e with VSrcEnd m => Nat.eqb m n | _ => false end.
Definition is_gone (e : ev) : bool := match e with VGone => true | _ => false end.
Definition is_dereg (e : ev) : bool := match e with VDeregister => true | _ => false end.
Definition is_complete_of (n : nat) (e : ev) : bool :=
  match e with VSend (SComplete _) (Some m) => Nat.eqb m n | _ => false end.

(** the part of the trace before both loops were gone *)
Fixpoint live_part (t : list ev) : list ev :=
  match t with
  | [] => []
  | VGone :: _ => []
  | e :: t' => e :: live_part t'
  end.
Fixpoint after_gone (t : list ev) : list ev :=
  match t with
  | [] => []
  | VGone :: t' => t'
  | _ :: t' => after_gone t'
  end.

(** ** R1 *)
Definition pre_ack_ok (p : proto) (f : sframe) : bool :=
  match f with
  | SConnError => true
  | SPong => match p with PTws => true | PWs => false end
  | _ => false
  end.
Fixpoint chk_ack_first (p : proto) (fs : list sframe) : bool :=
  match fs with
  | [] => true
  | SAck :: _ => true
  | f :: fs' => pre_ack_ok p f && chk_ack_first p fs'
  end.

(** ** R2 *)
Definition is_op_event (e : ev) : bool :=
  match e with
  | VStart _ _ _ | VExec _ | VSubscribe _ | VSubFail _ | VStop _ | VSrcEnd _ => true
  | VSend (SData _ _) _ | VSend (SComplete _) _ => true
  | _ => false
  end.
Fixpoint chk_no_op_before_ack (t : list ev) : bool :=
  match t with
  | [] => true
  | VSend SAck _ :: _ => true
  | e :: t' => negb (is_op_event e) && chk_no_op_before_ack t'
  end.

(** ** R3 *)
Fixpoint chk_acks (pending : nat) (t : list ev) : bool :=
  match t with
  | [] => Nat.eqb pending 0
  | VInit true :: t' => chk_acks (S pending) t'
  | VSend SAck _ :: t' => match pending with 0 => false | S k => chk_acks k t' end
  | _ :: t' => chk_acks pending t'
  end.

(** ** R4 *)
Definition is_ping (p : proto) (e : ev) : bool :=
  match p, e with PTws, VRecv (Msg TPing _ _) => true | PTws, VTick => true | _, _ => false end.
Definition is_pong (e : ev) : bool := match e with VSend SPong _ => true | _ => false end.
Fixpoint chk_pongs (p : proto) (pending : nat) (t : list ev) : bool :=
  match t with
  | [] => Nat.eqb pending 0
  | e :: t' =>
      if is_ping p e then chk_pongs p (S pending) t'
      else if is_pong e then match pending with 0 => false | S k => chk_pongs p k t' end
      else chk_pongs p pending t'
  end.

(** ** R5 *)
(** Had closing begun (beginClosing: the handler's context is cancelled) when operation n was started?
    An operation executed with a cancelled context is executed (Config.Execute is called) but its
    resolvers do not run: its result carries errors only. *)
Definition is_begin (e : ev) : bool := match e with VBeginClose _ => true | _ => false end.
Fixpoint begun_before (n : nat) (t : list ev) : bool :=
  match t with
  | [] => false
  | VBeginClose _ :: _ => true
  | VStart m _ _ :: t' => if Nat.eqb m n then false else begun_before n t'
  | _ :: t' => begun_before n t'
  end.
Definition exec_class (n : nat) (t : list ev) : dclass := if begun_before n t then CErr else CRes n.
Definition result_class (t : list ev) (d : doc) (n : nat) : dclass :=
  match d with DQuery | DMutation => exec_class n t | _ => CErr end.

Inductive tri := Must | May | MustNot.

(** events 1..k of subscription n in order, then the complete (must / may / must not be there),
    then nothing *)
Fixpoint chk_sub_frames (id : N) (n k : nat) (c : tri) (fs : list sframe) : bool :=
  match fs with
  | [] => match c with Must => false | _ => true end
  | SData i (CEv m j) :: fs' =>
      N.eqb i id && Nat.eqb m n && Nat.eqb j (S k) && chk_sub_frames id n (S k) c fs'
  | SComplete i :: fs' =>
      N.eqb i id && match c with MustNot => false | _ => true end && match fs' with [] => true | _ => false end
  | _ => false
  end.

Definition stopped_or_ended (n : nat) (t : list ev) : bool :=
  existsb (fun e => is_stop n e || is_srcend n e) t.

(** A subscription stopped or ended while the connection was being served must get its complete; one
    stopped only by the shutdown (after both loops ended) may have put one on the dead queue. *)
Definition completion (n : nat) (t : list ev) : tri :=
  if stopped_or_ended n (live_part t) then Must
  else if stopped_or_ended n t then May else MustNot.

Definition answered (n : nat) (id : N) (c : dclass) (t : list ev) : bool :=
  list_eqb sframe_eqb (owned n t) [SData id c; SComplete id].

Definition chk_op (t : list ev) (e : ev) : bool :=
  match e with
  | VStart n id d =>
      Nat.eqb (count (is_start n) t) 1 &&
      match d with
      | DQuery | DMutation =>
          Nat.eqb (count (is_exec n) t) 1 && Nat.eqb (count (is_subscribe n) t) 0 &&
          Nat.eqb (count (is_subfail n) t) 0 && answered n id (exec_class n t) t
      | DInvalid =>
          Nat.eqb (count (is_exec n) t) 0 && Nat.eqb (count (is_subscribe n) t) 0 &&
          Nat.eqb (count (is_subfail n) t) 0 && answered n id CErr t
      | DSubFail =>
          Nat.eqb (count (is_exec n) t) 0 && Nat.eqb (count (is_subscribe n) t) 0 &&
          match count (is_subfail n) t with
          | 0 => match owned n t with [] => true | _ => false end     (* ignored: R6 says when *)
          | 1 => answered n id CErr t
          | _ => false
          end
      | DSub =>
          Nat.eqb (count (is_exec n) t) 0 && Nat.eqb (count (is_subfail n) t) 0 &&
          match count (is_subscribe n) t with
          | 0 => match owned n t with [] => true | _ => false end     (* ignored: R6 says when *)
          | 1 => chk_sub_frames id n 0 (completion n t) (owned n t)
          | _ => false
          end
      end
  | VExec n | VSubscribe n | VSubFail n => existsb (is_start n) t
  | VSend (SData _ _) o | VSend (SComplete _) o =>
      match o with Some n => existsb (is_start n) t | None => false end
  | VSend _ o => match o with None => true | Some _ => false end
  | VStop n | VSrcEnd n => Nat.ltb 0 (count (is_subscribe n) t)
  | _ => true
  end.
Definition chk_ops (t : list ev) : bool := forallb (chk_op t) t.

(** ** the rules for a connection that is going down
    "While the connection stays open" every accepted init gets its ack, every ping its pong, every
    started operation its frames.  Once the server has begun closing (or its application has closed
    the connection while a handler call was in flight) the read loop still dispatches the client
    frames that were already on their way — their resolver calls, Stop() calls and the clean-up are
    judged exactly as before — but what it sends for them may no longer leave the queue.  For the
    part of a trace from position [k] on (the events of the labels performed while the connection
    was going down) R3 / R4 / R5 therefore demand only a *prefix* of the answers: an init accepted or
    a ping received there may stay unanswered, an operation started there owns a prefix of its
    frames.  Everything before position k is judged as before. *)
Fixpoint prefixb (a b : list sframe) : bool :=
  match a, b with
  | [], _ => true
  | x :: a', y :: b' => sframe_eqb x y && prefixb a' b'
  | _ :: _, [] => false
  end.
Definition soften (c : tri) : tri := match c with Must => May | x => x end.

Fixpoint chk_acks_slack (slack pending : nat) (t : list ev) : bool :=
  match t with
  | [] => Nat.leb pending slack
  | VInit true :: t' => chk_acks_slack slack (S pending) t'
  | VSend SAck _ :: t' => match pending with 0 => false | S k => chk_acks_slack slack k t' end
  | _ :: t' => chk_acks_slack slack pending t'
  end.
Fixpoint chk_pongs_slack (p : proto) (slack pending : nat) (t : list ev) : bool :=
  match t with
  | [] => Nat.leb pending slack
  | e :: t' =>
      if is_ping p e then chk_pongs_slack p slack (S pending) t'
      else if is_pong e then match pending with 0 => false | S k => chk_pongs_slack p slack k t' end
      else chk_pongs_slack p slack pending t'
  end.

(** R2: from position k on, an init the application accepted counts like its ack (which may be lost) *)
Fixpoint chk_no_op_before_ack_from (k : nat) (t : list ev) : bool :=
  match t with
  | [] => true
  | VSend SAck _ :: _ => true
  | VInit true :: t' => if Nat.eqb k 0 then true else chk_no_op_before_ack_from (Nat.pred k) t'
  | e :: t' => negb (is_op_event e) && chk_no_op_before_ack_from (Nat.pred k) t'
  end.

Definition chk_op_soft (t : list ev) (e : ev) : bool :=
  match e with
  | VStart n id d =>
      Nat.eqb (count (is_start n) t) 1 &&
      match d with
      | DQuery | DMutation =>
          Nat.eqb (count (is_exec n) t) 1 && Nat.eqb (count (is_subscribe n) t) 0 &&
          Nat.eqb (count (is_subfail n) t) 0 &&
          prefixb (owned n t) [SData id (exec_class n t); SComplete id]
      | DInvalid =>
          Nat.eqb (count (is_exec n) t) 0 && Nat.eqb (count (is_subscribe n) t) 0 &&
          Nat.eqb (count (is_subfail n) t) 0 && prefixb (owned n t) [SData id CErr; SComplete id]
      | DSubFail =>
          Nat.eqb (count (is_exec n) t) 0 && Nat.eqb (count (is_subscribe n) t) 0 &&
          match count (is_subfail n) t with
          | 0 => match owned n t with [] => true | _ => false end
          | 1 => prefixb (owned n t) [SData id CErr; SComplete id]
          | _ => false
          end
      | DSub =>
          Nat.eqb (count (is_exec n) t) 0 && Nat.eqb (count (is_subfail n) t) 0 &&
          match count (is_subscribe n) t with
          | 0 => match owned n t with [] => true | _ => false end
          | 1 => chk_sub_frames id n 0 (soften (completion n t)) (owned n t)
          | _ => false
          end
      end
  | _ => chk_op t e
  end.
(** a subscription started before position k whose Stop() / source end happened only after it: its complete
    may have been lost as well *)
Definition completion_from (k n : nat) (t : list ev) : tri :=
  match completion n t with
  | Must => if stopped_or_ended n (firstn k t) then Must else May
  | c => c
  end.
Definition chk_op_mid (k : nat) (t : list ev) (e : ev) : bool :=
  match e with
  | VStart n id DSub =>
      Nat.eqb (count (is_start n) t) 1 &&
      (Nat.eqb (count (is_exec n) t) 0 && Nat.eqb (count (is_subfail n) t) 0 &&
       match count (is_subscribe n) t with
       | 0 => match owned n t with [] => true | _ => false end
       | 1 => chk_sub_frames id n 0 (completion_from k n t) (owned n t)
       | _ => false
       end)
  | _ => chk_op t e
  end.
(** events before position k as before (but see [completion_from]), the others softly *)
Definition chk_ops_from (k : nat) (t : list ev) : bool :=
  forallb (chk_op_mid k t) (firstn k t) && forallb (chk_op_soft t) (skipn k t).

(** ** R6 *)
Definition served (n : nat) (t : list ev) : bool :=
  existsb (fun e => is_subscribe n e || is_subfail n e) t.
(** a subscription with this id has been started and has not completed *)
Definition busy (id : N) (pre : list ev) : bool :=
  existsb (fun e => match e with
                    | VStart m i DSub => N.eqb i id && existsb (is_subscribe m) pre && negb (existsb (is_complete_of m) pre)
                    | _ => false
                    end) pre.
(** … or has completed (its source ended) but was never stopped: the implementation still holds
    its map entry.  This is the known finding [stale-id-after-source-end]. *)
Definition stale (id : N) (pre : list ev) : bool :=
  existsb (fun e => match e with
                    | VStart m i DSub => N.eqb i id && existsb (is_subscribe m) pre && existsb (is_complete_of m) pre
                                         && negb (existsb (is_stop m) pre)
                    | _ => false
                    end) pre.

Definition ignored_start (whole : list ev) (e : ev) : option N :=
  match e with
  | VStart n id d => if is_sublike d && negb (served n whole) then Some id else None
  | _ => None
  end.

(** [allow_stale = false] is the property; [true] additionally tolerates the known finding. *)
Fixpoint chk_ignored_from (allow_stale : bool) (whole pre t : list ev) : bool :=
  match t with
  | [] => true
  | e :: t' =>
      match ignored_start whole e with
      | Some id => busy id pre || (allow_stale && stale id pre)
      | None => true
      end && chk_ignored_from allow_stale whole (pre ++ [e]) t'
  end.
Definition chk_ignored (allow_stale : bool) (t : list ev) : bool := chk_ignored_from allow_stale t [] t.

(** ** R7 *)
Definition chk_stop_of (t : list ev) (e : ev) : bool :=
  match e with
  | VSubscribe n =>
      if existsb is_dereg t then Nat.eqb (count (is_stop n) t) 1 else Nat.leb (count (is_stop n) t) 1
  | _ => true
  end.
Definition chk_stops (t : list ev) : bool := forallb (chk_stop_of t) t.

(** ** R8 *)
Definition after_gone_ok (e : ev) : bool :=
  match e with
  | VStop _ | VDeregister | VSend (SComplete _) (Some _) => true
  | _ => false
  end.
Definition chk_dereg (t : list ev) : bool :=
  if existsb is_gone t then
    Nat.eqb (count is_gone t) 1 && Nat.eqb (count is_dereg t) 1 &&
    negb (existsb is_dereg (live_part t)) && forallb after_gone_ok (after_gone t)
  else Nat.eqb (count is_dereg t) 0.

(** ** all rules; the key of the first that fails *)
Definition spec_verdict (p : proto) (t : list ev) : option string :=
  if negb (chk_ack_first p (frames t)) then Some "ack-not-first"
  else if negb (chk_no_op_before_ack t) then Some "operation-before-init"
  else if negb (chk_acks 0 t) then Some "ack-without-init"
  else if negb (chk_pongs p 0 t) then Some "ping-pong"
  else if negb (chk_ops t) then Some "operation-lifecycle"
  else if negb (chk_ignored true t) then Some "subscription-start-dropped"
  else if negb (chk_ignored false t) then Some "stale-id-after-source-end"
  else if negb (chk_stops t) then Some "stop-not-exactly-once"
  else if negb (chk_dereg t) then Some "not-deregistered"
  else None.

(** the same for a connection observed while it was going down from trace position k on *)
Definition spec_verdict_from (k : nat) (p : proto) (t : list ev) : option string :=
  let late := skipn k t in
  if negb (chk_ack_first p (frames t)) then Some "ack-not-first"
  else if negb (chk_no_op_before_ack_from k t) then Some "operation-before-init"
  else if negb (chk_acks_slack (count (fun e => match e with VInit true => true | _ => false end) late) 0 t) then Some "ack-without-init"
  else if negb (chk_pongs_slack p (count (is_ping p) late) 0 t) then Some "ping-pong"
  else if negb (chk_ops_from k t) then Some "operation-lifecycle"
  else if negb (chk_ignored true t) then Some "subscription-start-dropped"
  else if negb (chk_ignored false t) then Some "stale-id-after-source-end"
  else if negb (chk_stops t) then Some "stop-not-exactly-once"
  else if negb (chk_dereg t) then Some "not-deregistered"
  else None.

Definition spec_ok (p : proto) (t : list ev) : bool :=
  match spec_verdict p t with None => true | Some _ => false end.
