(** * Ws/WsSys.v — C08 stage 3: the two models joined.

    A configuration of the interleaved actors of stage 2 (WsActors.v: read loop, write loop, one
    goroutine per subscription, closers, the bounded outgoing queue) that carries the data of stage 1
    (WsModel.v: didInit, the subscriptions map, the table of sources): one labelled transition
    system in which the read loop really dispatches client frames, the goroutines really send their
    events and their complete, and [sendMessage] really blocks on the queue.  No proofs here.

    How the two are joined.
    - The dispatcher's state is the stage-1 state [y_s]; it is advanced by stage 1's own [step] at
      the *commit point* of each label ([y_hist] is the list of labels committed so far, so
      [y_s = final (y_hist)], and [trace (y_hist)] is the sequential trace stage 1 assigns to the
      run):
        client frame      when the read loop takes it out of [ReadMessage].  Everything
                          [handleMessage] decides, and its non-blocking effects on other goroutines
                          ([Stop()] of a stream = cancel, the [go func()] of a new subscription)
                          happen at that step; in the Go code they precede every [sendMessage] of
                          the same call and read shared state once (the [ended] flag of a map
                          entry), so moving them to the pick-up loses no behaviour.  The frames
                          [handleMessage] sends are NOT sent at that step: they become the read
                          loop's program [y_rprog] and are handed to the queue one by one, each
                          send blocking as in stage 2;
        source event      when the goroutine takes the event out of the channel ([YEmit]); the
                          data frame is sent later ([IGDataOk] / [IGDataFail]);
        end of a source   when the goroutine notices the closed channel ([IGEnd]: Run returns, the
                          [ended] flag is set); the complete is sent later;
        ending            when [HandleClose] runs (the first [finishClosing] past its waits).
    - The configuration of stage 2 is kept as it is ([y_c]) and every step of the joined system is
      a step (for a client frame: a few steps) of stage 2 on it: the joined system only *restricts*
      stage 2 (frames have the programs [handleMessage] really runs; a source does not deliver after
      its Stop(), the assumption stage 1 already makes) and adds bookkeeping.  Hence every theorem of
      stage 2 (bounded shutdown, quiescence, Stop at most once) holds of the joined system.
    - Bookkeeping: [y_rcalls] = the frames the read loop has handed to [sendMessage] so far,
      [y_gcalls] = the same per subscription goroutine.  WsSysProofs.v shows that these are, owner
      by owner, prefixes of what the sequential trace [trace (y_hist)] says, with the remainder
      exactly what the actor still has in hand.

    Not in the joined system: the keep-alive ticker ([LTick] is a label of stage 1 only; the write
    loop writes keep-alives to the socket itself, not through the queue) and the content of the
    queue / of the socket (stage 2's counter [queue] is kept). *)
From Coq Require Import List NArith ZArith Bool Arith.
From ApiFu Require Import Ws.WsTypes Ws.WsModel Ws.WsActors.
Import ListNotations.

Definition osend := (sframe * option nat)%type.

(** position of the source of operation n in the table of sources = number of its goroutine *)
Fixpoint src_index (n : nat) (l : list src) : option nat :=
  match l with
  | [] => None
  | x :: l' => if Nat.eqb (s_op x) n then Some 0 else option_map S (src_index n l')
  end.

Definition is_src_op (l : list src) (o : option nat) : bool :=
  match o with Some n => existsb (fun x => Nat.eqb (s_op x) n) l | None => false end.

(** of the events stage 1 lists for one client frame: the frames [handleMessage] itself hands to
    [sendMessage] (all but the completes of stopped subscriptions, which their goroutines send) *)
Definition reader_sends (l : list src) (o : list ev) : list osend :=
  flat_map (fun e => match e with VSend f ow => if is_src_op l ow then [] else [(f, ow)] | _ => [] end) o.
Definition stops_of (o : list ev) : list nat :=
  flat_map (fun e => match e with VStop n => [n] | _ => [] end) o.
Definition spawns (o : list ev) : bool :=
  existsb (fun e => match e with VSubscribe _ => true | _ => false end) o.

(** does this call of [handleMessage] call [beginClosing] (whether or not its once-guard fires)? *)
Definition calls_begin (p : proto) (s : st) (f : cframe) : bool :=
  match p, f with
  | PWs, Msg TInit _ pl => negb (init_ok pl)
  | PWs, Msg TTerminate _ _ => true
  | PWs, _ => false
  | PTws, Malformed => true
  | PTws, Msg TInit _ pl => negb (init_ok pl)
  | PTws, Msg TSubscribe _ pl =>
      did_init s && match decode_start pl with None => true | Some _ => false end
  | PTws, Msg (TComplete | TPing | TPong) _ _ => false
  | PTws, Msg _ _ _ => true
  end.

(** [sendMessage] whose failure makes [handleMessage] begin closing and return: ack and first ka *)
Definition send_kind (x : osend) : rop :=
  match fst x with SAck | SKa => RSendOrClose | _ => RSend end.

Definition stop_indices (l : list src) (ns : list nat) : list nat :=
  flat_map (fun n => match src_index n l with Some i => [i] | None => [] end) ns.

(** the program of blocking / visible operations stage 2 sees for the frame *)
Definition frame_prog (is : list nat) (sp : bool) (rs : list osend) (bc : bool) : list rop :=
  map RStop is ++ (if sp then [RSpawn] else []) ++ map send_kind rs ++ (if bc then [RBegin] else []).
(** … and the stage-2 labels that run its non-blocking head at once *)
Definition frame_head (is : list nat) (sp : bool) : list alabel :=
  map (fun _ => IRStop) is ++ (if sp then [IRSpawn] else []).

Record sys := {
  y_s : st;                       (* dispatcher and handler: didInit, subscriptions, sources (stage 1) *)
  y_c : cfg;                      (* the actors (stage 2) *)
  y_rprog : list osend;           (* frames the read loop still has to send for the frame it is handling *)
  y_rcalls : list osend;          (* frames the read loop has handed to sendMessage, oldest first *)
  y_lost : list osend;            (* frames of a handleMessage call that returned early because the ack or the
                                     first ka could not be queued (the write loop had exited): never sent *)
  y_gcalls : list (list sframe);  (* per subscription goroutine: frames it has handed to sendMessage *)
  y_calls : list osend;           (* all frames handed to sendMessage, by whomever, in the order of the calls *)
  y_hist : list label             (* labels committed so far *)
}.

Definition init_sys : sys :=
  {| y_s := init_st; y_c := init_cfg; y_rprog := []; y_rcalls := []; y_lost := []; y_gcalls := []; y_calls := []; y_hist := [] |}.

Inductive ylabel :=
| YFrame (f : cframe)       (* the read loop takes a client frame *)
| YEmit (i : nat)           (* goroutine i takes an event from its source *)
| YSrcEnd (i : nat)         (* the source of goroutine i closes its channel *)
| YClientClose | YDrop | YAppClose | YTickFail
| YInt (l : alabel).        (* an internal step of stage 2 *)

Definition commit (p : proto) (l : label) (y : sys) (c : cfg) : sys :=
  {| y_s := fst (step false false false p (y_s y) l); y_c := c; y_rprog := y_rprog y; y_rcalls := y_rcalls y;
     y_lost := y_lost y; y_gcalls := y_gcalls y; y_calls := y_calls y; y_hist := y_hist y ++ [l] |}.
Definition with_cfg (c : cfg) (y : sys) : sys :=
  {| y_s := y_s y; y_c := c; y_rprog := y_rprog y; y_rcalls := y_rcalls y; y_lost := y_lost y; y_gcalls := y_gcalls y;
     y_calls := y_calls y; y_hist := y_hist y |}.
Definition with_reader (prog calls lost : list osend) (y : sys) : sys :=
  {| y_s := y_s y; y_c := y_c y; y_rprog := prog; y_rcalls := calls; y_lost := lost; y_gcalls := y_gcalls y;
     y_calls := y_calls y; y_hist := y_hist y |}.
Definition logged (x : osend) (y : sys) : sys :=
  {| y_s := y_s y; y_c := y_c y; y_rprog := y_rprog y; y_rcalls := y_rcalls y; y_lost := y_lost y; y_gcalls := y_gcalls y;
     y_calls := y_calls y ++ [x]; y_hist := y_hist y |}.
Definition with_gcalls (g : list (list sframe)) (y : sys) : sys :=
  {| y_s := y_s y; y_c := y_c y; y_rprog := y_rprog y; y_rcalls := y_rcalls y; y_lost := y_lost y; y_gcalls := g;
     y_calls := y_calls y; y_hist := y_hist y |}.

(** the ending stage 1 is told when HandleClose runs: who ended the connection *)
Definition end_of (c : cfg) : WsTypes.ending :=
  match ac c with
  | ANone => if dropped c then WsTypes.EDrop else if pending_close c then WsTypes.EClientClose else WsTypes.EPeer
  | _ => WsTypes.EAppClose
  end.

Definition op_of (i : nat) (y : sys) : option src := nth_error (srcs (y_s y)) i.

Section Sys.
  Variable cap : nat.
  Variable p : proto.

  Definition ystep (y : sys) (l : ylabel) : option sys :=
    let c := y_c y in
    match l with
    | YFrame f =>
        let s := y_s y in
        let (s', o) := step false false false p s (LFrame f) in
        let is := stop_indices (srcs s) (stops_of o) in
        let sp := spawns o in
        let rs := reader_sends (srcs s') o in
        let bc := calls_begin p s f in
        match arun cap true c (EFrame (frame_prog is sp rs bc) :: frame_head is sp) with
        | Some c' =>
            Some {| y_s := s'; y_c := c'; y_rprog := rs; y_rcalls := y_rcalls y; y_lost := y_lost y;
                    y_gcalls := y_gcalls y ++ (if sp then [[]] else []); y_calls := y_calls y;
                    y_hist := y_hist y ++ [LFrame f] |}
        | None => None
        end
    | YEmit i =>
        match astep cap true c (EEmit i), nth_error (gs c) i, op_of i y with
        | Some c', Some g, Some x => if g_cancelled g then None else Some (commit p (LEmit (s_op x)) y c')
        | _, _, _ => None
        end
    | YSrcEnd i => option_map (fun c' => with_cfg c' y) (astep cap true c (ESrcEnd i))
    | YClientClose => option_map (fun c' => with_cfg c' y) (astep cap true c EClientClose)
    | YDrop => option_map (fun c' => with_cfg c' y) (astep cap true c EDrop)
    | YAppClose => option_map (fun c' => with_cfg c' y) (astep cap true c EAppClose)
    | YTickFail => option_map (fun c' => with_cfg c' y) (astep cap true c ETickFail)
    | YInt a =>
        if negb (internal a) then None else
        match astep cap true c a with
        | None => None
        | Some c' =>
            match a with
            | IRSendOk =>
                match y_rprog y with
                | x :: r => Some (logged x (with_cfg c' (with_reader r (y_rcalls y ++ [x]) (y_lost y) y)))
                | [] => None
                end
            | IRSendFail =>
                match y_rprog y with
                | x :: r =>
                    Some (logged x (with_cfg c' (match send_kind x with
                                       | RSendOrClose => with_reader [] (y_rcalls y ++ [x]) (r ++ y_lost y) y
                                       | _ => with_reader r (y_rcalls y ++ [x]) (y_lost y) y
                                       end)))
                | [] => None
                end
            | IRStop | IRSpawn => None      (* done when the frame was taken *)
            | IGEnd i =>
                match op_of i y with Some x => Some (commit p (LSrcEnd (s_op x)) y c') | None => None end
            | IGDataOk i | IGDataFail i =>
                match op_of i y with
                | Some x => Some (logged (SData (s_id x) (CEv (s_op x) (s_events x)), Some (s_op x))
                                         (with_cfg c' (with_gcalls (upd i (fun cl => cl ++ [SData (s_id x) (CEv (s_op x) (s_events x))])
                                                                   (y_gcalls y)) y)))
                | None => None
                end
            | IGCompleteOk i | IGCompleteFail i =>
                match op_of i y with
                | Some x => Some (logged (SComplete (s_id x), Some (s_op x))
                                         (with_cfg c' (with_gcalls (upd i (fun cl => cl ++ [SComplete (s_id x)]) (y_gcalls y)) y)))
                | None => None
                end
            | IWFinish | IAFinish =>
                if finished c then Some (with_cfg c' y) else Some (commit p (LEnd (end_of c)) y c')
            | _ => Some (with_cfg c' y)
            end
        end
    end.

  Fixpoint yrun (y : sys) (ls : list ylabel) : option sys :=
    match ls with
    | [] => Some y
    | l :: r => match ystep y l with Some y' => yrun y' r | None => None end
    end.

  Definition yreach (y : sys) : Prop := exists ls, yrun init_sys ls = Some y.

  (** the stage-2 labels a step of the joined system stands for *)
  Definition erase (y : sys) (l : ylabel) : list alabel :=
    match l with
    | YFrame f =>
        let s := y_s y in
        let (s', o) := step false false false p s (LFrame f) in
        let is := stop_indices (srcs s) (stops_of o) in
        EFrame (frame_prog is (spawns o) (reader_sends (srcs s') o) (calls_begin p s f)) :: frame_head is (spawns o)
    | YEmit i => [EEmit i]
    | YSrcEnd i => [ESrcEnd i]
    | YClientClose => [EClientClose]
    | YDrop => [EDrop]
    | YAppClose => [EAppClose]
    | YTickFail => [ETickFail]
    | YInt a => [a]
    end.
End Sys.

(** what the actor still has in hand for the operation it serves *)
Definition gor_pending (g : gor) (x : src) : list sframe :=
  (match g_phase g with GData => [SData (s_id x) (CEv (s_op x) (s_events x))] | _ => [] end) ++
  (if live x then [] else match g_phase g with GDone => [] | _ => [SComplete (s_id x)] end).

(** frames a trace attributes to one owner (None: connection-level frames) *)
Definition oeqb (a b : option nat) : bool :=
  match a, b with Some x, Some y => Nat.eqb x y | None, None => true | _, _ => false end.
Definition sent_to (o : option nat) (t : list ev) : list sframe :=
  flat_map (fun e => match e with VSend f ow => if oeqb o ow then [f] else [] | _ => [] end) t.
Definition osends_to (o : option nat) (l : list osend) : list sframe :=
  flat_map (fun x => if oeqb o (snd x) then [fst x] else []) l.
